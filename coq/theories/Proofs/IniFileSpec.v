(* C12, FILE level: the INI writer (Model/Ini.v write_ini) emits a sequence of
   well-delimited lines (a structured document), and the INI reader (read_ini)
   on the rendering of such a document returns exactly its sections and its
   un-commented entries. *)
From GoFlags Require Import Base.Str Base.Utf8 Golib.Tables Golib.Strings Golib.Strconv
     Model.Types Model.Tag Model.Scan Model.Lookup Model.Convert Model.State Model.Ini.
From GoFlags Require Import Proofs.QuoteUtf8 Proofs.QuoteEsc Proofs.QuoteSpec
     Proofs.IniSpec Proofs.IniRoundtrip.
From Coq Require Import Lia ZifyN ZifyBool ZifyNat.
Open Scope N_scope.

(* ====================================================================== *)
(* Part 1: the writer as a producer of a structured document              *)
(* ====================================================================== *)

Inductive wline :=
| WSection (name : str)
| WEntry (name : str) (is_string : bool) (key value : str) (comment force : bool)
| WComment (text : str)
| WBlank.

Definition render_wline (l : wline) : str :=
  match l with
  | WSection n => s2l "[" ++ n ++ s2l "]" ++ [10]
  | WEntry n iss k v c f => write_option n iss k v c f
  | WComment t => s2l "; " ++ t ++ [10]
  | WBlank => [10]
  end.
Definition render_doc (d : list wline) : str := concat (map render_wline d).

Definition rmap {A B} (f : A -> B) (x : res A) : res B := bind x (fun a => Ok (f a)).

Lemma bind_ok {A B} (a : A) (f : A -> res B) : bind (Ok a) f = f a.
Proof. reflexivity. Qed.

Lemma render_doc_app a b : render_doc (a ++ b) = render_doc a ++ render_doc b.
Proof. unfold render_doc. rewrite map_app, concat_app. reflexivity. Qed.

Lemma render_doc_nil : render_doc [] = [].
Proof. reflexivity. Qed.

Lemma render_wline_nonempty l : nonempty (render_wline l) = true.
Proof.
  destruct l as [n|n iss k v c f|t|]; cbn [render_wline]; try reflexivity.
  rewrite write_option_eq. destruct c; [reflexivity|]. cbn [app].
  destruct n; reflexivity.
Qed.

Definition has_lines (d : list wline) : bool := match d with [] => false | _ => true end.

Lemma render_doc_nonempty d : nonempty (render_doc d) = has_lines d.
Proof.
  destruct d as [|l d]; [reflexivity|]. unfold render_doc. cbn [map concat has_lines].
  pose proof (render_wline_nonempty l) as H. destruct (render_wline l); [discriminate H|reflexivity].
Qed.

Fixpoint texts_list (f : value -> res str) (l : list value) : res (list str) :=
  match l with
  | [] => Ok []
  | x :: l' => bind (f x) (fun a => bind (texts_list f l') (fun b => Ok (a :: b)))
  end.

Lemma write_list_texts (f : value -> res str) (g : str -> str) : forall l,
  write_list (fun x => bind (f x) (fun t => Ok (g t))) l
  = rmap (fun ts => concat (map g ts)) (texts_list f l).
Proof.
  induction l as [|x l IH]; [reflexivity|].
  cbn [write_list texts_list]. rewrite IH. unfold rmap, bind.
  destruct (f x); [|reflexivity|reflexivity].
  destruct (texts_list f l); reflexivity.
Qed.

Section Writer.
  Variable orc : oracles.
  Variable incd comd incc : bool.

  (* the (key, value) texts of a map-typed option, sorted by key, exactly as
     write_opt computes them (hex-packed, split, unpacked, sorted) *)
  Definition map_pairs (o : opt) (k vk : kind) (l : list (value * value)) : res (list (str * str)) :=
    bind (write_list (fun kv => match kv with
                                | VSlice _ [a; b] =>
                                  bind (cts orc o (TScalar k) a) (fun ka =>
                                  bind (cts orc o (TScalar vk) b) (fun vb =>
                                    Ok (hex_of_str ka ++ [58] ++ hex_of_str vb ++ [59])))
                                | _ => Ok []
                                end)
                      (map (fun kv : value * value => VSlice false [fst kv; snd kv]) l))
         (fun packed =>
            Ok (sort_by (fun kv : str * str => fst kv)
                        (map (fun p => match cut_byte p 58 with
                                       | (a, Some b) => (str_of_hex a, str_of_hex b)
                                       | (a, None) => (str_of_hex a, [])
                                       end)
                             (removelast (split packed [59]))))).

  (* the value texts an option is written with: None = "no value" (empty slice,
     empty map, nil pointer: a commented empty entry is written); Some kvs = one
     entry per (key, text) pair, key = [] except for maps *)
  Definition opt_value_texts (o : opt) (r : rt) : res (option (list (str * str))) :=
    let v := rt_vals r (o_fid o) in
    match o_ty o, v with
    | TSlice e, VSlice _ l =>
      match l with
      | [] => Ok None
      | _ => rmap (fun ts => Some (map (fun t => ([], t)) ts)) (texts_list (cts orc o e) l)
      end
    | TMap k vk, VMap _ l =>
      match l with
      | [] => Ok None
      | _ => rmap Some (map_pairs o k vk l)
      end
    | TPtr _, VPtr None => Ok None
    | t, _ => rmap (fun tx => Some [([], tx)]) (cts orc o t v)
    end.

  Definition doc_opt (o : opt) (r : rt) : res (list wline) :=
    let fl := rt_fl r (o_fid o) in
    if is_func (o_ty o) || o_hidden o || o_noini o then Ok []
    else
      bind (opt_value_is_default orc o r) (fun isdef =>
        if negb incd && isdef then Ok []
        else
          let oname := option_ini_name o fl in
          let comment := incd && comd && isdef in
          let iss := write_kind_is_string (o_ty o) in
          bind (opt_value_texts o r) (fun vt =>
            Ok ((if incc && nonempty (o_desc o) then [WComment (o_desc o)] else []) ++
                match vt with
                | None => [WEntry oname iss [] [] true (f_iniquote fl)]
                | Some kvs => map (fun kv : str * str => WEntry oname iss (fst kv) (snd kv) comment (f_iniquote fl)) kvs
                end ++
                (if incc then [WBlank] else [])))).

  Fixpoint doc_opts (os : list opt) (r : rt) : res (list wline * bool) :=
    match os with
    | [] => Ok ([], false)
    | o :: rest =>
      bind (doc_opt o r) (fun a =>
      bind (doc_opts rest r) (fun b =>
        Ok (a ++ fst b, has_lines a || snd b)))
    end.

  Definition group_section_name (is_cmd_group : bool) (g : group) (namespace : str) : str :=
    let gi := grp_info g in
    if negb is_cmd_group && nonempty (g_short gi)
    then (if nonempty namespace then namespace ++ [46] else []) ++ g_short gi
    else namespace.

  (* the header line of a group: none for the own group of a command whose section name is
     empty (the parser's own group: its entries belong to the global section, which has no
     header); every other group gets its header, even one with the empty name *)
  Definition section_header (is_cmd_group : bool) (sname : str) : list wline :=
    if is_cmd_group && negb (nonempty sname) then [] else [WSection sname].

  Definition doc_group (is_cmd_group : bool) (g : group) (namespace : str) (r : rt) : res (list wline) :=
    bind (doc_opts (grp_opts g) r) (fun ow =>
      Ok (if snd ow
          then section_header is_cmd_group (group_section_name is_cmd_group g namespace) ++
               fst ow ++ (if incc then [] else [WBlank])
          else [])).

  Fixpoint doc_groups (gs : list group) (first : bool) (namespace : str) (r : rt) : res (list wline) :=
    match gs with
    | [] => Ok []
    | g :: rest =>
      bind (if g_hidden (grp_info g) then Ok [] else doc_group first g namespace r) (fun a =>
      bind (doc_groups rest false namespace r) (fun b => Ok (a ++ b)))
    end.

  Definition sub_namespace (namespace : str) (sc : command) : str :=
    if nonempty namespace then namespace ++ [46] ++ c_name (cmd_info sc) else c_name (cmd_info sc).

  Fixpoint doc_subs (rec : command -> str -> res (list wline)) (namespace : str) (l : list command)
    : res (list wline) :=
    match l with
    | [] => Ok []
    | sc :: rest =>
      bind (if c_hidden (cmd_info sc) then Ok [] else rec sc (sub_namespace namespace sc)) (fun a =>
      bind (doc_subs rec namespace rest) (fun b => Ok (a ++ b)))
    end.

  Fixpoint doc_command (fuel : nat) (c : command) (namespace : str) (r : rt) : res (list wline) :=
    match fuel with
    | O => Ok []
    | S f =>
      bind (doc_groups (cmd_groups c) true namespace r) (fun own =>
      bind (doc_subs (fun sc ns => doc_command f sc ns r) namespace (cmd_subs c)) (fun sub =>
        Ok (own ++ sub)))
    end.

  Definition doc_of_ini (root : command) (r : rt) : res (list wline) :=
    doc_command (cmd_depth root) root [] r.

  (* ---------------- write_opt *)
  Lemma write_opt_doc o r : write_opt orc incd comd incc o r = rmap render_doc (doc_opt o r).
  Proof.
    unfold write_opt, doc_opt.
    destruct (is_func (o_ty o) || o_hidden o || o_noini o); [reflexivity|].
    destruct (opt_value_is_default orc o r) as [isdef| |]; [|reflexivity|reflexivity].
    rewrite !bind_ok. cbv beta.
    destruct (negb incd && isdef); [reflexivity|].
    set (oname := option_ini_name o (rt_fl r (o_fid o))).
    set (comment := incd && comd && isdef).
    set (iss := write_kind_is_string (o_ty o)).
    set (fq := f_iniquote (rt_fl r (o_fid o))).
    set (head := if incc && nonempty (o_desc o) then s2l "; " ++ o_desc o ++ [10] else []).
    set (tail := if incc then [10] else []).
    set (dhead := if incc && nonempty (o_desc o) then [WComment (o_desc o)] else []).
    set (dtail := if incc then [WBlank] else []).
    assert (Hh : render_doc dhead = head).
    { unfold dhead, head. destruct (incc && nonempty (o_desc o)); [|reflexivity].
      unfold render_doc. cbn [map concat render_wline]. rewrite app_nil_r. reflexivity. }
    assert (Ht : render_doc dtail = tail).
    { unfold dtail, tail. destruct incc; reflexivity. }
    assert (Hnone : render_doc (dhead ++ [WEntry oname iss [] [] true fq] ++ dtail)
                    = head ++ write_option oname iss [] [] true fq ++ tail).
    { rewrite !render_doc_app, Hh, Ht. unfold render_doc at 1. cbn [map concat render_wline].
      rewrite app_nil_r. reflexivity. }
    assert (Hsome : forall kvs, render_doc (dhead ++ map (fun kv : str * str => WEntry oname iss (fst kv) (snd kv) comment fq) kvs ++ dtail)
                    = head ++ concat (map (fun kv : str * str => write_option oname iss (fst kv) (snd kv) comment fq) kvs) ++ tail).
    { intros kvs. rewrite !render_doc_app, Hh, Ht. unfold render_doc at 1. rewrite map_map. reflexivity. }
    assert (Hscalar : forall t,
      bind (bind (cts orc o t (rt_vals r (o_fid o))) (fun tx => Ok (write_option oname iss [] tx comment fq)))
           (fun body => Ok (head ++ body ++ tail))
      = rmap render_doc
          (bind (rmap (fun tx => Some [([], tx)]) (cts orc o t (rt_vals r (o_fid o))))
             (fun vt => Ok (dhead ++ match vt with
                                     | None => [WEntry oname iss [] [] true fq]
                                     | Some kvs => map (fun kv : str * str => WEntry oname iss (fst kv) (snd kv) comment fq) kvs
                                     end ++ dtail)))).
    { intros t. unfold rmap, bind. destruct (cts orc o t (rt_vals r (o_fid o))); try reflexivity.
      rewrite Hsome. cbn [map concat fst snd]. rewrite app_nil_r. reflexivity. }
    unfold opt_value_texts.
    destruct (o_ty o) as [k|k|e|k vk|a b] eqn:Ety.
    - apply Hscalar.
    - destruct (rt_vals r (o_fid o)) as [| | | |p| | |] eqn:Ev; try apply Hscalar.
      destruct p; [apply Hscalar|].
      unfold rmap, bind. rewrite Hnone. reflexivity.
    - destruct (rt_vals r (o_fid o)) as [| | | | |nl l| |] eqn:Ev; try apply Hscalar.
      destruct l as [|x l].
      + unfold rmap, bind. rewrite Hnone. reflexivity.
      + rewrite (write_list_texts (cts orc o e) (fun t => write_option oname iss [] t comment fq)).
        unfold rmap, bind. destruct (texts_list (cts orc o e) (x :: l)); try reflexivity.
        rewrite Hsome, !map_map. reflexivity.
    - destruct (rt_vals r (o_fid o)) as [| | | | | |nl l|] eqn:Ev; try apply Hscalar.
      destruct l as [|x l].
      + unfold rmap, bind. rewrite Hnone. reflexivity.
      + unfold map_pairs. unfold rmap, bind.
        match goal with |- context [write_list ?f ?l] => destruct (write_list f l) end; try reflexivity.
        rewrite Hsome. reflexivity.
    - apply Hscalar.
  Qed.

  Lemma write_opts_doc : forall os r,
    write_opts orc incd comd incc os r = rmap (fun p => (render_doc (fst p), snd p)) (doc_opts os r).
  Proof.
    induction os as [|o os IH]; intros r; [reflexivity|].
    cbn [write_opts doc_opts]. rewrite write_opt_doc, IH. unfold rmap, bind.
    destruct (doc_opt o r) as [a| |]; try reflexivity.
    destruct (doc_opts os r) as [[b any]| |]; try reflexivity.
    cbn [fst snd]. rewrite render_doc_app, render_doc_nonempty. reflexivity.
  Qed.

  Lemma render_section_header own sn :
    render_doc (section_header own sn)
    = if own && negb (nonempty sn) then [] else s2l "[" ++ sn ++ s2l "]" ++ [10].
  Proof.
    unfold section_header. destruct (own && negb (nonempty sn)); [reflexivity|].
    unfold render_doc. cbn [map concat render_wline]. rewrite app_nil_r. reflexivity.
  Qed.

  Lemma write_group_doc first g ns r :
    write_group orc incd comd incc first g ns r = rmap render_doc (doc_group first g ns r).
  Proof.
    unfold write_group, doc_group. rewrite write_opts_doc. unfold rmap, bind.
    destruct (doc_opts (grp_opts g) r) as [[body any]| |]; try reflexivity.
    cbn [fst snd]. destruct any; [|reflexivity].
    f_equal. rewrite !render_doc_app, render_section_header.
    f_equal. f_equal. destruct incc; reflexivity.
  Qed.

  (* ---------------- write_command: one-step unfolding with named local loops *)
  Section Loops.
    Variable namespace : str.
    Variable r : rt.
    Variable rec : command -> str -> res str.
    Fixpoint wgroups (gs : list group) (first : bool) : res str :=
      match gs with
      | [] => Ok []
      | g :: rest =>
        bind (if g_hidden (grp_info g) then Ok [] else write_group orc incd comd incc first g namespace r) (fun a =>
        bind (wgroups rest false) (fun b => Ok (a ++ b)))
      end.
    Fixpoint wsubs (l : list command) : res str :=
      match l with
      | [] => Ok []
      | sc :: rest =>
        let ci := cmd_info sc in
        bind (if c_hidden ci then Ok []
              else rec sc (if nonempty namespace then namespace ++ [46] ++ c_name ci else c_name ci)) (fun a =>
        bind (wsubs rest) (fun b => Ok (a ++ b)))
      end.
  End Loops.

  Lemma write_command_S f c ns r :
    write_command orc incd comd incc (S f) c ns r =
    bind (wgroups ns r (cmd_groups c) true) (fun own =>
    bind (wsubs ns (fun sc n => write_command orc incd comd incc f sc n r) (cmd_subs c)) (fun sub =>
      Ok (own ++ sub))).
  Proof. reflexivity. Qed.

  Lemma wgroups_doc ns r : forall gs first,
    wgroups ns r gs first = rmap render_doc (doc_groups gs first ns r).
  Proof.
    induction gs as [|g gs IH]; intros first; [reflexivity|].
    cbn [wgroups doc_groups]. rewrite IH, write_group_doc. unfold rmap, bind.
    destruct (g_hidden (grp_info g)).
    - destruct (doc_groups gs false ns r); reflexivity.
    - destruct (doc_group first g ns r); try reflexivity.
      destruct (doc_groups gs false ns r); try reflexivity.
      rewrite render_doc_app. reflexivity.
  Qed.

  Lemma wsubs_doc ns (rec : command -> str -> res str) (drec : command -> str -> res (list wline)) :
    forall l, (forall sc n, In sc l -> rec sc n = rmap render_doc (drec sc n)) ->
    wsubs ns rec l = rmap render_doc (doc_subs drec ns l).
  Proof.
    induction l as [|sc l IH]; intros H; [reflexivity|].
    cbn [wsubs doc_subs]. cbv zeta. rewrite IH by (intros; apply H; right; assumption).
    unfold sub_namespace. rewrite (H sc) by (left; reflexivity). unfold rmap, bind.
    destruct (c_hidden (cmd_info sc)).
    - destruct (doc_subs drec ns l); reflexivity.
    - match goal with |- context [drec sc ?n] => destruct (drec sc n) end; try reflexivity.
      destruct (doc_subs drec ns l); try reflexivity.
      rewrite render_doc_app. reflexivity.
  Qed.

  Lemma write_command_doc : forall f c ns r,
    write_command orc incd comd incc f c ns r = rmap render_doc (doc_command f c ns r).
  Proof.
    induction f as [|f IH]; intros c ns r; [reflexivity|].
    rewrite write_command_S. cbn [doc_command].
    rewrite wgroups_doc.
    rewrite (wsubs_doc ns _ (fun sc n => doc_command f sc n r)) by (intros; apply IH).
    unfold rmap, bind.
    destruct (doc_groups (cmd_groups c) true ns r); try reflexivity.
    destruct (doc_subs _ ns (cmd_subs c)); try reflexivity.
    rewrite render_doc_app. reflexivity.
  Qed.

  (* Target 1 (equational form: Ok, Err and Panic results all agree) *)
  Theorem C12_writer_is_lines : forall root r,
    write_ini orc incd comd incc root r = rmap render_doc (doc_of_ini root r).
  Proof. intros. apply write_command_doc. Qed.

  Corollary C12_writer_is_lines_ok : forall root r text,
    write_ini orc incd comd incc root r = Ok text ->
    exists doc, doc_of_ini root r = Ok doc /\ text = concat (map render_wline doc).
  Proof.
    intros root r text H. rewrite C12_writer_is_lines in H. unfold rmap, bind in H.
    destruct (doc_of_ini root r) as [doc| |]; try discriminate H.
    exists doc. split; [reflexivity|]. injection H as <-. reflexivity.
  Qed.
End Writer.

(* ====================================================================== *)
(* Part 2: the reader on rendered documents                               *)
(* ====================================================================== *)

(* does write_option quote the value? *)
Definition wquoted (iss force : bool) (v : str) : bool := force || (iss && ini_needs_quote v).
(* the value text as it stands in the written line *)
Definition rendered_value (iss force : bool) (v : str) : str :=
  if wquoted iss force v then quote v else v.

Definition entry_body (n : str) (iss : bool) (k v : str) (c f : bool) : str :=
  (if c then s2l "; " else []) ++ n ++ s2l " =" ++
  (if nonempty k then [32] ++ k ++ [58] ++ rendered_value iss f v
   else if nonempty (rendered_value iss f v) then 32 :: rendered_value iss f v else []).

(* the line without its terminating newline *)
Definition wline_body (l : wline) : str :=
  match l with
  | WSection n => s2l "[" ++ n ++ s2l "]"
  | WEntry n iss k v c f => entry_body n iss k v c f
  | WComment t => s2l "; " ++ t
  | WBlank => []
  end.

Lemma render_wline_body l : render_wline l = wline_body l ++ [10].
Proof.
  destruct l as [n|n iss k v c f|t|]; cbn [render_wline wline_body].
  - rewrite <- !app_assoc. reflexivity.
  - rewrite write_option_eq. unfold entry_body, rendered_value, wquoted. rewrite <- !app_assoc. reflexivity.
  - rewrite <- !app_assoc. reflexivity.
  - reflexivity.
Qed.

(* well-formed lines: what ini_lines / classify_line need *)
Definition wline_ok (l : wline) : Prop :=
  match l with
  | WSection n => n <> [] /\ trim_space n = n /\ ~ In 10 n
  | WEntry n iss k v true f =>
    ~ In 10 n /\ ~ In 10 k /\ (if wquoted iss f v then bytes_ok v else ~ In 10 v)
  | WEntry n iss k v false f =>
    ini_name_ok n /\ ~ In 10 n /\
    (k = [] \/ (lead_ok k /\ hd 0 k <> 34 /\ ~ In 10 k)) /\
    (if wquoted iss f v then bytes_ok v
     else ~ In 10 v /\ (if nonempty k then trail_ok v else trim_space v = v /\ hd 0 v <> 34))
  | WComment t => ~ In 10 t
  | WBlank => True
  end.

(* what the reader sees in a well-formed line: (name, stored value, quoted flag) *)
Definition wline_entry (l : wline) : option (str * str * bool) :=
  match l with
  | WEntry n iss k v false f =>
    Some (if nonempty k then (n, k ++ [58] ++ rendered_value iss f v, false)
          else (n, v, wquoted iss f v))
  | _ => None
  end.

Definition wline_class (l : wline) : line_class :=
  match l with
  | WSection n => LHeader n
  | _ => match wline_entry l with
         | Some (n, v, q) => LEntry n v q
         | None => LSkip
         end
  end.

(* ---------------- physical lines *)
Lemma lines_aux_cat l : forall cur rest, ~ In 10 l ->
  lines_aux (l ++ 10 :: rest) cur = strip_cr (rev l ++ cur) :: lines_aux rest [].
Proof.
  induction l as [|c l IH]; intros cur rest H.
  - cbn [app rev lines_aux]. rewrite lines_strip_alt_rt. reflexivity.
  - cbn [app]. rewrite lines_aux_cons by (intros ->; apply H; left; reflexivity).
    rewrite IH by (intros Hin; apply H; right; exact Hin).
    cbn [rev]. rewrite <- app_assoc. reflexivity.
Qed.

Lemma ini_lines_doc : forall doc, Forall (fun l => ~ In 10 (wline_body l)) doc ->
  ini_lines (render_doc doc) = map (fun l => strip_cr (rev (wline_body l))) doc.
Proof.
  unfold ini_lines. induction doc as [|l doc IH]; intros H; [reflexivity|].
  inversion H as [|? ? Hl Hd]; subst.
  unfold render_doc. cbn [map concat]. fold (render_doc doc).
  rewrite render_wline_body, <- app_assoc. cbn [app].
  rewrite lines_aux_cat by exact Hl. rewrite app_nil_r, IH by exact Hd. reflexivity.
Qed.

Lemma strip_cr_rev_keep b : last b 0 <> 13 -> strip_cr (rev b) = b.
Proof.
  intros H. destruct (rev b) as [|x t] eqn:E.
  - rewrite <- (rev_involutive b), E. reflexivity.
  - assert (Eb : b = rev t ++ [x]) by (rewrite <- (rev_involutive b), E; reflexivity).
    assert (x <> 13) by (rewrite Eb, last_last in H; exact H).
    rewrite strip_cr_other by assumption. rewrite <- E, rev_involutive. reflexivity.
Qed.

Lemma strip_cr_rev_head c d x : exists y, strip_cr (rev (c :: d :: x)) = c :: y.
Proof.
  change (rev (c :: d :: x)) with (rev (d :: x) ++ [c]).
  destruct (rev (d :: x)) as [|z zs] eqn:E.
  - exfalso. apply (f_equal (@length N)) in E. rewrite rev_length in E. discriminate E.
  - cbn [app]. destruct (N.eq_dec z 13) as [->|Hz].
    + change (strip_cr (13 :: zs ++ [c])) with (rev (zs ++ [c])). rewrite rev_unit. eauto.
    + rewrite strip_cr_other by exact Hz.
      change (z :: zs ++ [c]) with ((z :: zs) ++ [c]). rewrite rev_unit. eauto.
Qed.

Lemma last_app_nonnil {A} (a b : list A) d : b <> [] -> last (a ++ b) d = last b d.
Proof.
  intros Hb. destruct (exists_last Hb) as (p & x & ->).
  rewrite app_assoc, !last_last. reflexivity.
Qed.

Lemma trail_ok_last v : trail_ok v -> v <> [] -> last v 0 <> 13.
Proof.
  intros Ht Hv. destruct (exists_last Hv) as (p & x & ->). rewrite last_last. intros ->.
  unfold trail_ok in Ht. rewrite decode_last_ascii in Ht by lia. discriminate Ht.
Qed.

Lemma quote_last v : last (quote v) 0 = 34.
Proof.
  unfold quote. change (dq :: quote_body v ++ [dq]) with ((dq :: quote_body v) ++ [dq]).
  apply last_last.
Qed.

Lemma quote_no_newline v : bytes_ok v -> ~ In 10 (quote v).
Proof.
  intros Hok Hin. unfold quote in Hin. destruct Hin as [Hin|Hin]; [discriminate Hin|].
  apply in_app_or in Hin. destruct Hin as [Hin|[Hin|[]]]; [|discriminate Hin].
  exact (quote_body_no_newline v Hok Hin).
Qed.

(* ---------------- classification of one well-formed line *)
Lemma kv_line_last n val : (val = [] \/ last val 0 <> 13) ->
  last (n ++ s2l " =" ++ (if nonempty val then 32 :: val else [])) 0 <> 13.
Proof.
  intros H. destruct val as [|x val'].
  - cbn [nonempty]. rewrite app_nil_r, last_app_nonnil by discriminate. discriminate.
  - destruct H as [H|H]; [discriminate H|].
    cbn [nonempty]. rewrite app_assoc.
    change (32 :: x :: val') with ([32] ++ x :: val').
    rewrite app_assoc, last_app_nonnil by discriminate. exact H.
Qed.

Lemma kv_line_no_newline n val : ~ In 10 n -> ~ In 10 val ->
  ~ In 10 (n ++ s2l " =" ++ (if nonempty val then 32 :: val else [])).
Proof.
  intros Hn Hv Hin. apply in_app_or in Hin. destruct Hin as [Hin|Hin]; [exact (Hn Hin)|].
  change (s2l " =") with [32; 61] in Hin. cbn [app] in Hin.
  destruct Hin as [Hin|[Hin|Hin]]; try discriminate Hin.
  destruct val; cbn [nonempty] in Hin; [destruct Hin|].
  destruct Hin as [Hin|Hin]; [discriminate Hin|exact (Hv Hin)].
Qed.

Lemma kv_line_class n val : ini_name_ok n -> trim_space val = val -> hd 0 val <> 34 ->
  classify_line (n ++ s2l " =" ++ (if nonempty val then 32 :: val else [])) = LEntry n val false.
Proof.
  intros Hn Ht H34. rewrite classify_kv by assumption.
  destruct val as [|c v']; [reflexivity|]. cbn [hd] in H34.
  destruct c as [|p]; [reflexivity|].
  repeat (destruct p as [p|p|]; try reflexivity). contradiction.
Qed.

Lemma kv_line_class_quoted n v : ini_name_ok n -> bytes_ok v ->
  classify_line (n ++ s2l " =" ++ (if nonempty (quote v) then 32 :: quote v else [])) = LEntry n v true.
Proof.
  intros Hn Hok. rewrite classify_kv by (exact Hn || apply trim_space_quote).
  rewrite quote_unquote by exact Hok. reflexivity.
Qed.

(* the rendered value of a well-formed entry: no newline; trailing rune not a space *)
Lemma rendered_value_facts iss f v :
  (if wquoted iss f v then bytes_ok v else ~ In 10 v /\ trail_ok v) ->
  ~ In 10 (rendered_value iss f v) /\ trail_ok (rendered_value iss f v) /\
  (rendered_value iss f v = [] \/ last (rendered_value iss f v) 0 <> 13).
Proof.
  unfold rendered_value. destruct (wquoted iss f v).
  - intros Hok. split; [apply quote_no_newline, Hok|]. split.
    + pose proof (trim_space_quote v) as H. apply trim_space_fix_iff in H. apply H.
    + right. rewrite quote_last. discriminate.
  - intros [H10 Ht]. split; [exact H10|]. split; [exact Ht|].
    destruct v as [|x v']; [left; reflexivity|right]. apply trail_ok_last; [exact Ht|discriminate].
Qed.

Lemma keyed_value_facts k rv : k <> [] -> lead_ok k -> hd 0 k <> 34 -> ~ In 10 k ->
  ~ In 10 rv -> trail_ok rv -> (rv = [] \/ last rv 0 <> 13) ->
  trim_space (k ++ [58] ++ rv) = k ++ [58] ++ rv /\ hd 0 (k ++ [58] ++ rv) <> 34 /\
  ~ In 10 (k ++ [58] ++ rv) /\ last (k ++ [58] ++ rv) 0 <> 13.
Proof.
  intros Hk Hlead H34 Hk10 Hr10 Htrail Hlast. cbn [app]. repeat apply conj.
  - apply trim_space_fix_iff. split.
    + unfold lead_ok. rewrite decode_app_ascii by (assumption || lia). exact Hlead.
    + unfold trail_ok. destruct rv as [|x rv'].
      * change (k ++ [58]) with (k ++ [58]). rewrite decode_last_ascii by lia. reflexivity.
      * rewrite decode_last_after_ascii by (discriminate || lia). exact Htrail.
  - destruct k; [congruence|exact H34].
  - intros Hin. apply in_app_or in Hin. destruct Hin as [Hin|[Hin|Hin]]; [exact (Hk10 Hin)|discriminate Hin|exact (Hr10 Hin)].
  - destruct Hlast as [->|Hl].
    + rewrite last_last. discriminate.
    + destruct rv as [|x rv']; [rewrite last_last; discriminate|].
      change (k ++ 58 :: x :: rv') with (k ++ [58] ++ x :: rv').
      rewrite app_assoc, last_app_nonnil by discriminate. exact Hl.
Qed.

Lemma wline_ok_line l : wline_ok l ->
  ~ In 10 (wline_body l) /\ classify_line (strip_cr (rev (wline_body l))) = wline_class l.
Proof.
  destruct l as [n|n iss k v c f|t|]; cbn [wline_ok wline_body].
  - (* section header *)
    intros (Hne & Ht & H10). split.
    + change (s2l "[") with [91]. change (s2l "]") with [93]. cbn [app]. intros [Hin|Hin]; [discriminate Hin|].
      apply in_app_or in Hin. destruct Hin as [Hin|[Hin|[]]]; [exact (H10 Hin)|discriminate Hin].
    + rewrite strip_cr_rev_keep.
      * apply (C12_section_header_roundtrip n Hne Ht).
      * change (s2l "]") with [93]. rewrite app_assoc, last_last. discriminate.
  - destruct c.
    + (* commented entry *)
      intros (Hn10 & Hk10 & Hv). split.
      * assert (Hrv : ~ In 10 (rendered_value iss f v)).
        { unfold rendered_value. destruct (wquoted iss f v); [apply quote_no_newline|]; exact Hv. }
        unfold entry_body. change (s2l "; ") with [59; 32]. change (s2l " =") with [32; 61]. cbn [app].
        intros [Hin|[Hin|Hin]]; try discriminate Hin.
        apply in_app_or in Hin. destruct Hin as [Hin|Hin]; [exact (Hn10 Hin)|].
        destruct Hin as [Hin|[Hin|Hin]]; try discriminate Hin.
        destruct (nonempty k).
        -- destruct Hin as [Hin|Hin]; [discriminate Hin|]. apply in_app_or in Hin.
           destruct Hin as [Hin|[Hin|Hin]]; [exact (Hk10 Hin)|discriminate Hin|exact (Hrv Hin)].
        -- destruct (nonempty (rendered_value iss f v)); [|destruct Hin].
           destruct Hin as [Hin|Hin]; [discriminate Hin|exact (Hrv Hin)].
      * unfold entry_body. change (s2l "; ") with [59; 32]. cbn [app].
        destruct (strip_cr_rev_head 59 32 (n ++ s2l " =" ++
                   (if nonempty k then 32 :: k ++ 58 :: rendered_value iss f v
                    else if nonempty (rendered_value iss f v) then 32 :: rendered_value iss f v else []))) as [y ->].
        apply classify_line_comment. left; reflexivity.
    + (* un-commented entry *)
      intros (Hname & Hn10 & Hkey & Hv).
      unfold entry_body. cbn [app]. unfold wline_class, wline_entry.
      destruct k as [|kc k'].
      * (* no key *)
        cbn [nonempty] in *. unfold rendered_value.
        destruct (wquoted iss f v) eqn:Eq.
        -- split.
           ++ apply kv_line_no_newline; [exact Hn10|apply quote_no_newline, Hv].
           ++ rewrite strip_cr_rev_keep.
              ** apply kv_line_class_quoted; assumption.
              ** apply kv_line_last. right. rewrite quote_last. discriminate.
        -- destruct Hv as (Hv10 & Hvt & Hv34). split.
           ++ apply kv_line_no_newline; assumption.
           ++ rewrite strip_cr_rev_keep.
              ** apply kv_line_class; assumption.
              ** apply kv_line_last. destruct v as [|x v']; [left; reflexivity|right].
                 apply trail_ok_last; [|discriminate]. apply trim_space_fix_iff in Hvt. apply Hvt.
      * (* key:value *)
        destruct Hkey as [Hkey|(Hlead & Hk34 & Hk10)]; [discriminate Hkey|].
        cbn [nonempty] in *.
        assert (Hrvf : if wquoted iss f v then bytes_ok v else ~ In 10 v /\ trail_ok v).
        { destruct (wquoted iss f v); [exact Hv|exact Hv]. }
        destruct (rendered_value_facts iss f v Hrvf) as (Hr10 & Hrt & Hrl).
        destruct (keyed_value_facts (kc :: k') (rendered_value iss f v) ltac:(discriminate) Hlead Hk34 Hk10 Hr10 Hrt Hrl)
          as (Ktrim & K34 & K10 & Klast).
        set (val := (kc :: k') ++ [58] ++ rendered_value iss f v) in *.
        assert (Hbody : n ++ s2l " =" ++ 32 :: (kc :: k') ++ 58 :: rendered_value iss f v
                        = n ++ s2l " =" ++ (if nonempty val then 32 :: val else [])) by reflexivity.
        rewrite Hbody. split.
        -- apply kv_line_no_newline; assumption.
        -- rewrite strip_cr_rev_keep.
           ++ apply kv_line_class; assumption.
           ++ apply kv_line_last. right. exact Klast.
  - (* comment *)
    intros H10. split.
    + change (s2l "; ") with [59; 32]. cbn [app]. intros [Hin|[Hin|Hin]]; try discriminate Hin. exact (H10 Hin).
    + change (s2l "; ") with [59; 32]. cbn [app].
      destruct (strip_cr_rev_head 59 32 t) as [y ->]. apply classify_line_comment. left; reflexivity.
  - (* blank *)
    intros _. split; [intros []|]. reflexivity.
Qed.

(* ---------------- the file a document denotes *)
(* first occurrences, in order *)
Fixpoint uniq (l : list str) : list str :=
  match l with
  | [] => []
  | x :: l' => x :: filter (fun y => negb (str_eqb y x)) (uniq l')
  end.

(* names of the section headers, in order *)
Definition doc_sections (doc : list wline) : list str :=
  flat_map (fun l => match l with WSection n => [n] | _ => [] end) doc.

(* the un-commented entries, each with the section it stands in (the name of the
   closest preceding header, [cursec] before the first one) and its line number
   ([lineno] = number of lines before the document) *)
Fixpoint doc_entries (doc : list wline) (lineno : N) (cursec : str) : list (str * ini_entry) :=
  match doc with
  | [] => []
  | l :: rest =>
    let lineno := lineno + 1 in
    match l with
    | WSection n => doc_entries rest lineno n
    | _ =>
      match wline_entry l with
      | Some (n, v, q) =>
        (cursec, {| ie_name := n; ie_value := v; ie_quoted := q; ie_line := lineno |})
          :: doc_entries rest lineno cursec
      | None => doc_entries rest lineno cursec
      end
    end
  end.

Definition entries_of (s : str) (ents : list (str * ini_entry)) : list ini_entry :=
  map snd (filter (fun p => str_eqb (fst p) s) ents).

(* sections in order of first appearance; a repeated header re-opens the section
   of that name, i.e. every section collects the entries of ALL its occurrences *)
Definition file_of (secs : list str) (ents : list (str * ini_entry)) : ini_file :=
  map (fun s => (s, entries_of s ents)) (uniq secs).

Definition doc_file (doc : list wline) : ini_file :=
  file_of ([] :: doc_sections doc) (doc_entries doc 0 []).

Lemma str_eqb_sym a b : str_eqb a b = str_eqb b a.
Proof. destruct (str_eqb_spec a b), (str_eqb_spec b a); congruence. Qed.

Lemma existsb_str_In n l : existsb (str_eqb n) l = true <-> In n l.
Proof.
  rewrite existsb_exists. split.
  - intros (x & Hin & E). apply str_eqb_eq in E. subst. exact Hin.
  - intros H. exists n. split; [exact H|apply str_eqb_refl].
Qed.

Lemma uniq_In l x : In x (uniq l) <-> In x l.
Proof.
  induction l as [|y l IH]; [reflexivity|]. cbn [uniq In]. rewrite filter_In, IH.
  destruct (str_eqb_spec x y) as [->|Hn]; [tauto|]. split.
  - tauto.
  - intros [H|H]; [auto|]. right. split; [exact H|reflexivity].
Qed.

Lemma uniq_NoDup l : NoDup (uniq l).
Proof.
  induction l as [|y l IH]; [constructor|]. cbn [uniq]. constructor.
  - rewrite filter_In. intros [_ H]. rewrite str_eqb_refl in H. discriminate H.
  - apply NoDup_filter, IH.
Qed.

Lemma uniq_snoc n : forall l,
  uniq (l ++ [n]) = if existsb (str_eqb n) l then uniq l else uniq l ++ [n].
Proof.
  induction l as [|x l IH]; [reflexivity|].
  cbn [app uniq existsb]. rewrite IH. rewrite (str_eqb_sym n x).
  destruct (existsb (str_eqb n) l).
  - rewrite orb_true_r. reflexivity.
  - rewrite orb_false_r, filter_app. cbn [filter].
    destruct (str_eqb x n) eqn:E.
    + apply str_eqb_eq in E. subst. rewrite str_eqb_refl. cbn [negb]. rewrite app_nil_r. reflexivity.
    + rewrite (str_eqb_sym n x), E. reflexivity.
Qed.

Lemma sec_add_map (G : str -> list ini_entry) nm e : forall L, NoDup L ->
  sec_add (map (fun s => (s, G s)) L) nm e =
  if existsb (str_eqb nm) L
  then map (fun s => (s, if str_eqb s nm then G s ++ olist e else G s)) L
  else map (fun s => (s, G s)) L ++ [(nm, olist e)].
Proof.
  induction L as [|s L IH]; intros Hnd.
  - destruct e; reflexivity.
  - inversion Hnd as [|? ? Hnotin Hnd']; subst.
    cbn [map sec_add existsb]. rewrite (str_eqb_sym nm s).
    destruct (str_eqb s nm) eqn:E.
    + cbn [orb]. apply str_eqb_eq in E. subst s. f_equal.
      * destruct e; [reflexivity|]. cbn [olist]. rewrite app_nil_r. reflexivity.
      * apply map_ext_in. intros a Ha.
        destruct (str_eqb_spec a nm) as [->|_]; [contradiction|reflexivity].
    + cbn [orb]. rewrite IH by exact Hnd'.
      destruct (existsb (str_eqb nm) L); reflexivity.
Qed.

Lemma entries_of_snoc s ents c e :
  entries_of s (ents ++ [(c, e)]) = entries_of s ents ++ (if str_eqb c s then [e] else []).
Proof.
  unfold entries_of. rewrite filter_app, map_app. cbn [filter fst].
  destruct (str_eqb c s); reflexivity.
Qed.

Lemma entries_of_none s ents : (forall p, In p ents -> fst p <> s) -> entries_of s ents = [].
Proof.
  intros H. unfold entries_of. induction ents as [|p ents IH]; [reflexivity|].
  cbn [filter]. destruct (str_eqb_spec (fst p) s) as [E|_].
  - exfalso. apply (H p); [left; reflexivity|exact E].
  - apply IH. intros q Hq. apply H. right. exact Hq.
Qed.

Lemma file_of_header secs ents nm : (forall p, In p ents -> In (fst p) secs) ->
  sec_add (file_of secs ents) nm None = file_of (secs ++ [nm]) ents.
Proof.
  intros Hsub. unfold file_of. rewrite sec_add_map by apply uniq_NoDup. rewrite uniq_snoc.
  destruct (existsb (str_eqb nm) secs) eqn:E.
  - replace (existsb (str_eqb nm) (uniq secs)) with true.
    + apply map_ext. intros a. cbn [olist]. rewrite app_nil_r. destruct (str_eqb a nm); reflexivity.
    + symmetry. apply existsb_str_In, uniq_In, existsb_str_In, E.
  - replace (existsb (str_eqb nm) (uniq secs)) with false.
    + rewrite map_app. cbn [map olist]. rewrite entries_of_none; [reflexivity|].
      intros p Hp Ep. apply Hsub in Hp. rewrite Ep in Hp. apply (proj2 (existsb_str_In _ _)) in Hp. congruence.
    + symmetry. apply not_true_is_false. intros H.
      apply (proj1 (existsb_str_In _ _)), (proj1 (uniq_In _ _)), (proj2 (existsb_str_In _ _)) in H. congruence.
Qed.

Lemma file_of_entry secs ents cur e : In cur secs ->
  sec_add (file_of secs ents) cur (Some e) = file_of secs (ents ++ [(cur, e)]).
Proof.
  intros Hin. unfold file_of. rewrite sec_add_map by apply uniq_NoDup.
  replace (existsb (str_eqb cur) (uniq secs)) with true by (symmetry; apply existsb_str_In, uniq_In, Hin).
  apply map_ext. intros a. rewrite entries_of_snoc, (str_eqb_sym cur a). cbn [olist].
  destruct (str_eqb a cur); [reflexivity|rewrite app_nil_r; reflexivity].
Qed.

Lemma doc_sections_cons l doc :
  doc_sections (l :: doc) = match l with WSection n => [n] | _ => [] end ++ doc_sections doc.
Proof. reflexivity. Qed.

(* read_lines on lines that classify as the document says *)
Lemma read_lines_doc : forall doc lines,
  Forall2 (fun l line => classify_line line = wline_class l) doc lines ->
  forall n cur secs ents,
  In cur secs -> (forall p, In p ents -> In (fst p) secs) ->
  read_lines lines n cur (file_of secs ents)
  = Ok (file_of (secs ++ doc_sections doc) (ents ++ doc_entries doc n cur)).
Proof.
  induction 1 as [|l line doc lines Hc HF IH]; intros n cur secs ents Hcur Hsub.
  - cbn [read_lines doc_sections flat_map doc_entries]. rewrite !app_nil_r. reflexivity.
  - rewrite read_lines_cons, Hc. rewrite doc_sections_cons.
    destruct l as [nm|nm iss k v c f|t|].
    + (* header *)
      cbn [wline_class doc_entries]. rewrite file_of_header by exact Hsub.
      rewrite IH.
      * rewrite <- app_assoc. reflexivity.
      * apply in_or_app. right. left. reflexivity.
      * intros p Hp. apply in_or_app. left. apply Hsub, Hp.
    + unfold wline_class. cbn [doc_entries].
      destruct (wline_entry (WEntry nm iss k v c f)) as [[[en ev] eq]|].
      * rewrite file_of_entry by exact Hcur. rewrite IH.
        -- cbn [app]. rewrite <- app_assoc. reflexivity.
        -- exact Hcur.
        -- intros p Hp. apply in_app_or in Hp. destruct Hp as [Hp|[<-|[]]]; [apply Hsub, Hp|exact Hcur].
      * cbn [app]. apply IH; assumption.
    + cbn [wline_class wline_entry doc_entries app]. apply IH; assumption.
    + cbn [wline_class wline_entry doc_entries app]. apply IH; assumption.
Qed.

(* Target 2 *)
Theorem C12_read_rendered : forall doc,
  Forall wline_ok doc ->
  read_ini (concat (map render_wline doc)) = Ok (doc_file doc).
Proof.
  intros doc Hok. fold (render_doc doc). unfold read_ini.
  rewrite ini_lines_doc.
  - change [([] : str, [] : list ini_entry)] with (file_of [[]] []).
    rewrite (read_lines_doc doc).
    + reflexivity.
    + clear -Hok. induction Hok as [|l doc Hl _ IH]; cbn [map]; constructor; [|exact IH].
      apply wline_ok_line, Hl.
    + left. reflexivity.
    + intros p [].
  - eapply Forall_impl; [|exact Hok]. intros l Hl. apply wline_ok_line, Hl.
Qed.

(* ====================================================================== *)
(* Part 3: write_ini followed by read_ini                                 *)
(* ====================================================================== *)

(* un-commented entries of a document, without line numbers *)
Definition wentries (d : list wline) : list (str * str * bool) := flat_map (fun l => olist (wline_entry l)) d.

Definition section_name_ok (n : str) : Prop := n <> [] /\ trim_space n = n /\ ~ In 10 n.

(* condition on one (key, value) text pair of an option *)
Definition text_ok (iss fq : bool) (k v : str) : Prop :=
  (k = [] \/ (lead_ok k /\ hd 0 k <> 34 /\ ~ In 10 k)) /\
  (if wquoted iss fq v then bytes_ok v
   else ~ In 10 v /\ (if nonempty k then trail_ok v else trim_space v = v /\ hd 0 v <> 34)).

Section RoundTrip.
  Variable orc : oracles.
  Variable incd comd incc : bool.

  Definition opt_writable (o : opt) : bool := negb (is_func (o_ty o) || o_hidden o || o_noini o).

  (* total versions of the writer's pieces (empty where the writer fails) *)
  Definition opt_lines (o : opt) (r : rt) : list wline :=
    match doc_opt orc incd comd incc o r with Ok d => d | _ => [] end.
  Definition group_any (g : group) (r : rt) : bool :=
    existsb (fun o => has_lines (opt_lines o r)) (grp_opts g).
  Definition group_lines (own : bool) (sn : str) (g : group) (r : rt) : list wline :=
    if group_any g r
    then section_header own sn ++ flat_map (fun o => opt_lines o r) (grp_opts g) ++ (if incc then [] else [WBlank])
    else [].
  (* the lines of a group given with its "own group of its command" mark and its section name *)
  Definition own_lines (r : rt) (q : bool * (str * group)) : list wline :=
    group_lines (fst q) (fst (snd q)) (snd (snd q)) r.

  (* the groups the writer visits, in order, each with its section name *)
  Fixpoint groups_named (gs : list group) (first : bool) (ns : str) : list (str * group) :=
    match gs with
    | [] => []
    | g :: rest =>
      (if g_hidden (grp_info g) then [] else [(group_section_name first g ns, g)])
      ++ groups_named rest false ns
    end.
  Fixpoint ini_groups_cmd (fuel : nat) (c : command) (ns : str) : list (str * group) :=
    match fuel with
    | O => []
    | S f =>
      groups_named (cmd_groups c) true ns ++
      flat_map (fun sc => if c_hidden (cmd_info sc) then [] else ini_groups_cmd f sc (sub_namespace ns sc))
               (cmd_subs c)
    end.
  Definition ini_groups (root : command) : list (str * group) := ini_groups_cmd (cmd_depth root) root [].

  (* the same list, every group marked: is it the own group of its command (the writer's
     is_cmd_group)? *)
  Fixpoint groups_named_own (gs : list group) (first : bool) (ns : str) : list (bool * (str * group)) :=
    match gs with
    | [] => []
    | g :: rest =>
      (if g_hidden (grp_info g) then [] else [(first, (group_section_name first g ns, g))])
      ++ groups_named_own rest false ns
    end.
  Fixpoint ini_groups_cmd_own (fuel : nat) (c : command) (ns : str) : list (bool * (str * group)) :=
    match fuel with
    | O => []
    | S f =>
      groups_named_own (cmd_groups c) true ns ++
      flat_map (fun sc => if c_hidden (cmd_info sc) then [] else ini_groups_cmd_own f sc (sub_namespace ns sc))
               (cmd_subs c)
    end.
  Definition ini_groups_own (root : command) : list (bool * (str * group)) :=
    ini_groups_cmd_own (cmd_depth root) root [].

  Lemma groups_named_own_snd : forall gs first ns,
    map snd (groups_named_own gs first ns) = groups_named gs first ns.
  Proof.
    induction gs as [|g gs IH]; intros first ns; [reflexivity|].
    cbn [groups_named_own groups_named]. rewrite map_app, IH.
    destruct (g_hidden (grp_info g)); reflexivity.
  Qed.
  Lemma ini_groups_cmd_own_snd : forall f c ns,
    map snd (ini_groups_cmd_own f c ns) = ini_groups_cmd f c ns.
  Proof.
    induction f as [|f IH]; intros c ns; [reflexivity|].
    cbn [ini_groups_cmd_own ini_groups_cmd]. rewrite map_app, groups_named_own_snd. f_equal.
    induction (cmd_subs c) as [|sc l IHl]; [reflexivity|].
    cbn [flat_map]. rewrite map_app, IHl. f_equal.
    destruct (c_hidden (cmd_info sc)); [reflexivity|apply IH].
  Qed.
  Lemma ini_groups_own_snd root : map snd (ini_groups_own root) = ini_groups root.
  Proof. apply ini_groups_cmd_own_snd. Qed.

  Definition ini_doc (root : command) (r : rt) : list wline :=
    flat_map (own_lines r) (ini_groups_own root).

  (* ---------------- doc_of_ini = Ok doc -> doc = ini_doc *)
  Lemma doc_opts_lines : forall os r d any,
    doc_opts orc incd comd incc os r = Ok (d, any) ->
    d = flat_map (fun o => opt_lines o r) os /\
    any = existsb (fun o => has_lines (opt_lines o r)) os.
  Proof.
    induction os as [|o os IH]; intros r d any H.
    - injection H as <- <-. split; reflexivity.
    - cbn [doc_opts] in H. unfold bind in H.
      destruct (doc_opt orc incd comd incc o r) as [a| |] eqn:Ea; try discriminate H.
      destruct (doc_opts orc incd comd incc os r) as [[b anyb]| |] eqn:Eb; try discriminate H.
      injection H as <- <-. destruct (IH r b anyb Eb) as [-> ->].
      assert (Hl : opt_lines o r = a) by (unfold opt_lines; rewrite Ea; reflexivity).
      cbn [flat_map existsb fst snd]. rewrite Hl. split; reflexivity.
  Qed.

  Lemma doc_group_lines first g ns r d :
    doc_group orc incd comd incc first g ns r = Ok d ->
    d = group_lines first (group_section_name first g ns) g r.
  Proof.
    unfold doc_group, bind. intros H.
    destruct (doc_opts orc incd comd incc (grp_opts g) r) as [[b any]| |] eqn:E; try discriminate H.
    destruct (doc_opts_lines _ _ _ _ E) as [-> ->]. injection H as <-.
    unfold group_lines, group_any. reflexivity.
  Qed.

  Lemma doc_groups_lines r ns : forall gs first d,
    doc_groups orc incd comd incc gs first ns r = Ok d ->
    d = flat_map (own_lines r) (groups_named_own gs first ns).
  Proof.
    induction gs as [|g gs IH]; intros first d H.
    - injection H as <-. reflexivity.
    - cbn [doc_groups] in H. unfold bind in H. cbn [groups_named_own]. rewrite flat_map_app.
      destruct (g_hidden (grp_info g)).
      + destruct (doc_groups orc incd comd incc gs false ns r) as [b| |] eqn:Eb; try discriminate H.
        injection H as <-. rewrite (IH false b Eb). reflexivity.
      + destruct (doc_group orc incd comd incc first g ns r) as [a| |] eqn:Ea; try discriminate H.
        destruct (doc_groups orc incd comd incc gs false ns r) as [b| |] eqn:Eb; try discriminate H.
        injection H as <-. rewrite (IH false b Eb), (doc_group_lines _ _ _ _ _ Ea).
        cbn [flat_map]. unfold own_lines at 1. cbn [fst snd]. rewrite app_nil_r. reflexivity.
  Qed.

  Lemma flat_map_flat_map {A B C} (f : B -> list C) (g : A -> list B) (l : list A) :
    flat_map f (flat_map g l) = flat_map (fun x => flat_map f (g x)) l.
  Proof.
    induction l as [|x l IH]; [reflexivity|]. cbn [flat_map]. rewrite flat_map_app, IH. reflexivity.
  Qed.

  Lemma doc_subs_lines (rec : command -> str -> res (list wline)) (F : command -> str -> list (bool * (str * group))) r ns :
    forall l d,
    (forall sc n d, In sc l -> rec sc n = Ok d -> d = flat_map (own_lines r) (F sc n)) ->
    doc_subs rec ns l = Ok d ->
    d = flat_map (own_lines r)
                 (flat_map (fun sc => if c_hidden (cmd_info sc) then [] else F sc (sub_namespace ns sc)) l).
  Proof.
    induction l as [|sc l IH]; intros d Hrec H.
    - injection H as <-. reflexivity.
    - cbn [doc_subs] in H. unfold bind in H. cbn [flat_map]. rewrite flat_map_app.
      assert (Hrec' : forall sc n d, In sc l -> rec sc n = Ok d ->
                d = flat_map (own_lines r) (F sc n)).
      { intros sc' n d' Hin. apply Hrec. right. exact Hin. }
      destruct (c_hidden (cmd_info sc)).
      + destruct (doc_subs rec ns l) as [b| |] eqn:Eb; try discriminate H.
        injection H as <-. rewrite (IH b Hrec' eq_refl). reflexivity.
      + destruct (rec sc (sub_namespace ns sc)) as [a| |] eqn:Ea; try discriminate H.
        destruct (doc_subs rec ns l) as [b| |] eqn:Eb; try discriminate H.
        injection H as <-. rewrite (IH b Hrec' eq_refl).
        rewrite (Hrec sc _ a (or_introl eq_refl) Ea). reflexivity.
  Qed.

  Lemma doc_command_lines r : forall f c ns d,
    doc_command orc incd comd incc f c ns r = Ok d ->
    d = flat_map (own_lines r) (ini_groups_cmd_own f c ns).
  Proof.
    induction f as [|f IH]; intros c ns d H.
    - injection H as <-. reflexivity.
    - cbn [doc_command] in H. unfold bind in H. cbn [ini_groups_cmd_own]. rewrite flat_map_app.
      destruct (doc_groups orc incd comd incc (cmd_groups c) true ns r) as [a| |] eqn:Ea; try discriminate H.
      destruct (doc_subs _ ns (cmd_subs c)) as [b| |] eqn:Eb; try discriminate H.
      injection H as <-. rewrite (doc_groups_lines _ _ _ _ _ Ea).
      rewrite (doc_subs_lines _ (ini_groups_cmd_own f) r ns _ b (fun sc n d _ => IH sc n d) Eb). reflexivity.
  Qed.

  Lemma doc_of_ini_lines root r d :
    doc_of_ini orc incd comd incc root r = Ok d -> d = ini_doc root r.
  Proof. apply doc_command_lines. Qed.
  (* ---------------- well-formedness of the written lines *)
  Definition opt_ok (o : opt) (r : rt) : Prop :=
    opt_writable o = true ->
    forall isdef, opt_value_is_default orc o r = Ok isdef -> negb incd && isdef = false ->   (* o is written *)
    let oname := option_ini_name o (rt_fl r (o_fid o)) in
    ini_name_ok oname /\ ~ In 10 oname /\ (incc = true -> ~ In 10 (o_desc o)) /\
    forall kvs, opt_value_texts orc o r = Ok (Some kvs) ->
      Forall (fun kv : str * str =>
                text_ok (write_kind_is_string (o_ty o)) (f_iniquote (rt_fl r (o_fid o))) (fst kv) (snd kv)) kvs.

  Lemma text_ok_entry n iss k v c fq :
    ini_name_ok n -> ~ In 10 n -> text_ok iss fq k v -> wline_ok (WEntry n iss k v c fq).
  Proof.
    intros Hn Hn10 [Hk Hv]. destruct c; cbn [wline_ok].
    - split; [exact Hn10|]. split.
      + destruct Hk as [->|(_ & _ & H)]; [intros []|exact H].
      + destruct (wquoted iss fq v); [exact Hv|apply Hv].
    - split; [exact Hn|split; [exact Hn10|split; [exact Hk|exact Hv]]].
  Qed.

  Definition no_header (l : wline) : Prop := match l with WSection _ => False | _ => True end.

  Lemma opt_lines_cases o r :
    opt_lines o r = [] \/
    exists isdef vt,
      opt_writable o = true /\ opt_value_is_default orc o r = Ok isdef /\ negb incd && isdef = false /\
      opt_value_texts orc o r = Ok vt /\
      opt_lines o r =
        (if incc && nonempty (o_desc o) then [WComment (o_desc o)] else []) ++
        match vt with
        | None => [WEntry (option_ini_name o (rt_fl r (o_fid o))) (write_kind_is_string (o_ty o)) [] [] true
                          (f_iniquote (rt_fl r (o_fid o)))]
        | Some kvs => map (fun kv : str * str =>
                             WEntry (option_ini_name o (rt_fl r (o_fid o))) (write_kind_is_string (o_ty o))
                                    (fst kv) (snd kv) (incd && comd && isdef) (f_iniquote (rt_fl r (o_fid o)))) kvs
        end ++ (if incc then [WBlank] else []).
  Proof.
    unfold opt_lines, doc_opt, opt_writable.
    destruct (is_func (o_ty o) || o_hidden o || o_noini o); [left; reflexivity|].
    destruct (opt_value_is_default orc o r) as [isdef| |]; [|left; reflexivity|left; reflexivity].
    rewrite bind_ok. cbv beta.
    destruct (negb incd && isdef) eqn:E; [left; reflexivity|].
    destruct (opt_value_texts orc o r) as [vt| |]; [|left; reflexivity|left; reflexivity].
    rewrite bind_ok. cbv beta. right. exists isdef, vt. repeat split; try reflexivity. exact E.
  Qed.

  Lemma opt_lines_ok o r : opt_ok o r -> Forall wline_ok (opt_lines o r).
  Proof.
    intros Hok. destruct (opt_lines_cases o r) as [->|(isdef & vt & Hw & Hd & Hs & Hvt & ->)]; [constructor|].
    destruct (Hok Hw isdef Hd Hs) as (Hn & Hn10 & Hdesc & Htexts).
    apply Forall_app. split; [|apply Forall_app; split].
    - destruct incc; [|constructor]. cbn [andb]. destruct (nonempty (o_desc o)); constructor; [|constructor].
      cbn [wline_ok]. apply Hdesc. reflexivity.
    - destruct vt as [kvs|].
      + specialize (Htexts kvs Hvt). apply Forall_forall. intros l Hl. apply in_map_iff in Hl.
        destruct Hl as (kv & <- & Hin). rewrite Forall_forall in Htexts.
        apply text_ok_entry; [exact Hn|exact Hn10|apply Htexts, Hin].
      + constructor; [|constructor]. cbn [wline_ok]. split; [exact Hn10|]. split; [intros []|].
        destruct (wquoted _ _ []); [intros c []|intros []].
    - destruct incc; constructor; [exact I|constructor].
  Qed.

  Lemma opt_lines_no_header o r : Forall no_header (opt_lines o r).
  Proof.
    destruct (opt_lines_cases o r) as [->|(isdef & vt & _ & _ & _ & _ & ->)]; [constructor|].
    apply Forall_app. split; [|apply Forall_app; split].
    - destruct (incc && nonempty (o_desc o)); repeat constructor.
    - destruct vt as [kvs|]; [|repeat constructor].
      apply Forall_forall. intros l Hl. apply in_map_iff in Hl. destruct Hl as (kv & <- & _). exact I.
    - destruct incc; repeat constructor.
  Qed.

  Lemma Forall_flat_map_intro {A B} (P : B -> Prop) (f : A -> list B) (l : list A) :
    (forall x, In x l -> Forall P (f x)) -> Forall P (flat_map f l).
  Proof.
    intros H. apply Forall_forall. intros y Hy. apply in_flat_map in Hy. destruct Hy as (x & Hx & Hy).
    specialize (H x Hx). rewrite Forall_forall in H. apply H, Hy.
  Qed.

  Lemma ini_doc_ok root r :
    (forall own sn g, In (own, (sn, g)) (ini_groups_own root) -> group_any g r = true ->
       (own = true /\ sn = []) \/ section_name_ok sn) ->
    (forall sn g o, In (sn, g) (ini_groups root) -> In o (grp_opts g) -> opt_ok o r) ->
    Forall wline_ok (ini_doc root r).
  Proof.
    intros Hsec Hopt. unfold ini_doc. apply Forall_flat_map_intro. intros [own [sn g]] Hin.
    unfold own_lines. cbn [fst snd].
    unfold group_lines. destruct (group_any g r) eqn:Eany; [|constructor].
    apply Forall_app. split.
    - unfold section_header. destruct (own && negb (nonempty sn)) eqn:Ene; [constructor|].
      constructor; [|constructor].
      destruct (Hsec own sn g Hin Eany) as [[-> ->]|Hok]; [discriminate Ene|exact Hok].
    - apply Forall_app. split.
      + apply Forall_flat_map_intro. intros o Ho. apply opt_lines_ok.
        apply (Hopt sn g o); [|exact Ho]. rewrite <- ini_groups_own_snd.
        apply (in_map snd) in Hin. exact Hin.
      + destruct incc; repeat constructor.
  Qed.

  (* ---------------- sections and entries of the written document *)
  Definition opt_entries (o : opt) (r : rt) : list (str * str * bool) := wentries (opt_lines o r).

  (* line-number-free version of doc_entries *)
  Fixpoint sec_entries (d : list wline) (cur : str) : list (str * (str * str * bool)) :=
    match d with
    | [] => []
    | l :: rest =>
      match l with
      | WSection n => sec_entries rest n
      | _ => map (pair cur) (olist (wline_entry l)) ++ sec_entries rest cur
      end
    end.

  Lemma forget_doc_entries : forall d n cur,
    map (fun p : str * ini_entry => (fst p, forget_entry (snd p))) (doc_entries d n cur) = sec_entries d cur.
  Proof.
    induction d as [|l d IH]; intros n cur; [reflexivity|].
    cbn [doc_entries sec_entries].
    destruct l as [nm|nm iss k v c f|t|]; try apply IH.
    destruct (wline_entry (WEntry nm iss k v c f)) as [[[en ev] eq]|]; cbn [olist map app]; [|apply IH].
    rewrite IH. reflexivity.
  Qed.

  Lemma sec_entries_no_header : forall a b cur, Forall no_header a ->
    sec_entries (a ++ b) cur = map (pair cur) (wentries a) ++ sec_entries b cur.
  Proof.
    induction a as [|l a IH]; intros b cur H; [reflexivity|].
    inversion H as [|? ? Hl Ha]; subst. cbn [app sec_entries]. unfold wentries. cbn [flat_map].
    rewrite map_app, <- app_assoc. fold (wentries a). rewrite <- IH by exact Ha.
    destruct l; [destruct Hl| | |]; reflexivity.
  Qed.

  Lemma doc_sections_no_header d : Forall no_header d -> doc_sections d = [].
  Proof.
    induction 1 as [|l d Hl _ IH]; [reflexivity|]. rewrite doc_sections_cons, IH.
    destruct l; [destruct Hl| | |]; reflexivity.
  Qed.

  Lemma doc_sections_app a b : doc_sections (a ++ b) = doc_sections a ++ doc_sections b.
  Proof. unfold doc_sections. apply flat_map_app. Qed.

  Lemma wentries_app a b : wentries (a ++ b) = wentries a ++ wentries b.
  Proof. unfold wentries. apply flat_map_app. Qed.

  Lemma group_body_no_header g r :
    Forall no_header (flat_map (fun o => opt_lines o r) (grp_opts g) ++ (if incc then [] else [WBlank])).
  Proof.
    apply Forall_app. split.
    - apply Forall_flat_map_intro. intros o _. apply opt_lines_no_header.
    - destruct incc; repeat constructor.
  Qed.

  Lemma group_body_entries g r :
    wentries (flat_map (fun o => opt_lines o r) (grp_opts g) ++ (if incc then [] else [WBlank]))
    = flat_map (fun o => opt_entries o r) (grp_opts g).
  Proof.
    rewrite wentries_app. replace (wentries (if incc then [] else [WBlank])) with (@nil (str * str * bool))
      by (destruct incc; reflexivity).
    rewrite app_nil_r. unfold wentries at 1. rewrite flat_map_flat_map. reflexivity.
  Qed.

  Lemma group_not_written_entries g r : group_any g r = false ->
    flat_map (fun o => opt_entries o r) (grp_opts g) = [].
  Proof.
    unfold group_any. induction (grp_opts g) as [|o os IH]; [reflexivity|].
    cbn [existsb flat_map]. intros H. apply orb_false_iff in H. destruct H as [Ho Hos].
    rewrite IH by exact Hos. unfold opt_entries. destruct (opt_lines o r); [reflexivity|discriminate Ho].
  Qed.

  (* the header lines of the document: one per written group, except for own groups of
     commands with the empty section name *)
  Definition has_header (r : rt) (q : bool * (str * group)) : bool :=
    group_any (snd (snd q)) r && negb (fst q && negb (nonempty (fst (snd q)))).

  Lemma groups_sections r : forall gl,
    doc_sections (flat_map (own_lines r) gl)
    = map (fun q : bool * (str * group) => fst (snd q)) (filter (has_header r) gl).
  Proof.
    induction gl as [|[own [sn g]] gl IH]; [reflexivity|].
    cbn [flat_map filter]. rewrite doc_sections_app, IH. unfold own_lines at 1, has_header at 2. cbn [fst snd].
    unfold group_lines.
    destruct (group_any g r); [|reflexivity]. cbn [andb].
    rewrite doc_sections_app, (doc_sections_no_header _ (group_body_no_header g r)), app_nil_r.
    unfold section_header. destruct (own && negb (nonempty sn)); reflexivity.
  Qed.

  (* [placed r cur gl]: every written group of [gl] without a header line stands where the
     reader's current section is the global one (named ""), [cur] being the current
     section before the lines of [gl] *)
  Fixpoint placed (r : rt) (cur : str) (gl : list (bool * (str * group))) : Prop :=
    match gl with
    | [] => True
    | q :: rest =>
      if group_any (snd (snd q)) r
      then (fst q && negb (nonempty (fst (snd q))) = true -> cur = []) /\ placed r (fst (snd q)) rest
      else placed r cur rest
    end.

  Lemma groups_entries r : forall gl cur, placed r cur gl ->
    sec_entries (flat_map (own_lines r) gl) cur
    = flat_map (fun p : str * group => map (pair (fst p)) (flat_map (fun o => opt_entries o r) (grp_opts (snd p))))
               (map snd gl).
  Proof.
    induction gl as [|[own [sn g]] gl IH]; intros cur Hp; [reflexivity|].
    cbn [flat_map map fst snd]. cbn [placed fst snd] in Hp. unfold own_lines at 1. cbn [fst snd].
    unfold group_lines. destruct (group_any g r) eqn:E.
    - destruct Hp as [Hcur Hp]. unfold section_header.
      destruct (own && negb (nonempty sn)) eqn:Eh.
      + assert (Hsn : sn = []).
        { destruct sn; [reflexivity|]. destruct own; discriminate Eh. }
        rewrite (Hcur eq_refl) in *. subst sn. cbn [app].
        rewrite sec_entries_no_header by apply group_body_no_header.
        rewrite group_body_entries, IH by exact Hp. reflexivity.
      + cbn [app sec_entries]. rewrite sec_entries_no_header by apply group_body_no_header.
        rewrite group_body_entries, IH by exact Hp. reflexivity.
    - rewrite (group_not_written_entries g r E). cbn [app map]. apply IH. exact Hp.
  Qed.

  (* the condition on the section names: the name of a written group is well formed, or the
     group is the own group of its command, its name is empty and no header line precedes it
     in the document (every written group before it has the empty name, too, hence is of the
     same kind) - it is written without a header and its entries land in the global
     section.  This is the case of the root command's own group, the first group written. *)
  Definition section_names_ok (gl : list (bool * (str * group))) (r : rt) : Prop :=
    forall pre own sn g post, gl = pre ++ (own, (sn, g)) :: post -> group_any g r = true ->
      section_name_ok sn \/
      (own = true /\ sn = [] /\
       forall own' sn' g', In (own', (sn', g')) pre -> group_any g' r = true -> sn' = []).

  (* the stronger condition: all written groups have well-formed (non-empty) names *)
  Lemma section_names_ok_all gl r :
    (forall sn g, In (sn, g) (map snd gl) -> group_any g r = true -> section_name_ok sn) ->
    section_names_ok gl r.
  Proof.
    intros H pre own sn g post -> Hany. left. apply (H sn g); [|exact Hany].
    rewrite map_app. apply in_or_app. right. left. reflexivity.
  Qed.

  Lemma section_names_ok_all_root root r :
    (forall sn g, In (sn, g) (ini_groups root) -> group_any g r = true -> section_name_ok sn) ->
    section_names_ok (ini_groups_own root) r.
  Proof. intros H. apply section_names_ok_all. rewrite ini_groups_own_snd. exact H. Qed.

  (* the typical case: first the own group of the root command, with the empty name,
     all other written groups with well-formed names *)
  Lemma section_names_ok_first g0 gl r :
    (forall sn g, In (sn, g) (map snd gl) -> group_any g r = true -> section_name_ok sn) ->
    section_names_ok ((true, ([], g0)) :: gl) r.
  Proof.
    intros H pre own sn g post E Hany. destruct pre as [|p pre]; cbn [app] in E.
    - injection E as <- <- <- <-. right. split; [reflexivity|]. split; [reflexivity|]. intros own' sn' g' [].
    - injection E as <- ->. left. apply (H sn g); [|exact Hany].
      rewrite map_app. apply in_or_app. right. left. reflexivity.
  Qed.

  (* the groups of the root start with the root command's own group, under the empty name *)
  Lemma ini_groups_own_root_first root : exists rest,
    ini_groups_own root =
    (if g_hidden (grp_info (cmd_group root)) then [] else [(true, ([], cmd_group root))]) ++ rest.
  Proof.
    unfold ini_groups_own. destruct root as [ci g args subs]. cbn [cmd_depth ini_groups_cmd_own].
    unfold cmd_groups. cbn [cmd_group]. destruct g as [gi os gs]. cbn [group_depth group_list groups_named_own].
    rewrite <- app_assoc. eexists. reflexivity.
  Qed.
  Lemma ini_groups_root_first root : exists rest,
    ini_groups root =
    (if g_hidden (grp_info (cmd_group root)) then [] else [([], cmd_group root)]) ++ rest.
  Proof.
    unfold ini_groups. destruct root as [ci g args subs]. cbn [cmd_depth ini_groups_cmd].
    unfold cmd_groups. cbn [cmd_group]. destruct g as [gi os gs]. cbn [group_depth group_list groups_named].
    rewrite <- app_assoc. eexists. reflexivity.
  Qed.

  (* so: the own group of the root may be written, whatever else is written must have
     well-formed names *)
  Lemma section_names_ok_root root r :
    g_hidden (grp_info (cmd_group root)) = false ->
    (forall sn g, In (sn, g) (tl (ini_groups root)) -> group_any g r = true -> section_name_ok sn) ->
    section_names_ok (ini_groups_own root) r.
  Proof.
    intros Hh H. destruct (ini_groups_own_root_first root) as [rest E].
    rewrite Hh in E. cbn [app] in E. rewrite E. apply section_names_ok_first.
    rewrite <- ini_groups_own_snd, E in H. cbn [map tl] in H. exact H.
  Qed.

  Lemma section_names_ok_In gl r own sn g :
    section_names_ok gl r -> In (own, (sn, g)) gl -> group_any g r = true ->
    (own = true /\ sn = []) \/ section_name_ok sn.
  Proof.
    intros H Hin Hany. apply in_split in Hin. destruct Hin as (pre & post & E).
    destruct (H pre own sn g post E Hany) as [Hok|[-> [-> _]]]; [right; exact Hok|left; split; reflexivity].
  Qed.

  Lemma section_names_ok_placed r : forall gl cur,
    (forall pre own sn g post, gl = pre ++ (own, (sn, g)) :: post -> group_any g r = true ->
       own && negb (nonempty sn) = true ->
       cur = [] /\ forall own' sn' g', In (own', (sn', g')) pre -> group_any g' r = true -> sn' = []) ->
    placed r cur gl.
  Proof.
    induction gl as [|[own [sn g]] gl IH]; intros cur H; [exact I|].
    cbn [placed fst snd]. destruct (group_any g r) eqn:E.
    - split.
      + intros Eh. exact (proj1 (H [] own sn g gl eq_refl E Eh)).
      + apply IH. intros pre own' sn' g' post -> Hany Eh.
        destruct (H ((own, (sn, g)) :: pre) own' sn' g' post eq_refl Hany Eh) as [_ Hpre].
        split.
        * apply (Hpre own sn g); [left; reflexivity|exact E].
        * intros own2 sn2 g2 Hin. apply (Hpre own2 sn2 g2); [right; exact Hin].
    - apply IH. intros pre own' sn' g' post -> Hany Eh.
      destruct (H ((own, (sn, g)) :: pre) own' sn' g' post eq_refl Hany Eh) as [Hcur Hpre].
      split; [exact Hcur|]. intros own2 sn2 g2 Hin. apply (Hpre own2 sn2 g2). right. exact Hin.
  Qed.

  Lemma section_names_placed gl r : section_names_ok gl r -> placed r [] gl.
  Proof.
    intros H. apply section_names_ok_placed. intros pre own sn g post E Hany Eh.
    split; [reflexivity|].
    destruct (H pre own sn g post E Hany) as [[Hne _]|[_ [_ Hpre]]]; [|exact Hpre].
    destruct sn; [congruence|]. destruct own; discriminate Eh.
  Qed.

  (* sections of the file: the global one, then the non-empty names in order of first
     appearance - which is the same as for all names, the global section's included *)
  Lemma uniq_filter (p : str -> bool) : forall l, filter p (uniq l) = uniq (filter p l).
  Proof.
    induction l as [|x l IH]; [reflexivity|]. cbn [uniq filter].
    destruct (p x) eqn:Ex.
    - cbn [uniq]. f_equal. rewrite <- IH.
      generalize (uniq l). intros L. induction L as [|y L IHL]; [reflexivity|].
      cbn [filter]. destruct (str_eqb y x) eqn:Eyx; cbn [negb].
      + destruct (p y); [cbn [filter]; rewrite Eyx; cbn [negb]|]; exact IHL.
      + cbn [filter]. destruct (p y); [cbn [filter]; rewrite Eyx; cbn [negb]; f_equal|]; exact IHL.
    - rewrite <- IH.
      generalize (uniq l). intros L. induction L as [|y L IHL]; [reflexivity|].
      cbn [filter]. destruct (str_eqb_spec y x) as [->|Hne]; cbn [negb].
      + rewrite Ex. exact IHL.
      + cbn [filter]. destruct (p y); [f_equal|]; exact IHL.
  Qed.

  Lemma uniq_global_sections r (gl : list (bool * (str * group))) :
    uniq ([] :: map (fun q : bool * (str * group) => fst (snd q)) (filter (has_header r) gl))
    = uniq ([] :: map fst (filter (fun p : str * group => group_any (snd p) r) (map snd gl))).
  Proof.
    cbn [uniq]. f_equal. rewrite !uniq_filter. f_equal.
    induction gl as [|[own [sn g]] gl IH]; [reflexivity|].
    cbn [map filter fst snd]. unfold has_header at 1. cbn [fst snd].
    destruct (group_any g r); cbn [andb]; [|exact IH].
    destruct own, sn as [|c sn']; cbn [nonempty negb andb map filter fst snd str_eqb]; try exact IH;
      f_equal; exact IH.
  Qed.

  Lemma forget_entries_of s ents :
    map forget_entry (entries_of s ents)
    = map snd (filter (fun q : str * (str * str * bool) => str_eqb (fst q) s)
                      (map (fun p : str * ini_entry => (fst p, forget_entry (snd p))) ents)).
  Proof.
    unfold entries_of. induction ents as [|p ents IH]; [reflexivity|].
    cbn [map filter fst]. destruct (str_eqb (fst p) s); cbn [map snd]; rewrite IH; reflexivity.
  Qed.

  Lemma filter_section_entries {G} (E : str * G -> list (str * str * bool)) s : forall gl,
    map snd (filter (fun q : str * (str * str * bool) => str_eqb (fst q) s)
                    (flat_map (fun p : str * G => map (pair (fst p)) (E p)) gl))
    = flat_map (fun p : str * G => if str_eqb (fst p) s then E p else []) gl.
  Proof.
    induction gl as [|p gl IH]; [reflexivity|].
    cbn [flat_map]. rewrite filter_app, map_app, IH. f_equal.
    induction (E p) as [|e es IHe]; [destruct (str_eqb (fst p) s); reflexivity|].
    cbn [map filter fst]. destruct (str_eqb (fst p) s) eqn:Es; cbn [map snd]; [f_equal|]; exact IHe.
  Qed.

  Definition entry_of_text (oname : str) (iss fq : bool) (kv : str * str) : str * str * bool :=
    if nonempty (fst kv) then (oname, fst kv ++ [58] ++ rendered_value iss fq (snd kv), false)
    else (oname, snd kv, wquoted iss fq (snd kv)).

  (* the un-commented entries one option contributes *)
  Theorem C12_opt_entries : forall o r,
    opt_entries o r =
    if opt_writable o then
      match opt_value_is_default orc o r, opt_value_texts orc o r with
      | Ok isdef, Ok (Some kvs) =>
        if (negb incd && isdef) || (incd && comd && isdef) then []
        else map (entry_of_text (option_ini_name o (rt_fl r (o_fid o))) (write_kind_is_string (o_ty o))
                                (f_iniquote (rt_fl r (o_fid o)))) kvs
      | _, _ => []
      end
    else [].
  Proof.
    intros o r. unfold opt_entries, opt_lines, doc_opt, opt_writable.
    destruct (is_func (o_ty o) || o_hidden o || o_noini o); [reflexivity|]. cbn [negb].
    destruct (opt_value_is_default orc o r) as [isdef| |]; [|reflexivity|reflexivity].
    rewrite bind_ok. cbv beta.
    destruct (negb incd && isdef); [destruct (opt_value_texts orc o r) as [[kvs|]| |]; reflexivity|].
    destruct (opt_value_texts orc o r) as [vt| |]; [|reflexivity|reflexivity].
    rewrite bind_ok. cbv beta. rewrite !wentries_app.
    replace (wentries (if incc && nonempty (o_desc o) then [WComment (o_desc o)] else []))
      with (@nil (str * str * bool)) by (destruct (incc && nonempty (o_desc o)); reflexivity).
    replace (wentries (if incc then [WBlank] else [])) with (@nil (str * str * bool)) by (destruct incc; reflexivity).
    rewrite app_nil_r. cbn [app orb].
    destruct vt as [kvs|]; [|reflexivity].
    destruct (incd && comd && isdef).
    - induction kvs as [|kv kvs IH]; [reflexivity|exact IH].
    - induction kvs as [|kv kvs IH]; [reflexivity|].
      cbn [map]. unfold wentries in *. cbn [flat_map wline_entry olist app]. rewrite IH. reflexivity.
  Qed.

  (* Target 3 *)
  Theorem C12_file_roundtrip : forall root r text,
    write_ini orc incd comd incc root r = Ok text ->
    section_names_ok (ini_groups_own root) r ->
    (forall sn g o, In (sn, g) (ini_groups root) -> In o (grp_opts g) -> opt_ok o r) ->
    exists file,
      read_ini text = Ok file /\
      text = render_doc (ini_doc root r) /\ file = doc_file (ini_doc root r) /\
      map fst file = uniq ([] :: map fst (filter (fun p : str * group => group_any (snd p) r) (ini_groups root))) /\
      forall s es, In (s, es) file ->
        map forget_entry es =
        flat_map (fun p : str * group =>
                    if str_eqb (fst p) s then flat_map (fun o => opt_entries o r) (grp_opts (snd p)) else [])
                 (ini_groups root).
  Proof.
    intros root r text Hw Hsec Hopt.
    destruct (C12_writer_is_lines_ok orc incd comd incc root r text Hw) as (doc & Hdoc & ->).
    apply doc_of_ini_lines in Hdoc. subst doc.
    exists (doc_file (ini_doc root r)). split; [|split; [|split; [|split]]].
    - apply C12_read_rendered, ini_doc_ok; [|exact Hopt].
      intros own sn g. apply section_names_ok_In. exact Hsec.
    - reflexivity.
    - reflexivity.
    - unfold doc_file, file_of. rewrite map_map. cbn [fst]. rewrite map_id.
      unfold ini_doc. rewrite groups_sections, uniq_global_sections, ini_groups_own_snd. reflexivity.
    - intros s es Hin. unfold doc_file, file_of in Hin. apply in_map_iff in Hin.
      destruct Hin as (s' & [= <- <-] & _).
      rewrite forget_entries_of, forget_doc_entries. unfold ini_doc.
      rewrite groups_entries by (apply section_names_placed; exact Hsec).
      rewrite ini_groups_own_snd.
      apply (filter_section_entries (fun p : str * group => flat_map (fun o => opt_entries o r) (grp_opts (snd p)))).
  Qed.
  (* every entry an option contributes carries the option's INI name *)
  Lemma opt_entries_names o r e :
    In e (opt_entries o r) -> fst (fst e) = option_ini_name o (rt_fl r (o_fid o)).
  Proof.
    rewrite C12_opt_entries. destruct (opt_writable o); [|intros []].
    destruct (opt_value_is_default orc o r) as [isdef| |]; try (intros []).
    destruct (opt_value_texts orc o r) as [[kvs|]| |]; try (intros []).
    destruct ((negb incd && isdef) || (incd && comd && isdef)); [intros []|].
    intros H. apply in_map_iff in H. destruct H as (kv & <- & _).
    unfold entry_of_text. destruct (nonempty (fst kv)); reflexivity.
  Qed.

  Lemma filter_flat_map {A B} (p : B -> bool) (f : A -> list B) (l : list A) :
    filter p (flat_map f l) = flat_map (fun x => filter p (f x)) l.
  Proof. induction l as [|x l IH]; [reflexivity|]. cbn [flat_map]. rewrite filter_app, IH. reflexivity. Qed.

  Lemma filter_const {A} (p : A -> bool) (b : bool) (l : list A) :
    (forall x, In x l -> p x = b) -> filter p l = if b then l else [].
  Proof.
    induction l as [|x l IH]; intros H; [destruct b; reflexivity|].
    cbn [filter]. rewrite (H x (or_introl eq_refl)), IH by (intros y Hy; apply H; right; exact Hy).
    destruct b; reflexivity.
  Qed.

  (* Target 3, per option name: the entries named nm of a section are exactly the
     entries of the options with INI name nm in the groups written under that section *)
  Corollary C12_file_roundtrip_by_name : forall root r text,
    write_ini orc incd comd incc root r = Ok text ->
    section_names_ok (ini_groups_own root) r ->
    (forall sn g o, In (sn, g) (ini_groups root) -> In o (grp_opts g) -> opt_ok o r) ->
    exists file,
      read_ini text = Ok file /\
      forall s es nm, In (s, es) file ->
        filter (fun e : str * str * bool => str_eqb (fst (fst e)) nm) (map forget_entry es) =
        flat_map (fun p : str * group =>
                    if str_eqb (fst p) s
                    then flat_map (fun o => if str_eqb (option_ini_name o (rt_fl r (o_fid o))) nm
                                            then opt_entries o r else [])
                                  (grp_opts (snd p))
                    else [])
                 (ini_groups root).
  Proof.
    intros root r text Hw Hsec Hopt.
    destruct (C12_file_roundtrip root r text Hw Hsec Hopt) as (file & Hr & _ & _ & _ & Hes).
    exists file. split; [exact Hr|]. intros s es nm Hin. rewrite (Hes s es Hin), filter_flat_map.
    apply flat_map_ext. intros [sn g]. cbn [fst snd]. destruct (str_eqb sn s); [|reflexivity].
    rewrite filter_flat_map. apply flat_map_ext. intros o.
    rewrite (filter_const _ (str_eqb (option_ini_name o (rt_fl r (o_fid o))) nm)).
    - reflexivity.
    - intros e He. rewrite (opt_entries_names o r e He). reflexivity.
  Qed.
End RoundTrip.

(* ====================================================================== *)
(* Part 4: discharging the text conditions from the values                *)
(* ====================================================================== *)

(* a text that is read back as it stands, quoted or not *)
Definition plain_text (t : str) : Prop :=
  bytes_ok t /\ ~ In 10 t /\ trim_space t = t /\ hd 0 t <> 34.

(* the condition on a (non-empty) map key text *)
Definition key_text_ok (k : str) : Prop :=
  k = [] \/ (lead_ok k /\ hd 0 k <> 34 /\ ~ In 10 k).

Lemma plain_text_nil : plain_text [].
Proof. split; [intros c []|]. split; [intros []|]. split; [reflexivity|discriminate]. Qed.

Lemma plain_text_key k : plain_text k -> key_text_ok k.
Proof.
  intros (_ & H10 & Ht & H34). destruct k as [|c k']; [left; reflexivity|right].
  apply trim_space_fix_iff in Ht. split; [apply Ht|]. split; assumption.
Qed.

Lemma plain_text_ok iss fq k t : key_text_ok k -> plain_text t -> text_ok iss fq k t.
Proof.
  intros Hk (Hb & H10 & Ht & H34). split; [exact Hk|].
  destruct (wquoted iss fq t); [exact Hb|]. split; [exact H10|].
  destruct (nonempty k); [apply trim_space_fix_iff in Ht; apply Ht|split; assumption].
Qed.

(* ---- printable strings contain no newline *)
Lemma dec_In10 s r w : dec s r w -> In 10 s -> r = 10 \/ In 10 (skipn w s).
Proof.
  destruct 1; cbn [skipn In]; intros Hin.
  - destruct Hin.
  - destruct Hin as [->|Hin]; [left; reflexivity|right; exact Hin].
  - destruct Hin as [Hin|Hin]; [lia|right; exact Hin].
  - destruct Hin as [Hin|[Hin|Hin]]; try lia. right; exact Hin.
  - destruct Hin as [Hin|[Hin|[Hin|Hin]]]; try lia. right; exact Hin.
  - destruct Hin as [Hin|[Hin|[Hin|[Hin|Hin]]]]; try lia. right; exact Hin.
Qed.

Lemma range_fuel_In10 : forall fuel off s, (length s <= fuel)%nat -> In 10 s ->
  In 10 (map (fun x : nat * N * nat => snd (fst x)) (range_fuel fuel off s)).
Proof.
  induction fuel as [|f IH]; intros off s Hlen Hin.
  - destruct s; [destruct Hin|cbn [length] in Hlen; lia].
  - destruct s as [|b t]; [destruct Hin|]. cbn [range_fuel].
    destruct (decode_rune (b :: t)) as [r w] eqn:E.
    pose proof (decode_dec _ _ _ E) as Hd.
    destruct (dec_width _ _ _ Hd ltac:(discriminate)) as [Hw1 Hw2].
    cbn [map fst snd]. destruct (dec_In10 _ _ _ Hd Hin) as [->|Hin'].
    + left; reflexivity.
    + right. apply IH; [|exact Hin']. rewrite skipn_length. cbn [length] in *. lia.
Qed.

Lemma all_print_no_newline s : all_print s = true -> ~ In 10 s.
Proof.
  intros Hp Hin. unfold all_print, runes, range_str in Hp. rewrite forallb_forall in Hp.
  specialize (Hp 10 (range_fuel_In10 (length s) O s (le_n _) Hin)). discriminate Hp.
Qed.

Lemma needs_quote_false v : ini_needs_quote v = false ->
  all_print v = true /\ trim_space v = v /\ hd 0 v <> 34.
Proof.
  unfold ini_needs_quote. intros H. apply orb_false_iff in H. destruct H as [H H3].
  apply orb_false_iff in H. destruct H as [H1 H2].
  apply negb_false_iff in H1, H2. apply str_eqb_eq in H2. split; [exact H1|]. split; [exact H2|].
  destruct v as [|c v']; [discriminate|]. cbn [hd]. intros ->. discriminate H3.
Qed.

(* string-kind values: any byte string will do (the writer quotes when needed) *)
Lemma string_text_ok fq k s : key_text_ok k -> bytes_ok s -> text_ok true fq k s.
Proof.
  intros Hk Hb. split; [exact Hk|].
  destruct (wquoted true fq s) eqn:E; [exact Hb|].
  unfold wquoted in E. apply orb_false_iff in E. destruct E as [_ E]. cbn [andb] in E.
  destruct (needs_quote_false s E) as (Hp & Ht & H34).
  split; [apply all_print_no_newline, Hp|].
  destruct (nonempty k); [apply trim_space_fix_iff in Ht; apply Ht|split; assumption].
Qed.

(* ---- texts made of graphic ASCII characters other than the double quote *)
Definition graphic (c : N) : Prop := 33 <= c <= 126 /\ c <> 34.

Lemma Forall_last {A} (P : A -> Prop) l d : Forall P l -> l <> [] -> P (last l d).
Proof.
  intros H Hl. destruct (exists_last Hl) as (p & x & ->). rewrite last_last.
  apply Forall_app in H. destruct H as [_ H]. inversion H; assumption.
Qed.

Lemma graphic_nonspace c : graphic c -> ascii_nonspace c.
Proof. unfold graphic, ascii_nonspace, is_space_ascii. intros [H _]. split; lia. Qed.

Lemma graphic_plain t : Forall graphic t -> plain_text t.
Proof.
  intros H. destruct t as [|c t']; [apply plain_text_nil|].
  assert (Hc : graphic c) by (inversion H; assumption).
  split; [|split; [|split]].
  - intros x Hx. rewrite Forall_forall in H. destruct (H x Hx). lia.
  - intros Hin. rewrite Forall_forall in H. destruct (H 10 Hin). lia.
  - apply trim_space_ascii_ends; [discriminate|apply graphic_nonspace, Hc|].
    apply graphic_nonspace. apply Forall_last; [exact H|discriminate].
  - cbn [hd]. apply Hc.
Qed.

Lemma fmt_digit_graphic d : d < 36 -> graphic (fmt_digit d).
Proof. unfold fmt_digit, graphic. intros H. destruct (N.ltb_spec d 10); lia. Qed.

Lemma fmt_base_fuel_graphic b : 2 <= b <= 36 -> forall fuel n acc,
  Forall graphic acc -> Forall graphic (fmt_base_fuel fuel n b acc).
Proof.
  intros Hb. induction fuel as [|f IH]; intros n acc Hacc; [exact Hacc|].
  cbn [fmt_base_fuel].
  assert (Hd : graphic (fmt_digit (n mod b))).
  { apply fmt_digit_graphic. pose proof (N.mod_lt n b ltac:(lia)). lia. }
  destruct (N.ltb n b); [constructor; assumption|]. apply IH. constructor; assumption.
Qed.

Lemma format_uint_graphic n base t : format_uint n base = Some t -> Forall graphic t.
Proof.
  unfold format_uint. destruct ((2 <=? base)%Z && (base <=? 36)%Z) eqn:E; [|discriminate].
  intros [= <-].
  apply (fmt_base_fuel_graphic (Z.to_N base) ltac:(lia) (S (N.to_nat (N.log2 n))) n []). constructor.
Qed.

Lemma format_int_graphic z base t : format_int z base = Some t -> Forall graphic t.
Proof.
  unfold format_int. destruct z as [|p|p]; try apply format_uint_graphic.
  destruct (format_uint (N.pos p) base) as [u|] eqn:E; [|discriminate].
  intros [= <-]. constructor; [unfold graphic; lia|]. exact (format_uint_graphic _ _ _ E).
Qed.

(* integer kinds: FormatInt output is plain, whatever the base tag *)
Theorem format_int_plain : forall z base t, format_int z base = Some t -> plain_text t.
Proof. intros z base t H. apply graphic_plain. exact (format_int_graphic _ _ _ H). Qed.

(* ---- the hex packing write_opt uses to sort map entries is loss-free *)
Lemma hexdig_range n : 48 <= hexdig n /\ (hexdig n <= 57 \/ 97 <= hexdig n).
Proof. unfold hexdig. destruct (N.ltb_spec n 10); lia. Qed.

Lemma unhexdig_hexdig n : n < 16 -> unhexdig (hexdig n) = n.
Proof.
  intros H. unfold hexdig, unhexdig. destruct (N.ltb_spec n 10).
  - replace (N.leb 48 (48 + n) && N.leb (48 + n) 57) with true by lia. lia.
  - replace (N.leb 48 (87 + n) && N.leb (87 + n) 57) with false by lia.
    replace (N.leb 97 (87 + n) && N.leb (87 + n) 102) with true by lia. lia.
Qed.

Lemma str_of_hex_of_str s : bytes_ok s -> str_of_hex (hex_of_str s) = s.
Proof.
  induction s as [|c s IH]; intros Hok; [reflexivity|].
  cbn [hex_of_str str_of_hex].
  assert (Hc : c < 256) by (apply Hok; left; reflexivity).
  rewrite !unhexdig_hexdig by lia.
  rewrite IH by (intros x Hx; apply Hok; right; exact Hx). f_equal. lia.
Qed.

Lemma hex_of_str_chars s c : In c (hex_of_str s) -> c <> 58 /\ c <> 59.
Proof.
  induction s as [|x s IH]; [intros []|]. cbn [hex_of_str In].
  intros [<-|[<-|H]]; [| |exact (IH H)].
  - pose proof (hexdig_range (x / 16)). lia.
  - pose proof (hexdig_range (x mod 16)). lia.
Qed.

Lemma has_prefix_nil s : has_prefix s [] = true.
Proof. destruct s; reflexivity. Qed.

Lemma split_fuel_item : forall i rest f cur, ~ In 59 i ->
  split_fuel (length i + S f) (i ++ 59 :: rest) [59] cur = (rev cur ++ i) :: split_fuel f rest [59] [].
Proof.
  induction i as [|x i IH]; intros rest f cur H.
  - cbn [length Nat.add app split_fuel has_prefix]. rewrite N.eqb_refl, has_prefix_nil. cbn [andb skipn length].
    rewrite app_nil_r. reflexivity.
  - cbn [length Nat.add app split_fuel has_prefix]. rewrite has_prefix_nil.
    destruct (N.eqb_spec x 59) as [->|Hx]; [exfalso; apply H; left; reflexivity|].
    cbn [andb]. rewrite IH by (intros Hin; apply H; right; exact Hin).
    cbn [rev]. rewrite <- app_assoc. reflexivity.
Qed.

Lemma split_items : forall items, Forall (fun i => ~ In 59 i) items ->
  forall f, split_fuel (length (concat (map (fun i => i ++ [59]) items)) + S f)
                       (concat (map (fun i => i ++ [59]) items)) [59] [] = items ++ [[]].
Proof.
  induction 1 as [|i items Hi _ IH]; intros f; [reflexivity|].
  cbn [map concat]. rewrite <- app_assoc. cbn [app].
  rewrite app_length. cbn [length]. rewrite <- Nat.add_assoc. cbn [Nat.add].
  rewrite split_fuel_item by exact Hi. cbn [rev app]. rewrite IH. reflexivity.
Qed.

Definition pack_pair (p : str * str) : str := hex_of_str (fst p) ++ [58] ++ hex_of_str (snd p).
Definition unpack_pair (p : str) : str * str :=
  match cut_byte p 58 with
  | (a, Some b) => (str_of_hex a, str_of_hex b)
  | (a, None) => (str_of_hex a, [])
  end.

Lemma unpack_pack p : bytes_ok (fst p) -> bytes_ok (snd p) -> unpack_pair (pack_pair p) = p.
Proof.
  intros Ha Hb. unfold unpack_pair, pack_pair. cbn [app].
  rewrite cut_byte_app by (intros Hin; apply hex_of_str_chars in Hin; lia).
  rewrite !str_of_hex_of_str by assumption. destruct p; reflexivity.
Qed.

Lemma pack_no_semicolon p : ~ In 59 (pack_pair p).
Proof.
  unfold pack_pair. intros Hin. apply in_app_or in Hin. destruct Hin as [Hin|[Hin|Hin]];
    [apply hex_of_str_chars in Hin; lia|discriminate Hin|apply hex_of_str_chars in Hin; lia].
Qed.

Lemma unpack_packed ps : Forall (fun p : str * str => bytes_ok (fst p) /\ bytes_ok (snd p)) ps ->
  map unpack_pair (removelast (split (concat (map (fun p => pack_pair p ++ [59]) ps)) [59])) = ps.
Proof.
  intros Hok. unfold split.
  replace (concat (map (fun p => pack_pair p ++ [59]) ps))
    with (concat (map (fun i => i ++ [59]) (map pack_pair ps))) by (rewrite map_map; reflexivity).
  rewrite <- (Nat.add_1_r (length _)).
  rewrite split_items.
  - rewrite removelast_last, map_map. rewrite <- (map_id ps) at 2. apply map_ext_in.
    intros p Hp. rewrite Forall_forall in Hok. apply unpack_pack; apply (Hok p Hp).
  - apply Forall_forall. intros i Hi. apply in_map_iff in Hi. destruct Hi as (p & <- & _).
    apply pack_no_semicolon.
Qed.

Lemma Forall_insert_by {A} (key : A -> str) (P : A -> Prop) x : forall l,
  P x -> Forall P l -> Forall P (insert_by key x l).
Proof.
  induction l as [|y l IH]; intros Hx Hl; [repeat constructor; exact Hx|].
  cbn [insert_by]. inversion Hl; subst.
  destruct (str_ltb (key x) (key y)); constructor; auto.
Qed.

Lemma Forall_sort_by {A} (key : A -> str) (P : A -> Prop) l : Forall P l -> Forall P (sort_by key l).
Proof.
  induction 1 as [|x l Hx _ IH]; [constructor|]. cbn [sort_by fold_right].
  apply Forall_insert_by; assumption.
Qed.

Section ValueTexts.
  Variable orc : oracles.

  (* what is asked of a value of kind k: nothing for booleans and integers;
     string kinds: bytes; floats / durations: the oracle's text is plain *)
  Definition kind_value_ok (k : kind) (v : value) : Prop :=
    match k, v with
    | (KString | KComp | KCustom), VStr s => bytes_ok s
    | KFloat _, VFloat c => plain_text c
    | KDuration, VInt z => forall t, find_durfmt (or_durfmt orc) z = Some t -> plain_text t
    | _, _ => True
    end.

  Lemma bytes_ok_rev s : bytes_ok s -> bytes_ok (rev s).
  Proof. intros H c Hc. apply H. apply in_rev. exact Hc. Qed.

  Lemma to_string_kind_text b k v t e :
    to_string_kind orc b k v = Ok (t, e) -> kind_value_ok k v ->
    if kind_is_string k then bytes_ok t else plain_text t.
  Proof.
    unfold to_string_kind.
    destruct k as [|i|bits| | | |]; destruct v as [bv|z|s|c|p|nl l|nl l|nl fl]; try discriminate;
      cbn [kind_value_ok kind_is_string].
    - intros [= <- <-] _. destruct bv; apply graphic_plain;
        [change (s2l "true") with [116; 114; 117; 101] | change (s2l "false") with [102; 97; 108; 115; 101]];
        repeat constructor; unfold graphic; lia.
    - destruct (get_base b) as [base|er]; [|intros [= <- <-] _; apply plain_text_nil].
      destruct (format_int z (if (base =? 0)%Z then 10%Z else base)) as [u|] eqn:E.
      + intros [= <- <-] _. exact (format_int_plain _ _ _ E).
      + intros [= <- <-] _. apply plain_text_nil.
    - intros [= <- <-] H. exact H.
    - intros [= <- <-] H. exact H.
    - destruct (find_durfmt (or_durfmt orc) z) as [u|] eqn:E; [|discriminate].
      intros [= <- <-] H. exact (H u eq_refl).
    - intros [= <- <-] H. apply bytes_ok_rev, H.
    - intros [= <- <-] H. exact H.
  Qed.

  (* element types (of scalars, pointers and slice elements) *)
  Definition elem_type (t : vtype) : bool := match t with TScalar _ | TPtr _ => true | _ => false end.
  Definition elem_value_ok (t : vtype) (v : value) : Prop :=
    match t, v with
    | TScalar k, _ => kind_value_ok k v
    | TPtr k, VPtr (Some x) => kind_value_ok k x
    | _, _ => True
    end.

  Lemma cts_text o t v tx : elem_type t = true ->
    cts orc o t v = Ok tx -> elem_value_ok t v ->
    if write_kind_is_string t then bytes_ok tx else plain_text tx.
  Proof.
    intros Het. unfold cts, bind.
    destruct (convert_to_string orc (o_base o) t v) as [[tx' e]| |] eqn:E; try discriminate.
    cbn [fst]. intros [= <-]. destruct t as [k|k| | |]; try discriminate Het; cbn [write_kind_is_string elem_value_ok].
    - cbn [convert_to_string] in E. intros H. exact (to_string_kind_text _ _ _ _ _ E H).
    - assert (Hnil : if kind_is_string k then bytes_ok (@nil N) else plain_text []).
      { destruct (kind_is_string k); [intros c []|apply plain_text_nil]. }
      destruct v as [bv|z|s|c|p|nl l|nl l|nl fl];
        try (destruct k; discriminate E).
      destruct p as [x|].
      + intros H. apply (to_string_kind_text (o_base o) k x tx' e); [|exact H].
        destruct k; exact E.
      + intros _. destruct k; try discriminate E; injection E as <- <-; exact Hnil.
  Qed.

  Lemma cts_text_ok o t v tx fq : elem_type t = true ->
    cts orc o t v = Ok tx -> elem_value_ok t v -> text_ok (write_kind_is_string t) fq [] tx.
  Proof.
    intros Het E H. pose proof (cts_text o t v tx Het E H) as Ht.
    destruct (write_kind_is_string t).
    - apply string_text_ok; [left; reflexivity|exact Ht].
    - apply plain_text_ok; [left; reflexivity|exact Ht].
  Qed.

  Lemma texts_list_ok o e fq : elem_type e = true -> forall l ts,
    texts_list (cts orc o e) l = Ok ts -> Forall (elem_value_ok e) l ->
    Forall (fun t => text_ok (write_kind_is_string e) fq [] t) ts.
  Proof.
    intros Het. induction l as [|x l IH]; intros ts H Hl.
    - injection H as <-. constructor.
    - cbn [texts_list] in H. unfold bind in H.
      destruct (cts orc o e x) as [a| |] eqn:Ea; try discriminate H.
      destruct (texts_list (cts orc o e) l) as [b| |] eqn:Eb; try discriminate H.
      injection H as <-. inversion Hl; subst. constructor.
      + apply (cts_text_ok o e x a fq Het Ea). assumption.
      + apply IH; [reflexivity|assumption].
  Qed.

  (* ---- maps: the (key text, value text) pairs, in the order of the map *)
  Fixpoint pair_texts (o : opt) (k vk : kind) (l : list (value * value)) : res (list (str * str)) :=
    match l with
    | [] => Ok []
    | kv :: l' =>
      bind (cts orc o (TScalar k) (fst kv)) (fun ka =>
      bind (cts orc o (TScalar vk) (snd kv)) (fun vb =>
      bind (pair_texts o k vk l') (fun ps => Ok ((ka, vb) :: ps))))
    end.

  (* map_pairs = the pair texts, hex-packed, unpacked again, sorted by key (all results) *)
  Lemma map_pairs_texts o k vk l :
    map_pairs orc o k vk l =
    bind (pair_texts o k vk l) (fun ps =>
      Ok (sort_by (fun kv : str * str => fst kv)
                  (map unpack_pair (removelast (split (concat (map (fun p => pack_pair p ++ [59]) ps)) [59]))))).
  Proof.
    unfold map_pairs.
    match goal with |- bind (write_list ?F _) _ = _ => set (f := F) end.
    assert (H : write_list f (map (fun kv : value * value => VSlice false [fst kv; snd kv]) l)
                = rmap (fun ps => concat (map (fun p => pack_pair p ++ [59]) ps)) (pair_texts o k vk l)).
    { induction l as [|kv l IH]; [reflexivity|].
      cbn [map write_list pair_texts]. rewrite IH. unfold f at 1. unfold rmap, bind.
      destruct (cts orc o (TScalar k) (fst kv)); try reflexivity.
      destruct (cts orc o (TScalar vk) (snd kv)); try reflexivity.
      destruct (pair_texts o k vk l); try reflexivity.
      cbn [map concat fst snd]. unfold pack_pair. cbn [fst snd]. rewrite <- !app_assoc. reflexivity. }
    rewrite H. unfold rmap, bind. destruct (pair_texts o k vk l); reflexivity.
  Qed.

  (* one entry per map pair, sorted by the key text *)
  Theorem C12_map_pairs : forall o k vk l ps,
    pair_texts o k vk l = Ok ps ->
    Forall (fun p : str * str => bytes_ok (fst p) /\ bytes_ok (snd p)) ps ->
    map_pairs orc o k vk l = Ok (sort_by (fun kv : str * str => fst kv) ps).
  Proof.
    intros o k vk l ps H Hok. rewrite map_pairs_texts, H, bind_ok, unpack_packed by exact Hok. reflexivity.
  Qed.

  (* map keys: string-kind keys must not start with white space or a double quote
     and must not contain a newline (they are written unquoted) *)
  Definition key_value_ok (k : kind) (v : value) : Prop :=
    match k, v with
    | (KString | KComp), VStr s => bytes_ok s /\ key_text_ok s
    | KCustom, VStr s => bytes_ok s /\ key_text_ok (rev s)
    | _, _ => kind_value_ok k v
    end.

  Lemma plain_text_bytes t : plain_text t -> bytes_ok t.
  Proof. intros H. apply H. Qed.

  Lemma kind_text_bytes b k v t e :
    to_string_kind orc b k v = Ok (t, e) -> kind_value_ok k v -> bytes_ok t.
  Proof.
    intros H Hv. pose proof (to_string_kind_text b k v t e H Hv) as Ht.
    destruct (kind_is_string k); [exact Ht|apply Ht].
  Qed.

  Lemma key_text b k v t e :
    to_string_kind orc b k v = Ok (t, e) -> key_value_ok k v -> bytes_ok t /\ key_text_ok t.
  Proof.
    intros H Hv.
    assert (Hgen : kind_is_string k = false -> kind_value_ok k v -> bytes_ok t /\ key_text_ok t).
    { intros Hs Hk. pose proof (to_string_kind_text b k v t e H Hk) as Ht. rewrite Hs in Ht.
      split; [apply Ht|apply plain_text_key, Ht]. }
    destruct k as [|i|bits| | | |]; try (apply Hgen; [reflexivity|exact Hv]);
      destruct v as [bv|z|s|c|p|nl l|nl l|nl fl]; try discriminate H;
      cbn [key_value_ok to_string_kind] in *; injection H as <- <-.
    - exact Hv.
    - split; [apply bytes_ok_rev, Hv|apply Hv].
    - exact Hv.
  Qed.

  Lemma pair_texts_ok o k vk fq : forall l ps,
    pair_texts o k vk l = Ok ps ->
    Forall (fun kv : value * value => key_value_ok k (fst kv) /\ kind_value_ok vk (snd kv)) l ->
    Forall (fun p : str * str => bytes_ok (fst p) /\ bytes_ok (snd p)) ps /\
    Forall (fun p : str * str => text_ok (kind_is_string vk) fq (fst p) (snd p)) ps.
  Proof.
    induction l as [|kv l IH]; intros ps H Hl.
    - injection H as <-. split; constructor.
    - cbn [pair_texts] in H. unfold bind at 1 2 3 in H.
      destruct (cts orc o (TScalar k) (fst kv)) as [ka| |] eqn:Ea; try discriminate H.
      destruct (cts orc o (TScalar vk) (snd kv)) as [vb| |] eqn:Eb; try discriminate H.
      destruct (pair_texts o k vk l) as [ps'| |] eqn:Ep; try discriminate H.
      injection H as <-. inversion Hl as [|? ? [Hk Hv] Hl']; subst.
      destruct (IH ps' eq_refl Hl') as [IH1 IH2].
      unfold cts, bind in Ea, Eb. cbn [convert_to_string] in Ea, Eb.
      destruct (to_string_kind orc (o_base o) k (fst kv)) as [[ta ea]| |] eqn:Ta; try discriminate Ea.
      destruct (to_string_kind orc (o_base o) vk (snd kv)) as [[tb eb]| |] eqn:Tb; try discriminate Eb.
      cbn [fst] in Ea, Eb. injection Ea as <-. injection Eb as <-.
      destruct (key_text _ _ _ _ _ Ta Hk) as [Hkb Hkt].
      pose proof (to_string_kind_text _ _ _ _ _ Tb Hv) as Hvt.
      split; constructor; try assumption; cbn [fst snd].
      + split; [exact Hkb|exact (kind_text_bytes _ _ _ _ _ Tb Hv)].
      + destruct (kind_is_string vk); [apply string_text_ok|apply plain_text_ok]; assumption.
  Qed.

  (* condition on the current value of an option (scalar, pointer, slice or map) *)
  Definition opt_value_ok (o : opt) (r : rt) : Prop :=
    match o_ty o, rt_vals r (o_fid o) with
    | TSlice e, VSlice _ l => elem_type e = true /\ Forall (elem_value_ok e) l
    | TSlice _, _ => False
    | TMap k vk, VMap _ l =>
      Forall (fun kv : value * value => key_value_ok k (fst kv) /\ kind_value_ok vk (snd kv)) l
    | TMap _ _, _ => False
    | t, v => elem_value_ok t v
    end.

  (* the text condition of opt_ok follows from the condition on the value *)
  Theorem C12_value_texts_ok : forall o r kvs,
    opt_value_ok o r ->
    opt_value_texts orc o r = Ok (Some kvs) ->
    Forall (fun kv : str * str =>
              text_ok (write_kind_is_string (o_ty o)) (f_iniquote (rt_fl r (o_fid o))) (fst kv) (snd kv)) kvs.
  Proof.
    intros o r kvs. unfold opt_value_ok, opt_value_texts. set (fq := f_iniquote (rt_fl r (o_fid o))).
    assert (Hscalar : forall t, elem_type t = true -> elem_value_ok t (rt_vals r (o_fid o)) ->
              rmap (fun tx => Some [([] : str, tx)]) (cts orc o t (rt_vals r (o_fid o))) = Ok (Some kvs) ->
              Forall (fun kv : str * str => text_ok (write_kind_is_string t) fq (fst kv) (snd kv)) kvs).
    { intros t Het Hv H. unfold rmap, bind in H.
      destruct (cts orc o t (rt_vals r (o_fid o))) as [tx| |] eqn:E; try discriminate H.
      injection H as <-. constructor; [|constructor]. cbn [fst snd].
      exact (cts_text_ok o t _ tx fq Het E Hv). }
    destruct (o_ty o) as [k|k|e|k vk|a b].
    - intros Hv. apply Hscalar; [reflexivity|exact Hv].
    - destruct (rt_vals r (o_fid o)) as [| | | |p| | |] eqn:Ev; try (intros Hv; apply Hscalar; [reflexivity|exact Hv]).
      destruct p; [intros Hv; apply Hscalar; [reflexivity|exact Hv]|]. intros _ H. discriminate H.
    - destruct (rt_vals r (o_fid o)) as [| | | | |nl l| |] eqn:Ev; try (intros Hf; destruct Hf; fail).
      intros [Het Hl]. destruct l as [|x l]; [intros H; discriminate H|].
      intros H. unfold rmap, bind in H.
      destruct (texts_list (cts orc o e) (x :: l)) as [ts| |] eqn:E; try discriminate H.
      injection H as <-. pose proof (texts_list_ok o e fq Het _ _ E Hl) as Hts.
      apply Forall_forall. intros kv Hkv. apply in_map_iff in Hkv. destruct Hkv as (t & <- & Hin).
      rewrite Forall_forall in Hts. cbn [fst snd write_kind_is_string].
      destruct e; try discriminate Het; apply Hts, Hin.
    - destruct (rt_vals r (o_fid o)) as [| | | | | |nl l|] eqn:Ev; try (intros Hf; destruct Hf; fail).
      intros Hl. destruct l as [|x l]; [intros H; discriminate H|].
      intros H. unfold rmap, bind in H.
      destruct (map_pairs orc o k vk (x :: l)) as [ps| |] eqn:E; try discriminate H.
      injection H as <-. rewrite map_pairs_texts in E. unfold bind in E.
      destruct (pair_texts o k vk (x :: l)) as [ps0| |] eqn:Ep; try discriminate E.
      destruct (pair_texts_ok o k vk fq _ _ Ep Hl) as [Hb Ht].
      rewrite unpack_packed in E by exact Hb. injection E as <-.
      cbn [write_kind_is_string]. apply Forall_sort_by. exact Ht.
    - intros _ H. unfold rmap, bind in H. unfold cts, bind in H. cbn [convert_to_string] in H.
      injection H as <-. constructor; [|constructor]. cbn [fst snd write_kind_is_string].
      apply plain_text_ok; [left; reflexivity|apply plain_text_nil].
  Qed.
End ValueTexts.

(* section names of nested commands / groups *)
Lemma section_name_join a b : section_name_ok a -> section_name_ok b -> section_name_ok (a ++ [46] ++ b).
Proof.
  intros (Ha & Hat & Ha10) (Hb & Hbt & Hb10). change (a ++ [46] ++ b) with (a ++ 46 :: b). split; [|split].
  - destruct a; [congruence|discriminate].
  - apply trim_space_fix_iff in Hat, Hbt. apply trim_space_fix_iff. split.
    + unfold lead_ok. rewrite decode_app_ascii by (assumption || lia). apply Hat.
    + unfold trail_ok. rewrite decode_last_after_ascii by (assumption || lia). apply Hbt.
  - intros Hin. apply in_app_or in Hin. destruct Hin as [Hin|[Hin|Hin]]; [exact (Ha10 Hin)|discriminate Hin|exact (Hb10 Hin)].
Qed.

(* ====================================================================== *)
(* Part 5: corollaries                                                    *)
(* ====================================================================== *)

(* the line number of an entry is the 1-based index of its line in the document,
   and the document has exactly one physical line per wline *)
Lemma doc_entries_lines : forall doc n cur s e,
  In (s, e) (doc_entries doc n cur) ->
  exists i l, nth_error doc i = Some l /\ ie_line e = n + N.of_nat i + 1 /\
              wline_entry l = Some (ie_name e, ie_value e, ie_quoted e).
Proof.
  induction doc as [|l doc IH]; intros n cur s e Hin; [destruct Hin|].
  cbn [doc_entries] in Hin.
  assert (Htail : forall cur', In (s, e) (doc_entries doc (n + 1) cur') ->
            exists i l0, nth_error (l :: doc) i = Some l0 /\ ie_line e = n + N.of_nat i + 1 /\
                         wline_entry l0 = Some (ie_name e, ie_value e, ie_quoted e)).
  { intros cur' H. destruct (IH _ _ _ _ H) as (i & l0 & Hn & Hl & He).
    exists (S i), l0. split; [exact Hn|]. split; [lia|exact He]. }
  destruct l as [nm|nm iss k v c f|t|]; try (eapply Htail; exact Hin).
  destruct (wline_entry (WEntry nm iss k v c f)) as [[[en ev] eq]|] eqn:E; [|eapply Htail; exact Hin].
  destruct Hin as [Hin|Hin]; [|eapply Htail; exact Hin].
  injection Hin as <- <-. exists O, (WEntry nm iss k v c f). cbn [nth_error ie_line ie_name ie_value ie_quoted].
  split; [reflexivity|]. split; [lia|exact E].
Qed.

Theorem C12_rendered_line_numbers : forall doc s es e,
  Forall wline_ok doc -> In (s, es) (doc_file doc) -> In e es ->
  length (ini_lines (concat (map render_wline doc))) = length doc /\
  exists i l, nth_error doc i = Some l /\ ie_line e = N.of_nat i + 1 /\
              wline_entry l = Some (ie_name e, ie_value e, ie_quoted e).
Proof.
  intros doc s es e Hok Hin He. split.
  - fold (render_doc doc). rewrite ini_lines_doc, map_length; [reflexivity|].
    eapply Forall_impl; [|exact Hok]. intros l Hl. apply wline_ok_line, Hl.
  - unfold doc_file, file_of in Hin. apply in_map_iff in Hin. destruct Hin as (s' & [= <- <-] & _).
    unfold entries_of in He. apply in_map_iff in He. destruct He as ([s'' e'] & <- & He).
    apply filter_In in He. destruct He as [He _].
    destruct (doc_entries_lines _ _ _ _ _ He) as (i & l & Hn & Hl & Hw).
    exists i, l. split; [exact Hn|]. split; [cbn [snd]; lia|exact Hw].
Qed.

Section RoundTripValues.
  Variable orc : oracles.
  Variable incd comd incc : bool.

  (* conditions on a declared option and its current value only *)
  Definition opt_decl_ok (o : opt) (r : rt) : Prop :=
    opt_writable o = true ->
    ini_name_ok (option_ini_name o (rt_fl r (o_fid o))) /\
    ~ In 10 (option_ini_name o (rt_fl r (o_fid o))) /\
    (incc = true -> ~ In 10 (o_desc o)) /\
    opt_value_ok orc o r.

  Lemma opt_decl_ok_opt_ok o r : opt_decl_ok o r -> opt_ok orc incd incc o r.
  Proof.
    intros H Hw isdef _ _. destruct (H Hw) as (H1 & H2 & H3 & H4). cbv zeta.
    split; [exact H1|]. split; [exact H2|]. split; [exact H3|].
    intros kvs Hk. exact (C12_value_texts_ok orc o r kvs H4 Hk).
  Qed.

  (* Target 3, with all hypotheses on the declarations (root) and the values (r) *)
  Corollary C12_file_roundtrip_values : forall root r text,
    write_ini orc incd comd incc root r = Ok text ->
    section_names_ok orc incd comd incc (ini_groups_own root) r ->
    (forall sn g o, In (sn, g) (ini_groups root) -> In o (grp_opts g) -> opt_decl_ok o r) ->
    exists file,
      read_ini text = Ok file /\
      text = render_doc (ini_doc orc incd comd incc root r) /\
      file = doc_file (ini_doc orc incd comd incc root r) /\
      map fst file = uniq ([] :: map fst (filter (fun p : str * group => group_any orc incd comd incc (snd p) r)
                                                 (ini_groups root))) /\
      forall s es, In (s, es) file ->
        map forget_entry es =
        flat_map (fun p : str * group =>
                    if str_eqb (fst p) s
                    then flat_map (fun o => opt_entries orc incd comd incc o r) (grp_opts (snd p)) else [])
                 (ini_groups root).
  Proof.
    intros root r text Hw Hsec Hopt. apply C12_file_roundtrip; [exact Hw|exact Hsec|].
    intros sn g o Hg Ho. apply opt_decl_ok_opt_ok. exact (Hopt sn g o Hg Ho).
  Qed.
End RoundTripValues.

(* ====================================================================== *)
(* Examples: the hypotheses are satisfiable; the statements compute        *)
(* ====================================================================== *)
Definition lines_text (ls : list String.string) : str := concat (map (fun l => s2l l ++ [10]) ls).

Definition mkopt (fid : nat) (field : str) (desc : str) (ty : vtype) : opt :=
  {| o_fid := fid; o_field := field; o_short := 0; o_long := field; o_desc := desc; o_default := [];
     o_envkey := []; o_envdelim := []; o_optional := false; o_optval := []; o_required := false;
     o_valname := []; o_mask := []; o_choices := []; o_hidden := false; o_ininame := []; o_noini := false;
     o_unquote := false; o_base := []; o_ty := ty; o_is_help := false |}.
Definition mkg (short : str) (opts : list opt) (subs : list group) : group :=
  Group {| g_short := short; g_long := []; g_ns := []; g_envns := []; g_hidden := false; g_builtin_help := false |}
        opts subs.
Definition mkc (name : str) (g : group) (subs : list command) : command :=
  Command {| c_name := name; c_aliases := []; c_sub_optional := false; c_args_required := false;
             c_hidden := false; c_exec := ExNone; c_usage := None; c_has_help := false |} g [] subs.

(* a parser with one option group, a sub-command with a nested group; a string that
   needs quoting, a slice, two maps (int and string values), a bool, an int, a *int8 *)
Definition ex_root : command :=
  mkc (s2l "app")
      (mkg (s2l "Application Options") []
           [mkg (s2l "Main")
                [mkopt 0 (s2l "Name") (s2l "the name") (TScalar KString);
                 mkopt 1 (s2l "Tags") [] (TSlice (TScalar KString));
                 mkopt 2 (s2l "Env") [] (TMap KString (KInt I0));
                 mkopt 3 (s2l "Labels") [] (TMap KString KString);
                 mkopt 4 (s2l "Verbose") [] (TScalar KBool)] []])
      [mkc (s2l "add") (mkg (s2l "Add Options") [mkopt 5 (s2l "Count") [] (TScalar (KInt I0))]
                            [mkg (s2l "Extra") [mkopt 6 (s2l "Level") [] (TPtr (KInt I8))] []]) []].
Definition ex_vals (fid : nat) : value :=
  match fid with
  | 0%nat => VStr (s2l " hello ""w"" ")
  | 1%nat => VSlice false [VStr (s2l "a"); VStr (s2l "b c ")]
  | 2%nat => VMap false [(VStr (s2l "z"), VInt 1); (VStr (s2l "a"), VInt (-2))]
  | 3%nat => VMap false [(VStr (s2l "k"), VStr (s2l "v w "))]
  | 5%nat => VInt 42
  | 6%nat => VPtr (Some (VInt (-7)))
  | _ => VBool false
  end.
Definition ex_rt : rt := {| rt_vals := ex_vals; rt_fl := fun _ => oflags0; rt_active := []; rt_logs := logs0 |}.
Definition ex_orc : oracles := {| or_float := []; or_dur := []; or_durfmt := [] |}.

Definition ex_text_full : str := lines_text
  ["[Main]";
   "; the name";
   "Name = "" hello \""w\"" """;
   "";
   "Tags = a";
   "Tags = ""b c """;
   "";
   "Env = a:-2";
   "Env = z:1";
   "";
   "Labels = k:""v w """;
   "";
   "; Verbose = false";
   "";
   "[add]";
   "Count = 42";
   "";
   "[add.Extra]";
   "Level = -7";
   ""]%string.

Definition ex_text_bare : str := lines_text
  ["[Main]";
   "Name = "" hello \""w\"" """;
   "Tags = a";
   "Tags = ""b c """;
   "Env = a:-2";
   "Env = z:1";
   "Labels = k:""v w """;
   "";
   "[add]";
   "Count = 42";
   "";
   "[add.Extra]";
   "Level = -7";
   ""]%string.

Definition ent (n v : String.string) (q : bool) (line : N) : ini_entry :=
  {| ie_name := s2l n; ie_value := s2l v; ie_quoted := q; ie_line := line |}.

(* include defaults, comment defaults, include comments *)
Example ex_write_full : write_ini ex_orc true true true ex_root ex_rt = Ok ex_text_full.
Proof. vm_compute. reflexivity. Qed.
Example ex_read_full : read_ini ex_text_full = Ok
  [([], []);
   (s2l "Main", [ent "Name" " hello ""w"" " true 3; ent "Tags" "a" false 5; ent "Tags" "b c " true 6;
                 ent "Env" "a:-2" false 8; ent "Env" "z:1" false 9; ent "Labels" "k:""v w """ false 11]);
   (s2l "add", [ent "Count" "42" false 16]);
   (s2l "add.Extra", [ent "Level" "-7" false 19])]%string.
Proof. vm_compute. reflexivity. Qed.

(* no defaults, no comments *)
Example ex_write_bare : write_ini ex_orc false false false ex_root ex_rt = Ok ex_text_bare.
Proof. vm_compute. reflexivity. Qed.
Example ex_read_bare : read_ini ex_text_bare = Ok
  [([], []);
   (s2l "Main", [ent "Name" " hello ""w"" " true 2; ent "Tags" "a" false 3; ent "Tags" "b c " true 4;
                 ent "Env" "a:-2" false 5; ent "Env" "z:1" false 6; ent "Labels" "k:""v w """ false 7]);
   (s2l "add", [ent "Count" "42" false 10]);
   (s2l "add.Extra", [ent "Level" "-7" false 13])]%string.
Proof. vm_compute. reflexivity. Qed.

(* the structured document of the first text *)
Example ex_doc_full : doc_of_ini ex_orc true true true ex_root ex_rt = Ok
  [WSection (s2l "Main");
   WComment (s2l "the name");
   WEntry (s2l "Name") true [] (s2l " hello ""w"" ") false false; WBlank;
   WEntry (s2l "Tags") true [] (s2l "a") false false;
   WEntry (s2l "Tags") true [] (s2l "b c ") false false; WBlank;
   WEntry (s2l "Env") false (s2l "a") (s2l "-2") false false;
   WEntry (s2l "Env") false (s2l "z") (s2l "1") false false; WBlank;
   WEntry (s2l "Labels") true (s2l "k") (s2l "v w ") false false; WBlank;
   WEntry (s2l "Verbose") false [] (s2l "false") true false; WBlank;
   WSection (s2l "add");
   WEntry (s2l "Count") false [] (s2l "42") false false; WBlank;
   WSection (s2l "add.Extra");
   WEntry (s2l "Level") false [] (s2l "-7") false false; WBlank].
Proof. vm_compute. reflexivity. Qed.

(* ---- the hypotheses of C12_file_roundtrip_values hold for this instance *)
Ltac bytes_ok_tac :=
  let c := fresh in let H := fresh in
  intros c H; cbv in H; repeat (destruct H as [<-|H]; [lia|]); destruct H.

Ltac key_ok_tac := split; [bytes_ok_tac | right; repeat apply conj; closed_check].

Example ex_sections_ok : forall incd comd incc sn g,
  In (sn, g) (ini_groups ex_root) -> group_any ex_orc incd comd incc g ex_rt = true -> section_name_ok sn.
Proof.
  intros incd comd incc sn g Hin Hany. vm_compute in Hin.
  destruct Hin as [Hin|[Hin|[Hin|[Hin|[]]]]]; injection Hin as <- <-.
  - exfalso. revert Hany. destruct incd, comd, incc; vm_compute; discriminate.
  - unfold section_name_ok. repeat apply conj; closed_check.
  - unfold section_name_ok. repeat apply conj; closed_check.
  - unfold section_name_ok. repeat apply conj; closed_check.
Qed.

Example ex_opts_ok : forall incc sn g o,
  In (sn, g) (ini_groups ex_root) -> In o (grp_opts g) -> opt_decl_ok ex_orc incc o ex_rt.
Proof.
  intros incc sn g o Hin Ho. vm_compute in Hin.
  destruct Hin as [Hin|[Hin|[Hin|[Hin|[]]]]]; injection Hin as <- <-; cbn [grp_opts mkg] in Ho.
  - destruct Ho.
  - destruct Ho as [<-|[<-|[<-|[<-|[<-|[]]]]]]; intros _;
      (split; [unfold ini_name_ok; repeat apply conj; closed_check|]);
      (split; [closed_check|]); (split; [intros _; closed_check|]).
    + cbv [opt_value_ok o_ty mkopt rt_vals ex_rt ex_vals o_fid elem_value_ok kind_value_ok]. bytes_ok_tac.
    + cbv [opt_value_ok o_ty mkopt rt_vals ex_rt ex_vals o_fid]. split; [reflexivity|].
      constructor; [cbv [elem_value_ok kind_value_ok]; bytes_ok_tac|].
      constructor; [cbv [elem_value_ok kind_value_ok]; bytes_ok_tac|constructor].
    + cbv [opt_value_ok o_ty mkopt rt_vals ex_rt ex_vals o_fid].
      constructor; [cbv [fst snd key_value_ok kind_value_ok]; split; [key_ok_tac|exact I]|].
      constructor; [cbv [fst snd key_value_ok kind_value_ok]; split; [key_ok_tac|exact I]|constructor].
    + cbv [opt_value_ok o_ty mkopt rt_vals ex_rt ex_vals o_fid].
      constructor; [cbv [fst snd key_value_ok kind_value_ok]; split; [key_ok_tac|bytes_ok_tac]|constructor].
    + exact I.
  - destruct Ho as [<-|[]]. intros _.
    (split; [unfold ini_name_ok; repeat apply conj; closed_check|]);
      (split; [closed_check|]); (split; [intros _; closed_check|]). exact I.
  - destruct Ho as [<-|[]]. intros _.
    (split; [unfold ini_name_ok; repeat apply conj; closed_check|]);
      (split; [closed_check|]); (split; [intros _; closed_check|]). exact I.
Qed.

(* so the theorem applies, for every combination of write options *)
Example ex_roundtrip_applies : forall incd comd incc text,
  write_ini ex_orc incd comd incc ex_root ex_rt = Ok text ->
  read_ini text = Ok (doc_file (ini_doc ex_orc incd comd incc ex_root ex_rt)).
Proof.
  intros incd comd incc text Hw.
  destruct (C12_file_roundtrip_values ex_orc incd comd incc ex_root ex_rt text Hw
              (section_names_ok_all_root _ _ _ _ _ _ (ex_sections_ok incd comd incc)) (ex_opts_ok incc))
    as (file & Hr & _ & -> & _).
  exact Hr.
Qed.

(* ---- C12_read_rendered: a document with a repeated section *)
Definition ex_doc_repeat : list wline :=
  [WEntry (s2l "g") false [] (s2l "0") false false;
   WSection (s2l "a"); WEntry (s2l "x") true [] (s2l " 1") false false;
   WSection (s2l "b"); WComment (s2l "note"); WEntry (s2l "y") false (s2l "k") (s2l "2") false false;
   WSection (s2l "a"); WBlank; WEntry (s2l "z") false [] (s2l "3") true false;
   WEntry (s2l "z") false [] (s2l "4") false true].
Ltac wquoted_compute :=
  match goal with |- context [wquoted ?a ?b ?c] =>
    let v := eval vm_compute in (wquoted a b c) in change (wquoted a b c) with v end; cbv iota.
Ltac entry_ok_tac :=
  cbn [wline_ok];
  split; [unfold ini_name_ok; repeat apply conj; closed_check|];
  split; [closed_check|];
  split; [first [left; reflexivity | right; repeat apply conj; closed_check]|];
  wquoted_compute;
  first [bytes_ok_tac
        | split; [closed_check | cbn [nonempty s2l]; first [closed_check | split; closed_check]]].
Ltac commented_ok_tac :=
  cbn [wline_ok]; split; [closed_check|]; split; [closed_check|]; wquoted_compute; first [bytes_ok_tac | closed_check].
Ltac section_ok_tac := cbn [wline_ok]; repeat apply conj; closed_check.

Example ex_doc_repeat_ok : Forall wline_ok ex_doc_repeat.
Proof.
  unfold ex_doc_repeat.
  constructor; [entry_ok_tac|].
  constructor; [section_ok_tac|].
  constructor; [entry_ok_tac|].
  constructor; [section_ok_tac|].
  constructor; [cbn [wline_ok]; closed_check|].
  constructor; [entry_ok_tac|].
  constructor; [section_ok_tac|].
  constructor; [exact I|].
  constructor; [commented_ok_tac|].
  constructor; [entry_ok_tac|].
  constructor.
Qed.
(* the second [a] re-opens the first: its entries are appended there *)
Example ex_doc_repeat_file : doc_file ex_doc_repeat =
  [([], [ent "g" "0" false 1]);
   (s2l "a", [ent "x" " 1" true 3; ent "z" "4" true 10]);
   (s2l "b", [ent "y" "k:2" false 6])]%string.
Proof. vm_compute. reflexivity. Qed.
Example ex_doc_repeat_read : read_ini (concat (map render_wline ex_doc_repeat)) = Ok (doc_file ex_doc_repeat).
Proof. apply C12_read_rendered, ex_doc_repeat_ok. Qed.

(* ---- the root command's own group: written without a header, read back into the
   global section (named "") *)
Definition ex_own_root : command :=
  mkc (s2l "app") (mkg (s2l "Application Options") [mkopt 5 (s2l "Count") [] (TScalar (KInt I0))] []) [].
Example ex_own_root_write : write_ini ex_orc false false false ex_own_root ex_rt = Ok (lines_text ["Count = 42"; ""]%string).
Proof. vm_compute. reflexivity. Qed.
Example ex_own_root_read : read_ini (lines_text ["Count = 42"; ""]%string) = Ok [([], [ent "Count" "42" false 1])]%string.
Proof. vm_compute. reflexivity. Qed.
Example ex_own_root_doc : doc_of_ini ex_orc false false false ex_own_root ex_rt = Ok
  [WEntry (s2l "Count") false [] (s2l "42") false false; WBlank].
Proof. vm_compute. reflexivity. Qed.
(* own options of the root followed by a sub-command: the global section, then [add] *)
Definition ex_own_root_sub : command :=
  mkc (s2l "app") (mkg (s2l "Application Options") [mkopt 5 (s2l "Count") [] (TScalar (KInt I0))] [])
      [mkc (s2l "add") (mkg (s2l "Add Options") [mkopt 0 (s2l "Name") [] (TScalar KString)] []) []].
Example ex_own_root_sub_write : write_ini ex_orc false false false ex_own_root_sub ex_rt
  = Ok (lines_text ["Count = 42"; ""; "[add]"; "Name = "" hello \""w\"" """; ""]%string).
Proof. vm_compute. reflexivity. Qed.
Example ex_own_root_sub_read :
  read_ini (lines_text ["Count = 42"; ""; "[add]"; "Name = "" hello \""w\"" """; ""]%string)
  = Ok [([], [ent "Count" "42" false 1]); (s2l "add", [ent "Name" " hello ""w"" " true 4])]%string.
Proof. vm_compute. reflexivity. Qed.
(* the round-trip theorem applies to it (section_names_ok: the group with the empty name comes first) *)
Example ex_own_root_sub_applies : forall incd comd incc text,
  write_ini ex_orc incd comd incc ex_own_root_sub ex_rt = Ok text ->
  read_ini text = Ok (doc_file (ini_doc ex_orc incd comd incc ex_own_root_sub ex_rt)).
Proof.
  intros incd comd incc text Hw.
  assert (Hg : ini_groups ex_own_root_sub =
               [([], mkg (s2l "Application Options") [mkopt 5 (s2l "Count") [] (TScalar (KInt I0))] []);
                (s2l "add", mkg (s2l "Add Options") [mkopt 0 (s2l "Name") [] (TScalar KString)] [])])
    by (vm_compute; reflexivity).
  destruct (C12_file_roundtrip_values ex_orc incd comd incc ex_own_root_sub ex_rt text Hw) as (file & Hr & _ & -> & _).
  - apply section_names_ok_root; [reflexivity|]. rewrite Hg. cbn [tl].
    intros sn g [Hin|[]] _. injection Hin as <- <-.
    unfold section_name_ok. repeat apply conj; closed_check.
  - rewrite Hg. intros sn g o [Hin|[Hin|[]]] Ho; injection Hin as <- <-; cbn [grp_opts mkg] in Ho;
      destruct Ho as [<-|[]]; intros _;
      (split; [unfold ini_name_ok; repeat apply conj; closed_check|]);
      (split; [closed_check|]); (split; [intros _; closed_check|]).
    + exact I.
    + cbv [opt_value_ok o_ty mkopt rt_vals ex_rt ex_vals o_fid elem_value_ok kind_value_ok]. bytes_ok_tac.
  - exact Hr.
Qed.

(* ---- the hypotheses are needed *)
(* only the own group of the parser goes without a header: any other group with the empty
   section name (here a root group without a short description, following the group Main)
   is written under the header "[]", which the reader rejects: section_names_ok *)
Definition ex_late_global : command :=
  mkc (s2l "app")
      (mkg (s2l "Application Options") []
           [mkg (s2l "Main") [mkopt 0 (s2l "Name") [] (TScalar KString)] [];
            mkg [] [mkopt 5 (s2l "Count") [] (TScalar (KInt I0))] []]) [].
Example ex_late_global_groups :
  map (fun q : bool * (str * group) => (fst q, fst (snd q))) (ini_groups_own ex_late_global)
  = [(true, []); (false, s2l "Main"); (false, [])].
Proof. vm_compute. reflexivity. Qed.
Example ex_late_global_write : write_ini ex_orc false false false ex_late_global ex_rt
  = Ok (lines_text ["[Main]"; "Name = "" hello \""w\"" """; ""; "[]"; "Count = 42"; ""]%string).
Proof. vm_compute. reflexivity. Qed.
Example ex_late_global_read :
  read_ini (lines_text ["[Main]"; "Name = "" hello \""w\"" """; ""; "[]"; "Count = 42"; ""]%string)
  = Err (EIni 4 (s2l "empty section name")).
Proof. vm_compute. reflexivity. Qed.
(* a header with the empty name is rejected by the reader *)
Example ex_empty_header_read : read_ini (lines_text ["[]"; "Count = 42"; ""]%string) = Err (EIni 1 (s2l "empty section name")).
Proof. vm_compute. reflexivity. Qed.
(* a string map key starting with a space is not read back: key_text_ok *)
Example ex_bad_key :
  read_ini (render_doc [WSection (s2l "s"); WEntry (s2l "m") true (s2l " k") (s2l "v") false false])
  = Ok [([], []); (s2l "s", [ent "m" "k:v" false 2])]%string.
Proof. vm_compute. reflexivity. Qed.
(* an unquoted (non-string) text with surrounding blanks is trimmed: plain_text *)
Example ex_bad_plain :
  read_ini (render_doc [WSection (s2l "s"); WEntry (s2l "f") false [] (s2l " 1 ") false false])
  = Ok [([], []); (s2l "s", [ent "f" "1" false 2])]%string.
Proof. vm_compute. reflexivity. Qed.
(* a newline in an option name breaks the line structure: ~ In 10 name *)
Example ex_bad_name :
  read_ini (render_doc [WSection (s2l "s"); WEntry [97; 10; 98] false [] (s2l "1") false false])
  = Err (EIni 2 (s2l "malformed key=value (a)")).
Proof. vm_compute. reflexivity. Qed.

(* a ']' inside a section name is harmless *)
Example ex_section_bracket :
  read_ini (render_doc [WSection (s2l "a]b"); WEntry (s2l "x") false [] (s2l "1") false false])
  = Ok [([], []); (s2l "a]b", [ent "x" "1" false 2])]%string.
Proof. vm_compute. reflexivity. Qed.

(* C12_map_pairs on the map option of the example *)
Example ex_pair_texts :
  pair_texts ex_orc (mkopt 2 (s2l "Env") [] (TMap KString (KInt I0))) KString (KInt I0)
             [(VStr (s2l "z"), VInt 1); (VStr (s2l "a"), VInt (-2))]
  = Ok [(s2l "z", s2l "1"); (s2l "a", s2l "-2")].
Proof. vm_compute. reflexivity. Qed.
Example ex_pair_texts_bytes :
  Forall (fun p : str * str => bytes_ok (fst p) /\ bytes_ok (snd p)) [(s2l "z", s2l "1"); (s2l "a", s2l "-2")].
Proof. repeat (constructor; [split; bytes_ok_tac|]). constructor. Qed.
Example ex_map_pairs :
  map_pairs ex_orc (mkopt 2 (s2l "Env") [] (TMap KString (KInt I0))) KString (KInt I0)
            [(VStr (s2l "z"), VInt 1); (VStr (s2l "a"), VInt (-2))]
  = Ok [(s2l "a", s2l "-2"); (s2l "z", s2l "1")].
Proof. rewrite (C12_map_pairs _ _ _ _ _ _ ex_pair_texts ex_pair_texts_bytes). vm_compute. reflexivity. Qed.

(* typical float / duration oracle texts are plain *)
Example ex_plain_float : plain_text (s2l "-1.5e+06").
Proof. apply graphic_plain. change (s2l "-1.5e+06") with [45; 49; 46; 53; 101; 43; 48; 54]. repeat constructor; unfold graphic; lia. Qed.
Example ex_plain_duration : plain_text (s2l "1h0m0.5s").
Proof. apply graphic_plain. change (s2l "1h0m0.5s") with [49; 104; 48; 109; 48; 46; 53; 115]. repeat constructor; unfold graphic; lia. Qed.
Example ex_format_int : format_int (-255) 16 = Some (s2l "-ff").
Proof. vm_compute. reflexivity. Qed.

Print Assumptions C12_writer_is_lines.
Print Assumptions C12_writer_is_lines_ok.
Print Assumptions C12_read_rendered.
Print Assumptions C12_rendered_line_numbers.
Print Assumptions C12_opt_entries.
Print Assumptions C12_file_roundtrip.
Print Assumptions C12_file_roundtrip_by_name.
Print Assumptions C12_map_pairs.
Print Assumptions format_int_plain.
Print Assumptions C12_value_texts_ok.
Print Assumptions C12_file_roundtrip_values.
