(* C18 for the repaired completion walk (completion.go after the repair): the walk over
   the words before the cursor tracks the parser's state:
     - after the terminator "--" (PassDoubleDash) and after the first non-option,
       non-command word under PassAfterNonOption the walk stops, [terminated = true]:
       neither option names nor command names are offered any more;
     - [cs_ret] records that an argument was left over (the parser's retargs is not
       empty): command words no longer switch the context, no command name is offered;
     - an unknown option under IgnoreUnknown is a plain argument.
   a. C18_nothing_but_values_after_terminator
   b. C18_no_commands_after_leftover
   c. C18_walk_ret_agrees_with_parser   (extension of ContextSpec.ctx_run)
   d. C18_offered_command_is_entered *)
From GoFlags Require Import Base.Str Base.Utf8 Golib.Strings Golib.Strconv
     Model.Types Model.Tag Model.Scan Model.Lookup Model.Convert Model.State Model.Help Model.Parse
     Model.Complete Proofs.LookupSpec Proofs.FrameBase Proofs.CompleteSpec Proofs.HelpSpec Proofs.SpellSpec
     Proofs.ContextSpec.
From Coq Require Import Lia Permutation Sorted ZifyN ZifyNat ZifyBool.
Open Scope N_scope.

(* the word list [complete] works on: an empty command line is one empty word *)
Definition norm_args (args : list str) : list str := match args with [] => [[]] | _ => args end.

Lemma norm_args_app_cons : forall ws x t, norm_args (ws ++ x :: t) = ws ++ x :: t.
Proof. intros [|w ws] x t; reflexivity. Qed.

Lemma cons_app_cons : forall {A} (x : A) (l : list A) (y : A) (t : list A),
  (x :: l) ++ y :: t = x :: (l ++ y :: t).
Proof. reflexivity. Qed.

Lemma app_cons_is_cons : forall {A} (l : list A) (x : A) (t : list A), exists b t', l ++ x :: t = b :: t'.
Proof. intros A [|a l] x t; [exists x, t|exists a, (l ++ x :: t)]; reflexivity. Qed.

(* retargs is not empty, as the parser tests it (parseNonOption) *)
Definition has_ret (s : pst) : bool := nonempty (map (fun _ : str => 0) (ps_ret s)).

Lemma has_ret_false : forall s, has_ret s = false -> ps_ret s = [].
Proof. intros s. unfold has_ret. destruct (ps_ret s); [reflexivity|discriminate]. Qed.

Lemma nonempty_map_snoc : forall (l : list str) (w : str), nonempty (map (fun _ : str => 0) (l ++ [w])) = true.
Proof. intros [|x l] w; reflexivity. Qed.

Section Safe.
  Variable cfg : pconfig.
  Variable orc : oracles.
  Variable root : command.
  Variable help_text : rt -> str.

  Local Notation delim := (pc_nsdelim cfg).
  Local Notation po := (pc_opts cfg).
  Local Notation cfill := (cs_fill cfg root).
  Local Notation cwalk := (comp_walk cfg root).
  Local Notation pstep := (step cfg orc root help_text).
  Local Notation ploop := (run_loop cfg orc root help_text).

  (* ================================================================== *)
  (* 0. [complete] in terms of the result of the walk                    *)
  (* ================================================================== *)

  (* the walk [complete] performs *)
  Definition walk_of (args : list str) : cst * option octx * list str * bool :=
    cwalk (S (length (norm_args args))) (norm_args args) (cfill [] false) None.

  (* what is offered for a last word that starts an option *)
  Definition option_items (s : cst) (lastarg : str) : list (str * str) :=
    let '(prefix, islong, optname, argument) := strip_split lastarg in
    match argument, islong with
    | None, false =>
      let '(r, n) := decode_rune optname in
      let sname := encode_rune r in
      match find_last (lk_short (cs_lk s)) sname with
      | Some oc =>
        if can_argument (oc_opt oc) then complete_value (o_ty (oc_opt oc)) (prefix ++ sname) (skipn n optname)
        else complete_option_names (cs_lk s) prefix optname true
      | None => complete_option_names (cs_lk s) prefix optname true
      end
    | Some a, _ =>
      match (if islong then find_last (lk_long (cs_lk s)) optname else find_last (lk_short (cs_lk s)) optname) with
      | Some oc => complete_value (o_ty (oc_opt oc)) (prefix ++ optname ++ [61]) a
      | None => []
      end
    | None, true => complete_option_names (cs_lk s) prefix optname false
    end.

  (* the sub-command names of the walk's current command *)
  Definition command_items (s : cst) (lastarg : str) : list (str * str) :=
    match cmd_at root (cs_cmd s) with
    | Some c => complete_commands c lastarg
    | None => []
    end.

  (* the unsorted result, with the command names that may be offered as a parameter *)
  Definition complete_ret (s : cst) (opt : option octx) (terminated : bool) (lastarg : str)
             (cmds : list (str * str)) : list (str * str) :=
    match opt with
    | Some oc => complete_value (o_ty (oc_opt oc)) [] lastarg
    | None =>
      if negb terminated && starts_option lastarg then option_items s lastarg
      else match cs_pos s with
           | p :: _ => complete_value (a_ty p) [] lastarg
           | [] => cmds
           end
    end.

  Lemma complete_by_walk : forall args s opt rest terminated,
    walk_of args = (s, opt, rest, terminated) ->
    complete cfg root args =
    sort_by (fun it : str * str => fst it)
            (complete_ret s opt terminated (last rest [])
                          (if negb terminated && negb (cs_ret s) then command_items s (last rest []) else [])).
  Proof.
    intros args s opt rest terminated H.
    unfold complete. cbv zeta.
    destruct (comp_walk cfg root _ _ _ _) as [[[s0 opt0] rest0] t0] eqn:E.
    assert (E' : (s0, opt0, rest0, t0) = (s, opt, rest, terminated)) by (rewrite <- E; exact H).
    injection E' as -> -> -> ->. reflexivity.
  Qed.

  (* ================================================================== *)
  (* 1. one-step equations of the repaired walk                          *)
  (* ================================================================== *)

  (* the terminator *)
  Lemma comp_walk_ddash : forall f b rest s opt,
    po_passdd po = true ->
    cwalk (S f) (s2l "--" :: b :: rest) s opt =
    (cs_with_pos s (skipn (length rest) (cs_pos s)), None, b :: rest, true).
  Proof.
    intros f b rest s opt Hdd. cbn [comp_walk]. rewrite Hdd.
    change (str_eqb (s2l "--") (s2l "--")) with true. cbn [andb].
    replace (length (b :: rest) - 1)%nat with (length rest) by (cbn [length]; lia). reflexivity.
  Qed.

  (* the first non-option, non-command word under PassAfterNonOption *)
  Lemma comp_walk_passafter : forall f a b rest s opt,
    po_passafter po = true ->
    po_passdd po && str_eqb a (s2l "--") = false ->
    argument_is_option a = false ->
    find_last (lk_cmds (cs_lk s)) a = None ->
    cwalk (S f) (a :: b :: rest) s opt =
    (cs_with_pos s (skipn (length (b :: rest)) (cs_pos s)), None, b :: rest, true).
  Proof.
    intros f a b rest s opt Hpa Hdd Hno Hfind. cbn [comp_walk].
    rewrite Hdd, Hno, Hfind, Hpa. reflexivity.
  Qed.

  (* a left-over word: no positional pending, and not (or no longer) a command word *)
  Lemma comp_walk_leftover : forall f a b rest s opt,
    po_passdd po && str_eqb a (s2l "--") = false ->
    argument_is_option a = false ->
    po_passafter po = false ->
    cs_pos s = [] ->
    find_last (lk_cmds (cs_lk s)) a = None \/ cs_ret s = true ->
    cwalk (S f) (a :: b :: rest) s opt = cwalk f (b :: rest) (cs_leftover s) None.
  Proof.
    intros f a b rest s opt Hdd Hno Hpa Hpos Hk. cbn [comp_walk].
    rewrite Hdd, Hno. destruct (find_last (lk_cmds (cs_lk s)) a) as [i|] eqn:Hfind.
    - rewrite Hpos. destruct Hk as [Hk|Hk]; [discriminate Hk|]. rewrite Hk. reflexivity.
    - rewrite Hpa. unfold cs_plain. rewrite Hpos. reflexivity.
  Qed.

  (* when the walk terminates, no option's separate argument is being completed *)
  Lemma comp_walk_terminated_opt : forall f args s opt s' opt' rest,
    cwalk f args s opt = (s', opt', rest, true) -> opt' = None.
  Proof.
    induction f as [|f IH]; intros args s opt s' opt' rest H; [discriminate H|].
    destruct args as [|a [|b rest0]]; cbn [comp_walk] in H; try discriminate H.
    destruct (po_passdd po && str_eqb a (s2l "--")); [injection H as _ <- _; reflexivity|].
    destruct (argument_is_option a).
    - destruct (split_option a) as [[il n] arg].
      match type of H with context [let '(_, _) := ?x in _] => destruct x as [o canarg] end.
      destruct o as [oc|].
      + destruct arg; [eapply IH; exact H|].
        match type of H with context [if ?c then _ else _] => destruct c end; [|eapply IH; exact H].
        destruct rest0 as [|x rest1]; eapply IH; exact H.
      + destruct (po_ignore po); eapply IH; exact H.
    - destruct (find_last (lk_cmds (cs_lk s)) a).
      + destruct (cs_pos s); [|eapply IH; exact H].
        destruct (negb (cs_ret s)); eapply IH; exact H.
      + destruct (po_passafter po); [injection H as _ <- _; reflexivity|eapply IH; exact H].
  Qed.

  (* ================================================================== *)
  (* a. after the terminator only a pending positional's values           *)
  (* ================================================================== *)

  Theorem C18_nothing_but_values_after_terminator : forall args s opt rest,
    walk_of args = (s, opt, rest, true) ->
    opt = None /\
    complete cfg root args =
    sort_by (fun it : str * str => fst it)
            (match cs_pos s with
             | p :: _ => complete_value (a_ty p) [] (last rest [])
             | [] => []
             end).
  Proof.
    intros args s opt rest H.
    assert (Hopt : opt = None) by exact (comp_walk_terminated_opt _ _ _ _ _ _ _ H).
    split; [exact Hopt|]. subst opt.
    rewrite (complete_by_walk args s None rest true H). unfold complete_ret. cbn [negb andb].
    destruct (cs_pos s); reflexivity.
  Qed.

  (* read item by item: everything offered is a value completion of the pending
     positional - in particular nothing from complete_option_names or complete_commands *)
  Corollary C18_after_terminator_items : forall args s opt rest it,
    walk_of args = (s, opt, rest, true) ->
    In it (complete cfg root args) ->
    exists p ps, cs_pos s = p :: ps /\ vtype_completes (a_ty p) = true /\
                 exists w, In w comp_words /\ has_prefix w (last rest []) = true /\
                           it = (w, s2l "desc " ++ w).
  Proof.
    intros args s opt rest it H Hin.
    destruct (C18_nothing_but_values_after_terminator args s opt rest H) as [_ E].
    rewrite E in Hin. apply in_sort_by in Hin.
    destruct (cs_pos s) as [|p ps]; [destruct Hin|].
    apply C18_values_in in Hin. destruct Hin as [Hv (w & Hw & Hp & ->)].
    exists p, ps. split; [reflexivity|]. split; [exact Hv|]. exists w. auto.
  Qed.

  Corollary C18_after_terminator_no_positional : forall args s opt rest,
    walk_of args = (s, opt, rest, true) -> cs_pos s = [] -> complete cfg root args = [].
  Proof.
    intros args s opt rest H Hpos.
    destruct (C18_nothing_but_values_after_terminator args s opt rest H) as [_ E].
    rewrite E, Hpos. reflexivity.
  Qed.

  (* the two ways to terminate, when the walk reaches the word (the equation in the
     hypothesis says: the walk over [args] arrives at the word with state [s1]) *)
  Lemma C18_terminated_when_ddash_reached : forall f args s0 opt0 f1 b rest s1 opt1,
    cwalk f args s0 opt0 = cwalk (S f1) (s2l "--" :: b :: rest) s1 opt1 ->
    po_passdd po = true ->
    cwalk f args s0 opt0 = (cs_with_pos s1 (skipn (length rest) (cs_pos s1)), None, b :: rest, true).
  Proof. intros f args s0 opt0 f1 b rest s1 opt1 -> Hdd. apply comp_walk_ddash. exact Hdd. Qed.

  Lemma C18_terminated_when_non_option_reached : forall f args s0 opt0 f1 a b rest s1 opt1,
    cwalk f args s0 opt0 = cwalk (S f1) (a :: b :: rest) s1 opt1 ->
    po_passafter po = true ->
    po_passdd po && str_eqb a (s2l "--") = false ->
    argument_is_option a = false ->
    find_last (lk_cmds (cs_lk s1)) a = None ->
    cwalk f args s0 opt0 = (cs_with_pos s1 (skipn (length (b :: rest)) (cs_pos s1)), None, b :: rest, true).
  Proof.
    intros f args s0 opt0 f1 a b rest s1 opt1 -> Hpa Hdd Hno Hfind. apply comp_walk_passafter; assumption.
  Qed.

  (* ================================================================== *)
  (* b. after a left-over argument no command name                       *)
  (* ================================================================== *)

  Theorem C18_no_commands_after_leftover : forall args s opt rest terminated,
    walk_of args = (s, opt, rest, terminated) ->
    cs_ret s = true ->
    (* no item of the result comes from complete_commands *)
    complete cfg root args =
    sort_by (fun it : str * str => fst it) (complete_ret s opt terminated (last rest []) []) /\
    (* and where only command names could be offered, nothing is *)
    (opt = None -> starts_option (last rest []) = false -> cs_pos s = [] -> complete cfg root args = []).
  Proof.
    intros args s opt rest terminated H Hret.
    assert (E : complete cfg root args =
                sort_by (fun it : str * str => fst it) (complete_ret s opt terminated (last rest []) [])).
    { rewrite (complete_by_walk args s opt rest terminated H), Hret, andb_false_r. reflexivity. }
    split; [exact E|]. intros -> Hso Hpos. rewrite E. unfold complete_ret.
    rewrite Hso, andb_false_r, Hpos. reflexivity.
  Qed.

  (* both guards at once *)
  Corollary C18_commands_only_when_live : forall args s opt rest terminated,
    walk_of args = (s, opt, rest, terminated) ->
    terminated = true \/ cs_ret s = true ->
    complete cfg root args =
    sort_by (fun it : str * str => fst it) (complete_ret s opt terminated (last rest []) []).
  Proof.
    intros args s opt rest terminated H [->|Hret].
    - rewrite (complete_by_walk args s opt rest true H). reflexivity.
    - exact (proj1 (C18_no_commands_after_leftover args s opt rest terminated H Hret)).
  Qed.

  (* the theorems of CompleteSpec on complete_option_names / complete_commands, read on
     [complete] itself: long names are offered exactly while the walk has not
     terminated, command names exactly while it has not terminated and nothing is
     left over *)
  Theorem C18_complete_long_names : forall args s rest terminated prefix m,
    walk_of args = (s, None, rest, terminated) ->
    starts_option (last rest []) = true ->
    strip_split (last rest []) = (prefix, true, m, None) ->
    complete cfg root args =
    sort_by (fun it : str * str => fst it)
            (if terminated
             then match cs_pos s with p :: _ => complete_value (a_ty p) [] (last rest []) | [] => [] end
             else complete_option_names (cs_lk s) prefix m false).
  Proof.
    intros args s rest terminated prefix m H Hso Hsplit.
    rewrite (complete_by_walk args s None rest terminated H). unfold complete_ret, option_items.
    rewrite Hso, Hsplit. destruct terminated; cbn [negb andb]; [|reflexivity].
    destruct (cs_pos s); reflexivity.
  Qed.

  Theorem C18_complete_commands : forall args s rest terminated c,
    walk_of args = (s, None, rest, terminated) ->
    starts_option (last rest []) = false ->
    cs_pos s = [] ->
    cmd_at root (cs_cmd s) = Some c ->
    complete cfg root args =
    sort_by (fun it : str * str => fst it)
            (if negb terminated && negb (cs_ret s) then complete_commands c (last rest []) else []).
  Proof.
    intros args s rest terminated c H Hso Hpos Hat.
    rewrite (complete_by_walk args s None rest terminated H). unfold complete_ret, command_items.
    rewrite Hso, andb_false_r, Hpos, Hat. reflexivity.
  Qed.

  (* ================================================================== *)
  (* c. the walk's left-over bit agrees with the parser's retargs         *)
  (* ================================================================== *)

  (* the parser's current command in the context [path] (parseState.command) *)
  Definition cmd_cur (path : list nat) : command :=
    match cmd_at root path with Some c => c | None => root end.

  (* the parser state is in the command context [path], and its retargs is non-empty
     iff [ret] *)
  Definition in_ctx_ret (s : pst) (path : list nat) (ret : bool) : Prop :=
    ps_cmd s = path /\ ps_lk s = make_lookup delim root path /\
    ps_pos s = pos_at root path /\ has_ret s = ret.

  Lemma in_ctx_ret_false : forall s path, in_ctx_ret s path false <-> in_ctx cfg root s path.
  Proof.
    intros s path. unfold in_ctx_ret, in_ctx. split.
    - intros (A & B & C & D). repeat (split; [assumption|]). apply has_ret_false. exact D.
    - intros (A & B & C & D). repeat (split; [assumption|]). unfold has_ret. rewrite D. reflexivity.
  Qed.

  Lemma in_ctx_ret_initial : forall args, in_ctx_ret (initial_pst cfg root args) [] false.
  Proof. intros args. apply in_ctx_ret_false. apply in_ctx_initial. Qed.

  (* [ctx_run_ret path ret r ws path' ret' r']: ContextSpec.ctx_run, extended by the
     left-over bit [ret] and by two kinds of words that are left over:
       - a non-option word that is not a command word (or comes after a left-over
         argument) where no positional is pending,
       - an unknown option under IgnoreUnknown where no positional is pending. *)
  Inductive ctx_run_ret : list nat -> bool -> rt -> list str -> list nat -> bool -> rt -> Prop :=
  | crr_nil : forall path ret r, ctx_run_ret path ret r [] path ret r
  | crr_cmd : forall path r w ws i path' ret' r',
      po_passdd po && str_eqb w (s2l "--") = false ->
      argument_is_option w = false ->
      pos_at root path = [] ->
      find_last (lk_cmds (make_lookup delim root path)) w = Some i ->
      ctx_run_ret (path ++ [i]) false (set_active r path i) ws path' ret' r' ->
      ctx_run_ret path false r (w :: ws) path' ret' r'
  | crr_flag : forall path ret r n oc r1 ws path' ret' r',
      argument_is_option (s2l "--" ++ n) = true -> ~ In 61 n ->
      find_last (lk_long (make_lookup delim root path)) n = Some oc ->
      can_argument (oc_opt oc) = false ->
      opt_set orc delim help_text oc None r = Ok (r1, None) ->
      ctx_run_ret path ret r1 ws path' ret' r' ->
      ctx_run_ret path ret r ((s2l "--" ++ n) :: ws) path' ret' r'
  | crr_inline : forall path ret r n V oc v' r1 ws path' ret' r',
      argument_is_option (s2l "--" ++ n ++ [61] ++ V) = true -> ~ In 61 n ->
      find_last (lk_long (make_lookup delim root path)) n = Some oc ->
      can_argument (oc_opt oc) = true ->
      arg_text (oc_opt oc) V = Some v' ->
      opt_set orc delim help_text oc (Some v') r = Ok (r1, None) ->
      ctx_run_ret path ret r1 ws path' ret' r' ->
      ctx_run_ret path ret r ((s2l "--" ++ n ++ [61] ++ V) :: ws) path' ret' r'
  | crr_leftover : forall path ret r w ws path' ret' r',
      po_passdd po && str_eqb w (s2l "--") = false ->
      argument_is_option w = false ->
      po_passafter po = false ->
      pos_at root path = [] ->
      (* not a sub-command of that name, or an argument was already left over *)
      find_last (lk_cmds (make_lookup delim root path)) w = None \/ ret = true ->
      (* the parser does not demand a command here (else: ErrUnknownCommand) *)
      ret = true \/ cmd_subs (cmd_cur path) = [] \/ c_sub_optional (cmd_info (cmd_cur path)) = true ->
      ctx_run_ret path true r ws path' ret' r' ->
      ctx_run_ret path ret r (w :: ws) path' ret' r'
  | crr_unknown_long : forall path ret r a n arg ws path' ret' r',
      argument_is_option a = true ->
      split_option a = (true, n, arg) ->
      find_last (lk_long (make_lookup delim root path)) n = None ->
      po_ignore po = true ->
      pos_at root path = [] ->
      ctx_run_ret path true r ws path' ret' r' ->
      ctx_run_ret path ret r (a :: ws) path' ret' r'
  | crr_unknown_short : forall path ret r a n arg ws path' ret' r',
      argument_is_option a = true ->
      split_option a = (false, n, arg) ->
      n <> [] ->
      (* the first rune of the cluster is not a short name *)
      find_last (lk_short (make_lookup delim root path)) (encode_rune (fst (decode_rune n))) = None ->
      po_ignore po = true ->
      pos_at root path = [] ->
      ctx_run_ret path true r ws path' ret' r' ->
      ctx_run_ret path ret r (a :: ws) path' ret' r'.

  (* the relation of ContextSpec is the fragment without left-over words *)
  Lemma ctx_run_ctx_run_ret : forall path r ws path' r',
    ctx_run cfg orc root help_text path r ws path' r' -> ctx_run_ret path false r ws path' false r'.
  Proof.
    induction 1.
    - apply crr_nil.
    - eapply crr_cmd; eassumption.
    - eapply crr_flag; eassumption.
    - eapply crr_inline; eassumption.
  Qed.

  Lemma ctx_run_ret_app : forall path ret r ws p1 ret1 r1,
    ctx_run_ret path ret r ws p1 ret1 r1 ->
    forall ws2 p2 ret2 r2, ctx_run_ret p1 ret1 r1 ws2 p2 ret2 r2 ->
    ctx_run_ret path ret r (ws ++ ws2) p2 ret2 r2.
  Proof.
    induction 1; intros ws2 p2 ret2 r2 Happ; cbn [app].
    - exact Happ.
    - eapply crr_cmd; try eassumption. apply IHctx_run_ret. exact Happ.
    - eapply crr_flag; try eassumption. apply IHctx_run_ret. exact Happ.
    - eapply crr_inline; try eassumption. apply IHctx_run_ret. exact Happ.
    - eapply crr_leftover; try eassumption. apply IHctx_run_ret. exact Happ.
    - eapply crr_unknown_long; try eassumption. apply IHctx_run_ret. exact Happ.
    - eapply crr_unknown_short; try eassumption. apply IHctx_run_ret. exact Happ.
  Qed.

  (* ---- the walk ---- *)

  Lemma cs_leftover_fill : forall path ret, cs_leftover (cfill path ret) = cfill path true.
  Proof. reflexivity. Qed.

  Lemma cs_plain_fill_nopos : forall path ret,
    pos_at root path = [] -> cs_plain (cfill path ret) = cfill path true.
  Proof.
    intros path ret Hp. unfold cs_plain. change (cs_pos (cfill path ret)) with (pos_at root path).
    rewrite Hp. reflexivity.
  Qed.

  Lemma range_str_head : forall n, n <> [] ->
    exists k tl, range_str n = (0%nat, fst (decode_rune n), k) :: tl.
  Proof.
    intros [|b n] Hne; [congruence|]. unfold range_str. cbn [length range_fuel].
    destruct (decode_rune (b :: n)) as [c k]. eexists. eexists. reflexivity.
  Qed.

  Lemma comp_short_walk_unknown_first : forall lk n,
    n <> [] -> find_last (lk_short lk) (encode_rune (fst (decode_rune n))) = None ->
    fst (comp_short_walk lk (length n) (range_str n) None true) = None.
  Proof.
    intros lk n Hne Hfind. destruct (range_str_head n Hne) as (k & tl & ->).
    cbn [comp_short_walk]. rewrite Hfind. reflexivity.
  Qed.

  (* the words of [ws] are consumed one by one; what follows is walked in the state
     [cs_fill path' ret'] *)
  Lemma comp_walk_ctx_run_ret : forall path ret r ws path' ret' r',
    ctx_run_ret path ret r ws path' ret' r' ->
    forall f b t, (length ws <= f)%nat ->
    cwalk f (ws ++ b :: t) (cfill path ret) None = cwalk (f - length ws) (b :: t) (cfill path' ret') None.
  Proof.
    induction 1 as [path ret r
                   |path r w ws i path' ret' r' Hdd Hno Hp Hfind _ IH
                   |path ret r n oc r1 ws path' ret' r' Hopt H61 Hfind Hcan Hset _ IH
                   |path ret r n V oc v' r1 ws path' ret' r' Hopt H61 Hfind Hcan Htxt Hset _ IH
                   |path ret r w ws path' ret' r' Hdd Hno Hpa Hp Hk Hsub _ IH
                   |path ret r a n arg ws path' ret' r' Hopt Hsplit Hfind Hign Hp _ IH
                   |path ret r a n arg ws path' ret' r' Hopt Hsplit Hne Hfind Hign Hp _ IH];
      intros f b0 t0 Hf.
    - cbn [app length]. rewrite Nat.sub_0_r. reflexivity.
    - destruct f as [|f]; [cbn [length] in Hf; lia|]. cbn [length] in Hf.
      rewrite (cons_app_cons _ ws b0 t0).
      destruct (app_cons_is_cons ws b0 t0) as (b & t & E). rewrite E.
      rewrite (comp_walk_cmd_word cfg root f w b t (cfill path false) None i); try assumption; try reflexivity.
      cbn [cs_cmd cs_fill]. rewrite <- E. cbn [length Nat.sub]. apply IH. lia.
    - destruct f as [|f]; [cbn [length] in Hf; lia|]. cbn [length] in Hf.
      rewrite (cons_app_cons _ ws b0 t0).
      destruct (app_cons_is_cons ws b0 t0) as (b & t & E). rewrite E.
      rewrite (comp_walk_long_flag cfg root f _ b t (cfill path ret) None n oc Hopt (split_long_plain n H61));
        try assumption.
      rewrite <- E. cbn [length Nat.sub]. apply IH. lia.
    - destruct f as [|f]; [cbn [length] in Hf; lia|]. cbn [length] in Hf.
      rewrite (cons_app_cons _ ws b0 t0).
      destruct (app_cons_is_cons ws b0 t0) as (b & t & E). rewrite E.
      rewrite (comp_walk_inline cfg root f _ b t (cfill path ret) None true n V Hopt (split_long_eq n V H61))
        by (right; cbn [fst cs_lk cs_fill]; rewrite Hfind; discriminate).
      rewrite <- E. cbn [length Nat.sub]. apply IH. lia.
    - destruct f as [|f]; [cbn [length] in Hf; lia|]. cbn [length] in Hf.
      rewrite (cons_app_cons _ ws b0 t0).
      destruct (app_cons_is_cons ws b0 t0) as (b & t & E). rewrite E.
      rewrite (comp_walk_leftover f w b t (cfill path ret) None Hdd Hno Hpa Hp Hk).
      rewrite cs_leftover_fill, <- E. cbn [length Nat.sub]. apply IH. lia.
    - destruct f as [|f]; [cbn [length] in Hf; lia|]. cbn [length] in Hf.
      rewrite (cons_app_cons _ ws b0 t0).
      destruct (app_cons_is_cons ws b0 t0) as (b & t & E). rewrite E.
      rewrite (comp_walk_unknown cfg root f a b t (cfill path ret) None true n arg Hopt Hsplit Hign)
        by (cbn [fst cs_lk cs_fill]; exact Hfind).
      rewrite (cs_plain_fill_nopos path ret Hp), <- E. cbn [length Nat.sub]. apply IH. lia.
    - destruct f as [|f]; [cbn [length] in Hf; lia|]. cbn [length] in Hf.
      rewrite (cons_app_cons _ ws b0 t0).
      destruct (app_cons_is_cons ws b0 t0) as (b & t & E). rewrite E.
      rewrite (comp_walk_unknown cfg root f a b t (cfill path ret) None false n arg Hopt Hsplit Hign)
        by (apply comp_short_walk_unknown_first; [exact Hne|exact Hfind]).
      rewrite (cs_plain_fill_nopos path ret Hp), <- E. cbn [length Nat.sub]. apply IH. lia.
  Qed.

  (* ---- the parser ---- *)

  Lemma add_args_one_nopos : forall w s r,
    ps_pos s = [] -> add_args orc [w] s r = Ok (ps_with_retpos s (ps_ret s ++ [w]) [], r, None).
  Proof. intros w s r H. cbn [add_args]. rewrite H. reflexivity. Qed.

  (* a left-over word: parseNonOption appends it to retargs *)
  Lemma step_leftover : forall s r w rest path ret,
    ps_args s = w :: rest -> in_ctx_ret s path ret ->
    po_passdd po && str_eqb w (s2l "--") = false ->
    argument_is_option w = false ->
    po_passafter po = false ->
    pos_at root path = [] ->
    find_last (lk_cmds (make_lookup delim root path)) w = None \/ ret = true ->
    ret = true \/ cmd_subs (cmd_cur path) = [] \/ c_sub_optional (cmd_info (cmd_cur path)) = true ->
    pstep s r = Ok (Continue (ps_with_retpos (ps_with_args s w rest) (ps_ret s ++ [w]) []) r).
  Proof.
    intros s r w rest path ret Hargs (Hcmd & Hlk & Hpos & Hret) Hdd Hno Hpa Hp Hk Hsub.
    unfold step. rewrite Hargs. cbv zeta. rewrite Hdd, Hno, Hpa. cbn [negb andb].
    assert (Hadd : add_args orc [w] (ps_with_args s w rest) r =
                   Ok (ps_with_retpos (ps_with_args s w rest) (ps_ret s ++ [w]) [], r, None)).
    { rewrite add_args_one_nopos; [reflexivity|]. cbn [ps_pos ps_with_args]. rewrite Hpos. exact Hp. }
    assert (Hpn : parse_non_option cfg orc root (ps_with_args s w rest) r =
                  add_args orc [w] (ps_with_args s w rest) r).
    { unfold parse_non_option. cbn [ps_pos ps_with_args ps_arg ps_ret ps_lk]. rewrite Hpos, Hp.
      unfold cur_cmd. cbn [ps_cmd ps_with_args]. rewrite Hcmd. fold (cmd_cur path). rewrite Hlk.
      unfold has_ret in Hret. rewrite Hret.
      destruct (nonempty (map (fun _ => 0) (cmd_subs (cmd_cur path)))) eqn:Hs; cbn [andb]; [|reflexivity].
      destruct ret; cbn [negb]; [reflexivity|].
      destruct Hk as [Hk|Hk]; [|discriminate Hk]. rewrite Hk.
      destruct Hsub as [Hsub|[Hsub|Hsub]];
        [discriminate Hsub|rewrite Hsub in Hs; discriminate Hs|rewrite Hsub; reflexivity]. }
    rewrite Hpn, Hadd. reflexivity.
  Qed.

  (* an unknown long option under IgnoreUnknown: the token is appended to retargs *)
  Lemma step_unknown_long : forall s r a rest n arg,
    ps_args s = a :: rest -> argument_is_option a = true ->
    split_option a = (true, n, arg) ->
    find_last (lk_long (ps_lk s)) n = None ->
    po_ignore po = true -> ps_pos s = [] ->
    pstep s r = Ok (Continue (ps_with_retpos (ps_with_args s a rest) (ps_ret s ++ [a]) []) r).
  Proof.
    intros s r a rest n arg Hargs Hopt Hsplit Hfind Hign Hpos.
    rewrite (C07_unknown_long_ignored cfg orc root help_text s r a rest n arg Hargs Hopt Hsplit Hfind Hign).
    rewrite add_args_one_nopos by (cbn [ps_pos ps_with_args]; exact Hpos). reflexivity.
  Qed.

  (* a short cluster whose first rune is unknown: parseShort reports it at once *)
  Lemma parse_short_unknown_first : forall s r n arg,
    n <> [] ->
    find_last (lk_short (ps_lk s)) (encode_rune (fst (decode_rune n))) = None ->
    parse_short cfg orc help_text n arg s r =
    Ok (s, r, Some (unknown_flag (encode_rune (fst (decode_rune n))))).
  Proof.
    intros s r n arg Hne Hfind. unfold parse_short.
    assert (E : split_short_concat s n = (n, None)).
    { unfold split_short_concat. destruct (decode_rune n) as [c k]. cbn [fst] in Hfind.
      destruct (Nat.eqb k (length n)); [reflexivity|]. rewrite Hfind. reflexivity. }
    destruct arg as [V|]; [|rewrite E];
      (destruct (range_str_head n Hne) as (k & tl & ->);
       apply short_loop_unknown_first; exact Hfind).
  Qed.

  Lemma step_unknown_short : forall s r a rest n arg,
    ps_args s = a :: rest -> argument_is_option a = true ->
    split_option a = (false, n, arg) ->
    n <> [] ->
    find_last (lk_short (ps_lk s)) (encode_rune (fst (decode_rune n))) = None ->
    po_ignore po = true -> ps_pos s = [] ->
    pstep s r = Ok (Continue (ps_with_retpos (ps_with_args s a rest) (ps_ret s ++ [a]) []) r).
  Proof.
    intros s r a rest n arg Hargs Hopt Hsplit Hne Hfind Hign Hpos.
    rewrite (step_on_option cfg orc root help_text s r a rest false n arg Hargs Hopt Hsplit).
    rewrite parse_short_unknown_first by (try exact Hne; cbn [ps_lk ps_with_args]; exact Hfind).
    cbn [bind]. unfold step_tail, unknown_flag. rewrite Hign. cbn [negb orb andb].
    rewrite add_args_one_nopos by (cbn [ps_pos ps_with_args]; exact Hpos). reflexivity.
  Qed.

  Lemma in_ctx_ret_leftover : forall s path ret w rest,
    in_ctx_ret s path ret -> pos_at root path = [] ->
    in_ctx_ret (ps_with_retpos (ps_with_args s w rest) (ps_ret s ++ [w]) []) path true.
  Proof.
    intros s path ret w rest (A & B & C & D) Hp. unfold in_ctx_ret, has_ret.
    cbn [ps_cmd ps_lk ps_pos ps_ret ps_with_retpos ps_with_args].
    split; [exact A|]. split; [exact B|]. split; [symmetry; exact Hp|]. apply nonempty_map_snoc.
  Qed.

  Lemma run_loop_ctx_run_ret : forall path ret r ws path' ret' r',
    ctx_run_ret path ret r ws path' ret' r' ->
    forall f s, (length ws < f)%nat -> ps_args s = ws -> in_ctx_ret s path ret ->
    exists s', ploop f s r = Ok (s', r') /\ in_ctx_ret s' path' ret' /\
               ps_args s' = [] /\ ps_err s' = ps_err s /\ ps_arg s' = last ws (ps_arg s).
  Proof.
    induction 1 as [path ret r
                   |path r w ws i path' ret' r' Hdd Hno Hp Hfind _ IH
                   |path ret r n oc r1 ws path' ret' r' Hopt H61 Hfind Hcan Hset _ IH
                   |path ret r n V oc v' r1 ws path' ret' r' Hopt H61 Hfind Hcan Htxt Hset _ IH
                   |path ret r w ws path' ret' r' Hdd Hno Hpa Hp Hk Hsub _ IH
                   |path ret r a n arg ws path' ret' r' Hopt Hsplit Hfind Hign Hp _ IH
                   |path ret r a n arg ws path' ret' r' Hopt Hsplit Hne Hfind Hign Hp _ IH];
      intros f s Hf Hargs Hctx; (destruct f as [|f]; [cbn [length] in Hf; lia|]); cbn [length] in Hf.
    - exists s. rewrite (run_loop_done cfg orc root help_text f s r Hargs). repeat split; try assumption; apply Hctx.
    - assert (Hctx0 : in_ctx cfg root s path) by (apply in_ctx_ret_false; exact Hctx).
      rewrite (run_loop_cons cfg orc root help_text f s r w ws Hargs).
      rewrite (step_cmd_word cfg orc root help_text s r w ws path i Hargs Hctx0 Hdd Hno Hp Hfind). cbn [bind].
      destruct (IH f (fill_parse_state cfg root (ps_with_args s w ws) (path ++ [i]))) as (s' & Hl & Hc & Ha & He & Hl');
        [lia|reflexivity|apply in_ctx_ret_false; apply in_ctx_fill; apply Hctx0|].
      exists s'. split; [exact Hl|]. split; [exact Hc|]. split; [exact Ha|]. split; [exact He|].
      rewrite Hl'. cbn [ps_arg fill_parse_state ps_with_args]. symmetry. apply last_cons_default.
    - assert (Hfind' : find_last (lk_long (ps_lk s)) n = Some oc)
        by (destruct Hctx as (_ & Hlk & _); rewrite Hlk; exact Hfind).
      rewrite (run_loop_cons cfg orc root help_text f s r _ ws Hargs).
      rewrite (step_long_flag cfg orc root help_text s r n ws oc r1 Hargs Hopt H61 Hfind' Hcan Hset). cbn [bind].
      destruct (IH f (ps_with_args s (s2l "--" ++ n) ws)) as (s' & Hl & Hc & Ha & He & Hl');
        [lia|reflexivity|exact Hctx|].
      exists s'. split; [exact Hl|]. split; [exact Hc|]. split; [exact Ha|]. split; [exact He|].
      rewrite Hl'. cbn [ps_arg ps_with_args]. symmetry. apply last_cons_default.
    - assert (Hfind' : find_last (lk_long (ps_lk s)) n = Some oc)
        by (destruct Hctx as (_ & Hlk & _); rewrite Hlk; exact Hfind).
      rewrite (run_loop_cons cfg orc root help_text f s r _ ws Hargs).
      rewrite (step_long_inline cfg orc root help_text s r n V ws oc v' r1 Hargs Hopt H61 Hfind' Hcan Htxt Hset). cbn [bind].
      destruct (IH f (ps_with_args s (s2l "--" ++ n ++ [61] ++ V) ws)) as (s' & Hl & Hc & Ha & He & Hl');
        [lia|reflexivity|exact Hctx|].
      exists s'. split; [exact Hl|]. split; [exact Hc|]. split; [exact Ha|]. split; [exact He|].
      rewrite Hl'. cbn [ps_arg ps_with_args]. symmetry. apply last_cons_default.
    - rewrite (run_loop_cons cfg orc root help_text f s r w ws Hargs).
      rewrite (step_leftover s r w ws path ret Hargs Hctx Hdd Hno Hpa Hp Hk Hsub). cbn [bind].
      destruct (IH f (ps_with_retpos (ps_with_args s w ws) (ps_ret s ++ [w]) [])) as (s' & Hl & Hc & Ha & He & Hl');
        [lia|reflexivity|apply (in_ctx_ret_leftover s path ret); assumption|].
      exists s'. split; [exact Hl|]. split; [exact Hc|]. split; [exact Ha|]. split; [exact He|].
      rewrite Hl'. cbn [ps_arg ps_with_retpos ps_with_args]. symmetry. apply last_cons_default.
    - assert (Hfind' : find_last (lk_long (ps_lk s)) n = None)
        by (destruct Hctx as (_ & Hlk & _); rewrite Hlk; exact Hfind).
      assert (Hpos' : ps_pos s = []) by (destruct Hctx as (_ & _ & Hpos & _); rewrite Hpos; exact Hp).
      rewrite (run_loop_cons cfg orc root help_text f s r a ws Hargs).
      rewrite (step_unknown_long s r a ws n arg Hargs Hopt Hsplit Hfind' Hign Hpos'). cbn [bind].
      destruct (IH f (ps_with_retpos (ps_with_args s a ws) (ps_ret s ++ [a]) [])) as (s' & Hl & Hc & Ha & He & Hl');
        [lia|reflexivity|apply (in_ctx_ret_leftover s path ret); assumption|].
      exists s'. split; [exact Hl|]. split; [exact Hc|]. split; [exact Ha|]. split; [exact He|].
      rewrite Hl'. cbn [ps_arg ps_with_retpos ps_with_args]. symmetry. apply last_cons_default.
    - assert (Hfind' : find_last (lk_short (ps_lk s)) (encode_rune (fst (decode_rune n))) = None)
        by (destruct Hctx as (_ & Hlk & _); rewrite Hlk; exact Hfind).
      assert (Hpos' : ps_pos s = []) by (destruct Hctx as (_ & _ & Hpos & _); rewrite Hpos; exact Hp).
      rewrite (run_loop_cons cfg orc root help_text f s r a ws Hargs).
      rewrite (step_unknown_short s r a ws n arg Hargs Hopt Hsplit Hne Hfind' Hign Hpos'). cbn [bind].
      destruct (IH f (ps_with_retpos (ps_with_args s a ws) (ps_ret s ++ [a]) [])) as (s' & Hl & Hc & Ha & He & Hl');
        [lia|reflexivity|apply (in_ctx_ret_leftover s path ret); assumption|].
      exists s'. split; [exact Hl|]. split; [exact Hc|]. split; [exact Ha|]. split; [exact He|].
      rewrite Hl'. cbn [ps_arg ps_with_retpos ps_with_args]. symmetry. apply last_cons_default.
  Qed.

  (* general form: any starting context, any left-over state *)
  Theorem C18_walk_ret_agrees_with_parser_from :
    forall (path : list nat) (ret : bool) (r : rt) (ws : list str) (path' : list nat) (ret' : bool) (r' : rt),
    ctx_run_ret path ret r ws path' ret' r' ->
    forall (lastw : str) (fc fp : nat) (s : pst),
    (length ws <= fc)%nat -> (length ws < fp)%nat ->
    ps_args s = ws -> in_ctx_ret s path ret ->
    exists sc sp,
      cwalk fc (ws ++ [lastw]) (cfill path ret) None = (sc, None, [lastw], false) /\
      ploop fp s r = Ok (sp, r') /\
      sc = cfill path' ret' /\
      cs_cmd sc = ps_cmd sp /\ cs_lk sc = ps_lk sp /\ cs_pos sc = ps_pos sp /\
      cs_ret sc = nonempty (map (fun _ : str => 0) (ps_ret sp)) /\
      ps_cmd sp = path' /\ ps_lk sp = make_lookup delim root path' /\ ps_pos sp = pos_at root path' /\
      ps_err sp = ps_err s /\ ps_args sp = [] /\ ps_arg sp = last ws (ps_arg s).
  Proof.
    intros path ret r ws path' ret' r' Hrun lastw fc fp s Hfc Hfp Hargs Hctx.
    destruct (run_loop_ctx_run_ret path ret r ws path' ret' r' Hrun fp s Hfp Hargs Hctx)
      as (sp & Hl & (Hcmd & Hlk & Hpos & Hret) & Ha & He & Hlast).
    exists (cfill path' ret'), sp.
    split.
    { rewrite (comp_walk_ctx_run_ret path ret r ws path' ret' r' Hrun fc lastw [] Hfc).
      apply comp_walk_last. }
    split; [exact Hl|]. split; [reflexivity|].
    cbn [cs_cmd cs_lk cs_pos cs_ret cs_fill]. fold (pos_at root path').
    unfold has_ret in Hret.
    repeat split; congruence.
  Qed.

  (* c. from the initial states of [complete] (cs_ret = false) and of the parser
     (retargs empty) *)
  Theorem C18_walk_ret_agrees_with_parser :
    forall (ws : list str) (path' : list nat) (ret' : bool) (lastw : str) (r r' : rt) (fc fp : nat),
    ctx_run_ret [] false r ws path' ret' r' ->
    (length ws <= fc)%nat -> (length ws < fp)%nat ->
    exists sc sp,
      cwalk fc (ws ++ [lastw]) (cfill [] false) None = (sc, None, [lastw], false) /\
      ploop fp (initial_pst cfg root ws) r = Ok (sp, r') /\
      (* same path, same lookup, same pending positionals *)
      cs_cmd sc = ps_cmd sp /\ cs_lk sc = ps_lk sp /\ cs_pos sc = ps_pos sp /\
      (* the left-over bit is the parser's "retargs is not empty" *)
      cs_ret sc = nonempty (map (fun _ : str => 0) (ps_ret sp)) /\
      sc = cfill path' ret' /\
      ps_cmd sp = path' /\ ps_lk sp = make_lookup delim root path' /\ ps_pos sp = pos_at root path' /\
      ps_err sp = None /\ ps_args sp = [].
  Proof.
    intros ws path' ret' lastw r r' fc fp Hrun Hfc Hfp.
    destruct (C18_walk_ret_agrees_with_parser_from [] false r ws path' ret' r' Hrun lastw fc fp
                (initial_pst cfg root ws) Hfc Hfp eq_refl (in_ctx_ret_initial ws))
      as (sc & sp & H1 & H2 & H3 & H4 & H5 & H6 & H7 & H8 & H9 & H10 & H11 & H12 & _).
    exists sc, sp. repeat (split; [assumption|]). assumption.
  Qed.

  (* with the fuels [complete] and [parse_core] use, as a statement about [walk_of] *)
  Corollary C18_walk_ret_agrees_with_parser_api :
    forall (ws : list str) (path' : list nat) (ret' : bool) (lastw : str) (r r' : rt),
    ctx_run_ret [] false r ws path' ret' r' ->
    exists sp,
      walk_of (ws ++ [lastw]) = (cfill path' ret', None, [lastw], false) /\
      ploop (S (length ws)) (initial_pst cfg root ws) r = Ok (sp, r') /\
      ps_cmd sp = path' /\ ps_lk sp = make_lookup delim root path' /\ ps_pos sp = pos_at root path' /\
      nonempty (map (fun _ : str => 0) (ps_ret sp)) = ret' /\ ps_err sp = None /\ ps_args sp = [].
  Proof.
    intros ws path' ret' lastw r r' Hrun.
    destruct (C18_walk_ret_agrees_with_parser ws path' ret' lastw r r'
                (S (length (ws ++ [lastw]))) (S (length ws)) Hrun)
      as (sc & sp & H1 & H2 & H3 & H4 & H5 & H6 & H7 & H8 & H9 & H10 & H11 & H12);
      [rewrite app_length; lia|lia|].
    exists sp. subst sc. cbn [cs_ret cs_fill] in H6.
    unfold walk_of. rewrite norm_args_app_cons.
    repeat (split; [assumption || (symmetry; assumption)|]). assumption.
  Qed.

  (* ---- the syntactic conditions of a., with "reached by the walk" spelled out: the
     words before are a [ctx_run_ret] prefix ---- *)
  Lemma C18_terminated_by_double_dash :
    forall (ws : list str) (path' : list nat) (ret' : bool) (r r' : rt) (more : list str) (lastw : str),
    po_passdd po = true ->
    ctx_run_ret [] false r ws path' ret' r' ->
    walk_of (ws ++ s2l "--" :: more ++ [lastw]) =
    (cs_with_pos (cfill path' ret') (skipn (length more) (pos_at root path')), None, more ++ [lastw], true).
  Proof.
    intros ws path' ret' r r' more lastw Hdd Hrun. unfold walk_of. rewrite norm_args_app_cons.
    rewrite (comp_walk_ctx_run_ret [] false r ws path' ret' r' Hrun)
      by (rewrite app_length; cbn [length]; lia).
    replace (S (length (ws ++ s2l "--" :: more ++ [lastw])) - length ws)%nat
      with (S (S (S (length more)))) by (rewrite !app_length; cbn [length]; rewrite app_length; cbn [length]; lia).
    destruct (snoc_is_cons more lastw) as (b & t & E). rewrite E.
    rewrite (comp_walk_ddash _ b t _ None Hdd).
    assert (Hlen : length t = length more).
    { apply (f_equal (@length str)) in E. rewrite app_length in E. cbn [length] in E. lia. }
    rewrite Hlen. reflexivity.
  Qed.

  Lemma C18_terminated_by_non_option :
    forall (ws : list str) (path' : list nat) (ret' : bool) (r r' : rt) (a : str) (more : list str) (lastw : str),
    po_passafter po = true ->
    ctx_run_ret [] false r ws path' ret' r' ->
    po_passdd po && str_eqb a (s2l "--") = false ->
    argument_is_option a = false ->
    find_last (lk_cmds (make_lookup delim root path')) a = None ->
    walk_of (ws ++ a :: more ++ [lastw]) =
    (cs_with_pos (cfill path' ret') (skipn (length (more ++ [lastw])) (pos_at root path')), None, more ++ [lastw], true).
  Proof.
    intros ws path' ret' r r' a more lastw Hpa Hrun Hdd Hno Hfind. unfold walk_of. rewrite norm_args_app_cons.
    rewrite (comp_walk_ctx_run_ret [] false r ws path' ret' r' Hrun)
      by (rewrite app_length; cbn [length]; lia).
    replace (S (length (ws ++ a :: more ++ [lastw])) - length ws)%nat
      with (S (S (S (length more)))) by (rewrite !app_length; cbn [length]; rewrite app_length; cbn [length]; lia).
    destruct (snoc_is_cons more lastw) as (b & t & E). rewrite E.
    rewrite (comp_walk_passafter _ a b t _ None Hpa Hdd Hno) by exact Hfind. reflexivity.
  Qed.

  (* a., on the surface: what [complete] offers after the terminator *)
  Corollary C18_complete_after_double_dash :
    forall (ws : list str) (path' : list nat) (ret' : bool) (r r' : rt) (more : list str) (lastw : str),
    po_passdd po = true ->
    ctx_run_ret [] false r ws path' ret' r' ->
    complete cfg root (ws ++ s2l "--" :: more ++ [lastw]) =
    sort_by (fun it : str * str => fst it)
            (match skipn (length more) (pos_at root path') with
             | p :: _ => complete_value (a_ty p) [] lastw
             | [] => []
             end).
  Proof.
    intros ws path' ret' r r' more lastw Hdd Hrun.
    destruct (C18_nothing_but_values_after_terminator _ _ _ _
                (C18_terminated_by_double_dash ws path' ret' r r' more lastw Hdd Hrun)) as [_ E].
    rewrite E, last_last. reflexivity.
  Qed.

  Corollary C18_complete_after_non_option :
    forall (ws : list str) (path' : list nat) (ret' : bool) (r r' : rt) (a : str) (more : list str) (lastw : str),
    po_passafter po = true ->
    ctx_run_ret [] false r ws path' ret' r' ->
    po_passdd po && str_eqb a (s2l "--") = false ->
    argument_is_option a = false ->
    find_last (lk_cmds (make_lookup delim root path')) a = None ->
    complete cfg root (ws ++ a :: more ++ [lastw]) =
    sort_by (fun it : str * str => fst it)
            (match skipn (length (more ++ [lastw])) (pos_at root path') with
             | p :: _ => complete_value (a_ty p) [] lastw
             | [] => []
             end).
  Proof.
    intros ws path' ret' r r' a more lastw Hpa Hrun Hdd Hno Hfind.
    destruct (C18_nothing_but_values_after_terminator _ _ _ _
                (C18_terminated_by_non_option ws path' ret' r r' a more lastw Hpa Hrun Hdd Hno Hfind)) as [_ E].
    rewrite E, last_last. reflexivity.
  Qed.

  (* b., on the surface: once an argument is left over, a word that does not start an
     option is offered nothing *)
  Corollary C18_complete_after_leftover :
    forall (ws : list str) (path' : list nat) (lastw : str) (r r' : rt),
    ctx_run_ret [] false r ws path' true r' ->
    pos_at root path' = [] -> starts_option lastw = false ->
    complete cfg root (ws ++ [lastw]) = [].
  Proof.
    intros ws path' lastw r r' Hrun Hp Hso.
    destruct (C18_walk_ret_agrees_with_parser_api ws path' true lastw r r' Hrun) as (sp & Hw & _).
    apply (proj2 (C18_no_commands_after_leftover _ _ _ _ _ Hw eq_refl)); [reflexivity|exact Hso|].
    exact Hp.
  Qed.

  (* ================================================================== *)
  (* d. an offered command name is entered by the parser                 *)
  (* ================================================================== *)

  Lemma sub_name_resolves : forall cur sc,
    In sc (cmd_subs cur) -> exists i, find_last (fill_cmds cur) (c_name (cmd_info sc)) = Some i.
  Proof.
    intros cur sc Hin. destruct (In_nth_error _ _ Hin) as [j Hj].
    assert (Hf : In (c_name (cmd_info sc), j) (fill_cmds cur))
      by (apply in_fill_cmds; exists sc; split; [exact Hj|left; reflexivity]).
    destruct (find_last (fill_cmds cur) (c_name (cmd_info sc))) as [i|] eqn:E; [exists i; reflexivity|].
    exfalso. exact (proj1 (find_last_none _ _) E j Hf).
  Qed.

  (* a word that does not start with '-' is neither an option token nor "--" *)
  Lemma not_starts_option_plain : forall w,
    starts_option w = false -> argument_is_option w = false /\ str_eqb w (s2l "--") = false.
  Proof.
    intros [|c w] H; [split; reflexivity|]. cbn [starts_option] in H.
    destruct (N.eqb_spec c 45) as [->|Hne]; [discriminate H|].
    split.
    - unfold argument_is_option. destruct c as [|p]; [reflexivity|].
      repeat (destruct p as [p|p|]; try reflexivity); congruence.
    - destruct (str_eqb_spec (c :: w) (s2l "--")) as [E|]; [|reflexivity]. injection E as -> _. congruence.
  Qed.

  Lemma has_prefix_starts_option : forall name m,
    m <> [] -> starts_option m = false -> has_prefix name m = true -> starts_option name = false.
  Proof.
    intros [|x name] [|y m] Hne Hso Hp; try congruence; try discriminate Hp; try reflexivity.
    cbn [has_prefix] in Hp. apply andb_true_iff in Hp. destruct Hp as [Hxy _].
    apply N.eqb_eq in Hxy. subst y. exact Hso.
  Qed.

  Theorem C18_offered_command_is_entered :
    forall (ws : list str) (path' : list nat) (lastw : str) (r r' : rt) (name desc : str),
    (* a state reached as in c.: not terminated, nothing left over *)
    ctx_run_ret [] false r ws path' false r' ->
    (* no pending positional, the last word does not start an option *)
    pos_at root path' = [] ->
    starts_option lastw = false ->
    In (name, desc) (complete cfg root (ws ++ [lastw])) ->
    exists cur sub i sub',
      (* the item is the name of a non-hidden sub-command of the current command *)
      cmd_at root path' = Some cur /\ In sub (cmd_subs cur) /\
      g_hidden (grp_info (cmd_group sub)) = false /\
      name = c_name (cmd_info sub) /\ desc = g_short (grp_info (cmd_group sub)) /\
      has_prefix name lastw = true /\
      (* the parser's lookup resolves it to a sub-command of that name (or alias) *)
      find_last (lk_cmds (make_lookup delim root path')) name = Some i /\
      nth_error (cmd_subs cur) i = Some sub' /\
      (name = c_name (cmd_info sub') \/ In name (c_aliases (cmd_info sub'))) /\
      (* and, unless the name itself looks like an option, the parser's step on the
         token [name] in that context enters this sub-command ... *)
      (starts_option name = false ->
       (forall (s : pst) (rr : rt) (rest : list str),
          ps_args s = name :: rest -> in_ctx_ret s path' false ->
          pstep s rr = Ok (Continue (fill_parse_state cfg root (ps_with_args s name rest) (path' ++ [i]))
                                    (set_active rr path' i))) /\
       (* ... so the parse of the words followed by the offered name ends there *)
       exists sp, ploop (S (S (length ws))) (initial_pst cfg root (ws ++ [name])) r
                  = Ok (sp, set_active r' path' i) /\
                  ps_cmd sp = path' ++ [i] /\ ps_lk sp = make_lookup delim root (path' ++ [i]) /\
                  ps_ret sp = [] /\ ps_err sp = None /\ ps_args sp = []).
  Proof.
    intros ws path' lastw r r' name desc Hrun Hp Hso Hin.
    destruct (C18_walk_ret_agrees_with_parser_api ws path' false lastw r r' Hrun) as (sp0 & Hw & _).
    rewrite (complete_by_walk _ _ _ _ _ Hw) in Hin. apply in_sort_by in Hin.
    unfold complete_ret in Hin. rewrite last_cons_default in Hin. cbn [last negb andb] in Hin.
    rewrite Hso in Hin. change (cs_pos (cfill path' false)) with (pos_at root path') in Hin.
    rewrite Hp in Hin. cbn [cs_ret cs_fill negb] in Hin. unfold command_items in Hin.
    cbn [cs_cmd cs_fill] in Hin.
    destruct (cmd_at root path') as [cur|] eqn:Hat; [|destruct Hin].
    apply C18_commands_exact in Hin. destruct Hin as (sub & Hsub & Hhid & Hpre & Heq).
    injection Heq as -> ->.
    destruct (sub_name_resolves cur sub Hsub) as [i Hfind0].
    assert (Hfind : find_last (lk_cmds (make_lookup delim root path')) (c_name (cmd_info sub)) = Some i)
      by (unfold make_lookup; cbn [lk_cmds]; rewrite Hat; exact Hfind0).
    destruct (lookup_cmds_exact delim root path' _ i Hfind) as (cur' & sub' & Hat' & Hn & Hname).
    rewrite Hat in Hat'. injection Hat' as <-.
    exists cur, sub, i, sub'. repeat (split; [assumption || reflexivity|]).
    intros Hplain. destruct (not_starts_option_plain _ Hplain) as [Hno Hndd].
    assert (Hdd : po_passdd po && str_eqb (c_name (cmd_info sub)) (s2l "--") = false)
      by (rewrite Hndd; apply andb_false_r).
    split.
    - intros s rr rest Hargs Hctx. apply in_ctx_ret_false in Hctx.
      exact (step_cmd_word cfg orc root help_text s rr _ rest path' i Hargs Hctx Hdd Hno Hp Hfind).
    - assert (Hrun' : ctx_run_ret [] false r (ws ++ [c_name (cmd_info sub)]) (path' ++ [i]) false
                                  (set_active r' path' i)).
      { apply (ctx_run_ret_app _ _ _ _ _ _ _ Hrun). eapply crr_cmd; try eassumption. apply crr_nil. }
      destruct (run_loop_ctx_run_ret _ _ _ _ _ _ _ Hrun' (S (S (length ws)))
                  (initial_pst cfg root (ws ++ [c_name (cmd_info sub)])))
        as (sp & Hl & (Hc1 & Hc2 & Hc3 & Hc4) & Ha & He & _);
        [rewrite app_length; cbn [length]; lia|reflexivity|apply in_ctx_ret_initial|].
      exists sp. split; [exact Hl|]. split; [exact Hc1|]. split; [exact Hc2|].
      split; [apply has_ret_false; exact Hc4|]. split; [exact He|exact Ha].
  Qed.

  (* when the word being completed is not empty, an offered command name cannot look
     like an option: the conclusion of d. holds without the side condition *)
  Corollary C18_offered_command_is_entered_nonempty :
    forall (ws : list str) (path' : list nat) (lastw : str) (r r' : rt) (name desc : str),
    ctx_run_ret [] false r ws path' false r' ->
    pos_at root path' = [] -> starts_option lastw = false -> lastw <> [] ->
    In (name, desc) (complete cfg root (ws ++ [lastw])) ->
    exists i sp,
      find_last (lk_cmds (make_lookup delim root path')) name = Some i /\
      ploop (S (S (length ws))) (initial_pst cfg root (ws ++ [name])) r = Ok (sp, set_active r' path' i) /\
      ps_cmd sp = path' ++ [i] /\ ps_ret sp = [] /\ ps_err sp = None /\ ps_args sp = [].
  Proof.
    intros ws path' lastw r r' name desc Hrun Hp Hso Hne Hin.
    destruct (C18_offered_command_is_entered ws path' lastw r r' name desc Hrun Hp Hso Hin)
      as (cur & sub & i & sub' & _ & _ & _ & _ & _ & Hpre & Hfind & _ & _ & Hent).
    destruct (Hent (has_prefix_starts_option name lastw Hne Hso Hpre)) as [_ (sp & H1 & H2 & _ & H4 & H5 & H6)].
    exists i, sp. repeat (split; [assumption|]). assumption.
  Qed.

End Safe.

(* ================================================================== *)
(* Non-vacuity: a realistic instance                                   *)
(* ================================================================== *)

(* the parser options that matter here: PassDoubleDash, PassAfterNonOption, IgnoreUnknown *)
Definition sx_cfg (dd pa ig : bool) : pconfig :=
  {| pc_name := s2l "app";
     pc_opts := {| po_help := false; po_passdd := dd; po_ignore := ig; po_print := false;
                   po_passafter := pa |};
     pc_nsdelim := s2l "."; pc_envdelim := s2l "_"; pc_handler := HNone; pc_cmdhandler := false;
     pc_usage := []; pc_env := []; pc_cols := 80; pc_shortdesc := []; pc_longdesc := [] |}.
Definition sx_arg (fid : nat) (name : str) : arg :=
  {| a_fid := fid; a_name := name; a_desc := []; a_req := (-1)%Z; a_max := (-1)%Z;
     a_ty := TScalar KComp; a_base := [] |}.
(* app [-v/--verbose] [-x/--version] [-c/--color=] [remote|version]      (sub-commands optional)
     remote (alias r) [-f/--force] [add NAME|rm]                         (sub-commands optional)
   NAME is a positional with a Completer *)
Definition sx_root : command :=
  Command (cx_cinfo (s2l "app") [] false true)
          (Group (cx_ginfo (s2l "Application Options"))
                 [cx_opt 1 118 (s2l "verbose") (TScalar KBool);
                  cx_opt 3 120 (s2l "version") (TScalar KBool);
                  cx_opt 2 99 (s2l "color") (TScalar KComp)] [])
          []
          [Command (cx_cinfo (s2l "remote") [s2l "r"] false true)
                   (Group (cx_ginfo (s2l "Remote")) [cx_opt 4 102 (s2l "force") (TScalar KBool)] [])
                   []
                   [Command (cx_cinfo (s2l "add") [] false false) (Group (cx_ginfo (s2l "Add")) [] [])
                            [sx_arg 5 (s2l "NAME")] [];
                    Command (cx_cinfo (s2l "rm") [] false false) (Group (cx_ginfo (s2l "Remove")) [] []) [] []];
           Command (cx_cinfo (s2l "version") [] false false) (Group (cx_ginfo (s2l "Version")) [] []) [] []].

Definition sx_plain := sx_cfg false false false.
Definition sx_dd := sx_cfg true false false.
Definition sx_pa := sx_cfg false true false.
Definition sx_ig := sx_cfg false false true.

(* ---- a. ---- *)
(* after the terminator neither option names nor command names *)
Example sx_after_ddash_no_option_names : complete sx_dd sx_root [s2l "--"; s2l "--ver"] = [].
Proof. vm_compute. reflexivity. Qed.

Example sx_after_ddash_no_commands : complete sx_dd sx_root [s2l "--"; s2l "re"] = [].
Proof. vm_compute. reflexivity. Qed.

(* the hypothesis of C18_nothing_but_values_after_terminator holds there *)
Example sx_after_ddash_terminated :
  walk_of sx_dd sx_root [s2l "--"; s2l "--ver"] = (cs_fill sx_dd sx_root [] false, None, [s2l "--ver"], true).
Proof. vm_compute. reflexivity. Qed.

(* without PassDoubleDash "--" is an ordinary (left-over) argument: options are still offered *)
Example sx_ddash_not_a_terminator :
  complete sx_plain sx_root [s2l "--"; s2l "--ver"] = [(s2l "--verbose", []); (s2l "--version", [])].
Proof. vm_compute. reflexivity. Qed.

(* a pending positional's values are still completed after the terminator *)
Example sx_after_ddash_positional :
  complete sx_dd sx_root [s2l "remote"; s2l "add"; s2l "--"; s2l "al"] =
  [(s2l "alpha", s2l "desc alpha"); (s2l "alpine", s2l "desc alpine")].
Proof. vm_compute. reflexivity. Qed.

(* ... but a positional already consumed after the terminator is not pending any more *)
Example sx_after_ddash_positional_consumed :
  complete sx_dd sx_root [s2l "remote"; s2l "add"; s2l "--"; s2l "origin"; s2l "al"] = [].
Proof. vm_compute. reflexivity. Qed.

(* PassAfterNonOption: the first non-option, non-command word terminates *)
Example sx_passafter_terminates :
  complete sx_pa sx_root [s2l "stray"; s2l "--ver"] = [] /\
  complete sx_pa sx_root [s2l "stray"; s2l "re"] = [] /\
  walk_of sx_pa sx_root [s2l "stray"; s2l "--ver"] = (cs_fill sx_pa sx_root [] false, None, [s2l "--ver"], true) /\
  (* a command word does not terminate *)
  complete sx_pa sx_root [s2l "remote"; s2l "a"] = [(s2l "add", s2l "Add")] /\
  complete sx_pa sx_root [s2l "remote"; s2l "--f"] = [(s2l "--force", [])].
Proof. vm_compute. repeat split. Qed.

(* the instance of C18_complete_after_double_dash: prefix "remote add", then "--" *)
Example sx_ctx_remote_add : exists r',
  ctx_run_ret sx_dd cx_orc sx_root cx_help [] false cx_r0 [s2l "remote"; s2l "add"] [0%nat; 0%nat] false r'.
Proof.
  eexists.
  eapply (crr_cmd sx_dd cx_orc sx_root cx_help [] _ (s2l "remote") _ 0%nat); try reflexivity.
  eapply (crr_cmd sx_dd cx_orc sx_root cx_help [0%nat] _ (s2l "add") _ 0%nat); try reflexivity.
  apply crr_nil.
Qed.

Example sx_after_ddash_by_theorem :
  complete sx_dd sx_root ([s2l "remote"; s2l "add"] ++ s2l "--" :: [] ++ [s2l "be"]) =
  sort_by (fun it : str * str => fst it)
          (match skipn 0 (pos_at sx_root [0%nat; 0%nat]) with
           | p :: _ => complete_value (a_ty p) [] (s2l "be")
           | [] => []
           end).
Proof.
  destruct sx_ctx_remote_add as [r' H].
  exact (C18_complete_after_double_dash sx_dd cx_orc sx_root cx_help _ _ _ _ _ [] (s2l "be") eq_refl H).
Qed.

(* ---- b. ---- *)
(* sub-commands optional: "stray" is left over, then no command name is offered *)
Example sx_leftover_no_commands :
  complete sx_plain sx_root [s2l "re"] = [(s2l "remote", s2l "Remote")] /\
  complete sx_plain sx_root [s2l "stray"; s2l "re"] = [] /\
  complete sx_plain sx_root [s2l "remote"; s2l "stray"; s2l "a"] = [] /\
  (* a command word after a left-over argument does not switch the context *)
  complete sx_plain sx_root [s2l "stray"; s2l "remote"; s2l "a"] = [] /\
  complete sx_plain sx_root [s2l "stray"; s2l "remote"; s2l "--f"] = [] /\
  (* options are still offered *)
  complete sx_plain sx_root [s2l "stray"; s2l "--ver"] = [(s2l "--verbose", []); (s2l "--version", [])].
Proof. vm_compute. repeat split. Qed.

Example sx_leftover_walk :
  walk_of sx_plain sx_root [s2l "stray"; s2l "re"] = (cs_fill sx_plain sx_root [] true, None, [s2l "re"], false) /\
  cs_ret (cs_fill sx_plain sx_root [] true) = true.
Proof. vm_compute. split; reflexivity. Qed.

Example sx_enter_then_complete : complete sx_plain sx_root [s2l "remote"; s2l "a"] = [(s2l "add", s2l "Add")].
Proof. vm_compute. reflexivity. Qed.

(* IgnoreUnknown: an unknown option is passed through as an argument, hence left over *)
Example sx_ignore_unknown :
  complete sx_ig sx_root [s2l "--bogus"; s2l "re"] = [] /\
  complete sx_ig sx_root [s2l "--bogus=1"; s2l "re"] = [] /\
  complete sx_ig sx_root [s2l "-z"; s2l "re"] = [] /\
  complete sx_ig sx_root [s2l "--verbose"; s2l "re"] = [(s2l "remote", s2l "Remote")] /\
  (* a known option with an inline argument is looked up and skipped *)
  complete sx_ig sx_root [s2l "--color=alpha"; s2l "re"] = [(s2l "remote", s2l "Remote")].
Proof. vm_compute. repeat split. Qed.

(* ---- c. ---- *)
(* remote --force stray rm: "stray" is left over in the context of remote, after which
   "rm" is no command word any more *)
Definition sx_words : list str := [s2l "remote"; s2l "--" ++ s2l "force"; s2l "stray"; s2l "rm"].

Example sx_ctx_run_ret : exists r',
  ctx_run_ret sx_plain cx_orc sx_root cx_help [] false cx_r0 sx_words [0%nat] true r'.
Proof.
  eexists. unfold sx_words.
  eapply (crr_cmd sx_plain cx_orc sx_root cx_help [] _ (s2l "remote") _ 0%nat); try reflexivity.
  eapply (crr_flag sx_plain cx_orc sx_root cx_help [0%nat] false _ (s2l "force"));
    [reflexivity|apply not_in_61; reflexivity|reflexivity|reflexivity|reflexivity|].
  eapply (crr_leftover sx_plain cx_orc sx_root cx_help [0%nat] false _ (s2l "stray"));
    [reflexivity|reflexivity|reflexivity|reflexivity|left; reflexivity|right; right; reflexivity|].
  eapply (crr_leftover sx_plain cx_orc sx_root cx_help [0%nat] true _ (s2l "rm"));
    [reflexivity|reflexivity|reflexivity|reflexivity|right; reflexivity|left; reflexivity|].
  apply crr_nil.
Qed.

Example sx_ret_observed :
  walk_of sx_plain sx_root (sx_words ++ [s2l "x"]) = (cs_fill sx_plain sx_root [0%nat] true, None, [s2l "x"], false) /\
  match run_loop sx_plain cx_orc sx_root cx_help 5 (initial_pst sx_plain sx_root sx_words) cx_r0 with
  | Ok (sp, r') => ps_cmd sp = [0%nat] /\ ps_ret sp = [s2l "stray"; s2l "rm"] /\ ps_err sp = None /\
                   rt_vals r' 4%nat = VBool true /\ rt_active r' = [([], 0%nat)]
  | _ => False
  end.
Proof. vm_compute. repeat split. Qed.

(* the conclusion of c., obtained from the theorem *)
Example sx_ret_by_theorem : exists sp r',
  walk_of sx_plain sx_root (sx_words ++ [s2l "x"]) = (cs_fill sx_plain sx_root [0%nat] true, None, [s2l "x"], false) /\
  run_loop sx_plain cx_orc sx_root cx_help (S (length sx_words)) (initial_pst sx_plain sx_root sx_words) cx_r0 = Ok (sp, r') /\
  ps_cmd sp = [0%nat] /\ nonempty (map (fun _ : str => 0) (ps_ret sp)) = true /\ ps_err sp = None.
Proof.
  destruct sx_ctx_run_ret as [r' H].
  destruct (C18_walk_ret_agrees_with_parser_api sx_plain cx_orc sx_root cx_help sx_words [0%nat] true (s2l "x")
              cx_r0 r' H) as (sp & H1 & H2 & H3 & _ & _ & H6 & H7 & _).
  exists sp, r'. repeat (split; [assumption|]). assumption.
Qed.

(* IgnoreUnknown: --bogus=1 -z remote : both unknown options are left over, after
   which "remote" is no command word *)
Definition sx_words_ig : list str := [s2l "--bogus=1"; s2l "-z"; s2l "remote"].

Example sx_ctx_run_ret_ignore : exists r',
  ctx_run_ret sx_ig cx_orc sx_root cx_help [] false cx_r0 sx_words_ig [] true r'.
Proof.
  eexists. unfold sx_words_ig.
  eapply (crr_unknown_long sx_ig cx_orc sx_root cx_help [] false _ _ (s2l "bogus") (Some (s2l "1")));
    [reflexivity|reflexivity|reflexivity|reflexivity|reflexivity|].
  eapply (crr_unknown_short sx_ig cx_orc sx_root cx_help [] true _ _ (s2l "z") None);
    [reflexivity|reflexivity|discriminate|reflexivity|reflexivity|reflexivity|].
  eapply (crr_leftover sx_ig cx_orc sx_root cx_help [] true _ (s2l "remote"));
    [reflexivity|reflexivity|reflexivity|reflexivity|right; reflexivity|left; reflexivity|].
  apply crr_nil.
Qed.

Example sx_ret_observed_ignore :
  walk_of sx_ig sx_root (sx_words_ig ++ [s2l "a"]) = (cs_fill sx_ig sx_root [] true, None, [s2l "a"], false) /\
  complete sx_ig sx_root (sx_words_ig ++ [s2l "a"]) = [] /\
  match run_loop sx_ig cx_orc sx_root cx_help 4 (initial_pst sx_ig sx_root sx_words_ig) cx_r0 with
  | Ok (sp, r') => ps_cmd sp = [] /\ ps_ret sp = sx_words_ig /\ ps_err sp = None /\ rt_active r' = []
  | _ => False
  end.
Proof. vm_compute. repeat split. Qed.

(* the side condition of crr_leftover cannot be dropped: where a command is REQUIRED
   (ContextSpec.cx_root: sub-commands not optional) the parser's loop stops at the
   stray word (parseNonOption returns ErrUnknownCommand, which breaks the loop: the
   following --verbose is never read), while the walk goes on *)
Example sx_required_command_diverges :
  walk_of cx_cfg cx_root [s2l "stray"; s2l "--verbose"; s2l "re"]
    = (cs_fill cx_cfg cx_root [] true, None, [s2l "re"], false) /\
  match run_loop cx_cfg cx_orc cx_root cx_help 3
                 (initial_pst cx_cfg cx_root [s2l "stray"; s2l "--verbose"]) cx_r0 with
  | Ok (sp, r') => ps_args sp = [s2l "--verbose"] /\ ps_ret sp = [s2l "stray"] /\ rt_vals r' 1%nat = VBool false
  | _ => False
  end.
Proof. vm_compute. repeat split. Qed.

(* ---- d. ---- *)
Example sx_ctx_remote : exists r',
  ctx_run_ret sx_plain cx_orc sx_root cx_help [] false cx_r0 [s2l "remote"] [0%nat] false r'.
Proof.
  eexists.
  eapply (crr_cmd sx_plain cx_orc sx_root cx_help [] _ (s2l "remote") _ 0%nat); try reflexivity.
  apply crr_nil.
Qed.

Example sx_offered_add :
  pos_at sx_root [0%nat] = [] /\ starts_option (s2l "a") = false /\
  In (s2l "add", s2l "Add") (complete sx_plain sx_root ([s2l "remote"] ++ [s2l "a"])).
Proof. vm_compute. auto. Qed.

(* the conclusion of d., obtained from the theorem: the parse of "remote add" ends in
   the context of the offered command *)
Example sx_offered_add_entered : exists i sp r',
  find_last (lk_cmds (make_lookup (s2l ".") sx_root [0%nat])) (s2l "add") = Some i /\
  run_loop sx_plain cx_orc sx_root cx_help 3 (initial_pst sx_plain sx_root [s2l "remote"; s2l "add"]) cx_r0
    = Ok (sp, r') /\
  ps_cmd sp = [0%nat] ++ [i] /\ ps_ret sp = [] /\ ps_err sp = None.
Proof.
  destruct sx_ctx_remote as [r' H]. destruct sx_offered_add as (Hp & Hso & Hin).
  destruct (C18_offered_command_is_entered_nonempty sx_plain cx_orc sx_root cx_help [s2l "remote"] [0%nat]
              (s2l "a") cx_r0 r' (s2l "add") (s2l "Add") H Hp Hso ltac:(discriminate) Hin)
    as (i & sp & H1 & H2 & H3 & H4 & H5 & _).
  exists i, sp, (set_active r' [0%nat] i). repeat (split; [assumption|]). assumption.
Qed.

Example sx_offered_add_observed :
  match run_loop sx_plain cx_orc sx_root cx_help 3 (initial_pst sx_plain sx_root [s2l "remote"; s2l "add"]) cx_r0 with
  | Ok (sp, r') => ps_cmd sp = [0%nat; 0%nat] /\ ps_ret sp = [] /\ ps_err sp = None /\
                   rt_active r' = [([0%nat], 0%nat); ([], 0%nat)]
  | _ => False
  end.
Proof. vm_compute. repeat split. Qed.

(* the side condition [starts_option name = false] of d. (needed only when the word
   being completed is empty): a sub-command whose name looks like an option is offered
   for the empty word, but the parser reads that token as an option *)
Example sx_option_like_command_name :
  let root := Command (cx_cinfo (s2l "app") [] false true) (Group (cx_ginfo []) [] []) []
                      [Command (cx_cinfo (s2l "-x") [] false false) (Group (cx_ginfo (s2l "X")) [] []) [] []] in
  complete sx_plain root [[]] = [(s2l "-x", s2l "X")] /\
  match run_loop sx_plain cx_orc root cx_help 2 (initial_pst sx_plain root [s2l "-x"]) cx_r0 with
  | Ok (sp, _) => ps_cmd sp = [] /\ match ps_err sp with Some (EFlags ErrUnknownFlag _) => True | _ => False end
  | _ => False
  end.
Proof. vm_compute. repeat split. Qed.

Print Assumptions complete_by_walk.
Print Assumptions comp_walk_terminated_opt.
Print Assumptions C18_nothing_but_values_after_terminator.
Print Assumptions C18_after_terminator_items.
Print Assumptions C18_after_terminator_no_positional.
Print Assumptions C18_terminated_when_ddash_reached.
Print Assumptions C18_terminated_when_non_option_reached.
Print Assumptions C18_terminated_by_double_dash.
Print Assumptions C18_terminated_by_non_option.
Print Assumptions C18_complete_after_double_dash.
Print Assumptions C18_complete_after_non_option.
Print Assumptions C18_no_commands_after_leftover.
Print Assumptions C18_commands_only_when_live.
Print Assumptions C18_complete_after_leftover.
Print Assumptions C18_complete_long_names.
Print Assumptions C18_complete_commands.
Print Assumptions ctx_run_ctx_run_ret.
Print Assumptions C18_walk_ret_agrees_with_parser_from.
Print Assumptions C18_walk_ret_agrees_with_parser.
Print Assumptions C18_walk_ret_agrees_with_parser_api.
Print Assumptions C18_offered_command_is_entered.
Print Assumptions C18_offered_command_is_entered_nonempty.
