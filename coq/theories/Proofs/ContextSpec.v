(* C18, last clause ("the parser's own parse of the same prefix reaches the same
   command context"): agreement between the completion walk (Complete.comp_walk) and
   the parser loop (Parse.step / Parse.run_loop) on universally quantified classes of
   prefixes; and the C16 facts on the sub-command fragment of the usage line. *)
From GoFlags Require Import Base.Str Base.Utf8 Golib.Strings Golib.Strconv
     Model.Types Model.Tag Model.Scan Model.Lookup Model.Convert Model.State Model.Help Model.Parse
     Model.Complete Proofs.LookupSpec Proofs.FrameBase Proofs.CompleteSpec Proofs.HelpSpec Proofs.SpellSpec.
From Coq Require Import Lia Permutation Sorted ZifyN ZifyNat ZifyBool.
Open Scope N_scope.

(* ================================================================== *)
(* 0. small list facts and one-step equations                          *)
(* ================================================================== *)

Lemma cons_snoc : forall {A} (x : A) (l : list A) (y : A), (x :: l) ++ [y] = x :: (l ++ [y]).
Proof. reflexivity. Qed.

Lemma last_cons_default : forall {A} (l : list A) (x d : A), last (x :: l) d = last l x.
Proof.
  induction l as [|y l IH]; intros x d; [reflexivity|].
  change (last (x :: y :: l) d) with (last (y :: l) d). rewrite (IH y d), (IH y x). reflexivity.
Qed.

Lemma snoc_is_cons : forall {A} (l : list A) (x : A), exists b t, l ++ [x] = b :: t.
Proof. intros A [|a l] x; [exists x, []|exists a, (l ++ [x])]; reflexivity. Qed.

(* the positional arguments pending when the command at [path] becomes current:
   the [ps_pos]/[cs_pos] component written by fillParseState *)
Definition pos_at (root : command) (path : list nat) : list arg :=
  match cmd_at root path with Some c => cmd_args c | None => [] end.

(* the text handed to Option.Set for a given argument (parseOption's unquoting) *)
Definition arg_text (o : opt) (V : str) : option str :=
  if o_unquote o then match V with 34 :: _ => unquote V | _ => Some V end else Some V.

(* the Active pointers recorded while descending from [path] through [idx] *)
Fixpoint entries (path idx : list nat) : list (list nat * nat) :=
  match idx with
  | [] => []
  | i :: idx' => (path, i) :: entries (path ++ [i]) idx'
  end.
Fixpoint enter_all (r : rt) (path idx : list nat) : rt :=
  match idx with
  | [] => r
  | i :: idx' => enter_all (set_active r path i) (path ++ [i]) idx'
  end.

Lemma enter_all_frame : forall idx r path,
  rt_vals (enter_all r path idx) = rt_vals r /\
  rt_fl (enter_all r path idx) = rt_fl r /\
  rt_logs (enter_all r path idx) = rt_logs r /\
  rt_active (enter_all r path idx) = rev (entries path idx) ++ rt_active r.
Proof.
  induction idx as [|i idx IH]; intros r path; cbn [enter_all entries rev].
  - repeat split.
  - destruct (IH (set_active r path i) (path ++ [i])) as (A & B & C & D).
    rewrite A, B, C, D. cbn [set_active rt_vals rt_fl rt_logs rt_active].
    rewrite <- app_assoc. repeat split.
Qed.

Section Ctx.
  Variable cfg : pconfig.
  Variable orc : oracles.
  Variable root : command.
  Variable help_text : rt -> str.

  Let delim := pc_nsdelim cfg.
  Let po := pc_opts cfg.

  Local Notation cfill p := (cs_fill cfg root p false).
  Local Notation cwalk := (comp_walk cfg root).
  Local Notation pstep := (step cfg orc root help_text).
  Local Notation ploop := (run_loop cfg orc root help_text).

  (* ---------------------------------------------------------------- *)
  (* one-step equations of the two loops                              *)
  (* ---------------------------------------------------------------- *)

  Lemma run_loop_cons : forall f s r a rest,
    ps_args s = a :: rest ->
    ploop (S f) s r =
    bind (pstep s r) (fun sr => match sr with
                                | Break s' r' => Ok (s', r')
                                | Continue s' r' => ploop f s' r'
                                end).
  Proof. intros f s r a rest H. cbn [run_loop]. rewrite H. reflexivity. Qed.

  Lemma run_loop_done : forall f s r, ps_args s = [] -> ploop (S f) s r = Ok (s, r).
  Proof. intros f s r H. cbn [run_loop]. rewrite H. reflexivity. Qed.

  Lemma comp_walk_last : forall f a s opt, cwalk f [a] s opt = (s, opt, [a], false).
  Proof. intros [|f] a s opt; reflexivity. Qed.

  (* a word that is neither "--" (under PassDoubleDash) nor an option token, with no
     positional pending, naming a sub-command *)
  Lemma comp_walk_cmd_word : forall f a b rest s opt i,
    po_passdd po && str_eqb a (s2l "--") = false ->
    argument_is_option a = false ->
    cs_pos s = [] ->
    cs_ret s = false ->
    find_last (lk_cmds (cs_lk s)) a = Some i ->
    cwalk (S f) (a :: b :: rest) s opt = cwalk f (b :: rest) (cfill (cs_cmd s ++ [i])) None.
  Proof.
    intros f a b rest s opt i Hdd Hno Hpos Hret Hfind. cbn [comp_walk].
    fold po. rewrite Hdd, Hno, Hpos, Hfind, Hret. reflexivity.
  Qed.

  (* an option token with an inline argument is skipped when it names a known option
     (the walk now looks the name up), or whatever it names when IgnoreUnknown is off;
     an unknown one under IgnoreUnknown is a plain argument: see comp_walk_unknown *)
  Lemma comp_walk_inline : forall f a b rest s opt il n V,
    argument_is_option a = true ->
    split_option a = (il, n, Some V) ->
    po_ignore po = false \/
    fst (if il then (find_last (lk_long (cs_lk s)) n, true)
         else comp_short_walk (cs_lk s) (length n) (range_str n) None true) <> None ->
    cwalk (S f) (a :: b :: rest) s opt = cwalk f (b :: rest) s opt.
  Proof.
    intros f a b rest s opt il n V Hopt Hsplit Hk. cbn [comp_walk].
    rewrite (option_not_ddash a Hopt), andb_false_r, Hopt, Hsplit. fold po.
    destruct (if il then (find_last (lk_long (cs_lk s)) n, true)
              else comp_short_walk (cs_lk s) (length n) (range_str n) None true) as [o canarg].
    cbn [fst] in Hk. destruct o as [oc|]; [reflexivity|].
    destruct Hk as [Hk|Hk]; [rewrite Hk; reflexivity|congruence].
  Qed.

  (* an unknown option token under IgnoreUnknown is passed through as a plain argument *)
  Lemma comp_walk_unknown : forall f a b rest s opt il n arg,
    argument_is_option a = true ->
    split_option a = (il, n, arg) ->
    po_ignore po = true ->
    fst (if il then (find_last (lk_long (cs_lk s)) n, true)
         else comp_short_walk (cs_lk s) (length n) (range_str n) None true) = None ->
    cwalk (S f) (a :: b :: rest) s opt = cwalk f (b :: rest) (cs_plain s) None.
  Proof.
    intros f a b rest s opt il n arg Hopt Hsplit Hign Hk. cbn [comp_walk].
    rewrite (option_not_ddash a Hopt), andb_false_r, Hopt, Hsplit. fold po.
    destruct (if il then (find_last (lk_long (cs_lk s)) n, true)
              else comp_short_walk (cs_lk s) (length n) (range_str n) None true) as [o canarg].
    cbn [fst] in Hk. subst o. rewrite Hign. reflexivity.
  Qed.

  (* a known long option that takes no argument is skipped *)
  Lemma comp_walk_long_flag : forall f a b rest s opt n oc,
    argument_is_option a = true ->
    split_option a = (true, n, None) ->
    find_last (lk_long (cs_lk s)) n = Some oc ->
    can_argument (oc_opt oc) = false ->
    cwalk (S f) (a :: b :: rest) s opt = cwalk f (b :: rest) s opt.
  Proof.
    intros f a b rest s opt n oc Hopt Hsplit Hfind Hcan. cbn [comp_walk].
    rewrite (option_not_ddash a Hopt), andb_false_r, Hopt, Hsplit, Hfind, Hcan. reflexivity.
  Qed.

  (* a known long option that requires an argument: the next word is popped ... *)
  Lemma comp_walk_long_arg_pop : forall f a v x rest s opt n oc,
    argument_is_option a = true ->
    split_option a = (true, n, None) ->
    find_last (lk_long (cs_lk s)) n = Some oc ->
    can_argument (oc_opt oc) = true -> o_optional (oc_opt oc) = false ->
    cwalk (S f) (a :: v :: x :: rest) s opt = cwalk f (x :: rest) s opt.
  Proof.
    intros f a v x rest s opt n oc Hopt Hsplit Hfind Hcan Hoptl. cbn [comp_walk].
    rewrite (option_not_ddash a Hopt), andb_false_r, Hopt, Hsplit, Hfind, Hcan, Hoptl. reflexivity.
  Qed.

  (* ... unless it is the last word: then it is that option's value being completed *)
  Lemma comp_walk_long_arg_last : forall f a v s opt n oc,
    argument_is_option a = true ->
    split_option a = (true, n, None) ->
    find_last (lk_long (cs_lk s)) n = Some oc ->
    can_argument (oc_opt oc) = true -> o_optional (oc_opt oc) = false ->
    cwalk (S f) [a; v] s opt = (s, Some oc, [v], false).
  Proof.
    intros f a v s opt n oc Hopt Hsplit Hfind Hcan Hoptl. cbn [comp_walk].
    rewrite (option_not_ddash a Hopt), andb_false_r, Hopt, Hsplit, Hfind, Hcan, Hoptl.
    cbn [negb andb]. apply comp_walk_last.
  Qed.

  (* ---------------------------------------------------------------- *)
  (* the parser state "is in the command context of [path]"            *)
  (* ---------------------------------------------------------------- *)
  Definition in_ctx (s : pst) (path : list nat) : Prop :=
    ps_cmd s = path /\ ps_lk s = make_lookup delim root path /\
    ps_pos s = pos_at root path /\ ps_ret s = [].

  Lemma in_ctx_with_args : forall s path a rest, in_ctx s path -> in_ctx (ps_with_args s a rest) path.
  Proof. intros s path a rest H. exact H. Qed.

  Lemma in_ctx_initial : forall args, in_ctx (initial_pst cfg root args) [].
  Proof. intros args. repeat split. Qed.

  (* a command word: one loop iteration enters the sub-command *)
  Lemma step_cmd_word : forall s r w rest path i,
    ps_args s = w :: rest -> in_ctx s path ->
    po_passdd po && str_eqb w (s2l "--") = false ->
    argument_is_option w = false ->
    pos_at root path = [] ->
    find_last (lk_cmds (make_lookup delim root path)) w = Some i ->
    pstep s r = Ok (Continue (fill_parse_state cfg root (ps_with_args s w rest) (path ++ [i]))
                             (set_active r path i)).
  Proof.
    intros s r w rest path i Hargs (Hcmd & Hlk & Hpos & Hret) Hdd Hno Hp Hfind.
    unfold step. rewrite Hargs. cbv zeta. fold po. rewrite Hdd, Hno. cbn [negb].
    cbn [ps_lk ps_with_args]. rewrite Hlk. fold delim. rewrite Hfind, andb_false_r.
    destruct (lookup_cmds_exact delim root path w i Hfind) as (cur & sub & Hat & Hn & _).
    rewrite (C08_enter cfg orc root (ps_with_args s w rest) r i).
    - cbn [bind ps_cmd ps_with_args]. rewrite Hcmd. reflexivity.
    - cbn [ps_pos ps_with_args]. rewrite Hpos. exact Hp.
    - unfold cur_cmd. cbn [ps_cmd ps_with_args]. rewrite Hcmd, Hat.
      destruct (cmd_subs cur) as [|c0 l]; [destruct i; discriminate Hn|reflexivity].
    - exact Hret.
    - cbn [ps_lk ps_arg ps_with_args]. rewrite Hlk. exact Hfind.
  Qed.

  Lemma in_ctx_fill : forall s path, ps_ret s = [] -> in_ctx (fill_parse_state cfg root s path) path.
  Proof. intros s path H. repeat split. exact H. Qed.

  (* a long flag --n (no argument possible) whose Set succeeds *)
  Lemma step_long_flag : forall s r n rest oc r1,
    ps_args s = (s2l "--" ++ n) :: rest ->
    argument_is_option (s2l "--" ++ n) = true -> ~ In 61 n ->
    find_last (lk_long (ps_lk s)) n = Some oc ->
    can_argument (oc_opt oc) = false ->
    opt_set orc delim help_text oc None r = Ok (r1, None) ->
    pstep s r = Ok (Continue (ps_with_args s (s2l "--" ++ n) rest) r1).
  Proof.
    intros s r n rest oc r1 Hargs Hopt H61 Hfind Hcan Hset.
    rewrite (step_on_option cfg orc root help_text s r _ rest true n None Hargs Hopt (split_long_plain n H61)).
    unfold parse_long. cbn [ps_lk ps_with_args]. rewrite Hfind.
    rewrite parse_option_flag by exact Hcan.
    rewrite tail_lift by apply flag_set_cls.
    unfold outcome, flag_set. fold delim. rewrite Hset. reflexivity.
  Qed.

  (* a long option with inline argument --n=V whose Set succeeds *)
  Lemma step_long_inline : forall s r n V rest oc v' r1,
    ps_args s = (s2l "--" ++ n ++ [61] ++ V) :: rest ->
    argument_is_option (s2l "--" ++ n ++ [61] ++ V) = true -> ~ In 61 n ->
    find_last (lk_long (ps_lk s)) n = Some oc ->
    can_argument (oc_opt oc) = true ->
    arg_text (oc_opt oc) V = Some v' ->
    opt_set orc delim help_text oc (Some v') r = Ok (r1, None) ->
    pstep s r = Ok (Continue (ps_with_args s (s2l "--" ++ n ++ [61] ++ V) rest) r1).
  Proof.
    intros s r n V rest oc v' r1 Hargs Hopt H61 Hfind Hcan Htxt Hset.
    rewrite (step_on_option cfg orc root help_text s r _ rest true n (Some V) Hargs Hopt (split_long_eq n V H61)).
    unfold parse_long. cbn [ps_lk ps_with_args]. rewrite Hfind.
    rewrite parse_option_inline by exact Hcan.
    rewrite tail_lift by apply set_with_cls.
    unfold outcome, set_with. unfold arg_text in Htxt. rewrite Htxt. fold delim. rewrite Hset. reflexivity.
  Qed.

  (* a long option with a separate argument: --n V *)
  Lemma step_long_separate : forall s r n V rest oc v' r1,
    ps_args s = (s2l "--" ++ n) :: V :: rest ->
    argument_is_option (s2l "--" ++ n) = true -> ~ In 61 n ->
    find_last (lk_long (ps_lk s)) n = Some oc ->
    can_argument (oc_opt oc) = true -> o_optional (oc_opt oc) = false ->
    is_valid_value (oc_opt oc) V = true ->
    po_passdd po && str_eqb V (s2l "--") = false ->
    arg_text (oc_opt oc) V = Some v' ->
    opt_set orc delim help_text oc (Some v') r = Ok (r1, None) ->
    pstep s r = Ok (Continue (ps_with_args (ps_with_args s (s2l "--" ++ n) (V :: rest)) V rest) r1).
  Proof.
    intros s r n V rest oc v' r1 Hargs Hopt H61 Hfind Hcan Hoptl Hval Hdd Htxt Hset.
    rewrite (step_on_option cfg orc root help_text s r _ (V :: rest) true n None Hargs Hopt (split_long_plain n H61)).
    unfold parse_long. cbn [ps_lk ps_with_args]. rewrite Hfind, Hoptl. cbn [negb].
    rewrite (parse_option_separate cfg orc help_text oc V rest) by (try assumption; reflexivity).
    rewrite tail_lift by apply set_with_cls.
    unfold outcome, set_with. unfold arg_text in Htxt. rewrite Htxt. fold delim. rewrite Hset. reflexivity.
  Qed.

  (* ================================================================== *)
  (* 1./2. prefixes made of command words, long flags and --name=value   *)
  (* ================================================================== *)

  (* [ctx_run path r ws path' r']: the words [ws], read in the command context
     [path] with runtime state [r], are command words (each resolving in the lookup of
     the context reached so far, no positional argument pending), known long flags
     and known long options with an inline argument whose Option.Set succeeds; they
     lead to the context [path'] and the runtime state [r']. *)
  Inductive ctx_run : list nat -> rt -> list str -> list nat -> rt -> Prop :=
  | cr_nil : forall path r, ctx_run path r [] path r
  | cr_cmd : forall path r w ws i path' r',
      po_passdd po && str_eqb w (s2l "--") = false ->
      argument_is_option w = false ->
      pos_at root path = [] ->
      find_last (lk_cmds (make_lookup delim root path)) w = Some i ->
      ctx_run (path ++ [i]) (set_active r path i) ws path' r' ->
      ctx_run path r (w :: ws) path' r'
  | cr_flag : forall path r n oc r1 ws path' r',
      argument_is_option (s2l "--" ++ n) = true -> ~ In 61 n ->
      find_last (lk_long (make_lookup delim root path)) n = Some oc ->
      can_argument (oc_opt oc) = false ->
      opt_set orc delim help_text oc None r = Ok (r1, None) ->
      ctx_run path r1 ws path' r' ->
      ctx_run path r ((s2l "--" ++ n) :: ws) path' r'
  | cr_inline : forall path r n V oc v' r1 ws path' r',
      argument_is_option (s2l "--" ++ n ++ [61] ++ V) = true -> ~ In 61 n ->
      find_last (lk_long (make_lookup delim root path)) n = Some oc ->
      can_argument (oc_opt oc) = true ->
      arg_text (oc_opt oc) V = Some v' ->
      opt_set orc delim help_text oc (Some v') r = Ok (r1, None) ->
      ctx_run path r1 ws path' r' ->
      ctx_run path r ((s2l "--" ++ n ++ [61] ++ V) :: ws) path' r'.

  (* command words only: [idx] are the child indices they resolve to *)
  Inductive cmd_words : list nat -> list str -> list nat -> Prop :=
  | cw_nil : forall path, cmd_words path [] []
  | cw_cons : forall path w ws i idx,
      po_passdd po && str_eqb w (s2l "--") = false ->
      argument_is_option w = false ->
      pos_at root path = [] ->
      find_last (lk_cmds (make_lookup delim root path)) w = Some i ->
      cmd_words (path ++ [i]) ws idx ->
      cmd_words path (w :: ws) (i :: idx).

  Lemma cmd_words_ctx_run : forall path ws idx, cmd_words path ws idx ->
    forall r, ctx_run path r ws (path ++ idx) (enter_all r path idx).
  Proof.
    induction 1 as [path|path w ws i idx Hdd Hno Hp Hfind _ IH]; intros r.
    - rewrite app_nil_r. apply cr_nil.
    - cbn [enter_all]. replace (path ++ i :: idx) with ((path ++ [i]) ++ idx)
        by (rewrite <- app_assoc; reflexivity).
      eapply cr_cmd; try eassumption. apply IH.
  Qed.

  (* the completion walk: command words move the context, options are skipped *)
  Lemma comp_walk_ctx_run : forall path r ws path' r', ctx_run path r ws path' r' ->
    forall f lastw, (length ws <= f)%nat ->
    cwalk f (ws ++ [lastw]) (cfill path) None = (cfill path', None, [lastw], false).
  Proof.
    induction 1 as [path r
                   |path r w ws i path' r' Hdd Hno Hp Hfind _ IH
                   |path r n oc r1 ws path' r' Hopt H61 Hfind Hcan Hset _ IH
                   |path r n V oc v' r1 ws path' r' Hopt H61 Hfind Hcan Htxt Hset _ IH];
      intros f lastw Hf.
    - cbn [app]. apply comp_walk_last.
    - destruct f as [|f]; [cbn [length] in Hf; lia|]. cbn [length] in Hf.
      rewrite (cons_snoc _ ws lastw). destruct (snoc_is_cons ws lastw) as (b & t & E). rewrite E.
      rewrite (comp_walk_cmd_word f w b t (cfill path) None i); try assumption; try reflexivity.
      cbn [cs_cmd cs_fill]. rewrite <- E. apply IH. lia.
    - destruct f as [|f]; [cbn [length] in Hf; lia|]. cbn [length] in Hf.
      rewrite (cons_snoc _ ws lastw). destruct (snoc_is_cons ws lastw) as (b & t & E). rewrite E.
      rewrite (comp_walk_long_flag f _ b t (cfill path) None n oc Hopt (split_long_plain n H61));
        try assumption.
      rewrite <- E. apply IH. lia.
    - destruct f as [|f]; [cbn [length] in Hf; lia|]. cbn [length] in Hf.
      rewrite (cons_snoc _ ws lastw). destruct (snoc_is_cons ws lastw) as (b & t & E). rewrite E.
      rewrite (comp_walk_inline f _ b t (cfill path) None true n V Hopt (split_long_eq n V H61))
        by (right; cbn [fst cs_lk cs_fill]; fold delim; rewrite Hfind; discriminate).
      rewrite <- E. apply IH. lia.
  Qed.

  (* the parser loop: command words move the context, options only change [rt] *)
  Lemma run_loop_ctx_run : forall path r ws path' r', ctx_run path r ws path' r' ->
    forall f s, (length ws < f)%nat -> ps_args s = ws -> in_ctx s path ->
    exists s', ploop f s r = Ok (s', r') /\ in_ctx s' path' /\
               ps_args s' = [] /\ ps_err s' = ps_err s /\ ps_arg s' = last ws (ps_arg s).
  Proof.
    induction 1 as [path r
                   |path r w ws i path' r' Hdd Hno Hp Hfind _ IH
                   |path r n oc r1 ws path' r' Hopt H61 Hfind Hcan Hset _ IH
                   |path r n V oc v' r1 ws path' r' Hopt H61 Hfind Hcan Htxt Hset _ IH];
      intros f s Hf Hargs Hctx; (destruct f as [|f]; [cbn [length] in Hf; lia|]); cbn [length] in Hf.
    - exists s. rewrite run_loop_done by exact Hargs. repeat split; try assumption; apply Hctx.
    - rewrite (run_loop_cons f s r w ws Hargs).
      rewrite (step_cmd_word s r w ws path i Hargs Hctx Hdd Hno Hp Hfind). cbn [bind].
      destruct (IH f (fill_parse_state cfg root (ps_with_args s w ws) (path ++ [i]))) as (s' & Hl & Hc & Ha & He & Hl');
        [lia|reflexivity|apply in_ctx_fill; apply Hctx|].
      exists s'. split; [exact Hl|]. split; [exact Hc|]. split; [exact Ha|]. split; [exact He|].
      rewrite Hl'. cbn [ps_arg fill_parse_state ps_with_args]. symmetry. apply last_cons_default.
    - assert (Hfind' : find_last (lk_long (ps_lk s)) n = Some oc)
        by (destruct Hctx as (_ & Hlk & _); rewrite Hlk; exact Hfind).
      rewrite (run_loop_cons f s r _ ws Hargs).
      rewrite (step_long_flag s r n ws oc r1 Hargs Hopt H61 Hfind' Hcan Hset). cbn [bind].
      destruct (IH f (ps_with_args s (s2l "--" ++ n) ws)) as (s' & Hl & Hc & Ha & He & Hl');
        [lia|reflexivity|apply in_ctx_with_args; exact Hctx|].
      exists s'. split; [exact Hl|]. split; [exact Hc|]. split; [exact Ha|]. split; [exact He|].
      rewrite Hl'. cbn [ps_arg ps_with_args]. symmetry. apply last_cons_default.
    - assert (Hfind' : find_last (lk_long (ps_lk s)) n = Some oc)
        by (destruct Hctx as (_ & Hlk & _); rewrite Hlk; exact Hfind).
      rewrite (run_loop_cons f s r _ ws Hargs).
      rewrite (step_long_inline s r n V ws oc v' r1 Hargs Hopt H61 Hfind' Hcan Htxt Hset). cbn [bind].
      destruct (IH f (ps_with_args s (s2l "--" ++ n ++ [61] ++ V) ws)) as (s' & Hl & Hc & Ha & He & Hl');
        [lia|reflexivity|apply in_ctx_with_args; exact Hctx|].
      exists s'. split; [exact Hl|]. split; [exact Hc|]. split; [exact Ha|]. split; [exact He|].
      rewrite Hl'. cbn [ps_arg ps_with_args]. symmetry. apply last_cons_default.
  Qed.

  (* ---------------------------------------------------------------- *)
  (* Target 2 (general form, any starting context)                     *)
  (* ---------------------------------------------------------------- *)
  Theorem C18_context_with_flags_from :
    forall (path : list nat) (r : rt) (ws : list str) (path' : list nat) (r' : rt),
    ctx_run path r ws path' r' ->
    forall (lastw : str) (fc fp : nat) (s : pst),
    (length ws <= fc)%nat -> (length ws < fp)%nat ->
    ps_args s = ws -> in_ctx s path ->
    exists sp,
      cwalk fc (ws ++ [lastw]) (cfill path) None = (cfill path', None, [lastw], false) /\
      ploop fp s r = Ok (sp, r') /\
      ps_cmd sp = path' /\ ps_lk sp = make_lookup delim root path' /\
      ps_pos sp = pos_at root path' /\ ps_ret sp = [] /\
      ps_err sp = ps_err s /\ ps_args sp = [] /\ ps_arg sp = last ws (ps_arg s) /\
      cs_cmd (cfill path') = ps_cmd sp /\ cs_lk (cfill path') = ps_lk sp /\
      cs_pos (cfill path') = ps_pos sp.
  Proof.
    intros path r ws path' r' Hrun lastw fc fp s Hfc Hfp Hargs Hctx.
    destruct (run_loop_ctx_run path r ws path' r' Hrun fp s Hfp Hargs Hctx)
      as (sp & Hl & (Hcmd & Hlk & Hpos & Hret) & Ha & He & Hlast).
    exists sp. split; [exact (comp_walk_ctx_run path r ws path' r' Hrun fc lastw Hfc)|].
    split; [exact Hl|]. cbn [cs_cmd cs_lk cs_pos cs_fill]. fold delim. fold (pos_at root path').
    repeat (split; [assumption|]). repeat split; congruence.
  Qed.

  (* Target 2: from the initial states of [complete] and [parse_core] *)
  Theorem C18_context_with_flags :
    forall (ws : list str) (path' : list nat) (lastw : str) (r r' : rt) (fc fp : nat),
    ctx_run [] r ws path' r' ->
    (length ws <= fc)%nat -> (length ws < fp)%nat ->
    exists sp,
      cwalk fc (ws ++ [lastw]) (cfill []) None = (cfill path', None, [lastw], false) /\
      ploop fp (initial_pst cfg root ws) r = Ok (sp, r') /\
      ps_cmd sp = path' /\ ps_lk sp = make_lookup delim root path' /\
      ps_pos sp = pos_at root path' /\ ps_ret sp = [] /\
      ps_err sp = None /\ ps_args sp = [] /\
      cs_cmd (cfill path') = ps_cmd sp /\ cs_lk (cfill path') = ps_lk sp /\
      cs_pos (cfill path') = ps_pos sp.
  Proof.
    intros ws path' lastw r r' fc fp Hrun Hfc Hfp.
    destruct (C18_context_with_flags_from [] r ws path' r' Hrun lastw fc fp (initial_pst cfg root ws)
                Hfc Hfp eq_refl (in_ctx_initial ws))
      as (sp & H1 & H2 & H3 & H4 & H5 & H6 & H7 & H8 & _ & H9 & H10 & H11).
    exists sp. repeat (split; [assumption|]). assumption.
  Qed.

  (* the fuels used by [complete] and [parse_core] are sufficient *)
  Corollary C18_context_with_flags_api_fuel :
    forall (ws : list str) (path' : list nat) (lastw : str) (r r' : rt),
    ctx_run [] r ws path' r' ->
    exists sp,
      cwalk (S (length (ws ++ [lastw]))) (ws ++ [lastw]) (cfill []) None = (cfill path', None, [lastw], false) /\
      ploop (S (length ws)) (initial_pst cfg root ws) r = Ok (sp, r') /\
      cs_cmd (cfill path') = ps_cmd sp /\ cs_lk (cfill path') = ps_lk sp /\
      cs_pos (cfill path') = ps_pos sp /\ ps_ret sp = [] /\ ps_err sp = None.
  Proof.
    intros ws path' lastw r r' Hrun.
    destruct (C18_context_with_flags ws path' lastw r r' (S (length (ws ++ [lastw]))) (S (length ws)) Hrun)
      as (sp & H1 & H2 & H3 & H4 & H5 & H6 & H7 & H8 & H9 & H10 & H11);
      [rewrite app_length; lia|lia|].
    exists sp. repeat (split; [assumption|]). assumption.
  Qed.

  (* Target 2, per token: an accepted long flag / long option with inline argument
     leaves the completion state untouched, and the parser's context components too
     (only [rt] and the token bookkeeping change) *)
  Theorem C18_option_tokens_keep_context :
    forall (sc : cst) (opt : option octx) (sp : pst) (r r1 : rt) (tok b : str) (rest : list str)
           (n : str) (oc : octx) (f : nat),
    ps_lk sp = cs_lk sc ->
    ps_args sp = tok :: b :: rest ->
    argument_is_option tok = true -> ~ In 61 n ->
    find_last (lk_long (cs_lk sc)) n = Some oc ->
    (tok = s2l "--" ++ n /\ can_argument (oc_opt oc) = false /\
       opt_set orc delim help_text oc None r = Ok (r1, None)) \/
    (exists V v', tok = s2l "--" ++ n ++ [61] ++ V /\ can_argument (oc_opt oc) = true /\
       arg_text (oc_opt oc) V = Some v' /\
       opt_set orc delim help_text oc (Some v') r = Ok (r1, None)) ->
    cwalk (S f) (tok :: b :: rest) sc opt = cwalk f (b :: rest) sc opt /\
    exists sp', pstep sp r = Ok (Continue sp' r1) /\
                ps_args sp' = b :: rest /\ ps_cmd sp' = ps_cmd sp /\ ps_lk sp' = ps_lk sp /\
                ps_pos sp' = ps_pos sp /\ ps_ret sp' = ps_ret sp /\ ps_err sp' = ps_err sp.
  Proof.
    intros sc opt sp r r1 tok b rest n oc f Hlk Hargs Hopt H61 Hfind
           [(-> & Hcan & Hset)|(V & v' & -> & Hcan & Htxt & Hset)].
    - split.
      + exact (comp_walk_long_flag f _ b rest sc opt n oc Hopt (split_long_plain n H61) Hfind Hcan).
      + eexists. split.
        * apply (step_long_flag sp r n (b :: rest) oc r1 Hargs Hopt H61); [rewrite Hlk|..]; assumption.
        * repeat split.
    - split.
      + apply (comp_walk_inline f _ b rest sc opt true n V Hopt (split_long_eq n V H61)).
        right. cbn [fst]. rewrite Hfind. discriminate.
      + eexists. split.
        * apply (step_long_inline sp r n V (b :: rest) oc v' r1 Hargs Hopt H61); [rewrite Hlk|..]; assumption.
        * repeat split.
  Qed.

  (* for a plain bool flag Option.Set cannot fail: the hypothesis on opt_set in
     [cr_flag] is then automatically satisfied *)
  Lemma opt_set_bool_flag : forall oc r,
    o_ty (oc_opt oc) = TScalar KBool ->
    opt_set orc delim help_text oc None r =
    Ok (set_val (set_fl r (o_fid (oc_opt oc))
                        (fl_with (rt_fl r (o_fid (oc_opt oc))) true
                                 (f_isdefault (rt_fl r (o_fid (oc_opt oc)))) true false))
                (o_fid (oc_opt oc)) (VBool true), None).
  Proof.
    intros oc r Hty. unfold opt_set. rewrite Hty. cbn [is_map is_slice orb andb is_func].
    destruct (o_choices (oc_opt oc)); reflexivity.
  Qed.

  (* more generally: for every option that takes no argument and is not a func
     (in particular not the help option, whose field is a func), Option.Set of a
     flag cannot fail *)
  Lemma convert_bool_flag : forall b ty cur,
    vtype_is_bool ty = true -> exists v, convert orc b [] ty cur = Ok (v, None).
  Proof.
    intros b ty. induction ty as [k|k|e IH|k v|a re]; intros cur H; cbn [vtype_is_bool] in H.
    - destruct k; try discriminate H. eexists. reflexivity.
    - destruct k; try discriminate H. eexists. reflexivity.
    - destruct (IH (zero_value e) H) as (v & E). cbn [convert]. rewrite E. eexists. reflexivity.
    - discriminate H.
    - eexists. reflexivity.
  Qed.

  Lemma opt_set_flag_ok : forall oc r,
    can_argument (oc_opt oc) = false -> is_func (o_ty (oc_opt oc)) = false ->
    exists r1, opt_set orc delim help_text oc None r = Ok (r1, None).
  Proof.
    intros oc r Hcan Hf. unfold can_argument in Hcan. apply orb_false_iff in Hcan.
    destruct Hcan as [_ Hb]. apply negb_false_iff in Hb. unfold opt_is_bool in Hb.
    unfold opt_set. rewrite Hf.
    match goal with |- context [convert orc ?b [] ?ty ?cur] =>
      destruct (convert_bool_flag b ty cur Hb) as (v & E) end.
    destruct (o_choices (oc_opt oc)); cbn [bind]; rewrite E; eexists; reflexivity.
  Qed.

  (* ---------------------------------------------------------------- *)
  (* Target 1: command words only                                      *)
  (* ---------------------------------------------------------------- *)
  Theorem C18_context_commands_only_from :
    forall (path : list nat) (ws : list str) (idx : list nat),
    cmd_words path ws idx ->
    forall (lastw : str) (r : rt) (fc fp : nat) (s : pst),
    (length ws <= fc)%nat -> (length ws < fp)%nat ->
    ps_args s = ws -> in_ctx s path ->
    exists sp r',
      cwalk fc (ws ++ [lastw]) (cfill path) None = (cfill (path ++ idx), None, [lastw], false) /\
      ploop fp s r = Ok (sp, r') /\
      ps_cmd sp = path ++ idx /\ ps_lk sp = make_lookup delim root (path ++ idx) /\
      ps_pos sp = pos_at root (path ++ idx) /\ ps_ret sp = [] /\
      ps_err sp = ps_err s /\ ps_args sp = [] /\
      rt_vals r' = rt_vals r /\ rt_fl r' = rt_fl r /\ rt_logs r' = rt_logs r /\
      rt_active r' = rev (entries path idx) ++ rt_active r /\
      cs_cmd (cfill (path ++ idx)) = ps_cmd sp /\ cs_lk (cfill (path ++ idx)) = ps_lk sp /\
      cs_pos (cfill (path ++ idx)) = ps_pos sp.
  Proof.
    intros path ws idx Hw lastw r fc fp s Hfc Hfp Hargs Hctx.
    pose proof (cmd_words_ctx_run path ws idx Hw r) as Hrun.
    destruct (C18_context_with_flags_from path r ws (path ++ idx) _ Hrun lastw fc fp s Hfc Hfp Hargs Hctx)
      as (sp & H1 & H2 & H3 & H4 & H5 & H6 & H7 & H8 & _ & H9 & H10 & H11).
    destruct (enter_all_frame idx r path) as (A & B & C & D).
    exists sp, (enter_all r path idx). repeat (split; [assumption|]). assumption.
  Qed.

  Theorem C18_context_commands_only :
    forall (ws : list str) (idx : list nat) (lastw : str) (r : rt) (fc fp : nat),
    cmd_words [] ws idx ->
    (length ws <= fc)%nat -> (length ws < fp)%nat ->
    exists sp r',
      cwalk fc (ws ++ [lastw]) (cfill []) None = (cfill idx, None, [lastw], false) /\
      ploop fp (initial_pst cfg root ws) r = Ok (sp, r') /\
      ps_cmd sp = idx /\ ps_lk sp = make_lookup delim root idx /\
      ps_pos sp = pos_at root idx /\ ps_ret sp = [] /\
      ps_err sp = None /\ ps_args sp = [] /\
      rt_vals r' = rt_vals r /\ rt_fl r' = rt_fl r /\ rt_logs r' = rt_logs r /\
      rt_active r' = rev (entries [] idx) ++ rt_active r /\
      cs_cmd (cfill idx) = ps_cmd sp /\ cs_lk (cfill idx) = ps_lk sp /\
      cs_pos (cfill idx) = ps_pos sp.
  Proof.
    intros ws idx lastw r fc fp Hw Hfc Hfp.
    exact (C18_context_commands_only_from [] ws idx Hw lastw r fc fp (initial_pst cfg root ws)
             Hfc Hfp eq_refl (in_ctx_initial ws)).
  Qed.

  (* the form of the brief: when the command finally reached has no positional
     arguments either, nothing is pending on either side *)
  Corollary C18_context_commands_only_no_args :
    forall (ws : list str) (idx : list nat) (lastw : str) (r : rt) (fc fp : nat),
    cmd_words [] ws idx -> pos_at root idx = [] ->
    (length ws <= fc)%nat -> (length ws < fp)%nat ->
    exists sc sp r',
      cwalk fc (ws ++ [lastw]) (cfill []) None = (sc, None, [lastw], false) /\
      ploop fp (initial_pst cfg root ws) r = Ok (sp, r') /\
      cs_cmd sc = idx /\ cs_lk sc = make_lookup delim root idx /\ cs_pos sc = [] /\
      ps_cmd sp = idx /\ ps_lk sp = make_lookup delim root idx /\ ps_pos sp = [] /\
      ps_ret sp = [] /\ ps_err sp = None.
  Proof.
    intros ws idx lastw r fc fp Hw Hp Hfc Hfp.
    destruct (C18_context_commands_only ws idx lastw r fc fp Hw Hfc Hfp)
      as (sp & r' & H1 & H2 & H3 & H4 & H5 & H6 & H7 & _).
    exists (cfill idx), sp, r'. cbn [cs_cmd cs_lk cs_pos cs_fill]. fold delim. fold (pos_at root idx).
    rewrite Hp in *. repeat (split; [assumption || reflexivity|]). assumption.
  Qed.

  (* ================================================================== *)
  (* 3. --name value: the value word is popped by both                   *)
  (* ================================================================== *)
  Theorem C18_separate_argument_skipped :
    forall (f : nat) (n v : str) (sc : cst) (opt : option octx) (oc : octx),
    argument_is_option (s2l "--" ++ n) = true -> ~ In 61 n ->
    find_last (lk_long (cs_lk sc)) n = Some oc ->
    can_argument (oc_opt oc) = true -> o_optional (oc_opt oc) = false ->
    (* the walk pops the value word and continues in the same state ... *)
    (forall x rest', cwalk (S f) ((s2l "--" ++ n) :: v :: x :: rest') sc opt = cwalk f (x :: rest') sc opt) /\
    (* ... unless the value is the word being completed *)
    cwalk (S f) [s2l "--" ++ n; v] sc opt = (sc, Some oc, [v], false) /\
    (* parseOption pops the same word when it is acceptable as a value *)
    (forall (sp : pst) (r r1 : rt) (rest' : list str) (v' : str),
       ps_lk sp = cs_lk sc -> ps_args sp = (s2l "--" ++ n) :: v :: rest' ->
       is_valid_value (oc_opt oc) v = true ->
       po_passdd po && str_eqb v (s2l "--") = false ->
       arg_text (oc_opt oc) v = Some v' ->
       opt_set orc delim help_text oc (Some v') r = Ok (r1, None) ->
       exists sp', pstep sp r = Ok (Continue sp' r1) /\
                   ps_args sp' = rest' /\ ps_arg sp' = v /\
                   ps_cmd sp' = ps_cmd sp /\ ps_lk sp' = ps_lk sp /\
                   ps_pos sp' = ps_pos sp /\ ps_ret sp' = ps_ret sp /\ ps_err sp' = ps_err sp).
  Proof.
    intros f n v sc opt oc Hopt H61 Hfind Hcan Hoptl. split; [|split].
    - intros x rest'.
      exact (comp_walk_long_arg_pop f _ v x rest' sc opt n oc Hopt (split_long_plain n H61) Hfind Hcan Hoptl).
    - exact (comp_walk_long_arg_last f _ v sc opt n oc Hopt (split_long_plain n H61) Hfind Hcan Hoptl).
    - intros sp r r1 rest' v' Hlk Hargs Hval Hdd Htxt Hset.
      eexists. split.
      + apply (step_long_separate sp r n v rest' oc v' r1 Hargs Hopt H61); [rewrite Hlk|..]; assumption.
      + repeat split.
  Qed.
End Ctx.

(* ================================================================== *)
(* 4. C16: the sub-command fragment of the usage line                  *)
(* ================================================================== *)

(* names listed in the fragment *)
Definition usage_cmd_names (c : command) : list str :=
  map (fun sc => c_name (cmd_info sc)) (sorted_visible_cmds c).

Lemma nonempty_map_subs : forall c, cmd_subs c <> [] -> nonempty (map (fun _ : command => 0) (cmd_subs c)) = true.
Proof. intros c H. destruct (cmd_subs c); [congruence|reflexivity]. Qed.

Lemma in_usage_cmd_names : forall c nm,
  In nm (usage_cmd_names c) <->
  exists sc, In sc (cmd_subs c) /\ c_hidden (cmd_info sc) = false /\ nm = c_name (cmd_info sc).
Proof.
  intros c nm. unfold usage_cmd_names, sorted_visible_cmds, visible_cmds. rewrite in_map_iff. split.
  - intros (sc & <- & Hin). apply in_sort_by, filter_In in Hin. destruct Hin as [Hin Hh].
    apply negb_true_iff in Hh. exists sc. auto.
  - intros (sc & Hin & Hh & ->). exists sc. split; [reflexivity|].
    apply in_sort_by, filter_In. split; [exact Hin|]. rewrite Hh. reflexivity.
Qed.

Theorem C16_usage_lists_visible_commands : forall (c : command),
  let names := usage_cmd_names c in
  let co := if c_sub_optional (cmd_info c) then s2l "[" else s2l "<" in
  let cc := if c_sub_optional (cmd_info c) then s2l "]" else s2l ">" in
  (* only the last command of the chain, and only if it has sub-commands *)
  usage_cmds c false = [] /\
  (cmd_subs c = [] -> usage_cmds c true = []) /\
  (* at most three visible sub-commands: they are listed *)
  (cmd_subs c <> [] -> (length (visible_cmds c) <= 3)%nat ->
     usage_cmds c true = s2l " " ++ co ++ join names (s2l " | ") ++ cc) /\
  (* more: the generic word *)
  (cmd_subs c <> [] -> (3 < length (visible_cmds c))%nat ->
     usage_cmds c true = s2l " " ++ co ++ s2l "command" ++ cc) /\
  (* the listed names are exactly the names of the visible sub-commands, sorted *)
  names = map (fun sc => c_name (cmd_info sc)) (sorted_visible_cmds c) /\
  length names = length (visible_cmds c) /\
  Permutation names (map (fun sc => c_name (cmd_info sc)) (visible_cmds c)) /\
  StronglySorted (fun x y : str => str_ltb y x = false) names /\
  (forall nm, In nm names <->
     exists sc, In sc (cmd_subs c) /\ c_hidden (cmd_info sc) = false /\ nm = c_name (cmd_info sc)).
Proof.
  intros c names co cc.
  split; [reflexivity|].
  split; [intros H; unfold usage_cmds; rewrite H; reflexivity|].
  split; [|split].
  - intros Hs Hl. unfold usage_cmds. rewrite (nonempty_map_subs c Hs). cbn [andb].
    replace (Nat.ltb 3 (length (visible_cmds c))) with false by (symmetry; apply Nat.ltb_ge; exact Hl).
    subst names co cc. unfold usage_cmd_names. destruct (c_sub_optional (cmd_info c)); reflexivity.
  - intros Hs Hl. unfold usage_cmds. rewrite (nonempty_map_subs c Hs). cbn [andb].
    replace (Nat.ltb 3 (length (visible_cmds c))) with true by (symmetry; apply Nat.ltb_lt; exact Hl).
    subst co cc. destruct (c_sub_optional (cmd_info c)); reflexivity.
  - split; [reflexivity|].
    destruct (sort_by_sorted command (fun sc => c_name (cmd_info sc)) (visible_cmds c)) as (Hss & _ & Hperm).
    split; [|split; [|split]].
    + subst names. unfold usage_cmd_names, sorted_visible_cmds. rewrite map_length.
      apply Permutation_length. exact Hperm.
    + subst names. unfold usage_cmd_names, sorted_visible_cmds. apply Permutation_map. exact Hperm.
    + subst names. unfold usage_cmd_names, sorted_visible_cmds.
      revert Hss. generalize (sort_by (fun sc : command => c_name (cmd_info sc)) (visible_cmds c)).
      induction l as [|x l IH]; intros Hss; cbn [map]; [constructor|].
      inversion Hss as [|? ? Hss' Hall]; subst. constructor; [exact (IH Hss')|].
      rewrite Forall_forall in Hall |- *. intros y Hy. apply in_map_iff in Hy.
      destruct Hy as (z & <- & Hz). exact (Hall z Hz).
    + apply in_usage_cmd_names.
Qed.

(* no hidden command is advertised: a name in the fragment's list is the name of a
   sub-command that is not hidden *)
Corollary C16_usage_no_hidden_command : forall c nm,
  In nm (usage_cmd_names c) ->
  exists sc, In sc (cmd_subs c) /\ c_hidden (cmd_info sc) = false /\ c_name (cmd_info sc) = nm.
Proof.
  intros c nm H. apply in_usage_cmd_names in H. destruct H as (sc & H1 & H2 & ->).
  exists sc. auto.
Qed.

(* a hidden command whose name is not shared with a visible one is not listed *)
Corollary C16_usage_hidden_not_listed : forall c hc,
  In hc (cmd_subs c) ->
  (forall sc, In sc (cmd_subs c) -> c_name (cmd_info sc) = c_name (cmd_info hc) -> c_hidden (cmd_info sc) = true) ->
  ~ In (c_name (cmd_info hc)) (usage_cmd_names c).
Proof.
  intros c hc Hin Hall H. apply in_usage_cmd_names in H. destruct H as (sc & H1 & H2 & H3).
  rewrite (Hall sc H1 (eq_sym H3)) in H2. discriminate.
Qed.

(* ================================================================== *)
(* Non-vacuity: a realistic instance                                   *)
(* ================================================================== *)

Lemma not_in_61 : forall n, existsb (N.eqb 61) n = false -> ~ In 61 n.
Proof.
  intros n H Hin.
  assert (E : existsb (N.eqb 61) n = true)
    by (apply existsb_exists; exists 61; split; [exact Hin|apply N.eqb_refl]).
  congruence.
Qed.

Definition cx_opt (fid : nat) (sh : N) (lg : str) (ty : vtype) : opt :=
  {| o_fid := fid; o_field := []; o_short := sh; o_long := lg; o_desc := [];
     o_default := []; o_envkey := []; o_envdelim := []; o_optional := false; o_optval := [];
     o_required := false; o_valname := []; o_mask := []; o_choices := []; o_hidden := false;
     o_ininame := []; o_noini := false; o_unquote := false; o_base := []; o_ty := ty;
     o_is_help := false |}.
Definition cx_ginfo (short : str) : ginfo :=
  {| g_short := short; g_long := []; g_ns := []; g_envns := []; g_hidden := false; g_builtin_help := false |}.
Definition cx_cinfo (name : str) (aliases : list str) (hidden subopt : bool) : cinfo :=
  {| c_name := name; c_aliases := aliases; c_sub_optional := subopt; c_args_required := false;
     c_hidden := hidden; c_exec := ExNone; c_usage := None; c_has_help := false |}.
Definition cx_arg (fid : nat) (name : str) : arg :=
  {| a_fid := fid; a_name := name; a_desc := []; a_req := (-1)%Z; a_max := (-1)%Z;
     a_ty := TScalar KString; a_base := [] |}.
Definition cx_cfg : pconfig :=
  {| pc_name := s2l "app";
     pc_opts := {| po_help := false; po_passdd := true; po_ignore := false; po_print := false;
                   po_passafter := false |};
     pc_nsdelim := s2l "."; pc_envdelim := s2l "_"; pc_handler := HNone; pc_cmdhandler := false;
     pc_usage := []; pc_env := []; pc_cols := 80; pc_shortdesc := []; pc_longdesc := [] |}.
Definition cx_orc : oracles := {| or_float := []; or_dur := []; or_durfmt := [] |}.
Definition cx_help : rt -> str := fun _ => [].
(* app [-v/--verbose] [-c/--color=] <remote|status(hidden)|version>
     remote (alias r) [-f/--force] <add NAME|rm> *)
Definition cx_root : command :=
  Command (cx_cinfo (s2l "app") [] false false)
          (Group (cx_ginfo (s2l "Application Options"))
                 [cx_opt 1 118 (s2l "verbose") (TScalar KBool);
                  cx_opt 2 99 (s2l "color") (TScalar KComp)] [])
          []
          [Command (cx_cinfo (s2l "remote") [s2l "r"] false false)
                   (Group (cx_ginfo (s2l "Remote")) [cx_opt 4 102 (s2l "force") (TScalar KBool)] [])
                   []
                   [Command (cx_cinfo (s2l "add") [] false false) (Group (cx_ginfo (s2l "Add")) [] [])
                            [cx_arg 5 (s2l "NAME")] [];
                    Command (cx_cinfo (s2l "rm") [] false false) (Group (cx_ginfo (s2l "Remove")) [] []) [] []];
           Command (cx_cinfo (s2l "status") [] true false) (Group (cx_ginfo (s2l "Status")) [] []) [] [];
           Command (cx_cinfo (s2l "version") [] false false) (Group (cx_ginfo (s2l "Version")) [] []) [] []].
Definition cx_r0 : rt :=
  {| rt_vals := fun k => match k with 1%nat | 4%nat => VBool false | _ => VStr [] end;
     rt_fl := fun _ => oflags0; rt_active := []; rt_logs := logs0 |}.

(* target 1: the hypotheses hold for "remote add" (and with the alias "r") *)
Example cx_cmd_words : cmd_words cx_cfg cx_root [] [s2l "remote"; s2l "add"] [0%nat; 0%nat].
Proof.
  apply (cw_cons cx_cfg cx_root [] (s2l "remote") _ 0%nat [0%nat]); try reflexivity.
  apply (cw_cons cx_cfg cx_root [0%nat] (s2l "add") _ 0%nat []); try reflexivity.
  apply cw_nil.
Qed.

Example cx_cmd_words_alias : cmd_words cx_cfg cx_root [] [s2l "r"; s2l "rm"] [0%nat; 1%nat].
Proof.
  apply (cw_cons cx_cfg cx_root [] (s2l "r") _ 0%nat [1%nat]); try reflexivity.
  apply (cw_cons cx_cfg cx_root [0%nat] (s2l "rm") _ 1%nat []); try reflexivity.
  apply cw_nil.
Qed.

(* ... and the conclusion, observed: both walks end in the context of "remote add",
   where the positional NAME is pending (ps_pos is NOT empty there) *)
Example cx_commands_only_observed :
  let ws := [s2l "remote"; s2l "add"] in
  fst (fst (fst (comp_walk cx_cfg cx_root 2 (ws ++ [s2l "x"]) (cs_fill cx_cfg cx_root [] false) None)))
    = cs_fill cx_cfg cx_root [0%nat; 0%nat] false /\
  match run_loop cx_cfg cx_orc cx_root cx_help 3 (initial_pst cx_cfg cx_root ws) cx_r0 with
  | Ok (sp, r') => ps_cmd sp = [0%nat; 0%nat] /\ ps_pos sp = [cx_arg 5 (s2l "NAME")] /\ ps_ret sp = [] /\
                   ps_err sp = None /\ rt_active r' = [([0%nat], 0%nat); ([], 0%nat)]
  | _ => False
  end.
Proof. vm_compute. repeat split. Qed.

(* target 2: --verbose remote --color=alpha --force add *)
Definition cx_words : list str :=
  [s2l "--" ++ s2l "verbose"; s2l "remote"; s2l "--" ++ s2l "color" ++ [61] ++ s2l "alpha";
   s2l "--" ++ s2l "force"; s2l "add"].

Example cx_ctx_run : exists r', ctx_run cx_cfg cx_orc cx_root cx_help [] cx_r0 cx_words [0%nat; 0%nat] r'.
Proof.
  eexists. unfold cx_words.
  eapply (cr_flag cx_cfg cx_orc cx_root cx_help [] _ (s2l "verbose"));
    [reflexivity|apply not_in_61; reflexivity|reflexivity|reflexivity|reflexivity|].
  eapply (cr_cmd cx_cfg cx_orc cx_root cx_help [] _ (s2l "remote") _ 0%nat); try reflexivity.
  eapply (cr_inline cx_cfg cx_orc cx_root cx_help [0%nat] _ (s2l "color") (s2l "alpha"));
    [reflexivity|apply not_in_61; reflexivity|reflexivity|reflexivity|reflexivity|reflexivity|].
  eapply (cr_flag cx_cfg cx_orc cx_root cx_help [0%nat] _ (s2l "force"));
    [reflexivity|apply not_in_61; reflexivity|reflexivity|reflexivity|reflexivity|].
  eapply (cr_cmd cx_cfg cx_orc cx_root cx_help [0%nat] _ (s2l "add") _ 0%nat); try reflexivity.
  apply cr_nil.
Qed.

Example cx_with_flags_observed :
  fst (fst (fst (comp_walk cx_cfg cx_root 5 (cx_words ++ [s2l "x"]) (cs_fill cx_cfg cx_root [] false) None)))
    = cs_fill cx_cfg cx_root [0%nat; 0%nat] false /\
  match run_loop cx_cfg cx_orc cx_root cx_help 6 (initial_pst cx_cfg cx_root cx_words) cx_r0 with
  | Ok (sp, r') => ps_cmd sp = [0%nat; 0%nat] /\ ps_ret sp = [] /\ ps_err sp = None /\
                   rt_vals r' 1%nat = VBool true /\ rt_vals r' 2%nat = VStr (s2l "alpha") /\
                   rt_vals r' 4%nat = VBool true
  | _ => False
  end.
Proof. vm_compute. repeat split. Qed.

(* the opt_set hypothesis of cr_flag for a bool flag is an instance of opt_set_bool_flag *)
Example cx_bool_flag_sets : forall oc r,
  find_last (lk_long (make_lookup (pc_nsdelim cx_cfg) cx_root [])) (s2l "verbose") = Some oc ->
  exists r1, opt_set cx_orc (pc_nsdelim cx_cfg) cx_help oc None r = Ok (r1, None).
Proof.
  intros oc r H.
  assert (Hty : o_ty (oc_opt oc) = TScalar KBool) by (vm_compute in H; injection H as <-; reflexivity).
  eexists. exact (opt_set_bool_flag cx_cfg cx_orc cx_help oc r Hty).
Qed.

(* target 3: --color VALUE *)
Example cx_separate_hyps :
  exists oc, argument_is_option (s2l "--" ++ s2l "color") = true /\ ~ In 61 (s2l "color") /\
             find_last (lk_long (cs_lk (cs_fill cx_cfg cx_root [] false))) (s2l "color") = Some oc /\
             can_argument (oc_opt oc) = true /\ o_optional (oc_opt oc) = false /\
             is_valid_value (oc_opt oc) (s2l "alpha") = true /\
             arg_text (oc_opt oc) (s2l "alpha") = Some (s2l "alpha") /\
             exists r1, opt_set cx_orc (s2l ".") cx_help oc (Some (s2l "alpha")) cx_r0 = Ok (r1, None).
Proof.
  eexists. split; [reflexivity|]. split; [apply not_in_61; reflexivity|].
  split; [reflexivity|]. split; [reflexivity|]. split; [reflexivity|]. split; [reflexivity|].
  split; [reflexivity|]. eexists. reflexivity.
Qed.

Example cx_separate_observed :
  comp_walk cx_cfg cx_root 3 [s2l "--color"; s2l "alpha"; s2l "remote"; s2l "x"] (cs_fill cx_cfg cx_root [] false) None
    = (cs_fill cx_cfg cx_root [0%nat] false, None, [s2l "x"], false) /\
  snd (fst (fst (comp_walk cx_cfg cx_root 3 [s2l "--color"; s2l "al"] (cs_fill cx_cfg cx_root [] false) None)))
    = find_last (lk_long (make_lookup (s2l ".") cx_root [])) (s2l "color") /\
  complete cx_cfg cx_root [s2l "--color"; s2l "al"] =
    [(s2l "alpha", s2l "desc alpha"); (s2l "alpine", s2l "desc alpine")].
Proof. vm_compute. repeat split. Qed.

(* the validity hypothesis in the parser part of target 3 cannot be dropped: the
   completion walk pops ANY word after --color, the parser rejects an option-like one *)
Example cx_separate_invalid_value_diverges :
  comp_walk cx_cfg cx_root 3 [s2l "--color"; s2l "--verbose"; s2l "remote"; s2l "x"] (cs_fill cx_cfg cx_root [] false) None
    = (cs_fill cx_cfg cx_root [0%nat] false, None, [s2l "x"], false) /\
  match run_loop cx_cfg cx_orc cx_root cx_help 4
                 (initial_pst cx_cfg cx_root [s2l "--color"; s2l "--verbose"; s2l "remote"]) cx_r0 with
  | Ok (sp, _) => ps_cmd sp = [] /\
                  match ps_err sp with Some (EFlags ErrExpectedArgument _) => True | _ => False end
  | _ => False
  end.
Proof. vm_compute. repeat split. Qed.

(* target 4 *)
Example cx_usage_root :
  usage_cmds cx_root true = s2l " <remote | version>" /\
  usage_cmd_names cx_root = [s2l "remote"; s2l "version"] /\
  usage_cmds cx_root false = [].
Proof. vm_compute. repeat split. Qed.

Example cx_usage_many :
  let mk n := Command (cx_cinfo n [] false false) (Group (cx_ginfo []) [] []) [] [] in
  let c := Command (cx_cinfo (s2l "tool") [] false true) (Group (cx_ginfo []) [] []) []
                   [mk (s2l "d"); mk (s2l "c"); mk (s2l "b"); mk (s2l "a")] in
  usage_cmds c true = s2l " [command]" /\ (3 < length (visible_cmds c))%nat.
Proof. vm_compute. split; [reflexivity|lia]. Qed.

Print Assumptions C18_context_commands_only_from.
Print Assumptions C18_context_commands_only.
Print Assumptions C18_context_commands_only_no_args.
Print Assumptions C18_context_with_flags_from.
Print Assumptions C18_context_with_flags.
Print Assumptions C18_context_with_flags_api_fuel.
Print Assumptions C18_option_tokens_keep_context.
Print Assumptions opt_set_bool_flag.
Print Assumptions opt_set_flag_ok.
Print Assumptions C18_separate_argument_skipped.
Print Assumptions C16_usage_lists_visible_commands.
Print Assumptions C16_usage_no_hidden_command.
Print Assumptions C16_usage_hidden_not_listed.
