(* Property C19: "declarations are read faithfully or rejected at setup".
   Struct-tag scanner (Model/Tag.v), option construction and duplicate check (Model/Scan.v). *)
From GoFlags Require Import Base.Str Base.Utf8 Golib.Strings Golib.Strconv.
From GoFlags Require Import Model.Types Model.Tag Model.Scan Model.Lookup.
From GoFlags Require Import Proofs.QuoteUtf8 Proofs.QuoteEsc Proofs.QuoteSpec.
From Coq Require Import Lia ZifyN ZifyNat ZifyBool.
Open Scope N_scope.

(* ================================================================== *)
(* 1. tag_scan never panics                                            *)
(* ================================================================== *)

Lemma tag_scan_fuel_total fuel : forall whole v acc,
  (exists m, tag_scan_fuel fuel whole v acc = Ok m) \/
  (exists msg, tag_scan_fuel fuel whole v acc = Err (EFlags ErrTag msg)).
Proof.
  induction fuel as [|f IH]; intros whole v acc; [left; eexists; reflexivity|].
  cbn [tag_scan_fuel].
  destruct v as [|c0 v0]; [left; eexists; reflexivity|].
  destruct (skip_spaces (c0 :: v0)) as [|c1 v1]; [left; eexists; reflexivity|].
  destruct (nth_error (c1 :: v1) (key_end (c1 :: v1) 0)) as [c|]; [|right; eexists; reflexivity].
  destruct (negb (c =? 58)); [right; eexists; reflexivity|].
  destruct (nth_error (c1 :: v1) (S (key_end (c1 :: v1) 0))) as [q|]; [|right; eexists; reflexivity].
  destruct (negb (q =? 34)); [right; eexists; reflexivity|].
  destruct (scan_value _ _ 1) as [j|[]]; [|right; eexists; reflexivity].
  destruct (Nat.leb _ j); [right; eexists; reflexivity|].
  destruct (unquote _) as [val|]; [|right; eexists; reflexivity].
  apply IH.
Qed.

Theorem C19_tag_total : forall t : str,
  (exists m, tag_scan t = Ok m) \/ (exists msg, tag_scan t = Err (EFlags ErrTag msg)).
Proof. intros t. apply tag_scan_fuel_total. Qed.

(* consequence for the cache *)
Corollary C19_tag_cached_total : forall t : str,
  (tag_scan t = Ok (tag_cached t)) \/ (exists msg, tag_scan t = Err (EFlags ErrTag msg) /\ tag_cached t = []).
Proof.
  intros t. unfold tag_cached. destruct (C19_tag_total t) as [[m H]|[msg H]]; rewrite H; [left|right; eexists; split]; reflexivity.
Qed.

(* ================================================================== *)
(* 2. round trip render_tag / tag_scan                                 *)
(* ================================================================== *)

(* ---- list helpers *)
Lemma nth_error_app_len {A} (p : list A) x y : nth_error (p ++ x :: y) (length p) = Some x.
Proof. induction p as [|a p IH]; [reflexivity|exact IH]. Qed.
Lemma nth_error_app_Slen {A} (p : list A) x x' y : nth_error (p ++ x :: x' :: y) (S (length p)) = Some x'.
Proof. induction p as [|a p IH]; [reflexivity|exact IH]. Qed.
Lemma skipn_S_len {A} (p : list A) x y : skipn (S (length p)) (p ++ x :: y) = y.
Proof. induction p as [|a p IH]; [reflexivity|exact IH]. Qed.
Lemma firstn_S_len {A} (p : list A) x y : firstn (S (length p)) (p ++ x :: y) = p ++ [x].
Proof. induction p as [|a p IH]; [reflexivity|]. cbn [length app]. rewrite firstn_cons, IH. reflexivity. Qed.
Lemma firstn_app_len {A} (p y : list A) : firstn (length p) (p ++ y) = p.
Proof. induction p as [|a p IH]; [reflexivity|]. cbn [length app]. rewrite firstn_cons, IH. reflexivity. Qed.

(* ---- the shape of a quoted body: raw bytes (none of 34, 10, 92) and two-byte
   backslash escapes; the scanner's scan_value walks exactly over such a body *)
Definition rawc (c : N) : Prop := c <> 34 /\ c <> 10 /\ c <> 92.

Inductive okc : str -> Prop :=
| okc_nil : okc []
| okc_raw c e : rawc c -> okc e -> okc (c :: e)
| okc_esc d e : okc e -> okc (92 :: d :: e).

Lemma okc_raws e : (forall c, In c e -> rawc c) -> okc e.
Proof.
  induction e as [|c e IH]; intros H; constructor.
  - apply H; left; reflexivity.
  - apply IH; intros; apply H; right; assumption.
Qed.

Lemma okc_app a b : okc a -> okc b -> okc (a ++ b).
Proof. induction 1; intros Hb; cbn [app]; [exact Hb|apply okc_raw; auto|apply okc_esc; auto]. Qed.

Lemma hexdig_raw d : d < 16 -> rawc (hexdig d).
Proof. unfold hexdig, rawc; intros; destruct (N.ltb_spec d 10); lia. Qed.

Lemma okc_hex2 b : okc (hex2 b).
Proof.
  unfold hex2. apply okc_raws. intros c [<-|[<-|[]]]; apply hexdig_raw; apply N.mod_lt; lia.
Qed.
Lemma okc_hex4 b : okc (hex4 b).
Proof. unfold hex4. apply okc_app; apply okc_hex2. Qed.
Lemma okc_hex8 b : okc (hex8 b).
Proof. unfold hex8. apply okc_app; apply okc_hex4. Qed.

Lemma okc_escaped r : okc (escaped_rune r).
Proof.
  unfold escaped_rune, dq, bs.
  destruct (N.eqb_spec r 34) as [->|Hq]; [exact (okc_esc _ _ okc_nil)|].
  destruct (N.eqb_spec r 92) as [->|Hb]; [exact (okc_esc _ _ okc_nil)|].
  cbn [orb].
  destruct (is_print r) eqn:Hp.
  { apply okc_raws. intros c Hin. apply encode_small in Hin. destruct Hin as [->|Hge].
    - repeat split; try assumption. intros ->. rewrite is_print_ascii in Hp by lia. lia.
    - unfold rawc; lia. }
  repeat match goal with
         | |- okc (if ?c then _ else _) => destruct c
         end;
  first [ exact (okc_esc _ _ okc_nil)
        | apply okc_esc; first [apply okc_hex2 | apply okc_hex4 | apply okc_hex8] ].
Qed.

Lemma okc_quote_body s : okc (quote_body s).
Proof.
  unfold quote_body. generalize (range_str s). intros l.
  induction l as [|[[off r] w] l IH]; cbn [flat_map]; [constructor|].
  apply okc_app; [|exact IH].
  destruct (_ && _); [apply okc_esc, okc_hex2|apply okc_escaped].
Qed.

Lemma scan_value_S f v i :
  scan_value (S f) v i =
  match nth_error v i with
  | None => inl i
  | Some c => if N.eqb c 34 then inl i else if N.eqb c 10 then inr tt
              else if N.eqb c 92 then scan_value f v (i + 2) else scan_value f v (i + 1)
  end.
Proof. reflexivity. Qed.

(* scan_value started at the first byte of an okc body stops exactly at the
   double quote that follows the body *)
Lemma scan_value_okc e : okc e -> forall fuel pre rest, (length e < fuel)%nat ->
  scan_value fuel (pre ++ e ++ 34 :: rest) (length pre) = inl (length pre + length e)%nat.
Proof.
  induction 1 as [|c e [H34 [H10 H92]] He IH|d e He IH]; intros fuel pre rest Hf;
    (destruct fuel as [|f]; [cbn [length] in Hf; lia|]); rewrite scan_value_S; cbn [app].
  - rewrite nth_error_app_len. cbn [length]. rewrite Nat.add_0_r. reflexivity.
  - rewrite nth_error_app_len.
    destruct (N.eqb_spec c 34); [contradiction|].
    destruct (N.eqb_spec c 10); [contradiction|].
    destruct (N.eqb_spec c 92); [contradiction|].
    replace (pre ++ c :: e ++ 34 :: rest) with ((pre ++ [c]) ++ e ++ 34 :: rest)
      by (rewrite <- app_assoc; reflexivity).
    replace (length pre + 1)%nat with (length (pre ++ [c])) by (rewrite app_length; reflexivity).
    rewrite IH by (cbn [length] in Hf; lia).
    rewrite app_length. cbn [length]. f_equal. lia.
  - rewrite nth_error_app_len. cbv beta iota.
    change (92 =? 34) with false. change (92 =? 10) with false. change (92 =? 92) with true. cbv iota.
    replace (pre ++ 92 :: d :: e ++ 34 :: rest) with ((pre ++ [92; d]) ++ e ++ 34 :: rest)
      by (rewrite <- app_assoc; reflexivity).
    replace (length pre + 2)%nat with (length (pre ++ [92; d])) by (rewrite app_length; reflexivity).
    rewrite IH by (cbn [length] in Hf; lia).
    rewrite app_length. cbn [length]. f_equal. lia.
Qed.

(* the literal [quote v] followed by anything: the scanner finds its closing quote *)
Lemma quote_app v rest : quote v ++ rest = 34 :: quote_body v ++ 34 :: rest.
Proof. unfold quote, dq. cbn [app]. rewrite <- app_assoc. reflexivity. Qed.

Lemma scan_value_quote v rest :
  scan_value (length (quote v ++ rest)) (quote v ++ rest) 1 = inl (S (length (quote_body v))).
Proof.
  rewrite quote_app.
  pose proof (scan_value_okc (quote_body v) (okc_quote_body v)
                (length ([34] ++ quote_body v ++ 34 :: rest)) [34] rest) as H.
  apply H. rewrite !app_length. cbn [length]. lia.
Qed.

(* ---- keys and spaces *)
Definition key_ok (k : str) : Prop := forall c, In c k -> c <> 32 /\ c <> 58 /\ c <> 34.

Lemma skip_spaces_cons c x : skip_spaces (c :: x) = if N.eqb c 32 then skip_spaces x else c :: x.
Proof.
  destruct (N.eqb_spec c 32) as [->|Hn]; [reflexivity|].
  destruct c as [|p]; [reflexivity|].
  do 5 (destruct p as [p|p|]; try reflexivity).
  destruct p; try reflexivity. exfalso; apply Hn; reflexivity.
Qed.

Lemma skip_spaces_spaces n x : skip_spaces (spaces n ++ x) = skip_spaces x.
Proof.
  induction n as [|n IH]; [reflexivity|].
  unfold spaces in *. cbn [repeat app]. rewrite skip_spaces_cons. exact IH.
Qed.

Lemma skip_spaces_only n : skip_spaces (spaces n) = [].
Proof. rewrite <- (app_nil_r (spaces n)), skip_spaces_spaces. reflexivity. Qed.

Lemma skip_spaces_key k y : key_ok k -> skip_spaces (k ++ 58 :: y) = k ++ 58 :: y.
Proof.
  intros Hk. destruct k as [|c k]; cbn [app]; rewrite skip_spaces_cons; [reflexivity|].
  destruct (N.eqb_spec c 32) as [->|]; [|reflexivity].
  exfalso. destruct (Hk 32) as [H _]; [left; reflexivity|]. apply H; reflexivity.
Qed.

Lemma key_end_key k : key_ok k -> forall y i, key_end (k ++ 58 :: y) i = (i + length k)%nat.
Proof.
  induction k as [|c k IH]; intros Hk y i.
  - cbn [app length key_end]. change ((58 =? 32) || (58 =? 58) || (58 =? 34)) with true. cbv iota. lia.
  - cbn [app length key_end].
    destruct (Hk c (or_introl eq_refl)) as (H1 & H2 & H3).
    destruct (N.eqb_spec c 32); [contradiction|].
    destruct (N.eqb_spec c 58); [contradiction|].
    destruct (N.eqb_spec c 34); [contradiction|]. cbn [orb].
    rewrite IH by (intros c' Hc'; apply Hk; right; exact Hc'). lia.
Qed.

(* ---- one iteration of the scanner over a well-formed pair *)
Lemma tsf_end fuel whole v acc : skip_spaces v = [] -> tag_scan_fuel fuel whole v acc = Ok acc.
Proof.
  intros H. destruct fuel; [reflexivity|]. cbn [tag_scan_fuel].
  destruct v; [reflexivity|]. rewrite H. reflexivity.
Qed.

Lemma tsf_pair f whole v acc v' i j val :
  v <> [] -> skip_spaces v = v' -> v' <> [] -> key_end v' 0 = i ->
  nth_error v' i = Some 58 -> nth_error v' (S i) = Some 34 ->
  scan_value (length (skipn (S i) v')) (skipn (S i) v') 1 = inl j ->
  Nat.leb (length (skipn (S i) v')) j = false ->
  unquote (firstn (S j) (skipn (S i) v')) = Some val ->
  tag_scan_fuel (S f) whole v acc =
  tag_scan_fuel f whole (skipn (S j) (skipn (S i) v')) (tm_add acc (firstn i v') val).
Proof.
  intros Hv Hs Hv' Hi H58 H34 Hsc Hle Hu.
  cbn [tag_scan_fuel].
  destruct v as [|c0 v0]; [congruence|].
  rewrite Hs. destruct v' as [|c1 v1]; [congruence|].
  rewrite Hi, H58. cbv beta iota. change (negb (58 =? 58)) with false. cbv iota.
  rewrite H34. cbv beta iota. change (negb (34 =? 34)) with false. cbv iota.
  rewrite Hsc. cbv beta iota. rewrite Hle. cbv iota. rewrite Hu. reflexivity.
Qed.

Lemma scan_pair f whole n k v rest acc : key_ok k -> bytes_ok v ->
  tag_scan_fuel (S f) whole (spaces n ++ k ++ 58 :: quote v ++ rest) acc =
  tag_scan_fuel f whole rest (tm_add acc k v).
Proof.
  intros Hk Hv.
  assert (Hskip: skipn (S (length k)) (k ++ 58 :: quote v ++ rest) = quote v ++ rest) by apply skipn_S_len.
  rewrite (tsf_pair f whole _ acc (k ++ 58 :: quote v ++ rest) (length k) (S (length (quote_body v))) v).
  - rewrite Hskip, firstn_app_len. f_equal.
    rewrite quote_app. rewrite skipn_cons. apply skipn_S_len.
  - intros H. apply (f_equal (@length N)) in H. rewrite !app_length in H. cbn [length] in H. lia.
  - rewrite skip_spaces_spaces. apply skip_spaces_key; exact Hk.
  - destruct k; discriminate.
  - rewrite key_end_key by exact Hk. reflexivity.
  - apply nth_error_app_len.
  - rewrite quote_app. apply nth_error_app_Slen.
  - rewrite Hskip. apply scan_value_quote.
  - rewrite Hskip, quote_app. apply Nat.leb_gt. cbn [length]. rewrite app_length. cbn [length]. lia.
  - rewrite Hskip, quote_app. rewrite firstn_cons, firstn_S_len.
    change (34 :: quote_body v ++ [34]) with (quote v). apply quote_unquote; exact Hv.
Qed.

(* ---- rendering: pairs with an arbitrary number of spaces before each pair and at the end *)
Fixpoint render_tag_sp (l : list (nat * (str * str))) (trail : nat) : str :=
  match l with
  | [] => spaces trail
  | (n, (k, v)) :: r => spaces n ++ k ++ 58 :: quote v ++ render_tag_sp r trail
  end.

(* the canonical rendering: key:"value" pairs separated by single spaces *)
Fixpoint render_tag (kvs : list (str * str)) : str :=
  match kvs with
  | [] => []
  | (k, v) :: r => k ++ 58 :: quote v ++ match r with [] => [] | _ => 32 :: render_tag r end
  end.

Definition tm_of (kvs : list (str * str)) (acc : tagmap) : tagmap :=
  fold_left (fun m kv => tm_add m (fst kv) (snd kv)) kvs acc.

Definition pair_ok (kv : str * str) : Prop := key_ok (fst kv) /\ bytes_ok (snd kv).

Lemma scan_render l : forall fuel whole acc trail,
  (length l <= fuel)%nat -> (forall x, In x l -> pair_ok (snd x)) ->
  tag_scan_fuel fuel whole (render_tag_sp l trail) acc = Ok (tm_of (map snd l) acc).
Proof.
  induction l as [|[n [k v]] l IH]; intros fuel whole acc trail Hf Hok.
  - cbn [render_tag_sp map tm_of fold_left]. apply tsf_end, skip_spaces_only.
  - destruct fuel as [|f]; [cbn [length] in Hf; lia|].
    cbn [render_tag_sp]. destruct (Hok _ (or_introl eq_refl)) as [Hk Hv]. cbn [snd fst] in Hk, Hv.
    rewrite scan_pair by assumption.
    rewrite IH; [reflexivity|cbn [length] in Hf; lia|intros x Hx; apply Hok; right; exact Hx].
Qed.

Lemma render_tag_sp_length l trail : (length l <= length (render_tag_sp l trail))%nat.
Proof.
  induction l as [|[n [k v]] l IH]; [cbn [length]; lia|].
  cbn [render_tag_sp length]. rewrite !app_length. cbn [length]. rewrite app_length. lia.
Qed.

(* ---- what the resulting tag map contains *)
Lemma str_eqb_sym a b : str_eqb a b = str_eqb b a.
Proof. destruct (str_eqb_spec a b), (str_eqb_spec b a); congruence. Qed.

Lemma tm_many_add m k v k' :
  tm_many (tm_add m k v) k' = if str_eqb k k' then tm_many m k' ++ [v] else tm_many m k'.
Proof.
  induction m as [|[k0 vs] m IH]; cbn [tm_add tm_many].
  - rewrite (str_eqb_sym k' k). destruct (str_eqb k k'); reflexivity.
  - destruct (str_eqb_spec k k0) as [->|Hn]; cbn [tm_many].
    + destruct (str_eqb_spec k' k0) as [->|Hn'].
      * rewrite str_eqb_refl. reflexivity.
      * destruct (str_eqb_spec k0 k'); [congruence|reflexivity].
    + destruct (str_eqb_spec k' k0) as [->|Hn'].
      * destruct (str_eqb_spec k k0); [congruence|reflexivity].
      * exact IH.
Qed.

Lemma tm_has_add m k v k' : tm_has (tm_add m k v) k' = str_eqb k k' || tm_has m k'.
Proof.
  unfold tm_has. induction m as [|[k0 vs] m IH]; cbn [tm_add existsb fst].
  - rewrite (str_eqb_sym k' k), orb_false_r. reflexivity.
  - destruct (str_eqb_spec k k0) as [->|Hn]; cbn [existsb fst].
    + destruct (str_eqb_spec k' k0) as [->|Hn'].
      * rewrite str_eqb_refl. reflexivity.
      * destruct (str_eqb_spec k0 k'); [congruence|reflexivity].
    + rewrite IH. destruct (str_eqb k' k0), (str_eqb k k'); reflexivity.
Qed.

Lemma tm_many_of kvs : forall acc k,
  tm_many (tm_of kvs acc) k = tm_many acc k ++ map snd (filter (fun kv => str_eqb (fst kv) k) kvs).
Proof.
  unfold tm_of. induction kvs as [|[k0 v0] kvs IH]; intros acc k; cbn [fold_left filter map fst snd].
  - rewrite app_nil_r. reflexivity.
  - rewrite IH, tm_many_add. destruct (str_eqb k0 k); cbn [map snd]; [rewrite <- app_assoc|]; reflexivity.
Qed.

Lemma tm_has_of kvs : forall acc k,
  tm_has (tm_of kvs acc) k = tm_has acc k || existsb (fun kv => str_eqb (fst kv) k) kvs.
Proof.
  unfold tm_of. induction kvs as [|[k0 v0] kvs IH]; intros acc k; cbn [fold_left existsb fst snd].
  - rewrite orb_false_r. reflexivity.
  - rewrite IH, tm_has_add. destruct (str_eqb k0 k), (tm_has acc k); reflexivity.
Qed.

(* general form: any number of spaces before each pair and after the last one *)
Theorem C19_tag_roundtrip_spaces : forall (l : list (nat * (str * str))) (trail : nat),
  (forall n k v, In (n, (k, v)) l -> key_ok k /\ bytes_ok v) ->
  let m := tm_of (map snd l) [] in
    tag_scan (render_tag_sp l trail) = Ok m /\
    (forall k, tm_many m k = map snd (filter (fun kv => str_eqb (fst kv) k) (map snd l))) /\
    (forall k, tm_get m k = last (map snd (filter (fun kv => str_eqb (fst kv) k) (map snd l))) []) /\
    (forall k, tm_has m k = existsb (fun kv => str_eqb (fst kv) k) (map snd l)).
Proof.
  intros l trail Hok m. subst m. split; [|split; [|split]].
  - unfold tag_scan. apply scan_render.
    + pose proof (render_tag_sp_length l trail). lia.
    + intros [n [k v]] Hx. exact (Hok n k v Hx).
  - intros k. rewrite tm_many_of. reflexivity.
  - intros k. unfold tm_get. rewrite tm_many_of. reflexivity.
  - intros k. rewrite tm_has_of. reflexivity.
Qed.

Definition pad1 (kvs : list (str * str)) : list (nat * (str * str)) :=
  match kvs with [] => [] | kv :: r => (O, kv) :: map (pair 1%nat) r end.

Lemma render_tag_tail r :
  match r with [] => [] | _ => 32 :: render_tag r end = render_tag_sp (map (pair 1%nat) r) 0.
Proof.
  induction r as [|[k v] r IH]; [reflexivity|].
  cbn [map render_tag_sp render_tag]. rewrite <- IH. reflexivity.
Qed.

Lemma render_tag_pad kvs : render_tag kvs = render_tag_sp (pad1 kvs) 0.
Proof.
  destruct kvs as [|[k v] r]; [reflexivity|].
  cbn [render_tag pad1 render_tag_sp]. rewrite render_tag_tail. reflexivity.
Qed.

Lemma map_snd_pad1 kvs : map snd (pad1 kvs) = kvs.
Proof.
  destruct kvs as [|kv r]; [reflexivity|]. cbn [pad1 map snd]. f_equal.
  rewrite map_map. cbn [snd]. apply map_id.
Qed.

Theorem C19_tag_roundtrip : forall kvs : list (str * str),
  (forall k v, In (k, v) kvs -> key_ok k /\ bytes_ok v) ->
  let m := tm_of kvs [] in
    tag_scan (render_tag kvs) = Ok m /\
    (forall k, tm_many m k = map snd (filter (fun kv => str_eqb (fst kv) k) kvs)) /\
    (forall k, tm_get m k = last (map snd (filter (fun kv => str_eqb (fst kv) k) kvs)) []) /\
    (forall k, tm_has m k = existsb (fun kv => str_eqb (fst kv) k) kvs).
Proof.
  intros kvs Hok. rewrite render_tag_pad.
  assert (Hok': forall n k v, In (n, (k, v)) (pad1 kvs) -> key_ok k /\ bytes_ok v).
  { intros n k v Hin. apply Hok. rewrite <- (map_snd_pad1 kvs).
    change (k, v) with (snd (n, (k, v))). apply in_map. exact Hin. }
  pose proof (C19_tag_roundtrip_spaces (pad1 kvs) 0 Hok') as H. cbv zeta in H.
  rewrite map_snd_pad1 in H. exact H.
Qed.

(* non-vacuity: a realistic tag, with repeated keys, escapes and non-ASCII bytes *)
Example roundtrip_example :
  let kvs := [(s2l "short", s2l "v"); (s2l "long", s2l "verbose");
              (s2l "description", s2l "say ""hi"" \ twice" ++ [10; 195; 169; 255]);
              (s2l "choice", s2l "a"); (s2l "choice", s2l "b")] in
  Forall (fun kv => forallb (fun c => negb (N.eqb c 32 || N.eqb c 58 || N.eqb c 34)) (fst kv) = true
                    /\ forallb (fun c => N.ltb c 256) (snd kv) = true) kvs /\
  tag_scan (render_tag kvs) =
  Ok [(s2l "short", [s2l "v"]); (s2l "long", [s2l "verbose"]);
      (s2l "description", [s2l "say ""hi"" \ twice" ++ [10; 195; 169; 255]]);
      (s2l "choice", [s2l "a"; s2l "b"])].
Proof. vm_compute. repeat constructor. Qed.

Example roundtrip_spaces_example :
  tag_scan (render_tag_sp [(2%nat, (s2l "long", s2l "x y")); (0%nat, (s2l "env", s2l "E:1"))] 3) =
  Ok [(s2l "long", [s2l "x y"]); (s2l "env", [s2l "E:1"])].
Proof. vm_compute. reflexivity. Qed.

(* ================================================================== *)
(* 3.-5. make_opt                                                      *)
(* ================================================================== *)

Lemma range_str_cons c s : exists r w l, range_str (c :: s) = (O, r, w) :: l /\ decode_rune (c :: s) = (r, w).
Proof.
  unfold range_str. cbn [length range_fuel].
  destruct (decode_rune (c :: s)) as [r w]. do 3 eexists. split; reflexivity.
Qed.

Lemma rune_count_one_runes s : rune_count s = 1%nat -> runes s = [fst (decode_rune s)].
Proof.
  unfold rune_count, runes. destruct s as [|c s]; [discriminate|].
  destruct (range_str_cons c s) as (r & w & l & E & D). rewrite E, D.
  cbn [length map fst snd]. destruct l; [reflexivity|discriminate].
Qed.

Theorem C19_make_opt_faithful : forall name m ty fid o,
  make_opt name m ty fid = Ok (Some o) ->
  o_long o = tm_get m (s2l "long") /\
  o_desc o = tm_get m (s2l "description") /\
  o_default o = tm_many m (s2l "default") /\
  o_choices o = tm_many m (s2l "choice") /\
  o_optval o = tm_many m (s2l "optional-value") /\
  o_envkey o = tm_get m (s2l "env") /\
  o_envdelim o = tm_get m (s2l "env-delim") /\
  o_valname o = tm_get m (s2l "value-name") /\
  o_mask o = tm_get m (s2l "default-mask") /\
  o_ininame o = tm_get m (s2l "ini-name") /\
  o_required o = negb (is_falsy (tm_get m (s2l "required"))) /\
  o_optional o = negb (is_falsy (tm_get m (s2l "optional"))) /\
  o_hidden o = negb (is_falsy (tm_get m (s2l "hidden"))) /\
  o_noini o = nonempty (tm_get m (s2l "no-ini")) /\
  o_unquote o = negb (str_eqb (tm_get m (s2l "unquote")) (s2l "false")) /\
  o_base o = tm_get m (s2l "base") /\
  o_is_help o = false /\
  o_field o = name /\ o_ty o = ty /\ o_fid o = fid /\
  (* short name *)
  (tm_get m (s2l "short") = [] -> o_short o = 0) /\
  (rune_count (tm_get m (s2l "short")) = 1%nat ->
     o_short o = fst (decode_rune (tm_get m (s2l "short"))) /\ runes (tm_get m (s2l "short")) = [o_short o]) /\
  o_short o = (if Nat.eqb (rune_count (tm_get m (s2l "short"))) 1
               then fst (decode_rune (tm_get m (s2l "short"))) else 0) /\
  (* the conditions under which an option is produced at all *)
  (rune_count (tm_get m (s2l "short")) <= 1)%nat /\
  nonempty (tm_get m (s2l "long")) || nonempty (tm_get m (s2l "short")) || nonempty (tm_get m (s2l "ini-name")) = true /\
  vtype_is_bool ty && tm_has m (s2l "default") = false.
Proof.
  intros name m ty fid o H. unfold make_opt in H.
  set (sh := tm_get m (s2l "short")) in *. clearbody sh.
  destruct (negb (nonempty (tm_get m (s2l "long"))) && negb (nonempty sh)
            && negb (nonempty (tm_get m (s2l "ini-name")))) eqn:E0; [discriminate H|].
  destruct (Nat.ltb 1 (rune_count sh)) eqn:E1; [discriminate H|].
  match type of H with (if ?c then _ else _) = _ => destruct c eqn:E2; [discriminate H|] end.
  unfold opt_is_bool in E2. cbn [o_ty] in E2.
  injection H as <-. cbn [o_long o_desc o_default o_choices o_optval o_envkey o_envdelim o_valname o_mask
    o_ininame o_required o_optional o_hidden o_noini o_unquote o_base o_is_help o_field o_ty o_fid o_short].
  do 20 (split; [reflexivity|]).
  split; [intros ->; reflexivity|].
  split; [intros E; rewrite E; cbn [Nat.eqb]; split; [reflexivity|apply rune_count_one_runes; exact E]|].
  split; [reflexivity|].
  split; [apply Nat.ltb_ge in E1; exact E1|].
  split.
  - destruct (nonempty (tm_get m (s2l "long"))), (nonempty sh),
      (nonempty (tm_get m (s2l "ini-name"))); try reflexivity; discriminate E0.
  - exact E2.
Qed.

(* no option at all exactly when there is no long, short or ini name *)
Theorem C19_make_opt_none : forall name m ty fid,
  make_opt name m ty fid = Ok None <->
  tm_get m (s2l "long") = [] /\ tm_get m (s2l "short") = [] /\ tm_get m (s2l "ini-name") = [].
Proof.
  intros name m ty fid. unfold make_opt. split.
  - intros H.
    destruct (tm_get m (s2l "long")) as [|? ?]; destruct (tm_get m (s2l "short")) as [|? ?] eqn:Es;
      destruct (tm_get m (s2l "ini-name")) as [|? ?]; cbn [nonempty negb andb] in H;
      try (repeat split; reflexivity);
      (destruct (Nat.ltb 1 _); [discriminate H|]);
      match type of H with (if ?c then _ else _) = _ => destruct c; discriminate H end.
  - intros (-> & -> & ->). reflexivity.
Qed.

Theorem C19_short_too_long : forall name m ty fid,
  (1 < rune_count (tm_get m (s2l "short")))%nat ->
  make_opt name m ty fid =
  Err (EFlags ErrShortNameTooLong
         (s2l "short names can only be 1 character long, not `" ++ tm_get m (s2l "short") ++ s2l "'")).
Proof.
  intros name m ty fid H. unfold make_opt.
  destruct (tm_get m (s2l "short")) as [|c s] eqn:Es; [cbv in H; lia|].
  cbn [nonempty negb andb]. rewrite andb_false_r. cbn [andb].
  apply Nat.ltb_lt in H. rewrite H. reflexivity.
Qed.

Theorem C19_bool_default : forall name m ty fid,
  vtype_is_bool ty = true ->
  tm_has m (s2l "default") = true ->
  (rune_count (tm_get m (s2l "short")) <= 1)%nat ->
  nonempty (tm_get m (s2l "long")) || nonempty (tm_get m (s2l "short")) || nonempty (tm_get m (s2l "ini-name")) = true ->
  exists msg, make_opt name m ty fid = Err (EFlags ErrInvalidTag msg).
Proof.
  intros name m ty fid Hb Hd Hrc Hn. unfold make_opt.
  replace (negb (nonempty (tm_get m (s2l "long"))) && negb (nonempty (tm_get m (s2l "short")))
            && negb (nonempty (tm_get m (s2l "ini-name")))) with false
    by (destruct (nonempty (tm_get m (s2l "long"))), (nonempty (tm_get m (s2l "short"))),
          (nonempty (tm_get m (s2l "ini-name"))); try reflexivity; discriminate Hn).
  apply Nat.ltb_ge in Hrc. rewrite Hrc.
  unfold opt_is_bool. cbn [o_ty]. rewrite Hb, Hd. cbn [andb].
  eexists. reflexivity.
Qed.

(* non-vacuity *)
Example make_opt_example :
  let m := tag_cached (s2l "short:""v"" long:""verbose"" description:""be chatty"" choice:""a"" choice:""b"" env:""V""") in
  exists o, make_opt (s2l "Verbose") m (TScalar KString) 7 = Ok (Some o) /\ o_short o = 118 /\ o_choices o = [s2l "a"; s2l "b"].
Proof. eexists. vm_compute. repeat split. Qed.

Example short_too_long_example :
  let m := tag_cached (s2l "short:""ab"" long:""x""") in (1 < rune_count (tm_get m (s2l "short")))%nat.
Proof. vm_compute. lia. Qed.

Example bool_default_example :
  let m := tag_cached (s2l "short:""v"" default:""true""") in
  vtype_is_bool (TScalar KBool) = true /\ tm_has m (s2l "default") = true /\
  (rune_count (tm_get m (s2l "short")) <= 1)%nat /\
  nonempty (tm_get m (s2l "long")) || nonempty (tm_get m (s2l "short")) || nonempty (tm_get m (s2l "ini-name")) = true.
Proof. vm_compute. repeat split; lia. Qed.

(* ================================================================== *)
(* 6. duplicate check                                                  *)
(* ================================================================== *)

Definition dup_st0 : dupst := {| d_longs := []; d_shorts := []; d_err := None |}.
Definition KL (st : dupst) : list str := map fst (d_longs st).
Definition KS (st : dupst) : list N := map fst (d_shorts st).

(* qualified long names of the options that have one / non-zero short runes, in order *)
Definition lkeys (delim : str) (ns : list str) (os : list opt) : list str :=
  map (fun o => long_with_ns delim ns (o_long o)) (filter (fun o => nonempty (o_long o)) os).
Definition skeys (os : list opt) : list N :=
  filter (fun r => negb (N.eqb r 0)) (map o_short os).

(* the same over option contexts of a group tree (group_octxs) *)
Definition lk (delim : str) (ocs : list octx) : list str :=
  map (long_name delim) (filter (fun oc => nonempty (o_long (oc_opt oc))) ocs).
Definition sk (ocs : list octx) : list N :=
  filter (fun r => negb (N.eqb r 0)) (map (fun oc => o_short (oc_opt oc)) ocs).

Definition dup_ok (e : option err) : Prop :=
  e = None \/ exists msg, e = Some (EFlags ErrDuplicatedFlag msg).

(* ---- fresh_in l K: l has no repetition and shares nothing with K *)
Definition fresh_in {A} (l K : list A) : Prop := NoDup l /\ forall x, In x l -> ~ In x K.

Lemma fresh_in_nil {A} (K : list A) : fresh_in [] K.
Proof. split; [constructor|intros x []]. Qed.

Lemma fresh_in_nil_r {A} (l : list A) : fresh_in l [] <-> NoDup l.
Proof. split; [intros [H _]; exact H|intros H; split; [exact H|intros x _ []]]. Qed.

Lemma fresh_in_cons {A} (x : A) l K : fresh_in (x :: l) K <-> ~ In x K /\ fresh_in l (x :: K).
Proof.
  unfold fresh_in. split.
  - intros [Hnd H]. inversion Hnd as [|? ? Hx Hl]; subst. split; [apply H; left; reflexivity|].
    split; [exact Hl|]. intros y Hy [<-|Hk]; [exact (Hx Hy)|]. exact (H y (or_intror Hy) Hk).
  - intros [Hx [Hl H]]. split.
    + constructor; [|exact Hl]. intros Hin. exact (H x Hin (or_introl eq_refl)).
    + intros y [<-|Hy]; [exact Hx|]. intros Hk. exact (H y Hy (or_intror Hk)).
Qed.

Lemma fresh_in_ext {A} (l K K' : list A) : (forall x, In x K <-> In x K') -> fresh_in l K <-> fresh_in l K'.
Proof.
  intros E. unfold fresh_in. split; intros [H1 H2]; (split; [exact H1|]); intros x Hx Hk; apply (H2 x Hx); apply E; exact Hk.
Qed.

Lemma fresh_in_app {A} (l1 l2 K : list A) :
  fresh_in (l1 ++ l2) K <-> fresh_in l1 K /\ fresh_in l2 (l1 ++ K).
Proof.
  revert K. induction l1 as [|x l1 IH]; intros K; cbn [app].
  - split; [intros H; split; [apply fresh_in_nil|exact H]|intros [_ H]; exact H].
  - rewrite !fresh_in_cons, IH.
    assert (E: fresh_in l2 (l1 ++ x :: K) <-> fresh_in l2 (x :: l1 ++ K)).
    { apply fresh_in_ext. intros y. rewrite in_app_iff. cbn [In]. rewrite in_app_iff. tauto. }
    rewrite E. tauto.
Qed.

Lemma not_NoDup_twice {A} (a b c : list A) x : ~ NoDup (a ++ x :: b ++ x :: c).
Proof.
  intros H. apply NoDup_remove_2 in H. apply H.
  apply in_or_app; right. apply in_or_app; right. left; reflexivity.
Qed.

(* ---- association lists *)
Lemma assoc_str_none {A} (l : list (str * A)) k : assoc_str l k = None <-> ~ In k (map fst l).
Proof.
  induction l as [|[k' v] l IH]; cbn [assoc_str map fst In]; [tauto|].
  destruct (str_eqb_spec k k') as [->|Hn].
  - split; [discriminate|intros H; exfalso; apply H; left; reflexivity].
  - rewrite IH. split; [intros H [E|H']; [congruence|exact (H H')]|tauto].
Qed.
Lemma assoc_N_none {A} (l : list (N * A)) k : assoc_N l k = None <-> ~ In k (map fst l).
Proof.
  induction l as [|[k' v] l IH]; cbn [assoc_N map fst In]; [tauto|].
  destruct (N.eqb_spec k k') as [->|Hn].
  - split; [discriminate|intros H; exfalso; apply H; left; reflexivity].
  - rewrite IH. split; [intros H [E|H']; [congruence|exact (H H')]|tauto].
Qed.
Lemma assoc_str_some {A} (l : list (str * A)) k v : assoc_str l k = Some v -> In k (map fst l).
Proof.
  intros H. destruct (in_dec (list_eq_dec N.eq_dec) k (map fst l)) as [Hin|Hn]; [exact Hin|].
  apply assoc_str_none in Hn. congruence.
Qed.
Lemma assoc_N_some {A} (l : list (N * A)) k v : assoc_N l k = Some v -> In k (map fst l).
Proof.
  intros H. destruct (in_dec N.eq_dec k (map fst l)) as [Hin|Hn]; [exact Hin|].
  apply assoc_N_none in Hn. congruence.
Qed.

(* ---- keys: structure *)
Lemma lkeys_one delim ns o :
  lkeys delim ns [o] = if nonempty (o_long o) then [long_with_ns delim ns (o_long o)] else [].
Proof. unfold lkeys. cbn [filter]. destruct (nonempty (o_long o)); reflexivity. Qed.
Lemma skeys_one o : skeys [o] = if negb (N.eqb (o_short o) 0) then [o_short o] else [].
Proof. unfold skeys. cbn [map filter]. destruct (negb (N.eqb (o_short o) 0)); reflexivity. Qed.
Lemma lkeys_app delim ns a b : lkeys delim ns (a ++ b) = lkeys delim ns a ++ lkeys delim ns b.
Proof. unfold lkeys. rewrite filter_app, map_app. reflexivity. Qed.
Lemma skeys_app a b : skeys (a ++ b) = skeys a ++ skeys b.
Proof. unfold skeys. rewrite map_app, filter_app. reflexivity. Qed.
Lemma lk_app delim a b : lk delim (a ++ b) = lk delim a ++ lk delim b.
Proof. unfold lk. rewrite filter_app, map_app. reflexivity. Qed.
Lemma sk_app a b : sk (a ++ b) = sk a ++ sk b.
Proof. unfold sk. rewrite map_app, filter_app. reflexivity. Qed.

Lemma lk_one delim oc :
  lk delim [oc] = if nonempty (o_long (oc_opt oc)) then [long_name delim oc] else [].
Proof. unfold lk. cbn [filter]. destruct (nonempty (o_long (oc_opt oc))); reflexivity. Qed.
Lemma sk_one oc : sk [oc] = if negb (N.eqb (o_short (oc_opt oc)) 0) then [o_short (oc_opt oc)] else [].
Proof. unfold sk. cbn [map filter]. destruct (negb (N.eqb (o_short (oc_opt oc)) 0)); reflexivity. Qed.

(* ---- one option *)
Definition dup_one (delim : str) (ns : list str) (o : opt) (st : dupst) : dupst + dupst :=
  let me := opt_string delim ns o in
  let st1 :=
      if nonempty (o_long o) then
        let ln := long_with_ns delim ns (o_long o) in
        match assoc_str (d_longs st) ln with
        | Some other => inr (EFlags ErrDuplicatedFlag
              (s2l "option `" ++ me ++ s2l "' uses the same long name as option `" ++ other ++ s2l "'"))
        | None => inl {| d_longs := (ln, me) :: d_longs st; d_shorts := d_shorts st; d_err := d_err st |}
        end
      else inl st in
  match st1 with
  | inr e => inr {| d_longs := d_longs st; d_shorts := d_shorts st; d_err := Some e |}
  | inl st1 =>
    if negb (N.eqb (o_short o) 0) then
      match assoc_N (d_shorts st1) (o_short o) with
      | Some other => inr {| d_longs := d_longs st1; d_shorts := d_shorts st1;
                             d_err := Some (EFlags ErrDuplicatedFlag
              (s2l "option `" ++ me ++ s2l "' uses the same short name as option `" ++ other ++ s2l "'")) |}
      | None => inl {| d_longs := d_longs st1; d_shorts := (o_short o, me) :: d_shorts st1; d_err := d_err st1 |}
      end
    else inl st1
  end.

Lemma dup_opts_cons delim ns o os st :
  dup_opts delim ns (o :: os) st =
  match dup_one delim ns o st with inl st2 => dup_opts delim ns os st2 | inr st2 => st2 end.
Proof.
  cbn [dup_opts]. unfold dup_one.
  destruct (nonempty (o_long o)); [destruct (assoc_str _ _)|]; try reflexivity;
    (destruct (negb (N.eqb (o_short o) 0)); [destruct (assoc_N _ _)|]; reflexivity).
Qed.

Lemma fresh_in_one {A} (x : A) K : ~ In x K -> fresh_in [x] K.
Proof. intros H. apply fresh_in_cons. split; [exact H|apply fresh_in_nil]. Qed.

Ltac dup_inl :=
  unfold KL, KS; cbn [d_shorts d_longs d_err map fst app];
  (split; [reflexivity|split; [reflexivity|split; [reflexivity|split]]]);
  first [apply fresh_in_nil | apply fresh_in_one; assumption].

Lemma dup_one_spec delim ns o st :
  match dup_one delim ns o st with
  | inl st2 => d_err st2 = d_err st /\
               KL st2 = lkeys delim ns [o] ++ KL st /\ KS st2 = skeys [o] ++ KS st /\
               fresh_in (lkeys delim ns [o]) (KL st) /\ fresh_in (skeys [o]) (KS st)
  | inr st2 => (exists msg, d_err st2 = Some (EFlags ErrDuplicatedFlag msg)) /\
               ~ (fresh_in (lkeys delim ns [o]) (KL st) /\ fresh_in (skeys [o]) (KS st))
  end.
Proof.
  rewrite lkeys_one, skeys_one. unfold dup_one.
  destruct (nonempty (o_long o)).
  - destruct (assoc_str (d_longs st) (long_with_ns delim ns (o_long o))) as [other|] eqn:EL.
    + split; [eexists; reflexivity|]. intros [[_ H] _].
      apply (H _ (or_introl eq_refl)). eapply assoc_str_some; exact EL.
    + apply assoc_str_none in EL. cbn [d_shorts d_longs d_err].
      destruct (negb (N.eqb (o_short o) 0)).
      * destruct (assoc_N (d_shorts st) (o_short o)) as [other|] eqn:ES.
        -- split; [eexists; reflexivity|]. intros [_ [_ H]].
           apply (H _ (or_introl eq_refl)). eapply assoc_N_some; exact ES.
        -- apply assoc_N_none in ES. dup_inl.
      * dup_inl.
  - destruct (negb (N.eqb (o_short o) 0)).
    + destruct (assoc_N (d_shorts st) (o_short o)) as [other|] eqn:ES.
      * split; [eexists; reflexivity|]. intros [_ [_ H]].
        apply (H _ (or_introl eq_refl)). eapply assoc_N_some; exact ES.
      * apply assoc_N_none in ES. dup_inl.
    + dup_inl.
Qed.

(* ---- specification of a state transformer that inserts the keys L (long) and S (short) *)
Definition step_spec (F : dupst -> dupst) (L : list str) (S : list N) : Prop :=
  forall st,
    (d_err (F st) = None <-> d_err st = None /\ fresh_in L (KL st) /\ fresh_in S (KS st)) /\
    (d_err (F st) = None ->
       (forall x, In x (KL (F st)) <-> In x L \/ In x (KL st)) /\
       (forall x, In x (KS (F st)) <-> In x S \/ In x (KS st))) /\
    (dup_ok (d_err st) -> dup_ok (d_err (F st))).

Lemma step_spec_id : step_spec (fun st => st) [] [].
Proof.
  intros st. split; [|split].
  - split; [intros H; repeat split; [exact H|constructor|intros x []|constructor|intros x []]|intros [H _]; exact H].
  - intros _. split; intros x; cbn [In]; tauto.
  - auto.
Qed.

Lemma step_spec_comp F G L1 S1 L2 S2 :
  step_spec F L1 S1 -> step_spec G L2 S2 -> step_spec (fun st => G (F st)) (L1 ++ L2) (S1 ++ S2).
Proof.
  intros HF HG st. destruct (HF st) as (F1 & F2 & F3), (HG (F st)) as (G1 & G2 & G3).
  assert (EL: d_err (F st) = None -> fresh_in L2 (KL (F st)) <-> fresh_in L2 (L1 ++ KL st)).
  { intros H. apply fresh_in_ext. intros x. rewrite in_app_iff. apply (proj1 (F2 H)). }
  assert (ES: d_err (F st) = None -> fresh_in S2 (KS (F st)) <-> fresh_in S2 (S1 ++ KS st)).
  { intros H. apply fresh_in_ext. intros x. rewrite in_app_iff. apply (proj2 (F2 H)). }
  split; [|split].
  - rewrite !fresh_in_app. split.
    + intros H. apply G1 in H. destruct H as (H0 & HL & HS).
      pose proof (proj1 F1 H0) as (A & B & C). apply (EL H0) in HL. apply (ES H0) in HS. tauto.
    + intros (A & (B1 & B2) & (C1 & C2)).
      assert (H0: d_err (F st) = None) by (apply F1; tauto).
      apply G1. split; [exact H0|]. split; [apply (EL H0); exact B2|apply (ES H0); exact C2].
  - intros H. pose proof (proj1 G1 H) as (H0 & _ & _).
    destruct (F2 H0) as [FL FS]. destruct (G2 H) as [GL GS].
    split; intros x; rewrite in_app_iff; [rewrite GL, FL|rewrite GS, FS]; tauto.
  - auto.
Qed.

Lemma dup_opts_spec delim ns os : step_spec (dup_opts delim ns os) (lkeys delim ns os) (skeys os).
Proof.
  induction os as [|o os IH]; [exact step_spec_id|].
  intros st. rewrite dup_opts_cons.
  change (o :: os) with ([o] ++ os). rewrite lkeys_app, skeys_app.
  pose proof (dup_one_spec delim ns o st) as H1.
  destruct (dup_one delim ns o st) as [st2|st2].
  - destruct H1 as (He & HL & HS & FL & FS). destruct (IH st2) as (I1 & I2 & I3).
    rewrite He, HL, HS in *.
    split; [|split].
    + rewrite I1, !fresh_in_app. tauto.
    + intros H. destruct (I2 H) as [IL IS].
      split; intros x; [rewrite IL|rewrite IS]; rewrite !in_app_iff; tauto.
    + exact I3.
  - destruct H1 as ((msg & He) & Hn). split; [|split].
    + rewrite He, !fresh_in_app. split; [discriminate|]. intros (_ & (A & _) & (B & _)). exfalso; apply Hn; auto.
    + rewrite He. discriminate.
    + intros _. right. eexists; exact He.
Qed.

(* ---- one group *)
Theorem C19_dups_iff : forall delim ns os,
  (d_err (dup_opts delim ns os dup_st0) = None <-> NoDup (lkeys delim ns os) /\ NoDup (skeys os)) /\
  (d_err (dup_opts delim ns os dup_st0) = None \/
   exists msg, d_err (dup_opts delim ns os dup_st0) = Some (EFlags ErrDuplicatedFlag msg)).
Proof.
  intros delim ns os. destruct (dup_opts_spec delim ns os dup_st0) as (H1 & _ & H3).
  split.
  - rewrite H1. unfold dup_st0, KL, KS. cbn [d_err d_longs d_shorts map]. rewrite !fresh_in_nil_r. tauto.
  - apply H3. left; reflexivity.
Qed.

Theorem C19_dups_sound : forall delim ns os,
  d_err (dup_opts delim ns os dup_st0) = None ->
  NoDup (map (fun o => long_with_ns delim ns (o_long o)) (filter (fun o => nonempty (o_long o)) os)) /\
  NoDup (filter (fun r => negb (N.eqb r 0)) (map o_short os)).
Proof. intros delim ns os H. apply (proj1 (C19_dups_iff delim ns os)) in H. exact H. Qed.

Theorem C19_dups_complete : forall delim ns a o1 b o2 c,
  (nonempty (o_long o1) = true /\ nonempty (o_long o2) = true /\
   long_with_ns delim ns (o_long o1) = long_with_ns delim ns (o_long o2)) \/
  (o_short o1 <> 0 /\ o_short o1 = o_short o2) ->
  exists msg, d_err (dup_opts delim ns (a ++ o1 :: b ++ o2 :: c) dup_st0) = Some (EFlags ErrDuplicatedFlag msg).
Proof.
  intros delim ns a o1 b o2 c H.
  destruct (C19_dups_iff delim ns (a ++ o1 :: b ++ o2 :: c)) as [Hiff [Hnone|Hsome]]; [|exact Hsome].
  exfalso. apply Hiff in Hnone. destruct Hnone as [HL HS].
  change (a ++ o1 :: b ++ o2 :: c) with (a ++ [o1] ++ b ++ [o2] ++ c) in HL, HS.
  rewrite !lkeys_app, !lkeys_one in HL. rewrite !skeys_app, !skeys_one in HS.
  destruct H as [(E1 & E2 & E)|(Hz & E)].
  - rewrite E1, E2, E in HL. exact (not_NoDup_twice _ _ _ _ HL).
  - rewrite <- E in HS. destruct (N.eqb_spec (o_short o1) 0) as [?|_]; [contradiction|].
    exact (not_NoDup_twice _ _ _ _ HS).
Qed.

(* ---- whole group tree *)
Lemma fold_spec (D : group -> dupst -> dupst) (O : group -> list octx) delim :
  (forall g, step_spec (D g) (lk delim (O g)) (sk (O g))) ->
  forall subs, step_spec (fun st => fold_left (fun st sub => D sub st) subs st)
                         (lk delim (flat_map O subs)) (sk (flat_map O subs)).
Proof.
  intros HD. induction subs as [|g subs IH]; [exact step_spec_id|].
  cbn [flat_map fold_left]. rewrite lk_app, sk_app.
  exact (step_spec_comp (D g) (fun st => fold_left (fun st sub => D sub st) subs st) _ _ _ _ (HD g) IH).
Qed.

Lemma lk_map_opts delim ns envns gi os :
  lk delim (map (fun o => {| oc_opt := o; oc_ns := ns; oc_envns := envns; oc_ghidden := g_hidden gi;
                            oc_gshort := g_short gi; oc_builtin := g_builtin_help gi |}) os)
  = lkeys delim ns os.
Proof.
  unfold lk, lkeys. induction os as [|o os IH]; [reflexivity|].
  cbn [map filter oc_opt]. destruct (nonempty (o_long o)); cbn [map]; rewrite IH; reflexivity.
Qed.
Lemma sk_map_opts ns envns gi os :
  sk (map (fun o => {| oc_opt := o; oc_ns := ns; oc_envns := envns; oc_ghidden := g_hidden gi;
                      oc_gshort := g_short gi; oc_builtin := g_builtin_help gi |}) os)
  = skeys os.
Proof. unfold sk, skeys. rewrite map_map. reflexivity. Qed.

Lemma dup_group_spec delim n : forall ns envns g,
  step_spec (dup_group n delim ns g) (lk delim (group_octxs n ns envns g)) (sk (group_octxs n ns envns g)).
Proof.
  induction n as [|f IH]; intros ns envns g; [exact step_spec_id|].
  destruct g as [gi os subs]. cbn [dup_group group_octxs].
  rewrite lk_app, sk_app, lk_map_opts, sk_map_opts.
  exact (step_spec_comp (dup_opts delim (ns ++ [g_ns gi]) os)
           (fun st => fold_left (fun st sub => dup_group f delim (ns ++ [g_ns gi]) sub st) subs st)
           _ _ _ _ (dup_opts_spec delim (ns ++ [g_ns gi]) os)
           (fold_spec (dup_group f delim (ns ++ [g_ns gi]))
                      (group_octxs f (ns ++ [g_ns gi]) (envns ++ [g_envns gi])) delim
                      (IH (ns ++ [g_ns gi]) (envns ++ [g_envns gi])) subs)).
Qed.

Theorem C19_check_dups_iff : forall delim g,
  let ocs := group_octxs (group_depth g) [] [] g in
  (check_dups delim g = None <-> NoDup (lk delim ocs) /\ NoDup (sk ocs)) /\
  (check_dups delim g = None \/ exists msg, check_dups delim g = Some (EFlags ErrDuplicatedFlag msg)).
Proof.
  intros delim g ocs. unfold check_dups.
  destruct (dup_group_spec delim (group_depth g) [] [] g dup_st0) as (H1 & _ & H3).
  fold ocs in H1. fold dup_st0. split.
  - rewrite H1. unfold dup_st0, KL, KS. cbn [d_err d_longs d_shorts map]. rewrite !fresh_in_nil_r. tauto.
  - apply H3. left; reflexivity.
Qed.

Theorem C19_check_dups_sound : forall delim g,
  check_dups delim g = None ->
  let ocs := group_octxs (group_depth g) [] [] g in
  NoDup (map (long_name delim) (filter (fun oc => nonempty (o_long (oc_opt oc))) ocs)) /\
  NoDup (filter (fun r => negb (N.eqb r 0)) (map (fun oc => o_short (oc_opt oc)) ocs)).
Proof. intros delim g H ocs. apply (proj1 (C19_check_dups_iff delim g)) in H. exact H. Qed.

Theorem C19_check_dups_complete : forall delim g a oc1 b oc2 c,
  group_octxs (group_depth g) [] [] g = a ++ oc1 :: b ++ oc2 :: c ->
  (nonempty (o_long (oc_opt oc1)) = true /\ nonempty (o_long (oc_opt oc2)) = true /\
   long_name delim oc1 = long_name delim oc2) \/
  (o_short (oc_opt oc1) <> 0 /\ o_short (oc_opt oc1) = o_short (oc_opt oc2)) ->
  exists msg, check_dups delim g = Some (EFlags ErrDuplicatedFlag msg).
Proof.
  intros delim g a oc1 b oc2 c Hocs H.
  destruct (C19_check_dups_iff delim g) as [Hiff [Hnone|Hsome]]; [|exact Hsome].
  exfalso. apply Hiff in Hnone. rewrite Hocs in Hnone. destruct Hnone as [HL HS].
  change (a ++ oc1 :: b ++ oc2 :: c) with (a ++ [oc1] ++ b ++ [oc2] ++ c) in HL, HS.
  rewrite !lk_app, !lk_one in HL. rewrite !sk_app, !sk_one in HS.
  destruct H as [(E1 & E2 & E)|(Hz & E)].
  - rewrite E1, E2, E in HL. exact (not_NoDup_twice _ _ _ _ HL).
  - rewrite <- E in HS. destruct (N.eqb_spec (o_short (oc_opt oc1)) 0) as [?|_]; [contradiction|].
    exact (not_NoDup_twice _ _ _ _ HS).
Qed.

(* ---- the same completeness results stated with positions in the list *)
Lemma two_positions {A} (l : list A) i j x y :
  (i < j)%nat -> nth_error l i = Some x -> nth_error l j = Some y ->
  exists a b c, l = a ++ x :: b ++ y :: c.
Proof.
  intros Hlt Hi Hj. apply nth_error_split in Hi as (a & r & -> & Hlen). subst i.
  rewrite nth_error_app2 in Hj by lia.
  replace (j - length a)%nat with (S (j - length a - 1)) in Hj by lia. cbn [nth_error] in Hj.
  apply nth_error_split in Hj as (b & c & -> & _). eauto.
Qed.

Theorem C19_dups_complete_nth : forall delim ns os i j o1 o2,
  i <> j -> nth_error os i = Some o1 -> nth_error os j = Some o2 ->
  (nonempty (o_long o1) = true /\ nonempty (o_long o2) = true /\
   long_with_ns delim ns (o_long o1) = long_with_ns delim ns (o_long o2)) \/
  (o_short o1 <> 0 /\ o_short o1 = o_short o2) ->
  exists msg, d_err (dup_opts delim ns os dup_st0) = Some (EFlags ErrDuplicatedFlag msg).
Proof.
  intros delim ns os i j o1 o2 Hij Hi Hj H.
  destruct (Nat.lt_total i j) as [Hlt|[->|Hlt]]; [|contradiction|].
  - destruct (two_positions os i j o1 o2 Hlt Hi Hj) as (a & b & c & ->).
    apply C19_dups_complete. exact H.
  - destruct (two_positions os j i o2 o1 Hlt Hj Hi) as (a & b & c & ->).
    apply C19_dups_complete.
    destruct H as [(E1 & E2 & E)|(Hz & E)]; [left; auto|right; split; [rewrite <- E; exact Hz|auto]].
Qed.

Theorem C19_check_dups_complete_nth : forall delim g i j oc1 oc2,
  i <> j ->
  nth_error (group_octxs (group_depth g) [] [] g) i = Some oc1 ->
  nth_error (group_octxs (group_depth g) [] [] g) j = Some oc2 ->
  (nonempty (o_long (oc_opt oc1)) = true /\ nonempty (o_long (oc_opt oc2)) = true /\
   long_name delim oc1 = long_name delim oc2) \/
  (o_short (oc_opt oc1) <> 0 /\ o_short (oc_opt oc1) = o_short (oc_opt oc2)) ->
  exists msg, check_dups delim g = Some (EFlags ErrDuplicatedFlag msg).
Proof.
  intros delim g i j oc1 oc2 Hij Hi Hj H.
  destruct (Nat.lt_total i j) as [Hlt|[->|Hlt]]; [|contradiction|].
  - destruct (two_positions _ i j oc1 oc2 Hlt Hi Hj) as (a & b & c & E).
    eapply C19_check_dups_complete; [exact E|exact H].
  - destruct (two_positions _ j i oc2 oc1 Hlt Hj Hi) as (a & b & c & E).
    eapply C19_check_dups_complete; [exact E|].
    destruct H as [(E1 & E2 & E')|(Hz & E')]; [left; auto|right; split; [rewrite <- E'; exact Hz|auto]].
Qed.

(* ---- non-vacuity *)
Definition ex_opt (short : N) (long : str) : opt :=
  {| o_fid := 0; o_field := s2l "F"; o_short := short; o_long := long;
     o_desc := []; o_default := []; o_envkey := []; o_envdelim := [];
     o_optional := false; o_optval := []; o_required := false; o_valname := []; o_mask := [];
     o_choices := []; o_hidden := false; o_ininame := []; o_noini := false; o_unquote := true;
     o_base := []; o_ty := TScalar KString; o_is_help := false |}.

Example dups_sound_example :
  d_err (dup_opts (s2l ".") [s2l "db"] [ex_opt 118 (s2l "verbose"); ex_opt 0 (s2l "name"); ex_opt 110 []] dup_st0) = None.
Proof. vm_compute. reflexivity. Qed.

Example dups_complete_example :
  exists msg,
    d_err (dup_opts (s2l ".") [s2l "db"] ([] ++ ex_opt 118 (s2l "verbose") :: [ex_opt 0 (s2l "name")] ++ ex_opt 0 (s2l "verbose") :: []) dup_st0)
    = Some (EFlags ErrDuplicatedFlag msg).
Proof. eexists. vm_compute. reflexivity. Qed.

Definition ex_group : group :=
  Group (mk_ginfo (s2l "App") [])
        [ex_opt 118 (s2l "verbose")]
        [Group {| g_short := s2l "DB"; g_long := []; g_ns := s2l "db"; g_envns := []; g_hidden := false;
                  g_builtin_help := false |} [ex_opt 0 (s2l "verbose"); ex_opt 110 (s2l "name")] [];
         help_group].

Example check_dups_sound_example : check_dups (s2l ".") ex_group = None.
Proof. vm_compute. reflexivity. Qed.

(* the same long name in a sub-group WITHOUT namespace collides with the parent's *)
Example check_dups_complete_example :
  let g := Group (mk_ginfo (s2l "App") []) [ex_opt 118 (s2l "verbose")]
                 [Group (mk_ginfo (s2l "Sub") []) [ex_opt 0 (s2l "verbose")] []] in
  (exists oc1 oc2, group_octxs (group_depth g) [] [] g = [] ++ oc1 :: [] ++ oc2 :: [] /\
                   nonempty (o_long (oc_opt oc1)) = true /\ nonempty (o_long (oc_opt oc2)) = true /\
                   long_name (s2l ".") oc1 = long_name (s2l ".") oc2) /\
  exists msg, check_dups (s2l ".") g = Some (EFlags ErrDuplicatedFlag msg).
Proof. split; [do 2 eexists; vm_compute; repeat split|eexists; vm_compute; reflexivity]. Qed.

(* ================================================================== *)
Print Assumptions C19_tag_total.
Print Assumptions C19_tag_cached_total.
Print Assumptions C19_tag_roundtrip_spaces.
Print Assumptions C19_tag_roundtrip.
Print Assumptions C19_make_opt_faithful.
Print Assumptions C19_make_opt_none.
Print Assumptions C19_short_too_long.
Print Assumptions C19_bool_default.
Print Assumptions C19_dups_iff.
Print Assumptions C19_dups_sound.
Print Assumptions C19_dups_complete.
Print Assumptions C19_dups_complete_nth.
Print Assumptions C19_check_dups_iff.
Print Assumptions C19_check_dups_sound.
Print Assumptions C19_check_dups_complete.
Print Assumptions C19_check_dups_complete_nth.
