(* C12 ("INI write/read round trip") is FALSE for the code, and hence for the faithful
   model, in two recorded situations:

   (a) the writer emits the CANONICAL text of a value (strconv.FormatInt: "7"), while a
       `choice` restriction is checked on the TEXT handed to Option.Set: the text "007"
       is a choice, the text "7" is not - the writer's own output is rejected by the
       reader (targets 1 and 2; with IniIncludeDefaults the zero value "0" of an option
       that was never given is written and rejected in the same way);
   (b) a map key is written without quoting: a key containing a line break splits the
       entry into two physical lines, the second of which is not an entry (target 3).

   Each refutation is an existential statement with a concrete witness, established by
   computation.  Target 4 is the positive counterpart: Option.Set reports
   ErrInvalidChoice exactly when the text is not one of the choices. *)
From GoFlags Require Import Base.Str Base.Utf8 Golib.Tables Golib.Strings Golib.Strconv
     Model.Types Model.Tag Model.Scan Model.Lookup Model.Convert Model.State Model.Ini.
From GoFlags Require Import Proofs.ValueSpec Proofs.IniFileSpec.
From Coq Require Import List String Lia ZifyN ZifyBool ZifyNat.
Import ListNotations.
Open Scope N_scope.

(* ====================================================================== *)
(* The declarations of the witnesses                                       *)
(* ====================================================================== *)

(* N int `long:"n" choice:"007" choice:"8"` *)
Definition c12_optN : opt :=
  {| o_fid := 0; o_field := s2l "N"; o_short := 0; o_long := s2l "n"; o_desc := []; o_default := [];
     o_envkey := []; o_envdelim := []; o_optional := false; o_optval := []; o_required := false;
     o_valname := []; o_mask := []; o_choices := [s2l "007"; s2l "8"]; o_hidden := false;
     o_ininame := []; o_noini := false; o_unquote := false; o_base := [];
     o_ty := TScalar (KInt I0); o_is_help := false |}.

(* M map[string]string `long:"m"` *)
Definition c12_optM : opt :=
  {| o_fid := 0; o_field := s2l "M"; o_short := 0; o_long := s2l "m"; o_desc := []; o_default := [];
     o_envkey := []; o_envdelim := []; o_optional := false; o_optval := []; o_required := false;
     o_valname := []; o_mask := []; o_choices := []; o_hidden := false;
     o_ininame := []; o_noini := false; o_unquote := false; o_base := [];
     o_ty := TMap KString KString; o_is_help := false |}.

(* flags.NewParser(&opts, ...): the parser's own (unnamed) group holds the group
   "Application Options" made from the struct *)
Definition c12_root_of (o : opt) : command :=
  mkc (s2l "app") (mkg [] [] [mkg (s2l "Application Options") [o] []]) [].
Definition c12_rootN : command := c12_root_of c12_optN.
Definition c12_rootM : command := c12_root_of c12_optM.

(* the option together with its context in the tree *)
Definition c12_oc_of (o : opt) : octx :=
  {| oc_opt := o; oc_ns := [[]; []]; oc_envns := [[]; []]; oc_ghidden := false;
     oc_gshort := s2l "Application Options"; oc_builtin := false |}.
Definition c12_ocN : octx := c12_oc_of c12_optN.
Definition c12_ocM : octx := c12_oc_of c12_optM.

(* fresh parser: every field holds the zero value of its type, no bookkeeping *)
Definition c12_fresh (o : opt) : rt :=
  {| rt_vals := fun _ => zero_value (o_ty o); rt_fl := fun _ => oflags0; rt_active := []; rt_logs := logs0 |}.
Definition c12_r0N : rt := c12_fresh c12_optN.
Definition c12_r0M : rt := c12_fresh c12_optM.

(* the state Option.Set leaves behind: value stored, isSet and preventDefault raised *)
Definition c12_after_set (o : opt) (v : value) : rt :=
  set_val (set_fl (c12_fresh o) 0 (set_flags oflags0)) 0 v.
Definition c12_rN7 : rt := c12_after_set c12_optN (VInt 7).
Definition c12_keyM : str := [97; 10; 98].                    (* "a\nb" *)
Definition c12_rM : rt := c12_after_set c12_optM (VMap false [(VStr c12_keyM, VStr (s2l "1"))]).

Definition c12_textN7 : str := lines_text ["[Application Options]"; "N = 7"; ""]%string.
Definition c12_textN0 : str := lines_text ["[Application Options]"; "N = 0"; ""]%string.
(* "[Application Options]\nM = a\nb:1\n\n" *)
Definition c12_textM : str := lines_text ["[Application Options]"; "M = a"; "b:1"; ""]%string.

Definition c12_fileN (v : String.string) : ini_file :=
  [([], []); (s2l "Application Options", [ent "N" v false 2])].

Definition c12_errN7 : err :=
  EIni 2 (s2l "Invalid value `7' for option `--n'. Allowed values are: 007 or 8").
Definition c12_errN0 : err :=
  EIni 2 (s2l "Invalid value `0' for option `--n'. Allowed values are: 007 or 8").

(* the contexts above are the ones the tree walk produces *)
Example c12_tree_octxs_N : tree_octxs c12_rootN = [c12_ocN].
Proof. vm_compute. reflexivity. Qed.
Example c12_tree_octxs_M : tree_octxs c12_rootM = [c12_ocM].
Proof. vm_compute. reflexivity. Qed.

(* the texts, byte for byte *)
Example c12_textN7_bytes : c12_textN7 = s2l "[Application Options]" ++ [10] ++ s2l "N = 7" ++ [10; 10].
Proof. vm_compute. reflexivity. Qed.
Example c12_textM_bytes :
  c12_textM = s2l "[Application Options]" ++ [10] ++ s2l "M = " ++ c12_keyM ++ s2l ":1" ++ [10; 10].
Proof. vm_compute. reflexivity. Qed.

(* ====================================================================== *)
(* Target 1: the canonical text of a value need not be one of the choices  *)
(* ====================================================================== *)

Theorem C12_roundtrip_refuted_by_choice_text :
  exists (root : command) (r : rt) (orc : oracles) (text : str) (file : ini_file) (e : err),
    (* the declarations: one int option N, long name "n", choices 007 | 8, in the group
       "Application Options" of the root command; no oracle entries *)
    root = c12_rootN /\ orc = ex_orc /\ tree_octxs root = [c12_ocN] /\
    o_choices (oc_opt c12_ocN) = [s2l "007"; s2l "8"] /\ o_ty (oc_opt c12_ocN) = TScalar (KInt I0) /\
    o_long (oc_opt c12_ocN) = s2l "n" /\ o_field (oc_opt c12_ocN) = s2l "N" /\
    (* r is REACHABLE: it is what `--n=007` (Option.Set with "007") leaves in a fresh parser,
       without error; N then holds 7, every other field is untouched *)
    (forall delim ht, opt_set orc delim ht c12_ocN (Some (s2l "007")) c12_r0N = Ok (r, None)) /\
    rt_vals r 0%nat = VInt 7 /\
    (forall fid, fid <> 0%nat -> rt_vals r fid = rt_vals c12_r0N fid /\ rt_fl r fid = oflags0) /\
    (* the writer succeeds, with the same text for EVERY combination of write options *)
    (forall incd comd incc, write_ini orc incd comd incc root r = Ok text) /\
    text = lines_text ["[Application Options]"; "N = 7"; ""]%string /\
    (* the reader accepts the text ... *)
    read_ini text = Ok file /\
    file = [([], []); (s2l "Application Options", [ent "N" "7" false 2])] /\
    (* ... but applying it to a fresh parser over the same declarations is an error: the
       writer's own output is rejected, and N does not get its value back *)
    e = EIni 2 (s2l "Invalid value `7' for option `--n'. Allowed values are: 007 or 8") /\
    (forall delim ht ignore_unknown,
       exists r', ini_apply orc delim ht ignore_unknown false root file c12_r0N = Ok (r', Some e) /\
                  rt_vals r' 0%nat = VInt 0 /\ rt_vals r' 0%nat <> rt_vals r 0%nat).
Proof.
  exists c12_rootN, c12_rN7, ex_orc, c12_textN7, (c12_fileN "7"), c12_errN7.
  split; [reflexivity|]. split; [reflexivity|]. split; [exact c12_tree_octxs_N|].
  split; [reflexivity|]. split; [reflexivity|]. split; [reflexivity|]. split; [reflexivity|].
  split; [intros; vm_compute; reflexivity|].
  split; [reflexivity|].
  split.
  { intros [|fid] H; [congruence|]. split; reflexivity. }
  split; [intros [|] [|] [|]; vm_compute; reflexivity|].
  split; [reflexivity|].
  split; [vm_compute; reflexivity|].
  split; [reflexivity|].
  split; [reflexivity|].
  intros delim ht [|]; eexists; (split; [vm_compute; reflexivity|]);
    (split; [reflexivity|]); vm_compute; discriminate.
Qed.

(* ====================================================================== *)
(* Target 2: IniIncludeDefaults writes a zero value that is not a choice   *)
(* ====================================================================== *)

Theorem C12_roundtrip_refuted_by_include_defaults :
  exists (root : command) (r : rt) (orc : oracles) (text : str) (file : ini_file) (e : err),
    root = c12_rootN /\ orc = ex_orc /\ tree_octxs root = [c12_ocN] /\
    o_choices (oc_opt c12_ocN) = [s2l "007"; s2l "8"] /\ o_ty (oc_opt c12_ocN) = TScalar (KInt I0) /\
    (* the option was never given: r is the fresh parser itself, N holds the zero value,
       which is not one of the choices *)
    r = c12_r0N /\ rt_vals r 0%nat = VInt 0 /\ rt_fl r 0%nat = oflags0 /\
    (* IniIncludeDefaults without IniCommentDefaults, with or without IniIncludeComments *)
    (forall incc, write_ini orc true false incc root r = Ok text) /\
    text = lines_text ["[Application Options]"; "N = 0"; ""]%string /\
    read_ini text = Ok file /\
    file = [([], []); (s2l "Application Options", [ent "N" "0" false 2])] /\
    e = EIni 2 (s2l "Invalid value `0' for option `--n'. Allowed values are: 007 or 8") /\
    (forall delim ht ignore_unknown,
       exists r', ini_apply orc delim ht ignore_unknown false root file c12_r0N = Ok (r', Some e)) /\
    (* what must NOT happen: without IniIncludeDefaults, or with the defaults commented
       out, nothing the reader could reject is written *)
    (forall comd incc, write_ini orc false comd incc root r = Ok []) /\
    (forall incc, write_ini orc true true incc root r
                  = Ok (lines_text ["[Application Options]"; "; N = 0"; ""]%string)).
Proof.
  exists c12_rootN, c12_r0N, ex_orc, c12_textN0, (c12_fileN "0"), c12_errN0.
  split; [reflexivity|]. split; [reflexivity|]. split; [exact c12_tree_octxs_N|].
  split; [reflexivity|]. split; [reflexivity|].
  split; [reflexivity|]. split; [reflexivity|]. split; [reflexivity|].
  split; [intros [|]; vm_compute; reflexivity|].
  split; [reflexivity|].
  split; [vm_compute; reflexivity|].
  split; [reflexivity|].
  split; [reflexivity|].
  split; [intros delim ht [|]; eexists; vm_compute; reflexivity|].
  split; [intros [|] [|]; vm_compute; reflexivity|].
  intros [|]; vm_compute; reflexivity.
Qed.

(* ====================================================================== *)
(* Target 3: a line break in a map key                                      *)
(* ====================================================================== *)

Theorem C12_roundtrip_refuted_by_map_key_line_break :
  exists (root : command) (r : rt) (orc : oracles) (text : str) (e : err),
    (* the declarations: one map[string]string option M, long name "m", no choices *)
    root = c12_rootM /\ orc = ex_orc /\ tree_octxs root = [c12_ocM] /\
    o_ty (oc_opt c12_ocM) = TMap KString KString /\ o_choices (oc_opt c12_ocM) = [] /\
    o_long (oc_opt c12_ocM) = s2l "m" /\ o_field (oc_opt c12_ocM) = s2l "M" /\
    (* r is REACHABLE: `--m "a\nb:1"` (Option.Set with that text) on a fresh parser, no error;
       M then holds the single entry "a\nb" -> "1" *)
    (forall delim ht, opt_set orc delim ht c12_ocM (Some ([97; 10; 98] ++ s2l ":1")) c12_r0M = Ok (r, None)) /\
    rt_vals r 0%nat = VMap false [(VStr [97; 10; 98], VStr (s2l "1"))] /\
    (forall fid, fid <> 0%nat -> rt_vals r fid = rt_vals c12_r0M fid /\ rt_fl r fid = oflags0) /\
    (* the writer succeeds, with the same text for EVERY combination of write options: the
       key is written verbatim, so the entry spans two physical lines *)
    (forall incd comd incc, write_ini orc incd comd incc root r = Ok text) /\
    text = s2l "[Application Options]" ++ [10] ++ s2l "M = a" ++ [10] ++ s2l "b:1" ++ [10; 10] /\
    (* the reader rejects the writer's own output at line 3 *)
    e = EIni 3 (s2l "malformed key=value (b:1)") /\
    read_ini text = Err e.
Proof.
  exists c12_rootM, c12_rM, ex_orc, c12_textM, (EIni 3 (s2l "malformed key=value (b:1)")).
  split; [reflexivity|]. split; [reflexivity|]. split; [exact c12_tree_octxs_M|].
  split; [reflexivity|]. split; [reflexivity|]. split; [reflexivity|]. split; [reflexivity|].
  split; [intros; vm_compute; reflexivity|].
  split; [reflexivity|].
  split.
  { intros [|fid] H; [congruence|]. split; reflexivity. }
  split; [intros [|] [|] [|]; vm_compute; reflexivity|].
  split; [vm_compute; reflexivity|].
  split; [reflexivity|].
  vm_compute; reflexivity.
Qed.

(* ====================================================================== *)
(* Target 4: ErrInvalidChoice iff the text is not one of the choices       *)
(* ====================================================================== *)

Section ChoiceIff.
  Variable orc : oracles.
  Variable delim : str.
  Variable ht : rt -> str.

  (* Option.call never reports ErrInvalidChoice *)
  Lemma opt_call_not_invalid_choice : forall oc arg r r' msg,
    opt_call orc ht oc arg r <> Ok (r', Some (EFlags ErrInvalidChoice msg)).
  Proof.
    intros oc arg r r' msg. unfold opt_call. cbv zeta.
    assert (F : forall (x : rt) (t : vtype),
      (if o_is_help (oc_opt oc) then Ok (x, Some (EFlags ErrHelp (ht x)))
       else match rt_vals x (o_fid (oc_opt oc)), t with
            | VFunc true _, _ => Panic (s2l "reflect: call of nil function")
            | VFunc false fails, TFunc _ true =>
              Ok (x, if fails then Some (foreign (s2l "callback failed")) else None)
            | _, _ => Ok (x, None)
            end) <> Ok (r', Some (EFlags ErrInvalidChoice msg))).
    { intros x t. destruct (o_is_help (oc_opt oc)); [intros H; discriminate H|].
      destruct (rt_vals x (o_fid (oc_opt oc))) as [| | | | | | |[|] [|]];
        destruct t as [| | | |a [|]]; intros H; discriminate H. }
    destruct arg as [v|]; destruct (o_ty (oc_opt oc)) as [k|k|e|kk kv|[k|] b] eqn:Ety;
      try (intros H; discriminate H); try (apply (F _ (TFunc None b))).
    destruct (convert orc (o_base (oc_opt oc)) v (TScalar k) (zero_kind k)) as [[x [e|]]|e|w];
      cbn [bind]; try (intros H; discriminate H).
    apply (F _ (TFunc (Some k) b)).
  Qed.

  (* once the choice check has passed, Option.Set never reports ErrInvalidChoice *)
  Lemma opt_set_in_choices_not_invalid_choice : forall oc v r r' msg,
    In v (o_choices (oc_opt oc)) ->
    opt_set orc delim ht oc (Some v) r <> Ok (r', Some (EFlags ErrInvalidChoice msg)).
  Proof.
    intros oc v r r' msg Hin. apply existsb_str_eqb_in in Hin.
    unfold opt_set. cbv zeta.
    destruct (o_choices (oc_opt oc)) as [|c cs] eqn:E; [discriminate Hin|].
    rewrite Hin. cbn [bind].
    destruct (is_func (o_ty (oc_opt oc))); [apply opt_call_not_invalid_choice|].
    match goal with |- bind ?c _ <> _ => destruct c as [[x [e|]]|e|w] end;
      cbn [bind option_map]; intros H; discriminate H.
  Qed.

  Theorem C12_choice_text_accepted_iff_choice : forall (oc : octx) (v : str) (r : rt),
    let o := oc_opt oc in
    let fid := o_fid o in
    o_choices o <> [] ->
    (* (a) a text that is not one of the choices: exactly this outcome - the invalid-choice
           error with its message; the option is marked as set, a slice/map whose
           clear-before-set flag is armed has been emptied, nothing else changes *)
    (~ In v (o_choices o) ->
       opt_set orc delim ht oc (Some v) r =
         Ok (set_fl (if (is_map (o_ty o) || is_slice (o_ty o)) && f_clearref (rt_fl r fid)
                     then opt_empty o r else r) fid (set_flags (rt_fl r fid)),
             Some (EFlags ErrInvalidChoice
                     (s2l "Invalid value `" ++ v ++ s2l "' for option `" ++ octx_string delim oc ++
                      s2l "'. Allowed values are: " ++ allowed_text (o_choices o))))) /\
    (* (b) one of the choices: the restriction is invisible (same outcome as for the option
           declared without choices), and that outcome is never an invalid-choice error *)
    (In v (o_choices o) ->
       opt_set orc delim ht oc (Some v) r = opt_set orc delim ht (octx_no_choices oc) (Some v) r /\
       forall r' msg, opt_set orc delim ht oc (Some v) r <> Ok (r', Some (EFlags ErrInvalidChoice msg))) /\
    (* (c) hence: an invalid-choice error is returned iff the text is not one of the choices *)
    ((exists r' msg, opt_set orc delim ht oc (Some v) r = Ok (r', Some (EFlags ErrInvalidChoice msg)))
     <-> ~ In v (o_choices o)).
  Proof.
    intros oc v r o fid Hne. subst o fid.
    pose proof (opt_set_choices orc delim ht oc v r) as K. cbv zeta in K. destruct K as [Kout Kin].
    split; [|split].
    - intros Hni. destruct (Kout Hne Hni) as [K _]. exact K.
    - intros Hin. split; [exact (Kin Hin)|].
      intros r' msg. apply opt_set_in_choices_not_invalid_choice. exact Hin.
    - split.
      + intros (r' & msg & H) Hin.
        exact (opt_set_in_choices_not_invalid_choice oc v r r' msg Hin H).
      + intros Hni. destruct (Kout Hne Hni) as [K _]. rewrite K. eauto.
  Qed.
End ChoiceIff.

(* the side condition is needed: without choices nothing is ever rejected, although no text
   is "one of the choices" *)
Example C12_choice_iff_needs_choices :
  o_choices (oc_opt c12_ocM) = [] /\ ~ In (s2l "k:v") (o_choices (oc_opt c12_ocM)) /\
  exists r', opt_set ex_orc [] (fun _ => []) c12_ocM (Some (s2l "k:v")) c12_r0M = Ok (r', None).
Proof. split; [reflexivity|]. split; [intros []|]. eexists. vm_compute. reflexivity. Qed.

(* the hypotheses are satisfiable: the option of targets 1 and 2 *)
Example C12_choice_iff_hyps :
  o_choices (oc_opt c12_ocN) <> [] /\ ~ In (s2l "7") (o_choices (oc_opt c12_ocN)) /\
  In (s2l "007") (o_choices (oc_opt c12_ocN)).
Proof.
  split; [discriminate|]. split.
  - apply existsb_str_eqb_notin. reflexivity.
  - apply existsb_str_eqb_in. reflexivity.
Qed.
Example C12_choice_iff_run :
  (exists r', opt_set ex_orc [] (fun _ => []) c12_ocN (Some (s2l "7")) c12_r0N
     = Ok (r', Some (EFlags ErrInvalidChoice
                       (s2l "Invalid value `7' for option `--n'. Allowed values are: 007 or 8")))) /\
  (exists r', opt_set ex_orc [] (fun _ => []) c12_ocN (Some (s2l "007")) c12_r0N = Ok (r', None) /\
              rt_vals r' 0%nat = VInt 7).
Proof. split; eexists; [|split]; vm_compute; reflexivity. Qed.

Print Assumptions C12_roundtrip_refuted_by_choice_text.
Print Assumptions C12_roundtrip_refuted_by_include_defaults.
Print Assumptions C12_roundtrip_refuted_by_map_key_line_break.
Print Assumptions C12_choice_text_accepted_iff_choice.
