(* C05 ("defaults and value-source precedence"), end to end:
   command line > INI (plain) / INI as-defaults > environment variable > default tags >
   initial field contents.

   Built on Proofs/ValueSpec (single-call specifications of Option.Set, setDefault,
   clearDefault, the frame relation [frame_at]).  This file adds
     1. monotonicity of the preventDefault mark through Set / setDefault / clearDefault,
        one loop iteration, the whole loop and the defaults pass;
     2. prevented options are untouched by the defaults pass;
     3. LOCALITY of Option.clearDefault and the resulting pointwise description of the
        defaults pass (clear_defaults) in terms of the state it started from;
     4. the rank of INI values read in as-defaults mode;
     5. the end-to-end statement for parse_core. *)
From GoFlags Require Import Base.Str Base.Utf8 Golib.Strings Golib.Strconv
     Model.Types Model.Tag Model.Scan Model.Lookup Model.Convert Model.State Model.Closest Model.Parse
     Model.Ini.
From GoFlags Require Import Proofs.FrameBase Proofs.LookupSpec Proofs.ValueSpec.
From Coq Require Import Lia.
Open Scope N_scope.

(* ================================================================== 0. small facts *)

Definition fid_of (oc : octx) : nat := o_fid (oc_opt oc).

(* the preventDefault mark never goes from true to false *)
Definition prevent_mono (r r' : rt) : Prop :=
  forall fid, f_prevent (rt_fl r fid) = true -> f_prevent (rt_fl r' fid) = true.

Lemma pm_refl r : prevent_mono r r.
Proof. intros fid H; exact H. Qed.
Lemma pm_trans a b c : prevent_mono a b -> prevent_mono b c -> prevent_mono a c.
Proof. intros H1 H2 fid H. apply H2, H1, H. Qed.
Lemma pm_same_fl r r' : rt_fl r' = rt_fl r -> prevent_mono r r'.
Proof. intros E fid H. rewrite E. exact H. Qed.

(* [r] and [r'] hold the same value and the same bookkeeping for field [fid] *)
Definition agree_at (fid : nat) (r r' : rt) : Prop :=
  rt_vals r fid = rt_vals r' fid /\ rt_fl r fid = rt_fl r' fid.

Lemma agree_refl fid r : agree_at fid r r.
Proof. split; reflexivity. Qed.
Lemma agree_sym fid a b : agree_at fid a b -> agree_at fid b a.
Proof. intros [A B]; split; congruence. Qed.
Lemma agree_trans fid a b c : agree_at fid a b -> agree_at fid b c -> agree_at fid a c.
Proof. intros [A B] [C D]; split; congruence. Qed.

Lemma frame_agree fid k r r' : frame_at fid r r' -> k <> fid -> agree_at k r r'.
Proof. intros [A [B _]] H. split; symmetry; [apply A|apply B]; exact H. Qed.

(* ================================================================== 1. generic walk over one loop iteration *)
(* Any reflexive-transitive relation on runtime states that is preserved by writing a
   value, by recording an active command, by logging and by Option.Set is preserved by
   step and run_loop. *)
Section Walk.
  Variable cfg : pconfig.
  Variable orc : oracles.
  Variable root : command.
  Variable ht : rt -> str.
  Variable R : rt -> rt -> Prop.
  Hypothesis R_refl : forall r, R r r.
  Hypothesis R_trans : forall a b c, R a b -> R b c -> R a c.
  Hypothesis R_set_val : forall r k v, R r (set_val r k v).
  Hypothesis R_set_active : forall r p c, R r (set_active r p c).
  Hypothesis R_log_unknown : forall r n a l, R r (log_unknown r n a l).
  Hypothesis R_opt_set : forall oc arg r,
    wpT (opt_set orc (pc_nsdelim cfg) ht oc arg r) (fun re => R r (fst re)).

  Let post (r : rt) (x : pst * rt * option err) : Prop := R r (snd (fst x)).

  Lemma R_opt_empty o r : R r (opt_empty o r).
  Proof. unfold opt_empty. destruct (is_func (o_ty o)); [apply R_refl|apply R_set_val]. Qed.

  Lemma add_args_R args : forall s r, wpT (add_args orc args s r) (post r).
  Proof.
    induction args as [|a rest IH]; intros s r; cbn [add_args].
    - apply R_refl.
    - destruct (ps_pos s) as [|p ps'].
      + apply R_refl.
      + apply wpT_bind. eapply wpT_conseq; [apply wpT_any|]. intros [v [m|]] _.
        * apply R_set_val.
        * eapply wpT_conseq; [apply IH|]. intros x A. unfold post in *.
          eapply R_trans; [apply R_set_val|exact A].
  Qed.

  Lemma parse_option_R oc canarg argument s r :
    wpT (parse_option cfg orc ht oc canarg argument s r) (post r).
  Proof.
    unfold parse_option. cbv zeta.
    assert (FIN : forall s0 a r0, R r r0 ->
      wpT (bind (opt_set orc (pc_nsdelim cfg) ht oc a r0)
                (fun rr => Ok (s0, fst rr, option_map (wrap_marshal cfg oc) (snd rr))))
          (post r)).
    { intros s0 a r0 H0. wpT_bind_with R_opt_set. intros [r' e] H. unfold post; cbn [fst snd] in *.
      eapply R_trans; eauto. }
    assert (WA : forall s0 a,
      wpT
        (match (if o_unquote (oc_opt oc) then match a with 34 :: _ => unquote a | _ => Some a end else Some a) with
         | None => Ok (s0, r, Some (marshal_error cfg oc err_syntax))
         | Some a' => bind (opt_set orc (pc_nsdelim cfg) ht oc (Some a') r)
                           (fun rr => Ok (s0, fst rr, option_map (wrap_marshal cfg oc) (snd rr)))
         end) (post r)).
    { intros s0 a.
      destruct (if o_unquote (oc_opt oc) then _ else _).
      - apply FIN. apply R_refl.
      - apply R_refl. }
    destruct (negb (can_argument (oc_opt oc))).
    - destruct argument.
      + apply R_refl.
      + apply FIN. apply R_refl.
    - destruct argument as [a|].
      + apply WA.
      + destruct (if canarg then ps_args s else []) as [|a rest] eqn:E.
        * destruct (o_optional (oc_opt oc)).
          -- generalize (opt_empty (oc_opt oc) r) (R_opt_empty (oc_opt oc) r).
             induction (o_optval (oc_opt oc)) as [|v vs IH]; intros r0 H0.
             ++ exact H0.
             ++ wpT_bind_with R_opt_set. intros [r' [e|]] H; cbn [fst snd] in *.
                ** unfold post; cbn [fst snd]. eapply R_trans; eauto.
                ** apply IH. eapply R_trans; eauto.
          -- apply R_refl.
        * destruct (negb (is_valid_value _ _)).
          -- destruct (has_percent _); [exact I|]. apply R_refl.
          -- destruct (_ && _).
             ++ apply R_refl.
             ++ apply WA.
  Qed.

  Lemma parse_long_R name argument s r :
    wpT (parse_long cfg orc ht name argument s r) (post r).
  Proof.
    unfold parse_long. destruct (find_last _ _) as [oc|].
    - apply parse_option_R.
    - apply R_refl.
  Qed.

  Lemma short_loop_R total rs : forall argument s r,
    wpT (short_loop cfg orc ht total rs argument s r) (post r).
  Proof.
    induction rs as [|[[i c] n] rs IH]; intros argument s r; cbn [short_loop].
    - apply R_refl.
    - destruct (find_last _ _) as [oc|].
      + wpT_bind_with parse_option_R.
        intros [[s' r'] [e|]] A; unfold post in *; cbn [fst snd] in *.
        * exact A.
        * eapply wpT_conseq; [apply IH|]. intros x C. eapply R_trans; eauto.
      + apply R_refl.
  Qed.

  Lemma parse_short_R optname argument s r :
    wpT (parse_short cfg orc ht optname argument s r) (post r).
  Proof.
    unfold parse_short.
    destruct (match argument with None => _ | Some _ => _ end) as [o a].
    apply short_loop_R.
  Qed.

  Lemma parse_non_option_R s r :
    wpT (parse_non_option cfg orc root s r) (post r).
  Proof.
    unfold parse_non_option.
    destruct (ps_pos s); [|apply add_args_R].
    cbv zeta.
    destruct (_ && _); [|apply add_args_R].
    destruct (find_last _ _).
    - apply R_set_active.
    - destruct (negb _); [|apply add_args_R].
      wpT_bind_with add_args_R. intros [[s' r'] e] H. exact H.
  Qed.

  Definition step_R_post (r : rt) (sr : step_res) : Prop :=
    match sr with Continue _ r' => R r r' | Break _ r' => R r r' end.

  Lemma step_R s r : wpT (step cfg orc root ht s r) (step_R_post r).
  Proof.
    unfold step.
    destruct (ps_args s) as [|a rest] eqn:E; [apply R_refl|].
    cbv zeta.
    set (s0 := ps_with_args s a rest). clearbody s0.
    destruct (_ && str_eqb a _).
    { wpT_bind_with add_args_R. intros [[s' r'] e] A; unfold post in A; cbn [fst snd] in *. exact A. }
    destruct (negb (argument_is_option a)).
    { destruct (_ && _).
      - wpT_bind_with add_args_R. intros [[s1 r1] [e1|]] A; unfold post in A; cbn [fst snd] in *.
        + exact A.
        + wpT_bind_with add_args_R. intros [[s2 r2] e2] C; unfold post in C; cbn [fst snd] in *.
          eapply R_trans; eauto.
      - wpT_bind_with parse_non_option_R. intros [[s' r'] [e|]] A; unfold post in A; cbn [fst snd] in *.
        + exact A.
        + exact A. }
    destruct (split_option a) as [[islong optname] argument].
    apply wpT_bind.
    eapply wpT_conseq with (Q := post r).
    { destruct islong; [apply parse_long_R|apply parse_short_R]. }
    intros [[s' r'] [er|]] A; unfold post in A; cbn [fst snd] in *.
    2:{ exact A. }
    destruct (_ || _).
    { exact A. }
    destruct (po_ignore _).
    { wpT_bind_with add_args_R. intros [[s2 r2] e2] C; unfold post in C; cbn [fst snd] in *.
      eapply R_trans; eauto. }
    assert (KL : R r (log_unknown r' optname argument (ps_args s'))).
    { eapply R_trans; [exact A|]. apply R_log_unknown. }
    destruct (run_handler cfg optname argument (ps_args s')); cbn [wpT wp step_R_post]; exact KL.
  Qed.

  Lemma run_loop_R fuel : forall s r,
    wpT (run_loop cfg orc root ht fuel s r) (fun x => R r (snd x)).
  Proof.
    induction fuel as [|f IH]; intros s r; [exact I|].
    cbn [run_loop].
    destruct (ps_args s) as [|a rest] eqn:E; [apply R_refl|].
    wpT_bind_with step_R. intros [s' r'|s' r'] A; cbn [step_R_post] in A.
    - eapply wpT_conseq; [apply IH|]. intros x C. eapply R_trans; eauto.
    - exact A.
  Qed.
End Walk.

(* ================================================================== 2. Option.Set marks; monotonicity (target 1) *)
Section Mono.
  Variable orc : oracles.
  Variable delim : str.
  Variable ht : rt -> str.

  Lemma opt_call_fl oc arg r :
    wpT (opt_call orc ht oc arg r) (fun re => rt_fl (fst re) = rt_fl r /\ rt_vals (fst re) = rt_vals r).
  Proof.
    assert (F : forall r0, rt_fl r0 = rt_fl r /\ rt_vals r0 = rt_vals r ->
      wpT
        (if o_is_help (oc_opt oc) then Ok (r0, Some (EFlags ErrHelp (ht r0)))
         else match rt_vals r0 (o_fid (oc_opt oc)), o_ty (oc_opt oc) with
              | VFunc true _, _ => Panic (s2l "reflect: call of nil function")
              | VFunc false fails, TFunc _ true =>
                Ok (r0, if fails then Some (foreign (s2l "callback failed")) else None)
              | _, _ => Ok (r0, None)
              end) (fun re => rt_fl (fst re) = rt_fl r /\ rt_vals (fst re) = rt_vals r)).
    { intros r0 H. destruct (o_is_help (oc_opt oc)); [exact H|].
      destruct (rt_vals r0 (o_fid (oc_opt oc))); try exact H.
      destruct isnil; [exact I|].
      destruct (o_ty (oc_opt oc)); try exact H. destruct ret_err; exact H. }
    unfold opt_call. cbv zeta.
    destruct arg as [v|]; destruct (o_ty (oc_opt oc)) as [k|k|e|k1 k2|[k|] b] eqn:E;
      try exact I.
    - apply wpT_bind. eapply wpT_conseq; [apply wpT_any|].
      intros [x [e|]] _; [split; reflexivity|].
      apply F. split; reflexivity.
    - apply F. destruct (o_is_help _); split; reflexivity.
    - apply F. destruct (o_is_help _); split; reflexivity.
  Qed.

  (* in EVERY Ok outcome of Option.Set - success, conversion error, invalid choice,
     callback error, help - the bookkeeping of the option is [set_flags]: isSet and
     preventDefault are set, clearReferenceBeforeSet is cleared, the rest is kept *)
  Lemma opt_set_marks_wp oc arg r :
    wpT (opt_set orc delim ht oc arg r)
        (fun re => rt_fl (fst re) (fid_of oc) = set_flags (rt_fl r (fid_of oc))).
  Proof.
    unfold opt_set, fid_of. cbv zeta.
    set (r1 := set_fl _ _ _).
    assert (H1 : rt_fl r1 (o_fid (oc_opt oc)) = set_flags (rt_fl r (o_fid (oc_opt oc)))).
    { unfold r1. cbn [set_fl rt_fl]. apply upd_eq. }
    clearbody r1.
    apply wpT_bind.
    assert (K : wpT (if is_func (o_ty (oc_opt oc)) then opt_call orc ht oc arg r1
         else bind (convert orc (o_base (oc_opt oc)) match arg with Some v => v | None => [] end
                       (o_ty (oc_opt oc)) (rt_vals r1 (o_fid (oc_opt oc))))
                (fun cv => let '(v, e) := cv in Ok (set_val r1 (o_fid (oc_opt oc)) v, option_map foreign e)))
         (fun re => rt_fl (fst re) (o_fid (oc_opt oc)) = set_flags (rt_fl r (o_fid (oc_opt oc))))).
    { destruct (is_func _).
      - eapply wpT_conseq; [apply opt_call_fl|]. intros x [Hx _]. rewrite Hx. exact H1.
      - apply wpT_bind. eapply wpT_conseq; [apply wpT_any|]. intros [v e] _. cbn [wpT wp fst].
        exact H1. }
    destruct (o_choices (oc_opt oc)) as [|c cs]; [exact K|].
    destruct arg as [v|]; [|exact K].
    destruct (existsb _ _); [exact K|]. exact H1.
  Qed.

  Lemma opt_set_marks : forall oc arg r r' e,
    opt_set orc delim ht oc arg r = Ok (r', e) ->
    rt_fl r' (fid_of oc) = set_flags (rt_fl r (fid_of oc)) /\
    f_prevent (rt_fl r' (fid_of oc)) = true /\ f_isset (rt_fl r' (fid_of oc)) = true /\
    f_clearref (rt_fl r' (fid_of oc)) = false /\
    f_isdefault (rt_fl r' (fid_of oc)) = f_isdefault (rt_fl r (fid_of oc)).
  Proof.
    intros oc arg r r' e H.
    pose proof (wpT_ok _ _ _ (opt_set_marks_wp oc arg r) H) as K. cbn [fst] in K.
    rewrite K. repeat split.
  Qed.

  Lemma opt_set_pm oc arg r :
    wpT (opt_set orc delim ht oc arg r) (fun re => prevent_mono r (fst re)).
  Proof.
    destruct (opt_set orc delim ht oc arg r) as [[r' e]|e|w] eqn:E; try exact I.
    cbn [wpT wp fst]. intros fid H.
    destruct (Nat.eq_dec fid (fid_of oc)) as [->|Hn].
    - exact (proj1 (proj2 (opt_set_marks _ _ _ _ _ E))).
    - pose proof (opt_set_frame _ _ _ _ _ _ _ _ E) as [_ [B _]].
      unfold fid_of in Hn. rewrite (B fid Hn). exact H.
  Qed.

  Lemma opt_set_default_pm oc arg r :
    wpT (opt_set_default orc delim ht oc arg r) (fun re => prevent_mono r (fst re)).
  Proof.
    unfold opt_set_default. cbv zeta.
    destruct (f_prevent (rt_fl r (o_fid (oc_opt oc)))) eqn:P; [apply pm_refl|].
    wpT_bind_with opt_set_pm. intros [r' [e|]] H; cbn [wpT wp fst] in *; [exact H|].
    intros fid Hf. cbn [set_fl rt_fl]. unfold upd.
    destruct (Nat.eqb_spec fid (o_fid (oc_opt oc))) as [->|Hn]; [congruence|].
    apply H. exact Hf.
  Qed.

  Lemma set_defaults_pm oc ds : forall r,
    wpT (set_defaults orc delim ht oc ds r) (fun re => prevent_mono r (fst re)).
  Proof.
    induction ds as [|d ds IH]; intros r; cbn [set_defaults]; [apply pm_refl|].
    wpT_bind_with opt_set_default_pm. intros [r' [e|]] H; cbn [wpT wp fst] in *; [exact H|].
    eapply wpT_conseq; [apply IH|]. intros x Hx. eapply pm_trans; eauto.
  Qed.

  Lemma opt_clear_default_pm env edelim oc r :
    wpT (opt_clear_default orc delim ht env edelim oc r) (fun re => prevent_mono r (fst re)).
  Proof.
    unfold opt_clear_default. cbv zeta.
    destruct (f_prevent (rt_fl r (o_fid (oc_opt oc)))) eqn:P; [apply pm_refl|].
    set (r1 := set_fl _ _ _).
    assert (H1 : prevent_mono r r1).
    { unfold r1. intros fid Hf. cbn [set_fl rt_fl]. unfold upd.
      destruct (Nat.eqb_spec fid (o_fid (oc_opt oc))) as [->|Hn]; [congruence|exact Hf]. }
    clearbody r1.
    assert (H2 : prevent_mono r (opt_empty (oc_opt oc) r1)).
    { eapply pm_trans; [exact H1|]. apply pm_same_fl.
      unfold opt_empty. destruct (is_func _); reflexivity. }
    match goal with |- context [match ?u with [] => _ | _ :: _ => _ end] => destruct u as [|d ds] end.
    - destruct (o_ty (oc_opt oc)); try exact H1;
        destruct (rt_vals r1 _); try exact H1; destruct isnil; try exact H1; exact H2.
    - eapply wpT_conseq; [apply set_defaults_pm|]. intros x Hx. eapply pm_trans; eauto.
  Qed.
End Mono.

Section MonoParse.
  Variable cfg : pconfig.
  Variable orc : oracles.
  Variable root : command.
  Variable ht : rt -> str.

  Lemma step_pm s r :
    wpT (step cfg orc root ht s r)
        (fun sr => match sr with Continue _ r' => prevent_mono r r' | Break _ r' => prevent_mono r r' end).
  Proof.
    apply (step_R cfg orc root ht prevent_mono pm_refl pm_trans).
    - intros r0 k v. apply pm_same_fl. reflexivity.
    - intros r0 p c. apply pm_same_fl. reflexivity.
    - intros r0 n a l. apply pm_same_fl. reflexivity.
    - intros oc arg r0. apply opt_set_pm.
  Qed.

  Lemma run_loop_pm fuel s r :
    wpT (run_loop cfg orc root ht fuel s r) (fun x => prevent_mono r (snd x)).
  Proof.
    apply (run_loop_R cfg orc root ht prevent_mono pm_refl pm_trans).
    - intros r0 k v. apply pm_same_fl. reflexivity.
    - intros r0 p c. apply pm_same_fl. reflexivity.
    - intros r0 n a l. apply pm_same_fl. reflexivity.
    - intros oc arg r0. apply opt_set_pm.
  Qed.

  Lemma clear_defaults_pm ocs : forall s r,
    wpT (clear_defaults cfg orc ht ocs s r) (fun x => prevent_mono r (snd x)).
  Proof.
    induction ocs as [|oc ocs IH]; intros s r; cbn [clear_defaults]; [apply pm_refl|].
    wpT_bind_with opt_clear_default_pm. intros [r' e] H; cbn [fst] in H.
    eapply wpT_conseq; [apply IH|]. intros x Hx. eapply pm_trans; eauto.
  Qed.
End MonoParse.

(* ---- target 1 *)
Theorem C05_prevent_monotone : forall cfg orc root ht,
  let delim := pc_nsdelim cfg in
  (* Option.Set: monotone, and the option itself is marked in every Ok outcome
     (with or without an error) *)
  (forall oc arg r r' e, opt_set orc delim ht oc arg r = Ok (r', e) ->
     prevent_mono r r' /\
     f_prevent (rt_fl r' (fid_of oc)) = true /\ f_isset (rt_fl r' (fid_of oc)) = true /\
     rt_fl r' (fid_of oc) = set_flags (rt_fl r (fid_of oc))) /\
  (forall oc arg r r' e, opt_set_default orc delim ht oc arg r = Ok (r', e) -> prevent_mono r r') /\
  (forall oc ds r r' e, set_defaults orc delim ht oc ds r = Ok (r', e) -> prevent_mono r r') /\
  (forall env edelim oc r r' e,
     opt_clear_default orc delim ht env edelim oc r = Ok (r', e) -> prevent_mono r r') /\
  (forall s r s' r', step cfg orc root ht s r = Ok (Continue s' r') -> prevent_mono r r') /\
  (forall s r s' r', step cfg orc root ht s r = Ok (Break s' r') -> prevent_mono r r') /\
  (forall fuel s r s' r', run_loop cfg orc root ht fuel s r = Ok (s', r') -> prevent_mono r r') /\
  (forall ocs s r s' r', clear_defaults cfg orc ht ocs s r = Ok (s', r') -> prevent_mono r r').
Proof.
  intros cfg orc root ht delim. subst delim.
  split; [|split; [|split; [|split; [|split; [|split; [|split]]]]]].
  - intros oc arg r r' e H. split.
    + exact (wpT_ok _ _ _ (opt_set_pm orc _ ht oc arg r) H).
    + destruct (opt_set_marks _ _ _ _ _ _ _ _ H) as [A [B [C _]]]. auto.
  - intros oc arg r r' e H. exact (wpT_ok _ _ _ (opt_set_default_pm orc _ ht oc arg r) H).
  - intros oc ds r r' e H. exact (wpT_ok _ _ _ (set_defaults_pm orc _ ht oc ds r) H).
  - intros env edelim oc r r' e H.
    exact (wpT_ok _ _ _ (opt_clear_default_pm orc _ ht env edelim oc r) H).
  - intros s r s' r' H. exact (wpT_ok _ _ _ (step_pm cfg orc root ht s r) H).
  - intros s r s' r' H. exact (wpT_ok _ _ _ (step_pm cfg orc root ht s r) H).
  - intros fuel s r s' r' H. exact (wpT_ok _ _ _ (run_loop_pm cfg orc root ht fuel s r) H).
  - intros ocs s r s' r' H. exact (wpT_ok _ _ _ (clear_defaults_pm cfg orc ht ocs s r) H).
Qed.

(* ================================================================== 3. the defaults pass: prevented options (target 2) *)
Section DefaultsPass.
  Variable cfg : pconfig.
  Variable orc : oracles.
  Variable ht : rt -> str.

  Lemma clear_defaults_cons_inv oc ocs s r s' r' :
    clear_defaults cfg orc ht (oc :: ocs) s r = Ok (s', r') ->
    exists r1 e,
      opt_clear_default orc (pc_nsdelim cfg) ht (pc_env cfg) (pc_envdelim cfg) oc r = Ok (r1, e) /\
      clear_defaults cfg orc ht ocs
        (match e with Some er => ps_with_err s (Some (wrap_marshal cfg oc er)) | None => s end) r1 = Ok (s', r').
  Proof.
    cbn [clear_defaults].
    destruct (opt_clear_default orc (pc_nsdelim cfg) ht (pc_env cfg) (pc_envdelim cfg) oc r) as [[r1 e]|e|w];
      cbn [bind]; intros H; try discriminate.
    exists r1, e. split; [reflexivity|exact H].
  Qed.

  Lemma opt_clear_default_prevented env edelim oc r :
    f_prevent (rt_fl r (fid_of oc)) = true ->
    opt_clear_default orc (pc_nsdelim cfg) ht env edelim oc r = Ok (r, None).
  Proof. intros H. unfold opt_clear_default, fid_of in *. cbv zeta. rewrite H. reflexivity. Qed.

  (* the defaults pass leaves a field alone when its option is prevented, and also when
     no option of the list owns it *)
  Lemma clear_defaults_untouched ocs : forall s r s' r' fid,
    clear_defaults cfg orc ht ocs s r = Ok (s', r') ->
    f_prevent (rt_fl r fid) = true \/ ~ In fid (map fid_of ocs) ->
    rt_vals r' fid = rt_vals r fid /\ rt_fl r' fid = rt_fl r fid.
  Proof.
    induction ocs as [|oc ocs IH]; intros s r s' r' fid H Hp.
    - cbn [clear_defaults] in H. inversion H; subst. split; reflexivity.
    - apply clear_defaults_cons_inv in H. destruct H as [r1 [e [H1 H2]]].
      destruct (Nat.eq_dec fid (fid_of oc)) as [->|Hn].
      + destruct Hp as [Hp|Hp]; [|exfalso; apply Hp; left; reflexivity].
        rewrite (opt_clear_default_prevented _ _ oc r Hp) in H1. inversion H1; subst.
        eapply IH; [exact H2|left; exact Hp].
      + pose proof (opt_clear_default_frame _ _ _ _ _ _ _ _ _ H1) as F.
        destruct (frame_agree _ fid _ _ F Hn) as [Av Af].
        destruct (IH _ _ _ _ fid H2) as [B1 B2].
        { destruct Hp as [Hp|Hp]; [left; rewrite <- Af; exact Hp|].
          right. intros Hin. apply Hp. right. exact Hin. }
        split; congruence.
  Qed.

  (* only the error slot of the parse state can change, and if it does it holds the
     marshal error of one of the options *)
  Lemma clear_defaults_pst ocs : forall s r s' r',
    clear_defaults cfg orc ht ocs s r = Ok (s', r') ->
    s' = ps_with_err s (ps_err s') /\
    (ps_err s' = ps_err s \/
     exists oc er, In oc ocs /\ ps_err s' = Some (wrap_marshal cfg oc er)).
  Proof.
    induction ocs as [|oc ocs IH]; intros s r s' r' H.
    - cbn [clear_defaults] in H. inversion H; subst. split; [destruct s'; reflexivity|left; reflexivity].
    - apply clear_defaults_cons_inv in H. destruct H as [r1 [e [H1 H2]]].
      destruct (IH _ _ _ _ H2) as [A B]. destruct e as [er|].
      + split; [rewrite A at 1; reflexivity|].
        destruct B as [B|[oc' [er' [Hin B]]]].
        * right. exists oc, er. split; [left; reflexivity|]. rewrite B. reflexivity.
        * right. exists oc', er'. split; [right; exact Hin|exact B].
      + split; [exact A|].
        destruct B as [B|[oc' [er' [Hin B]]]]; [left; exact B|].
        right. exists oc', er'. split; [right; exact Hin|exact B].
  Qed.
End DefaultsPass.

(* ---- target 2 *)
Theorem C05_prevented_untouched_by_defaults : forall cfg orc ht,
  (forall env edelim oc r,
     f_prevent (rt_fl r (o_fid (oc_opt oc))) = true ->
     opt_clear_default orc (pc_nsdelim cfg) ht env edelim oc r = Ok (r, None)) /\
  (forall ocs s r s' r',
     clear_defaults cfg orc ht ocs s r = Ok (s', r') ->
     forall fid, f_prevent (rt_fl r fid) = true ->
       rt_vals r' fid = rt_vals r fid /\ rt_fl r' fid = rt_fl r fid).
Proof.
  intros cfg orc ht. split.
  - intros env edelim oc r H. apply opt_clear_default_prevented. exact H.
  - intros ocs s r s' r' H fid Hp. eapply clear_defaults_untouched; [exact H|left; exact Hp].
Qed.

(* ================================================================== 4. locality of Set / setDefault / clearDefault *)
(* two error results are "the same" when they are equal, or both are the help
   pseudo-error (whose text is the help screen rendered from the WHOLE state) *)
Definition same_err (e1 e2 : option err) : Prop :=
  e1 = e2 \/ exists t1 t2, e1 = Some (EFlags ErrHelp t1) /\ e2 = Some (EFlags ErrHelp t2).

Definition rel_res (fid : nat) (x1 x2 : res (rt * option err)) : Prop :=
  match x1, x2 with
  | Ok (a, e1), Ok (b, e2) => agree_at fid a b /\ same_err e1 e2
  | Err e1, Err e2 => e1 = e2
  | Panic a, Panic b => a = b
  | _, _ => False
  end.

Lemma same_err_refl e : same_err e e.
Proof. left; reflexivity. Qed.
Lemma same_err_none e : same_err e None -> e = None.
Proof. intros [H|[t1 [t2 [_ H]]]]; [exact H|discriminate H]. Qed.
Lemma same_err_none_l e : same_err None e -> e = None.
Proof. intros [H|[t1 [t2 [H _]]]]; [symmetry; exact H|discriminate H]. Qed.
Lemma same_err_some e1 e2 : same_err e1 e2 -> e1 <> None -> e2 <> None.
Proof. intros H Hn E. subst e2. apply Hn. apply same_err_none. exact H. Qed.

Lemma rel_bind fid x1 x2 (f1 f2 : rt * option err -> res (rt * option err)) :
  rel_res fid x1 x2 ->
  (forall a e1 b e2, agree_at fid a b -> same_err e1 e2 -> rel_res fid (f1 (a, e1)) (f2 (b, e2))) ->
  rel_res fid (bind x1 f1) (bind x2 f2).
Proof.
  intros H K. destruct x1 as [[a e1]|e1|w1], x2 as [[b e2]|e2|w2]; cbn [rel_res bind] in *;
    try contradiction; try exact H.
  destruct H as [A B]. apply K; assumption.
Qed.

Lemma agree_set_fl fid a b f : agree_at fid a b -> agree_at fid (set_fl a fid f) (set_fl b fid f).
Proof.
  intros [A B]. split; cbn [set_fl rt_vals rt_fl]; [exact A|]. rewrite !upd_eq. reflexivity.
Qed.
Lemma agree_set_val fid a b v : agree_at fid a b -> agree_at fid (set_val a fid v) (set_val b fid v).
Proof.
  intros [A B]. split; cbn [set_val rt_vals rt_fl]; [|exact B]. rewrite !upd_eq. reflexivity.
Qed.
Lemma agree_log_call fid a b k x : agree_at fid a b -> agree_at fid (log_call a k x) (log_call b k x).
Proof. intros [A B]. split; [exact A|exact B]. Qed.
Lemma agree_opt_empty o a b :
  agree_at (o_fid o) a b -> agree_at (o_fid o) (opt_empty o a) (opt_empty o b).
Proof. intros H. unfold opt_empty. destruct (is_func (o_ty o)); [exact H|apply agree_set_val; exact H]. Qed.

Section Locality.
  Variable orc : oracles.
  Variable delim : str.
  Variable ht : rt -> str.

  Lemma opt_call_rel oc arg r1 r2 :
    agree_at (fid_of oc) r1 r2 ->
    rel_res (fid_of oc) (opt_call orc ht oc arg r1) (opt_call orc ht oc arg r2).
  Proof.
    intros H. unfold fid_of in *.
    assert (F : forall a b, agree_at (o_fid (oc_opt oc)) a b ->
      rel_res (o_fid (oc_opt oc))
        (if o_is_help (oc_opt oc) then Ok (a, Some (EFlags ErrHelp (ht a)))
         else match rt_vals a (o_fid (oc_opt oc)), o_ty (oc_opt oc) with
              | VFunc true _, _ => Panic (s2l "reflect: call of nil function")
              | VFunc false fails, TFunc _ true =>
                Ok (a, if fails then Some (foreign (s2l "callback failed")) else None)
              | _, _ => Ok (a, None)
              end)
        (if o_is_help (oc_opt oc) then Ok (b, Some (EFlags ErrHelp (ht b)))
         else match rt_vals b (o_fid (oc_opt oc)), o_ty (oc_opt oc) with
              | VFunc true _, _ => Panic (s2l "reflect: call of nil function")
              | VFunc false fails, TFunc _ true =>
                Ok (b, if fails then Some (foreign (s2l "callback failed")) else None)
              | _, _ => Ok (b, None)
              end)).
    { intros a b Hab. destruct (o_is_help (oc_opt oc)).
      - split; [exact Hab|]. right. eexists. eexists. split; reflexivity.
      - rewrite <- (proj1 Hab).
        destruct (rt_vals a (o_fid (oc_opt oc))); try (split; [exact Hab|apply same_err_refl]).
        destruct isnil; [reflexivity|].
        destruct (o_ty (oc_opt oc)); try (split; [exact Hab|apply same_err_refl]).
        destruct ret_err; split; try exact Hab; apply same_err_refl. }
    unfold opt_call. cbv zeta.
    destruct arg as [v|]; destruct (o_ty (oc_opt oc)) as [k|k|e|k1 k2|[k|] b] eqn:E;
      try reflexivity.
    - destruct (convert orc (o_base (oc_opt oc)) v (TScalar k) (zero_kind k)) as [[x [e|]]|e|w];
        cbn [bind rel_res]; try reflexivity.
      + split; [exact H|apply same_err_refl].
      + apply F. apply agree_log_call. exact H.
    - apply F. destruct (o_is_help _); [exact H|apply agree_log_call; exact H].
    - apply F. destruct (o_is_help _); [exact H|apply agree_log_call; exact H].
  Qed.

  (* Option.Set reads and writes only the value and the bookkeeping of its own field *)
  Lemma opt_set_rel oc arg r1 r2 :
    agree_at (fid_of oc) r1 r2 ->
    rel_res (fid_of oc) (opt_set orc delim ht oc arg r1) (opt_set orc delim ht oc arg r2).
  Proof.
    intros H. unfold opt_set. cbv zeta. unfold fid_of in *.
    rewrite <- (proj2 H).
    set (fl := rt_fl r1 (o_fid (oc_opt oc))).
    set (a := set_fl (if (_ && _)%bool then opt_empty (oc_opt oc) r1 else r1) _ _).
    set (b := set_fl (if (_ && _)%bool then opt_empty (oc_opt oc) r2 else r2) _ _).
    assert (Hab : agree_at (o_fid (oc_opt oc)) a b).
    { unfold a, b. apply agree_set_fl. destruct (_ && _); [apply agree_opt_empty; exact H|exact H]. }
    clearbody a b.
    assert (K : rel_res (o_fid (oc_opt oc))
      (if is_func (o_ty (oc_opt oc)) then opt_call orc ht oc arg a
       else bind (convert orc (o_base (oc_opt oc)) match arg with Some v => v | None => [] end
                     (o_ty (oc_opt oc)) (rt_vals a (o_fid (oc_opt oc))))
              (fun cv => let '(v, e) := cv in Ok (set_val a (o_fid (oc_opt oc)) v, option_map foreign e)))
      (if is_func (o_ty (oc_opt oc)) then opt_call orc ht oc arg b
       else bind (convert orc (o_base (oc_opt oc)) match arg with Some v => v | None => [] end
                     (o_ty (oc_opt oc)) (rt_vals b (o_fid (oc_opt oc))))
              (fun cv => let '(v, e) := cv in Ok (set_val b (o_fid (oc_opt oc)) v, option_map foreign e)))).
    { destruct (is_func _).
      - apply opt_call_rel. exact Hab.
      - rewrite <- (proj1 Hab).
        destruct (convert _ _ _ _ _) as [[v e]|e|w]; cbn [bind rel_res]; try reflexivity.
        split; [apply agree_set_val; exact Hab|apply same_err_refl]. }
    destruct (o_choices (oc_opt oc)) as [|c cs]; [exact K|].
    destruct arg as [v|]; [|exact K].
    destruct (existsb _ _); [exact K|].
    cbn [bind rel_res]. split; [exact Hab|apply same_err_refl].
  Qed.

  Lemma opt_set_default_rel oc arg r1 r2 :
    agree_at (fid_of oc) r1 r2 ->
    rel_res (fid_of oc) (opt_set_default orc delim ht oc arg r1) (opt_set_default orc delim ht oc arg r2).
  Proof.
    intros H. unfold opt_set_default. cbv zeta. unfold fid_of in *.
    rewrite <- (proj2 H).
    destruct (f_prevent _).
    - split; [exact H|apply same_err_refl].
    - apply rel_bind; [apply (opt_set_rel oc arg r1 r2 H)|].
      intros a e1 b e2 Hab He. destruct e1 as [x1|].
      + destruct e2 as [x2|]; [|apply same_err_none in He; discriminate He].
        split; [exact Hab|exact He].
      + apply same_err_none_l in He. subst e2.
        split; [|apply same_err_refl].
        rewrite <- (proj2 Hab). apply agree_set_fl. exact Hab.
  Qed.

  Lemma set_defaults_rel oc ds : forall r1 r2,
    agree_at (fid_of oc) r1 r2 ->
    rel_res (fid_of oc) (set_defaults orc delim ht oc ds r1) (set_defaults orc delim ht oc ds r2).
  Proof.
    induction ds as [|d ds IH]; intros r1 r2 H; cbn [set_defaults].
    - split; [exact H|apply same_err_refl].
    - apply rel_bind; [apply opt_set_default_rel; exact H|].
      intros a e1 b e2 Hab He. destruct e1 as [x1|].
      + destruct e2 as [x2|]; [|apply same_err_none in He; discriminate He].
        split; [exact Hab|exact He].
      + apply same_err_none_l in He. subst e2. apply IH. exact Hab.
  Qed.

  (* LOCALITY: Option.clearDefault reads and writes only the value and the bookkeeping
     of its own field (frame_at adds: and appends callback-log entries) *)
  Lemma opt_clear_default_rel env edelim oc r1 r2 :
    agree_at (fid_of oc) r1 r2 ->
    rel_res (fid_of oc) (opt_clear_default orc delim ht env edelim oc r1)
                        (opt_clear_default orc delim ht env edelim oc r2).
  Proof.
    intros H. unfold opt_clear_default. cbv zeta. unfold fid_of in *.
    rewrite <- (proj2 H).
    destruct (f_prevent _).
    { split; [exact H|apply same_err_refl]. }
    set (a := set_fl r1 _ _). set (b := set_fl r2 _ _).
    assert (Hab : agree_at (o_fid (oc_opt oc)) a b) by (apply agree_set_fl; exact H).
    clearbody a b.
    match goal with |- context [match ?u with [] => _ | _ :: _ => _ end] => destruct u as [|d ds] end.
    - rewrite <- (proj1 Hab).
      destruct (o_ty (oc_opt oc)); try (split; [exact Hab|apply same_err_refl]);
        destruct (rt_vals a _); try (split; [exact Hab|apply same_err_refl]);
        destruct isnil; try (split; [exact Hab|apply same_err_refl]);
        (split; [apply agree_opt_empty; exact Hab|apply same_err_refl]).
    - apply set_defaults_rel. apply agree_opt_empty. exact Hab.
  Qed.

  Lemma rel_res_ok fid x1 x2 b e2 :
    rel_res fid x1 x2 -> x2 = Ok (b, e2) ->
    exists a e1, x1 = Ok (a, e1) /\ agree_at fid a b /\ same_err e1 e2.
  Proof.
    intros H ->. destruct x1 as [[a e1]|e1|w1]; cbn [rel_res] in H; try contradiction.
    exists a, e1. split; [reflexivity|exact H].
  Qed.
End Locality.

(* ================================================================== 5. the defaults pass, pointwise (target 3) *)
Section Pointwise.
  Variable cfg : pconfig.
  Variable orc : oracles.
  Variable ht : rt -> str.

  (* every option of a duplicate-free list ends exactly as if Option.clearDefault had been
     applied to it alone in the state the pass started from *)
  Theorem clear_defaults_pointwise : forall ocs s r s' r',
    clear_defaults cfg orc ht ocs s r = Ok (s', r') ->
    NoDup (map fid_of ocs) ->
    forall oc, In oc ocs ->
    exists rm e,
      opt_clear_default orc (pc_nsdelim cfg) ht (pc_env cfg) (pc_envdelim cfg) oc r = Ok (rm, e) /\
      agree_at (fid_of oc) r' rm /\
      (e <> None -> exists oc' er', In oc' ocs /\ ps_err s' = Some (wrap_marshal cfg oc' er')).
  Proof.
    induction ocs as [|oc0 ocs IH]; intros s r s' r' H ND oc Hin; [destruct Hin|].
    apply clear_defaults_cons_inv in H. destruct H as [r1 [e0 [H1 H2]]].
    cbn [map] in ND. inversion ND as [|x l Hnotin ND']; subst.
    destruct Hin as [<-|Hin].
    - exists r1, e0. split; [exact H1|]. split.
      + destruct (clear_defaults_untouched _ _ _ _ _ _ _ _ (fid_of oc0) H2 (or_intror Hnotin)) as [A B].
        split; assumption.
      + intros Hne. destruct e0 as [er|]; [|congruence].
        destruct (clear_defaults_pst _ _ _ _ _ _ _ _ H2) as [_ [B|[oc' [er' [Hin' B]]]]].
        * exists oc0, er. split; [left; reflexivity|]. rewrite B. reflexivity.
        * exists oc', er'. split; [right; exact Hin'|exact B].
    - assert (Hn : fid_of oc <> fid_of oc0).
      { intros E. apply Hnotin. rewrite <- E. apply in_map. exact Hin. }
      destruct (IH _ _ _ _ H2 ND' oc Hin) as [rm1 [e1 [K1 [K2 K3]]]].
      pose proof (opt_clear_default_frame _ _ _ _ _ _ _ _ _ H1) as F.
      pose proof (frame_agree _ (fid_of oc) _ _ F Hn) as Ag.
      pose proof (opt_clear_default_rel orc (pc_nsdelim cfg) ht (pc_env cfg) (pc_envdelim cfg) oc r r1 Ag) as Rl.
      destruct (rel_res_ok _ _ _ _ _ Rl K1) as [rm [e [L1 [L2 L3]]]].
      exists rm, e. split; [exact L1|]. split.
      + eapply agree_trans; [exact K2|apply agree_sym; exact L2].
      + intros Hne. destruct (K3 (same_err_some _ _ L3 Hne)) as [oc' [er' [Hin' B]]].
        exists oc', er'. split; [right; exact Hin'|exact B].
  Qed.
End Pointwise.

(* the value list applied by the defaults pass: the environment wins over default tags *)
Lemma default_source_env_wins : forall env edelim oc v,
  nonempty (env_key edelim oc) = true -> assoc_str env (env_key edelim oc) = Some v ->
  default_source env edelim oc =
  if nonempty (o_envdelim (oc_opt oc)) then split v (o_envdelim (oc_opt oc)) else [v].
Proof. intros env edelim oc v Hk Hv. unfold default_source. rewrite Hk, Hv. reflexivity. Qed.

Lemma default_source_no_env : forall env edelim oc,
  nonempty (env_key edelim oc) = false \/ assoc_str env (env_key edelim oc) = None ->
  default_source env edelim oc = o_default (oc_opt oc).
Proof.
  intros env edelim oc [H|H]; unfold default_source; [rewrite H; reflexivity|].
  rewrite H. destruct (nonempty _); reflexivity.
Qed.

(* ---- target 3 *)
Theorem C05_unprevented_gets_source : forall cfg orc ht ocs s r s' r' oc,
  let delim := pc_nsdelim cfg in
  let o := oc_opt oc in
  let fid := o_fid o in
  let used := default_source (pc_env cfg) (pc_envdelim cfg) oc in
  clear_defaults cfg orc ht ocs s r = Ok (s', r') ->
  NoDup (map (fun oc => o_fid (oc_opt oc)) ocs) ->
  In oc ocs ->
  f_prevent (rt_fl r fid) = false ->
  (* neither environment nor default tags: the stored value stays, except that a nil
     map becomes the empty non-nil map (and a nil slice the canonical nil slice) *)
  (used = [] ->
     rt_vals r' fid = clear_value (o_ty o) (rt_vals r fid) /\
     (nil_wf (rt_vals r fid) -> rt_vals r' fid = unnil_map (o_ty o) (rt_vals r fid)) /\
     rt_fl r' fid = mark_default (rt_fl r fid)) /\
  (* otherwise the stored value is discarded and the texts are applied in order *)
  (used <> [] ->
     exists rm e,
       set_defaults orc delim ht oc used (opt_empty o (set_fl r fid (mark_default (rt_fl r fid)))) = Ok (rm, e) /\
       rt_vals r' fid = rt_vals rm fid /\ rt_fl r' fid = rt_fl rm fid /\
       (* a text that does not convert (or is not among the choices) is reported *)
       (e <> None -> exists oc' er', In oc' ocs /\ ps_err s' = Some (wrap_marshal cfg oc' er'))).
Proof.
  intros cfg orc ht ocs s r s' r' oc delim o fid used H ND Hin Hp. subst delim o fid used.
  destruct (clear_defaults_pointwise cfg orc ht ocs s r s' r' H ND oc Hin) as [rm [e [K1 [[K2 K2'] K3]]]].
  unfold fid_of in *.
  destruct (opt_clear_default_spec orc (pc_nsdelim cfg) ht (pc_env cfg) (pc_envdelim cfg) oc r) as [_ [S1 S2]].
  split.
  - intros Hu. destruct (S1 Hp Hu) as [r0 [E0 [V0 [W0 [F0 _]]]]].
    rewrite E0 in K1. inversion K1; subst rm e.
    rewrite K2, K2'. split; [exact V0|]. split; [exact W0|exact F0].
  - intros Hu. rewrite (S2 Hp Hu) in K1.
    exists rm, e. split; [exact K1|]. split; [exact K2|]. split; [exact K2'|exact K3].
Qed.

(* the result of applying a non-empty source does not depend on the value the field held
   before (for every option that is not a callback): lower-ranked contents are REPLACED *)
Theorem C05_defaults_replace_initial : forall orc delim ht oc used ra rb,
  let o := oc_opt oc in
  let fid := o_fid o in
  is_func (o_ty o) = false ->
  rt_fl ra fid = rt_fl rb fid ->
  rel_res fid (set_defaults orc delim ht oc used (opt_empty o (set_fl ra fid (mark_default (rt_fl ra fid)))))
              (set_defaults orc delim ht oc used (opt_empty o (set_fl rb fid (mark_default (rt_fl rb fid))))).
Proof.
  intros orc delim ht oc used ra rb o fid Hf Hfl. subst o fid.
  apply (set_defaults_rel orc delim ht oc used).
  unfold fid_of, opt_empty. rewrite Hf, Hfl.
  split; cbn [set_val set_fl rt_vals rt_fl]; rewrite !upd_eq; reflexivity.
Qed.

(* ================================================================== 6. an explicit occurrence replaces (never extends) *)
(* the ParseArgs prologue and IniParser.parse arm clearReferenceBeforeSet on every option;
   only slices and maps look at it *)
Definition armed (oc : octx) (r : rt) : Prop :=
  is_map (o_ty (oc_opt oc)) || is_slice (o_ty (oc_opt oc)) = true -> f_clearref (rt_fl r (fid_of oc)) = true.

(* what the prologue does to one option (apart from recomputing the default literal) *)
Definition rearm (fid : nat) (r : rt) : rt :=
  let fl := rt_fl r fid in set_fl r fid (fl_with fl (f_isset fl) (f_isdefault fl) (f_prevent fl) true).

Lemma rearm_armed oc r : armed oc (rearm (fid_of oc) r).
Proof. intros _. unfold rearm. cbn [set_fl rt_fl]. rewrite upd_eq. reflexivity. Qed.
Lemma rearm_vals fid r : rt_vals (rearm fid r) = rt_vals r.
Proof. reflexivity. Qed.
Lemma rearm_prevent fid r k : f_prevent (rt_fl (rearm fid r) k) = f_prevent (rt_fl r k).
Proof.
  unfold rearm. cbn [set_fl rt_fl]. unfold upd. destruct (Nat.eqb_spec k fid) as [->|]; reflexivity.
Qed.

Definition choice_err (delim : str) (oc : octx) (arg : option str) : option err :=
  match o_choices (oc_opt oc) with
  | [] => None
  | cs => match arg with
          | None => None
          | Some v => if existsb (str_eqb v) cs then None
                      else Some (EFlags ErrInvalidChoice (invalid_choice_msg delim oc v))
          end
  end.

Section Explicit.
  Variable orc : oracles.
  Variable delim : str.
  Variable ht : rt -> str.

  (* Option.Set on an option that is not a callback, in closed form *)
  Lemma opt_set_nonfunc_eq : forall oc arg r,
    is_func (o_ty (oc_opt oc)) = false ->
    opt_set orc delim ht oc arg r =
    let o := oc_opt oc in
    let fid := o_fid o in
    let fl := rt_fl r fid in
    let clr := (is_map (o_ty o) || is_slice (o_ty o)) && f_clearref fl in
    let r1 := set_fl (if clr then opt_empty o r else r) fid (set_flags fl) in
    match choice_err delim oc arg with
    | Some e => Ok (r1, Some e)
    | None =>
      bind (convert orc (o_base o) (match arg with Some v => v | None => [] end) (o_ty o)
                    (if clr then empty_value (o_ty o) else rt_vals r fid))
           (fun cv => let '(v, e) := cv in Ok (set_val r1 fid v, option_map foreign e))
    end.
  Proof.
    intros oc arg r Hf. unfold opt_set, choice_err, invalid_choice_msg. cbv zeta. rewrite Hf.
    assert (E : rt_vals (set_fl (if (is_map (o_ty (oc_opt oc)) || is_slice (o_ty (oc_opt oc))) &&
                                     f_clearref (rt_fl r (o_fid (oc_opt oc)))
                                  then opt_empty (oc_opt oc) r else r) (o_fid (oc_opt oc))
                                (fl_with (rt_fl r (o_fid (oc_opt oc))) true
                                         (f_isdefault (rt_fl r (o_fid (oc_opt oc)))) true false))
                        (o_fid (oc_opt oc)) =
                if (is_map (o_ty (oc_opt oc)) || is_slice (o_ty (oc_opt oc))) &&
                   f_clearref (rt_fl r (o_fid (oc_opt oc)))
                then empty_value (o_ty (oc_opt oc)) else rt_vals r (o_fid (oc_opt oc))).
    { cbn [set_fl rt_vals]. destruct (_ && _) eqn:C; [|reflexivity].
      unfold opt_empty. rewrite Hf. cbn [set_val rt_vals]. rewrite upd_eq.
      apply opt_empty_value_not_ptr. intros k Hk. rewrite Hk in C. discriminate C. }
    rewrite E. unfold set_flags.
    destruct (o_choices (oc_opt oc)) as [|c cs]; [reflexivity|].
    destruct arg as [v|]; [|reflexivity].
    destruct (existsb _ _); reflexivity.
  Qed.

  Lemma convert_success_indep : forall b v ty cur1 cur2 x,
    is_map ty || is_slice ty = false -> is_func ty = false ->
    convert orc b v ty cur1 = Ok (x, None) -> convert orc b v ty cur2 = Ok (x, None).
  Proof.
    intros b v ty cur1 cur2 x Hty Hf.
    destruct ty as [k|k|e|k1 k2|a rr]; try discriminate Hty; try discriminate Hf; cbn [convert].
    - destruct (convert_kind orc b v k) as [[y|m]|e|w]; cbn [bind]; intros H; inversion H; reflexivity.
    - destruct (convert_kind orc b v k) as [[y|m]|e|w]; cbn [bind]; intros H; inversion H; reflexivity.
  Qed.

  (* the value stored by a successful explicit occurrence does not depend on the state it
     is applied to, provided slices and maps have their clear-before-set mark armed:
     whatever lower-ranked sources stored is REPLACED *)
  Theorem C05_explicit_value_independent : forall oc arg ra rb ra',
    is_func (o_ty (oc_opt oc)) = false -> armed oc ra -> armed oc rb ->
    opt_set orc delim ht oc arg ra = Ok (ra', None) ->
    exists rb', opt_set orc delim ht oc arg rb = Ok (rb', None) /\
                rt_vals rb' (fid_of oc) = rt_vals ra' (fid_of oc).
  Proof.
    intros oc arg ra rb ra' Hf Ha Hb H.
    rewrite (opt_set_nonfunc_eq oc arg ra Hf) in H. rewrite (opt_set_nonfunc_eq oc arg rb Hf).
    cbv zeta in *. unfold armed, fid_of in *.
    destruct (choice_err delim oc arg) as [ce|]; [discriminate H|].
    destruct (is_map (o_ty (oc_opt oc)) || is_slice (o_ty (oc_opt oc))) eqn:MS.
    - rewrite (Ha eq_refl) in H. rewrite (Hb eq_refl). cbn [andb] in *.
      destruct (convert _ _ _ _ _) as [[v [e|]]|e|w]; cbn [bind option_map] in *; try discriminate H.
      inversion H; subst ra'. eexists. split; [reflexivity|].
      cbn [set_val rt_vals]. rewrite !upd_eq. reflexivity.
    - cbn [andb] in *.
      destruct (convert orc (o_base (oc_opt oc)) match arg with Some v => v | None => [] end
                        (o_ty (oc_opt oc)) (rt_vals ra (o_fid (oc_opt oc)))) as [[v [e|]]|e|w] eqn:C;
        cbn [bind option_map] in H; try discriminate H.
      rewrite (convert_success_indep _ _ _ _ (rt_vals rb (o_fid (oc_opt oc))) _ MS Hf C).
      cbn [bind option_map]. inversion H; subst ra'. eexists. split; [reflexivity|].
      cbn [set_val rt_vals]. rewrite !upd_eq. reflexivity.
  Qed.
End Explicit.

(* ================================================================== 7. INI values read in as-defaults mode (target 4) *)
Lemma existsb_nat_in k l : existsb (Nat.eqb k) l = true <-> In k l.
Proof.
  rewrite existsb_exists. split.
  - intros [x [Hin Heq]]. apply Nat.eqb_eq in Heq. subst. exact Hin.
  - intros Hin. exists k. split; [exact Hin|apply Nat.eqb_refl].
Qed.
Lemma existsb_nat_notin k l : existsb (Nat.eqb k) l = false <-> ~ In k l.
Proof.
  rewrite <- existsb_nat_in. destruct (existsb (Nat.eqb k) l); split; intros H; congruence.
Qed.

Lemma q_get_q_set_neq : forall q fid b k, k <> fid -> q_get (q_set q fid b) k = q_get q k.
Proof.
  induction q as [|[k' v'] q IH]; intros fid b k Hk; cbn [q_set q_get].
  - destruct (Nat.eqb_spec k fid); [contradiction|reflexivity].
  - destruct (Nat.eqb_spec fid k') as [->|Hn]; cbn [q_get].
    + destruct (Nat.eqb_spec k k'); [contradiction|reflexivity].
    + destruct (Nat.eqb_spec k k'); [reflexivity|]. apply IH. exact Hk.
Qed.

(* IniParser.parse re-enables defaults for an option it has itself defaulted earlier in
   the same read *)
Definition unprevent (fid : nat) (r : rt) : rt :=
  if f_prevent (rt_fl r fid) then set_fl r fid (fl_set_prevent (rt_fl r fid) false) else r.

Lemma unprevent_prevent fid r : f_prevent (rt_fl (unprevent fid r) fid) = false.
Proof.
  unfold unprevent. destruct (f_prevent (rt_fl r fid)) eqn:P; [|exact P].
  cbn [set_fl rt_fl]. rewrite upd_eq. reflexivity.
Qed.
Lemma unprevent_frame fid r : frame_at fid r (unprevent fid r).
Proof. unfold unprevent. destruct (f_prevent _); [apply frame_set_fl|apply frame_refl]. Qed.

Section IniEntry.
  Variable orc : oracles.
  Variable delim : str.
  Variable ht : rt -> str.
  Variable ign : bool.

  (* what an entry may touch: the field of the option it names, that option's quoting
     record and its membership in the defaulted list *)
  Definition entry_frame (fid : nat) (r : rt) (q : quotes) (dfl : list nat)
             (x : rt * quotes * list nat * option err) : Prop :=
    frame_at fid r (fst (fst (fst x))) /\
    (forall k, k <> fid -> q_get (snd (fst (fst x))) k = q_get q k) /\
    (forall k, k <> fid -> (In k (snd (fst x)) <-> In k dfl)).

  Lemma entry_frame_refl fid r q dfl er : entry_frame fid r q dfl (r, q, dfl, er).
  Proof. split; [apply frame_refl|]. split; intros k _; reflexivity. Qed.

  Lemma apply_entry_frame asd groups e r q dfl :
    wpT (apply_entry orc delim ht ign asd groups e r q dfl)
        (fun x => match resolve_entry delim groups (ie_name e) with
                  | None => fst x = (r, q, dfl)
                  | Some oc => entry_frame (fid_of oc) r q dfl x
                  end).
  Proof.
    unfold apply_entry.
    destruct (resolve_entry delim groups (ie_name e)) as [oc|] eqn:R.
    2:{ destruct ign; reflexivity. }
    cbv zeta. unfold fid_of.
    destruct (asd && f_prevent (rt_fl r (o_fid (oc_opt oc))) && negb (existsb (Nat.eqb (o_fid (oc_opt oc))) dfl)).
    { apply entry_frame_refl. }
    set (r1 := if asd && f_prevent (rt_fl r (o_fid (oc_opt oc))) then _ else r).
    assert (H1 : frame_at (o_fid (oc_opt oc)) r r1).
    { unfold r1. destruct (asd && _); [apply frame_set_fl|apply frame_refl]. }
    clearbody r1.
    match goal with |- wpT (match ?pv with inl _ => _ | inr _ => _ end) _ => set (PV := pv) end.
    clearbody PV.
    destruct PV as [v|er0].
    2:{ split; cbn [fst snd]; [exact H1|]. split; intros k _; reflexivity. }
    apply wpT_bind.
    eapply wpT_conseq with (Q := fun re => frame_at (o_fid (oc_opt oc)) r1 (fst re)).
    { destruct asd; [apply opt_set_default_fr|apply opt_set_fr]. }
    intros [r' [er|]] S; cbn [fst] in S.
    - split; cbn [fst snd]; [eapply frame_trans; eauto|]. split; intros k _; reflexivity.
    - split; cbn [fst snd]; [|split].
      + eapply frame_trans; [exact H1|]. eapply frame_trans; [exact S|].
        eapply frame_trans; apply frame_set_fl.
      + intros k Hk. destruct (q_get q (o_fid (oc_opt oc))).
        * destruct (negb _); [apply q_get_q_set_neq; exact Hk|reflexivity].
        * apply q_get_q_set_neq; exact Hk.
      + intros k Hk. destruct asd; [|reflexivity]. split.
        * intros [E|E]; [congruence|exact E].
        * intros E; right; exact E.
  Qed.

  (* ---- as-defaults mode *)
  (* an option that is already prevented - it occurred on the command line, or a plain
     INI read set it - and was not defaulted by this very read is skipped *)
  Lemma apply_entry_defaults_ignored groups e r q dfl oc :
    resolve_entry delim groups (ie_name e) = Some oc ->
    f_prevent (rt_fl r (fid_of oc)) = true -> ~ In (fid_of oc) dfl ->
    apply_entry orc delim ht ign true groups e r q dfl = Ok (r, q, dfl, None).
  Proof.
    intros R P D. apply existsb_nat_notin in D. unfold fid_of in *.
    unfold apply_entry. rewrite R. cbv zeta. rewrite P, D. reflexivity.
  Qed.

  (* the marking left by an entry that was applied *)
  Definition ini_default_marks (fid : nat) (name : str) (r1 : rt) : Prop :=
    f_prevent (rt_fl r1 fid) = true /\ f_isdefault (rt_fl r1 fid) = true /\
    f_isset (rt_fl r1 fid) = true /\ f_clearref (rt_fl r1 fid) = false /\
    f_ininame (rt_fl r1 fid) = name.

  Lemma apply_entry_defaults_success groups e r q dfl oc r1 q1 dfl1 :
    resolve_entry delim groups (ie_name e) = Some oc ->
    apply_entry orc delim ht ign true groups e r q dfl = Ok (r1, q1, dfl1, None) ->
    let fid := fid_of oc in
    (* skipped *)
    (f_prevent (rt_fl r fid) = true /\ ~ In fid dfl /\ r1 = r /\ q1 = q /\ dfl1 = dfl) \/
    (* applied: Option.Set with defaults re-enabled, then marked *)
    ((f_prevent (rt_fl r fid) = false \/ In fid dfl) /\
     exists v rs,
       opt_set orc delim ht oc v (unprevent fid r) = Ok (rs, None) /\
       rt_vals r1 = rt_vals rs /\ rt_logs r1 = rt_logs rs /\ rt_active r1 = rt_active rs /\
       (forall k, k <> fid -> rt_fl r1 k = rt_fl rs k) /\
       ini_default_marks fid (ie_name e) r1 /\ dfl1 = fid :: dfl).
  Proof.
    intros R H fid. subst fid. unfold fid_of in *.
    unfold apply_entry in H. rewrite R in H. cbv zeta in H. cbn [andb] in H.
    destruct (f_prevent (rt_fl r (o_fid (oc_opt oc))) && negb (existsb (Nat.eqb (o_fid (oc_opt oc))) dfl)) eqn:C.
    { apply andb_true_iff in C. destruct C as [P D]. apply negb_true_iff in D. apply existsb_nat_notin in D.
      inversion H; subst. left. auto. }
    right. split.
    { apply andb_false_iff in C. destruct C as [P|D]; [left; exact P|right].
      apply negb_false_iff in D. apply existsb_nat_in in D. exact D. }
    change (if f_prevent (rt_fl r (o_fid (oc_opt oc)))
            then set_fl r (o_fid (oc_opt oc)) (fl_set_prevent (rt_fl r (o_fid (oc_opt oc))) false) else r)
      with (unprevent (o_fid (oc_opt oc)) r) in H.
    pose proof (unprevent_prevent (o_fid (oc_opt oc)) r) as UP.
    set (ra := unprevent (o_fid (oc_opt oc)) r) in *. clearbody ra.
    match type of H with (match ?pv with inl _ => _ | inr _ => _ end) = _ => set (PV := pv) in H end.
    clearbody PV.
    destruct PV as [v|er0]; [|discriminate H].
    destruct (opt_set_default orc delim ht oc v ra) as [[r' [er|]]|er|w] eqn:E; cbn [bind] in H; try discriminate H.
    inversion H; subst r1 q1 dfl1; clear H.
    rewrite (proj2 (opt_set_default_spec orc delim ht oc v ra) UP) in E.
    destruct (opt_set orc delim ht oc v ra) as [[rs [er|]]|er|w] eqn:ES; try discriminate E.
    inversion E; subst r'; clear E.
    destruct (opt_set_marks _ _ _ _ _ _ _ _ ES) as [_ [_ [M2 [M3 _]]]]. unfold fid_of in *.
    exists v, rs. split; [exact ES|]. split; [reflexivity|]. split; [reflexivity|]. split; [reflexivity|].
    split; [|split; [|reflexivity]].
    - intros k Hk. cbn [set_fl rt_fl]. rewrite !upd_neq by exact Hk. reflexivity.
    - unfold ini_default_marks. cbn [set_fl rt_fl]. rewrite !upd_eq.
      cbn [fl_set_ininame fl_set_prevent fl_with f_prevent f_isdefault f_isset f_clearref f_ininame].
      rewrite M2, M3. repeat split.
  Qed.
End IniEntry.

(* ---- lifting an invariant of single entries to a whole read *)
Section IniLift.
  Variable orc : oracles.
  Variable delim : str.
  Variable ht : rt -> str.
  Variable asd : bool.
  Variable I : rt -> quotes -> list nat -> Prop.
  Variable G : option err -> Prop.
  Hypothesis G_none : G None.
  Hypothesis I_step : forall ign groups e r q dfl r1 q1 dfl1 er,
    I r q dfl -> apply_entry orc delim ht ign asd groups e r q dfl = Ok (r1, q1, dfl1, er) ->
    G er -> I r1 q1 dfl1.

  Lemma apply_entries_lift ign groups : forall es r q dfl r1 q1 dfl1 er,
    I r q dfl -> apply_entries orc delim ht ign asd groups es r q dfl = Ok (r1, q1, dfl1, er) ->
    G er -> I r1 q1 dfl1.
  Proof.
    induction es as [|e es IH]; intros r q dfl r1 q1 dfl1 er HI H HG; cbn [apply_entries] in H.
    - inversion H; subst. exact HI.
    - destruct (apply_entry orc delim ht ign asd groups e r q dfl) as [[[[r' q'] dfl'] er']|x|w] eqn:E;
        cbn [bind] in H; try discriminate H.
      destruct er' as [x|].
      + inversion H; subst. eapply I_step; eauto.
      + eapply IH; [|exact H|exact HG]. eapply I_step; eauto.
  Qed.

  Lemma apply_sections_lift ign root : forall f r q dfl r1 q1 er,
    I r q dfl -> apply_sections orc delim ht ign asd root f r q dfl = Ok (r1, q1, er) ->
    G er -> exists dfl1, I r1 q1 dfl1.
  Proof.
    induction f as [|[name es] f IH]; intros r q dfl r1 q1 er HI H HG; cbn [apply_sections] in H.
    - inversion H; subst. exists dfl. exact HI.
    - destruct (matching_groups root name) as [|g gs] eqn:M.
      + destruct ign.
        * eapply IH; eauto.
        * inversion H; subst. exists dfl. exact HI.
      + destruct (apply_entries orc delim ht ign asd (g :: gs) es r q dfl) as [[[[r' q'] dfl'] er']|x|w] eqn:E;
          cbn [bind] in H; try discriminate H.
        destruct er' as [x|].
        * inversion H; subst. exists dfl'. eapply apply_entries_lift; eauto.
        * eapply IH; [|exact H|exact HG]. eapply apply_entries_lift; eauto.
  Qed.
End IniLift.

(* bookkeeping that differs from [f] at most in the clear-before-set mark *)
Definition keep_but_clearref (f : oflags) (c : bool) : oflags :=
  fl_with f (f_isset f) (f_isdefault f) (f_prevent f) c.
(* bookkeeping that agrees except for the clear-before-set mark and the INI quoting record *)
Definition fl_core_eq (f g : oflags) : Prop :=
  f_isset f = f_isset g /\ f_isdefault f = f_isdefault g /\ f_prevent f = f_prevent g /\
  f_ininame f = f_ininame g /\ f_deflit f = f_deflit g.

Lemma kbc_self f : keep_but_clearref f (f_clearref f) = f.
Proof. destruct f; reflexivity. Qed.
Lemma fl_core_eq_refl f : fl_core_eq f f.
Proof. repeat split. Qed.
Lemma fl_core_eq_trans f g h : fl_core_eq f g -> fl_core_eq g h -> fl_core_eq f h.
Proof. intros [A [B [C [D E]]]] [A' [B' [C' [D' E']]]]. repeat split; congruence. Qed.
Lemma fl_core_eq_kbc f c : fl_core_eq (keep_but_clearref f c) f.
Proof. repeat split. Qed.

Definition arm_step (r : rt) (oc : octx) : rt :=
  let fid := o_fid (oc_opt oc) in
  let fl := rt_fl r fid in
  set_fl r fid (fl_with fl (f_isset fl) (f_isdefault fl) (f_prevent fl) true).
Definition quote_step (r : rt) (kv : nat * bool) : rt :=
  set_fl r (fst kv) (fl_set_iniquote (rt_fl r (fst kv)) (snd kv)).

Lemma arm_fold_spec : forall ocs r,
  rt_vals (fold_left arm_step ocs r) = rt_vals r /\
  forall k, exists c, rt_fl (fold_left arm_step ocs r) k = keep_but_clearref (rt_fl r k) c.
Proof.
  induction ocs as [|oc ocs IH]; intros r; cbn [fold_left].
  - split; [reflexivity|]. intros k. exists (f_clearref (rt_fl r k)). symmetry. apply kbc_self.
  - destruct (IH (arm_step r oc)) as [A B]. split; [rewrite A; reflexivity|].
    intros k. destruct (B k) as [c Hc]. exists (if Nat.eqb k (o_fid (oc_opt oc)) then c else c).
    rewrite Hc. unfold arm_step. cbn [set_fl rt_fl]. unfold upd.
    destruct (Nat.eqb_spec k (o_fid (oc_opt oc))) as [->|Hn]; reflexivity.
Qed.

Lemma quote_fold_spec : forall q r,
  rt_vals (fold_left quote_step q r) = rt_vals r /\
  (forall k, fl_core_eq (rt_fl (fold_left quote_step q r) k) (rt_fl r k)) /\
  (forall k, q_get q k = None -> rt_fl (fold_left quote_step q r) k = rt_fl r k).
Proof.
  induction q as [|[k' b] q IH]; intros r; cbn [fold_left].
  - split; [reflexivity|]. split; [intros k; apply fl_core_eq_refl|reflexivity].
  - destruct (IH (quote_step r (k', b))) as [A [B C]]. split; [rewrite A; reflexivity|]. split.
    + intros k. eapply fl_core_eq_trans; [apply B|].
      unfold quote_step. cbn [set_fl rt_fl fst snd]. unfold upd.
      destruct (Nat.eqb_spec k k') as [->|Hn]; repeat split.
    + intros k Hk. cbn [q_get] in Hk. destruct (Nat.eqb_spec k k') as [Heq|Hn]; [discriminate Hk|].
      rewrite (C k Hk). unfold quote_step. cbn [set_fl rt_fl fst snd]. apply upd_neq. exact Hn.
Qed.

Lemma ini_apply_unfold orc delim ht ign asd root f r :
  ini_apply orc delim ht ign asd root f r =
  bind (apply_sections orc delim ht ign asd root f (fold_left arm_step (tree_octxs root) r) [] [])
       (fun x => let '(r', q, er) := x in
                 match er with
                 | Some _ => Ok (r', er)
                 | None => Ok (fold_left quote_step q r', None)
                 end).
Proof. reflexivity. Qed.

Section IniRead.
  Variable orc : oracles.
  Variable delim : str.
  Variable ht : rt -> str.

  (* (b), whole read: an option that is prevented before an as-defaults read keeps its
     value and its bookkeeping (only the clear-before-set mark is re-armed), whatever the
     file contains and even when the read stops with an error *)
  Lemma ini_defaults_skip_prevented : forall ign root f r r' er fid,
    f_prevent (rt_fl r fid) = true ->
    ini_apply orc delim ht ign true root f r = Ok (r', er) ->
    rt_vals r' fid = rt_vals r fid /\ exists c, rt_fl r' fid = keep_but_clearref (rt_fl r fid) c.
  Proof.
    intros ign root f r r' er fid P H. rewrite ini_apply_unfold in H.
    destruct (arm_fold_spec (tree_octxs root) r) as [AV AF]. destruct (AF fid) as [c Hc].
    set (r0 := fold_left arm_step (tree_octxs root) r) in *. clearbody r0.
    assert (P0 : f_prevent (rt_fl r0 fid) = true) by (rewrite Hc; exact P).
    set (I := fun (cur : rt) (q : quotes) (dfl : list nat) =>
                rt_vals cur fid = rt_vals r0 fid /\ rt_fl cur fid = rt_fl r0 fid /\
                ~ In fid dfl /\ q_get q fid = None).
    assert (STEP : forall ign groups e r q dfl r1 q1 dfl1 er,
      I r q dfl -> apply_entry orc delim ht ign true groups e r q dfl = Ok (r1, q1, dfl1, er) ->
      True -> I r1 q1 dfl1).
    { intros ign0 groups e cur q dfl r1 q1 dfl1 er0 [I1 [I2 [I3 I4]]] E _.
      pose proof (wpT_ok _ _ _ (apply_entry_frame orc delim ht ign0 true groups e cur q dfl) E) as FR.
      cbn [fst] in FR.
      destruct (resolve_entry delim groups (ie_name e)) as [oc|] eqn:R.
      - destruct (Nat.eq_dec (fid_of oc) fid) as [Heq|Hn].
        + rewrite (apply_entry_defaults_ignored orc delim ht ign0 groups e cur q dfl oc R) in E.
          * inversion E; subst. repeat split; assumption.
          * rewrite Heq, I2. exact P0.
          * rewrite Heq. exact I3.
        + destruct FR as [F1 [F2 F3]]. cbn [fst snd] in *.
          assert (Hn' : fid <> fid_of oc) by congruence.
          destruct (frame_agree _ fid _ _ F1 Hn') as [Av Af].
          unfold I. split; [congruence|]. split; [congruence|]. split.
          * intros Hin. apply I3. apply (F3 fid Hn'). exact Hin.
          * rewrite (F2 fid Hn'). exact I4.
      - inversion FR; subst. repeat split; assumption. }
    destruct (apply_sections orc delim ht ign true root f r0 [] []) as [[[r1 q1] er1]|x|w] eqn:E;
      cbn [bind] in H; try discriminate H.
    destruct (apply_sections_lift orc delim ht true I (fun _ => True) Logic.I STEP ign root f r0 [] [] r1 q1 er1)
      as [dfl1 [J1 [J2 [J3 J4]]]]; [|exact E|exact Logic.I|].
    { unfold I. repeat split; auto. }
    assert (K : rt_vals r' fid = rt_vals r1 fid /\ rt_fl r' fid = rt_fl r1 fid).
    { destruct er1 as [x|]; inversion H; subst; [split; reflexivity|].
      destruct (quote_fold_spec q1 r1) as [QV [_ QF]]. rewrite QV, (QF fid J4). split; reflexivity. }
    destruct K as [K1 K2]. split; [congruence|]. exists c. congruence.
  Qed.

  (* (c), whole read: after a successful as-defaults read every field either is protected
     from the environment and the default tags, or was not touched by the read *)
  Lemma ini_defaults_protect : forall ign root f r r',
    ini_apply orc delim ht ign true root f r = Ok (r', None) ->
    forall fid,
      f_prevent (rt_fl r' fid) = true \/
      (rt_vals r' fid = rt_vals r fid /\ fl_core_eq (rt_fl r' fid) (rt_fl r fid)).
  Proof.
    intros ign root f r r' H. rewrite ini_apply_unfold in H.
    destruct (arm_fold_spec (tree_octxs root) r) as [AV AF].
    set (r0 := fold_left arm_step (tree_octxs root) r) in *. clearbody r0.
    set (I := fun (cur : rt) (q : quotes) (dfl : list nat) =>
                forall fid, f_prevent (rt_fl cur fid) = true \/
                            (rt_vals cur fid = rt_vals r0 fid /\ rt_fl cur fid = rt_fl r0 fid)).
    assert (STEP : forall ign groups e r q dfl r1 q1 dfl1 er,
      I r q dfl -> apply_entry orc delim ht ign true groups e r q dfl = Ok (r1, q1, dfl1, er) ->
      er = None -> I r1 q1 dfl1).
    { intros ign0 groups e cur q dfl r1 q1 dfl1 er0 HI E ->.
      pose proof (wpT_ok _ _ _ (apply_entry_frame orc delim ht ign0 true groups e cur q dfl) E) as FR.
      cbn [fst] in FR.
      destruct (resolve_entry delim groups (ie_name e)) as [oc|] eqn:R.
      - destruct (apply_entry_defaults_success orc delim ht ign0 groups e cur q dfl oc r1 q1 dfl1 R E)
          as [[_ [_ [-> _]]]|[_ [v [rs [_ [_ [_ [_ [_ [[M _] _]]]]]]]]]]; [exact HI|].
        intros fid. destruct (Nat.eq_dec fid (fid_of oc)) as [->|Hn]; [left; exact M|].
        destruct FR as [F1 _]. cbn [fst] in F1.
        destruct (frame_agree _ fid _ _ F1 Hn) as [Av Af].
        destruct (HI fid) as [Hp|[Hv Hf]]; [left; rewrite <- Af; exact Hp|right].
        split; congruence.
      - inversion FR; subst. exact HI. }
    destruct (apply_sections orc delim ht ign true root f r0 [] []) as [[[r1 q1] er1]|x|w] eqn:E;
      cbn [bind] in H; try discriminate H.
    destruct er1 as [x|]; [discriminate H|]. inversion H; subst r'; clear H.
    destruct (apply_sections_lift orc delim ht true I (fun er => er = None) eq_refl STEP ign root f r0 [] [] r1 q1 None)
      as [dfl1 J]; [|exact E|reflexivity|].
    { intros fid. right. split; reflexivity. }
    destruct (quote_fold_spec q1 r1) as [QV [QC _]].
    intros fid. destruct (J fid) as [Hp|[Hv Hf]].
    - left. destruct (QC fid) as [_ [_ [Q3 _]]]. rewrite Q3. exact Hp.
    - right. split; [rewrite QV, Hv, AV; reflexivity|].
      eapply fl_core_eq_trans; [apply QC|]. rewrite Hf. destruct (AF fid) as [c ->]. apply fl_core_eq_kbc.
  Qed.
End IniRead.

(* ---- target 4 (a): INI as-defaults first, then an occurrence on the command line.
   MARKING USED BY THE MODEL: an applied as-defaults entry runs Option.setDefault (which
   leaves preventDefault = false, isSetDefault = true) and then sets preventDefault = TRUE
   ("defaults from ini files take precedence over defaults from parser"); the option is
   remembered in the [defaulted] list so that further entries of the same read still apply. *)
Theorem C05_ini_defaults_then_flag : forall orc delim ht ign groups e r q dfl oc r1 q1 dfl1,
  let fid := o_fid (oc_opt oc) in
  resolve_entry delim groups (ie_name e) = Some oc ->
  (f_prevent (rt_fl r fid) = false \/ In fid dfl) ->               (* the entry is not skipped *)
  apply_entry orc delim ht ign true groups e r q dfl = Ok (r1, q1, dfl1, None) ->
  (* 1. the value is the one Option.Set stores; the marking *)
  (exists v rs, opt_set orc delim ht oc v (unprevent fid r) = Ok (rs, None) /\ rt_vals r1 = rt_vals rs) /\
  ini_default_marks fid (ie_name e) r1 /\ dfl1 = fid :: dfl /\
  (* 2. a later occurrence on the command line (ParseArgs first re-arms the clear-before-set
        mark) succeeds exactly when it would have succeeded without the INI read, and stores
        the same value: the INI value is replaced, never extended *)
  (is_func (o_ty (oc_opt oc)) = false -> forall arg,
     (forall r2, opt_set orc delim ht oc arg (rearm fid r1) = Ok (r2, None) ->
        exists r2', opt_set orc delim ht oc arg (rearm fid r) = Ok (r2', None) /\
                    rt_vals r2' fid = rt_vals r2 fid) /\
     (forall r2', opt_set orc delim ht oc arg (rearm fid r) = Ok (r2', None) ->
        exists r2, opt_set orc delim ht oc arg (rearm fid r1) = Ok (r2, None) /\
                   rt_vals r2 fid = rt_vals r2' fid)) /\
  (* 3. in every Ok outcome of that occurrence the option counts as explicitly set
        (and keeps the isSetDefault mark it got from the INI read) *)
  (forall arg r2 e2, opt_set orc delim ht oc arg (rearm fid r1) = Ok (r2, e2) ->
     f_prevent (rt_fl r2 fid) = true /\ f_isset (rt_fl r2 fid) = true /\ f_isdefault (rt_fl r2 fid) = true).
Proof.
  intros orc delim ht ign groups e r q dfl oc r1 q1 dfl1 fid R NS H. subst fid.
  destruct (apply_entry_defaults_success orc delim ht ign groups e r q dfl oc r1 q1 dfl1 R H)
    as [[P [D _]]|[_ [v [rs [ES [EV [_ [_ [_ [M ->]]]]]]]]]].
  { exfalso. destruct NS as [NS|NS]; [unfold fid_of in P; congruence|exact (D NS)]. }
  unfold fid_of in *.
  split; [exists v, rs; split; assumption|]. split; [exact M|]. split; [reflexivity|]. split.
  - intros Hf arg. split.
    + intros r2 H2.
      exact (C05_explicit_value_independent orc delim ht oc arg _ (rearm (o_fid (oc_opt oc)) r) r2 Hf
               (rearm_armed oc r1) (rearm_armed oc r) H2).
    + intros r2' H2.
      exact (C05_explicit_value_independent orc delim ht oc arg _ (rearm (o_fid (oc_opt oc)) r1) r2' Hf
               (rearm_armed oc r) (rearm_armed oc r1) H2).
  - intros arg r2 e2 H2.
    destruct (opt_set_marks _ _ _ _ _ _ _ _ H2) as [_ [A [B [_ C]]]]. unfold fid_of in *.
    split; [exact A|]. split; [exact B|]. rewrite C.
    destruct M as [_ [M2 _]]. unfold rearm. cbn [set_fl rt_fl]. rewrite upd_eq. exact M2.
Qed.

(* ---- target 4 (b): command line first, then INI as-defaults *)
Theorem C05_flag_then_ini_defaults : forall orc delim ht ign,
  (* an entry naming an option that occurred (successfully or not) is skipped *)
  (forall oc arg r0 r e0 groups e q dfl oc',
     opt_set orc delim ht oc arg r0 = Ok (r, e0) ->
     resolve_entry delim groups (ie_name e) = Some oc' ->
     o_fid (oc_opt oc') = o_fid (oc_opt oc) ->
     ~ In (o_fid (oc_opt oc)) dfl ->
     apply_entry orc delim ht ign true groups e r q dfl = Ok (r, q, dfl, None)) /\
  (* a whole as-defaults read leaves every prevented option alone: same value, same
     bookkeeping up to the re-armed clear-before-set mark - even if the read fails *)
  (forall root f r r' er fid,
     f_prevent (rt_fl r fid) = true ->
     ini_apply orc delim ht ign true root f r = Ok (r', er) ->
     rt_vals r' fid = rt_vals r fid /\ exists c, rt_fl r' fid = keep_but_clearref (rt_fl r fid) c).
Proof.
  intros orc delim ht ign. split.
  - intros oc arg r0 r e0 groups e q dfl oc' HS R Hfid D.
    destruct (opt_set_marks _ _ _ _ _ _ _ _ HS) as [_ [P _]]. unfold fid_of in P.
    apply (apply_entry_defaults_ignored orc delim ht ign groups e r q dfl oc'); unfold fid_of;
      [exact R|rewrite Hfid; exact P|rewrite Hfid; exact D].
  - intros root f r r' er fid P H. eapply ini_defaults_skip_prevented; eauto.
Qed.

(* the two orders agree: INI as-defaults then the occurrence, or the occurrence then INI
   as-defaults, leave the same value in the field - the one the command line denotes *)
Corollary C05_ini_flag_orders_agree : forall orc delim ht ign groups e r q dfl oc r1 q1 dfl1 arg r2,
  let fid := o_fid (oc_opt oc) in
  resolve_entry delim groups (ie_name e) = Some oc ->
  (f_prevent (rt_fl r fid) = false \/ In fid dfl) ->
  is_func (o_ty (oc_opt oc)) = false ->
  (* order A *)
  apply_entry orc delim ht ign true groups e r q dfl = Ok (r1, q1, dfl1, None) ->
  opt_set orc delim ht oc arg (rearm fid r1) = Ok (r2, None) ->
  (* order B *)
  exists rb,
    opt_set orc delim ht oc arg (rearm fid r) = Ok (rb, None) /\
    (forall q' dfl', ~ In fid dfl' ->
       apply_entry orc delim ht ign true groups e rb q' dfl' = Ok (rb, q', dfl', None)) /\
    rt_vals rb fid = rt_vals r2 fid.
Proof.
  intros orc delim ht ign groups e r q dfl oc r1 q1 dfl1 arg r2 fid R NS Hf HA HS. subst fid.
  destruct (C05_ini_defaults_then_flag orc delim ht ign groups e r q dfl oc r1 q1 dfl1 R NS HA)
    as [_ [_ [_ [K _]]]].
  destruct (proj1 (K Hf arg) r2 HS) as [rb [HB HV]].
  exists rb. split; [exact HB|]. split; [|exact HV].
  intros q' dfl' D.
  exact (proj1 (C05_flag_then_ini_defaults orc delim ht ign) oc arg _ rb None groups e q' dfl' oc HB R eq_refl D).
Qed.

(* ---- target 4 (c): INI as-defaults against environment and default tags *)
Theorem C05_ini_defaults_beat_env_and_tags : forall cfg orc ht ign,
  let delim := pc_nsdelim cfg in
  (* an applied entry protects its option: Option.clearDefault does nothing, and the
     defaults pass leaves the field alone in every later state reached without clearing
     the mark (the ParseArgs loop never clears it: C05_prevent_monotone) *)
  (forall groups e r q dfl oc r1 q1 dfl1,
     let fid := o_fid (oc_opt oc) in
     resolve_entry delim groups (ie_name e) = Some oc ->
     (f_prevent (rt_fl r fid) = false \/ In fid dfl) ->
     apply_entry orc delim ht ign true groups e r q dfl = Ok (r1, q1, dfl1, None) ->
     opt_clear_default orc delim ht (pc_env cfg) (pc_envdelim cfg) oc r1 = Ok (r1, None) /\
     forall r2, prevent_mono r1 r2 ->
     forall ocs s s' r', clear_defaults cfg orc ht ocs s r2 = Ok (s', r') ->
       rt_vals r' fid = rt_vals r2 fid /\ rt_fl r' fid = rt_fl r2 fid) /\
  (* whole read: every field is afterwards either protected or was not touched *)
  (forall root f r r',
     ini_apply orc delim ht ign true root f r = Ok (r', None) ->
     prevent_mono r r' /\
     forall fid, f_prevent (rt_fl r' fid) = true \/
                 (rt_vals r' fid = rt_vals r fid /\ fl_core_eq (rt_fl r' fid) (rt_fl r fid))).
Proof.
  intros cfg orc ht ign delim. subst delim. split.
  - intros groups e r q dfl oc r1 q1 dfl1 fid R NS H. subst fid.
    destruct (C05_ini_defaults_then_flag orc _ ht ign groups e r q dfl oc r1 q1 dfl1 R NS H)
      as [_ [[M _] _]].
    split.
    + apply opt_clear_default_prevented. exact M.
    + intros r2 PM ocs s s' r' CD.
      eapply clear_defaults_untouched; [exact CD|left; apply PM; exact M].
  - intros root f r r' H.
    pose proof (ini_defaults_protect orc _ ht ign root f r r' H) as K.
    split; [|exact K].
    intros fid P. destruct (K fid) as [Q|[_ [_ [_ [Q _]]]]]; [exact Q|rewrite Q; exact P].
Qed.

(* ================================================================== 8. end to end (target 5) *)
Lemma check_required_err cfg root s r :
  ps_err (check_required cfg root s r) = None -> ps_err s = None.
Proof.
  unfold check_required. cbv zeta.
  repeat match goal with |- context [match ?x with _ => _ end] => destruct x end;
    cbn [ps_with_err ps_err]; intros H; try discriminate H; exact H.
Qed.

Theorem C05_end_to_end : forall cfg orc root ht args r s' r',
  parse_core cfg orc root ht args r = Ok (s', r') ->
  ps_err s' = None ->
  NoDup (map (fun oc => o_fid (oc_opt oc)) (tree_octxs root)) ->
  exists s1 r1,
    (* the argument loop *)
    run_loop cfg orc root ht (S (length args)) (initial_pst cfg root args) r = Ok (s1, r1) /\
    ps_err s1 = None /\
    (* options prevented beforehand (plain INI, INI as-defaults) stay prevented *)
    prevent_mono r r1 /\
    (* fields that belong to no option are not touched by the defaults pass *)
    (forall k, ~ In k (map (fun oc => o_fid (oc_opt oc)) (tree_octxs root)) ->
       rt_vals r' k = rt_vals r1 k /\ rt_fl r' k = rt_fl r1 k) /\
    forall oc, In oc (tree_octxs root) ->
      let o := oc_opt oc in
      let fid := o_fid o in
      let used := default_source (pc_env cfg) (pc_envdelim cfg) oc in
      (* occurred on the command line, or set from INI: env and default tags are ignored *)
      (f_prevent (rt_fl r1 fid) = true ->
         rt_vals r' fid = rt_vals r1 fid /\ rt_fl r' fid = rt_fl r1 fid) /\
      (* did not occur, nothing to apply: the program's value stays (nil map -> empty map) *)
      (f_prevent (rt_fl r1 fid) = false -> used = [] ->
         rt_vals r' fid = clear_value (o_ty o) (rt_vals r1 fid) /\
         (nil_wf (rt_vals r1 fid) -> rt_vals r' fid = unnil_map (o_ty o) (rt_vals r1 fid)) /\
         rt_fl r' fid = mark_default (rt_fl r1 fid)) /\
      (* did not occur: environment variable, else default tags, applied to the emptied field *)
      (f_prevent (rt_fl r1 fid) = false -> used <> [] ->
         exists rm,
           set_defaults orc (pc_nsdelim cfg) ht oc used
                        (opt_empty o (set_fl r1 fid (mark_default (rt_fl r1 fid)))) = Ok (rm, None) /\
           rt_vals r' fid = rt_vals rm fid /\ rt_fl r' fid = rt_fl rm fid).
Proof.
  intros cfg orc root ht args r s' r' H HE ND.
  unfold parse_core in H.
  destruct (run_loop cfg orc root ht (S (length args)) (initial_pst cfg root args) r) as [[s1 r1]|x|w] eqn:L;
    cbn [bind] in H; try discriminate H.
  destruct (ps_err s1) as [x|] eqn:PE.
  { inversion H; subst. congruence. }
  destruct (clear_defaults cfg orc ht (tree_octxs root) s1 r1) as [[s2 r2]|x|w] eqn:CD;
    cbn [bind] in H; try discriminate H.
  inversion H; subst s' r'; clear H.
  apply check_required_err in HE.
  exists s1, r1. split; [reflexivity|]. split; [exact PE|]. split.
  { exact (wpT_ok _ _ _ (run_loop_pm cfg orc root ht _ _ r) L). }
  split.
  { intros k Hk. eapply clear_defaults_untouched; [exact CD|right; exact Hk]. }
  intros oc Hin o fid used. subst o fid used. split; [|split].
  - intros P. eapply clear_defaults_untouched; [exact CD|left; exact P].
  - intros P U.
    exact (proj1 (C05_unprevented_gets_source cfg orc ht _ _ _ _ _ oc CD ND Hin P) U).
  - intros P U.
    destruct (proj2 (C05_unprevented_gets_source cfg orc ht _ _ _ _ _ oc CD ND Hin P) U)
      as [rm [e [A [B [C D]]]]].
    destruct e as [er|].
    + exfalso. destruct D as [oc' [er' [_ D]]]; [discriminate|congruence].
    + exists rm. split; [exact A|]. split; [exact B|exact C].
Qed.

(* when the loop stops with an error no defaults are applied at all *)
Theorem C05_no_defaults_after_error : forall cfg orc root ht args r s' r' s1 r1 er,
  parse_core cfg orc root ht args r = Ok (s', r') ->
  run_loop cfg orc root ht (S (length args)) (initial_pst cfg root args) r = Ok (s1, r1) ->
  ps_err s1 = Some er -> s' = s1 /\ r' = r1.
Proof.
  intros cfg orc root ht args r s' r' s1 r1 er H L PE.
  unfold parse_core in H. rewrite L in H. cbn [bind] in H. rewrite PE in H.
  inversion H; subst. split; reflexivity.
Qed.

(* ================================================================== 9. which error the defaults pass reports *)
Lemma same_err_trans e1 e2 e3 : same_err e1 e2 -> same_err e2 e3 -> same_err e1 e3.
Proof.
  intros [->|[t1 [t2 [-> ->]]]] [<-|[u1 [u2 [E ->]]]].
  - left; reflexivity.
  - right. exists u1, u2. split; [exact E|reflexivity].
  - right. exists t1, t2. split; reflexivity.
  - right. exists t1, u2. split; reflexivity.
Qed.
Lemma same_err_sym e1 e2 : same_err e1 e2 -> same_err e2 e1.
Proof.
  intros [->|[t1 [t2 [-> ->]]]]; [left; reflexivity|]. right. exists t2, t1. split; reflexivity.
Qed.
Lemma rel_res_sym fid x1 x2 : rel_res fid x1 x2 -> rel_res fid x2 x1.
Proof.
  destruct x1 as [[a e1]|e1|w1], x2 as [[b e2]|e2|w2]; cbn [rel_res]; try contradiction; try congruence.
  intros [A B]. split; [apply agree_sym; exact A|apply same_err_sym; exact B].
Qed.

Lemma notin_fid_neq oc oc0 ocs :
  ~ In (fid_of oc0) (map fid_of ocs) -> In oc ocs -> fid_of oc <> o_fid (oc_opt oc0).
Proof. intros Hn Hin E. apply Hn. change (fid_of oc0) with (o_fid (oc_opt oc0)). rewrite <- E. apply in_map. exact Hin. Qed.

Section ReportedError.
  Variable cfg : pconfig.
  Variable orc : oracles.
  Variable ht : rt -> str.

  Let ocd (oc : octx) (r : rt) : res (rt * option err) :=
    opt_clear_default orc (pc_nsdelim cfg) ht (pc_env cfg) (pc_envdelim cfg) oc r.

  Definition default_ok (oc : octx) (r : rt) : Prop :=
    forall rm e, opt_clear_default orc (pc_nsdelim cfg) ht (pc_env cfg) (pc_envdelim cfg) oc r = Ok (rm, e) -> e = None.

  Lemma default_ok_transport oc r r1 :
    agree_at (fid_of oc) r r1 -> default_ok oc r -> default_ok oc r1.
  Proof.
    intros Ag H rm e E.
    pose proof (opt_clear_default_rel orc (pc_nsdelim cfg) ht (pc_env cfg) (pc_envdelim cfg) oc r r1 Ag) as Rl.
    destruct (rel_res_ok _ _ _ _ _ Rl E) as [rm' [e' [E' [_ S]]]].
    rewrite (H _ _ E') in S. apply same_err_none_l. exact S.
  Qed.

  (* no failing source: the parse state is returned unchanged *)
  Lemma clear_defaults_no_error ocs : forall s r s' r',
    NoDup (map fid_of ocs) ->
    (forall oc, In oc ocs -> default_ok oc r) ->
    clear_defaults cfg orc ht ocs s r = Ok (s', r') -> s' = s.
  Proof.
    induction ocs as [|oc0 ocs IH]; intros s r s' r' ND HOK H.
    - cbn [clear_defaults] in H. inversion H; reflexivity.
    - apply clear_defaults_cons_inv in H. destruct H as [r1 [e0 [H1 H2]]].
      rewrite (HOK oc0 (or_introl eq_refl) _ _ H1) in H2.
      cbn [map] in ND. inversion ND as [|x l Hnotin ND']; subst.
      eapply IH; [exact ND'| |exact H2].
      intros oc Hin. apply (default_ok_transport oc r r1); [|apply HOK; right; exact Hin].
      pose proof (opt_clear_default_frame _ _ _ _ _ _ _ _ _ H1) as F.
      apply (frame_agree _ _ _ _ F). eapply notin_fid_neq; eauto.
  Qed.

  (* the reported error is the marshal error of the LAST option whose source fails
     (each failure overwrites the previous one) *)
  Theorem C05_default_error_reported : forall pre oc post s r s' r' rm er,
    clear_defaults cfg orc ht (pre ++ oc :: post) s r = Ok (s', r') ->
    NoDup (map fid_of (pre ++ oc :: post)) ->
    opt_clear_default orc (pc_nsdelim cfg) ht (pc_env cfg) (pc_envdelim cfg) oc r = Ok (rm, Some er) ->
    (forall oc', In oc' post -> default_ok oc' r) ->
    exists er', same_err (Some er') (Some er) /\ ps_err s' = Some (wrap_marshal cfg oc er').
  Proof.
    induction pre as [|p pre IH]; intros oc post s r s' r' rm er H ND E HOK; cbn [app] in *.
    - apply clear_defaults_cons_inv in H. destruct H as [r1 [e0 [H1 H2]]].
      rewrite E in H1. inversion H1; subst r1 e0; clear H1.
      cbn [map] in ND. inversion ND as [|x l Hnotin ND']; subst.
      assert (S : s' = ps_with_err s (Some (wrap_marshal cfg oc er))).
      { eapply clear_defaults_no_error; [exact ND'| |exact H2].
        intros oc' Hin. apply (default_ok_transport oc' r rm); [|apply HOK; exact Hin].
        pose proof (opt_clear_default_frame _ _ _ _ _ _ _ _ _ E) as F.
        apply (frame_agree _ _ _ _ F). eapply notin_fid_neq; eauto. }
      exists er. split; [apply same_err_refl|]. rewrite S. reflexivity.
    - apply clear_defaults_cons_inv in H. destruct H as [r1 [e0 [H1 H2]]].
      cbn [map] in ND. inversion ND as [|x l Hnotin ND']; subst.
      pose proof (opt_clear_default_frame _ _ _ _ _ _ _ _ _ H1) as F.
      assert (AG : forall oc', In oc' (pre ++ oc :: post) -> agree_at (fid_of oc') r r1).
      { intros oc' Hin. apply (frame_agree _ _ _ _ F). eapply notin_fid_neq; eauto. }
      pose proof (opt_clear_default_rel orc (pc_nsdelim cfg) ht (pc_env cfg) (pc_envdelim cfg) oc r r1
                    (AG oc (in_elt oc pre post))) as Rl.
      apply rel_res_sym in Rl.
      destruct (rel_res_ok _ _ _ _ _ Rl E) as [rm1 [e1 [E1 [_ S1]]]].
      destruct e1 as [er1|]; [|apply same_err_none_l in S1; discriminate S1].
      destruct (IH oc post _ r1 s' r' rm1 er1 H2 ND' E1) as [er' [S2 R2]].
      { intros oc' Hin. apply (default_ok_transport oc' r r1); [|apply HOK; exact Hin].
        apply AG. apply in_or_app. right. right. exact Hin. }
      exists er'. split; [eapply same_err_trans; [exact S2|exact S1]|exact R2].
  Qed.
End ReportedError.

(* ================================================================== 10. the ParseArgs prologue arms every option *)
From GoFlags Require Import Model.Help Model.Scenario.

Lemma opt_update_default_literal_inv orc oc r r' :
  opt_update_default_literal orc oc r = Ok r' ->
  exists d, r' = set_fl r (o_fid (oc_opt oc))
                   {| f_isset := f_isset (rt_fl r (o_fid (oc_opt oc)));
                      f_isdefault := f_isdefault (rt_fl r (o_fid (oc_opt oc)));
                      f_prevent := f_prevent (rt_fl r (o_fid (oc_opt oc)));
                      f_clearref := f_clearref (rt_fl r (o_fid (oc_opt oc)));
                      f_iniquote := f_iniquote (rt_fl r (o_fid (oc_opt oc)));
                      f_ininame := f_ininame (rt_fl r (o_fid (oc_opt oc)));
                      f_deflit := d |}.
Proof.
  unfold opt_update_default_literal. cbv zeta. intros H.
  destruct (o_default (oc_opt oc)); [|inversion H; eexists; reflexivity].
  destruct (can_argument (oc_opt oc)); [|inversion H; eexists; reflexivity].
  match type of H with (if ?b then _ else _) = _ => destruct b end; [|inversion H; eexists; reflexivity].
  destruct (convert_to_string _ _ _ _) as [ts|x|w]; cbn [bind] in H; inversion H. eexists; reflexivity.
Qed.

(* the prologue keeps values and the isSet / isSetDefault / preventDefault marks and
   leaves every option of the list armed: this is the state in which the argument loop
   (and hence every explicit occurrence) runs *)
Theorem prologue_arms : forall orc ocs r r',
  prologue_opts orc ocs r = Ok r' ->
  rt_vals r' = rt_vals r /\
  (forall k, f_prevent (rt_fl r' k) = f_prevent (rt_fl r k) /\
             f_isset (rt_fl r' k) = f_isset (rt_fl r k) /\
             f_isdefault (rt_fl r' k) = f_isdefault (rt_fl r k)) /\
  (forall k, f_clearref (rt_fl r k) = true -> f_clearref (rt_fl r' k) = true) /\
  (forall oc, In oc ocs -> f_clearref (rt_fl r' (fid_of oc)) = true /\ armed oc r').
Proof.
  intros orc. induction ocs as [|oc ocs IH]; intros r r' H; cbn [prologue_opts] in H.
  - inversion H; subst. split; [reflexivity|]. split; [intros k; repeat split|]. split; [auto|intros oc []].
  - match type of H with bind ?x _ = _ => destruct x as [r1|x1|w1] eqn:E end; cbn [bind] in H; try discriminate H.
    apply opt_update_default_literal_inv in E. destruct E as [d ->].
    destruct (IH _ _ H) as [A [B [C D]]]. clear IH H.
    split; [rewrite A; reflexivity|]. split; [|split].
    + intros k. destruct (B k) as [B1 [B2 B3]]. rewrite B1, B2, B3.
      cbn [set_fl rt_fl]. unfold upd.
      destruct (Nat.eqb_spec k (o_fid (oc_opt oc))) as [->|Hn]; [|repeat split].
      cbn [f_prevent f_isset f_isdefault]. rewrite !Nat.eqb_refl. repeat split.
    + intros k Hk. apply C. cbn [set_fl rt_fl]. unfold upd.
      destruct (Nat.eqb_spec k (o_fid (oc_opt oc))) as [->|Hn]; [|exact Hk].
      cbn [f_clearref]. rewrite Nat.eqb_refl. reflexivity.
    + assert (HD : f_clearref (rt_fl r' (fid_of oc)) = true).
      { apply C. unfold fid_of. cbn [set_fl rt_fl]. rewrite upd_eq. cbn [f_clearref]. rewrite upd_eq. reflexivity. }
      intros oc' [<-|Hin]; [split; [exact HD|intros _; exact HD]|apply D; exact Hin].
Qed.

(* ================================================================== 11. instances: the hypotheses are satisfiable *)
Module PrecedenceExamples.
  Definition orc0 := ValueExamples.orc0.
  Definition ht0 := ValueExamples.ht0.
  Definition mk_opt := ValueExamples.mk_opt.
  Definition dot : str := s2l ".".

  (* NUM and NAME are set in the environment, LEVEL is not *)
  Definition cfg1 : pconfig :=
    {| pc_name := s2l "app";
       pc_opts := {| po_help := false; po_passdd := true; po_ignore := false; po_print := false; po_passafter := false |};
       pc_nsdelim := dot; pc_envdelim := s2l "_"; pc_handler := HNone; pc_cmdhandler := false;
       pc_usage := []; pc_env := [(s2l "NUM", s2l "9"); (s2l "NAME", s2l "bob")];
       pc_cols := 80; pc_shortdesc := []; pc_longdesc := [] |}.

  Definition o_num := mk_opt 0 "num" (TScalar (KInt I0)) [] [s2l "5"] "NUM".
  Definition o_tags := mk_opt 2 "tags" (TSlice (TScalar KString)) [] [s2l "a"; s2l "b"] "".
  Definition o_kv := mk_opt 3 "kv" (TMap KString (KInt I0)) [] [] "".
  Definition o_name := mk_opt 5 "name" (TScalar KString) [] [s2l "anon"] "NAME".
  Definition o_level := mk_opt 6 "level" (TScalar (KInt I0)) [] [s2l "1"] "LEVEL".
  Definition o_keep := mk_opt 7 "keep" (TScalar KString) [] [] "".
  Definition o_bad := mk_opt 8 "bad" (TScalar (KInt I0)) [] [s2l "x1"] "".

  Definition root1 : command :=
    Command (UntouchedExample.ci0 "app")
            (Group UntouchedExample.gi0 [o_num; o_tags; o_kv; o_name; o_level; o_keep] []) [] [].
  Definition root_bad : command :=
    Command (UntouchedExample.ci0 "app") (Group UntouchedExample.gi0 [o_num; o_bad] []) [] [].

  (* the state ParseArgs' prologue hands to the loop: program-supplied values, every
     option armed *)
  Definition rt1 : rt :=
    {| rt_vals := fun i => match i with
                           | 0%nat => VInt 1 | 2%nat => VSlice false [VStr (s2l "x")] | 3%nat => VMap true []
                           | 5%nat => VStr (s2l "init") | 6%nat => VInt 0 | 7%nat => VStr (s2l "mine")
                           | _ => VInt 0 end;
       rt_fl := fun _ => ValueExamples.armed; rt_active := []; rt_logs := logs0 |}.

  Definition oc_of (n : nat) : octx := nth n (tree_octxs root1) (ValueExamples.mk_oc o_keep).
  Definition oc_num := oc_of 0.
  Definition oc_tags := oc_of 1.

  (* the duplicate-free hypothesis of targets 3 and 5 *)
  Example ex_nodup : NoDup (map (fun oc => o_fid (oc_opt oc)) (tree_octxs root1)).
  Proof.
    vm_compute.
    repeat (constructor; [intros H; cbn in H; repeat (destruct H as [H|H]; [discriminate H|]); exact H|]).
    constructor.
  Qed.

  Example ex_sources :
    default_source (pc_env cfg1) (pc_envdelim cfg1) oc_num = [s2l "9"] /\          (* env beats the default tag *)
    default_source (pc_env cfg1) (pc_envdelim cfg1) oc_tags = [s2l "a"; s2l "b"] /\
    default_source (pc_env cfg1) (pc_envdelim cfg1) (oc_of 2) = [] /\
    default_source (pc_env cfg1) (pc_envdelim cfg1) (oc_of 3) = [s2l "bob"] /\
    default_source (pc_env cfg1) (pc_envdelim cfg1) (oc_of 4) = [s2l "1"] /\     (* env unset: default tag *)
    default_source (pc_env cfg1) (pc_envdelim cfg1) (oc_of 5) = [].
  Proof. vm_compute. repeat split. Qed.

  Definition vals_of (x : res (pst * rt)) (fids : list nat) : option (option err * list value) :=
    match x with Ok (s, r) => Some (ps_err s, map (rt_vals r) fids) | _ => None end.
  Definition prevents_of (x : res (pst * rt)) (fids : list nat) : option (list bool) :=
    match x with Ok (s, r) => Some (map (fun k => f_prevent (rt_fl r k)) fids) | _ => None end.

  (* targets 2, 3: the defaults pass alone, nothing occurred *)
  Example ex_defaults_pass :
    vals_of (clear_defaults cfg1 orc0 ht0 (tree_octxs root1) (initial_pst cfg1 root1 []) rt1) [0; 2; 3; 5; 6; 7]%nat
    = Some (None, [VInt 9;                                         (* environment *)
                   VSlice false [VStr (s2l "a"); VStr (s2l "b")];  (* default tags REPLACE [x] *)
                   VMap false [];                                  (* nil map -> empty map *)
                   VStr (s2l "bob");                               (* environment beats the default tag *)
                   VInt 1;                                         (* default tag beats the program's 0 *)
                   VStr (s2l "mine")]).                            (* nothing to apply: value stays *)
  Proof. vm_compute. reflexivity. Qed.

  (* target 5: `app --num 7 --tags t1 --tags t2` *)
  Definition args1 : list str := [s2l "--num"; s2l "7"; s2l "--tags"; s2l "t1"; s2l "--tags"; s2l "t2"].
  Example ex_end_to_end :
    vals_of (parse_core cfg1 orc0 root1 ht0 args1 rt1) [0; 2; 3; 5; 6; 7]%nat
    = Some (None, [VInt 7;                                           (* command line beats env and default *)
                   VSlice false [VStr (s2l "t1"); VStr (s2l "t2")];  (* explicit values replace [x] and a,b *)
                   VMap false []; VStr (s2l "bob"); VInt 1; VStr (s2l "mine")]) /\
    prevents_of (run_loop cfg1 orc0 root1 ht0 (S (length args1)) (initial_pst cfg1 root1 args1) rt1)
                [0; 2; 3; 5; 6; 7]%nat
    = Some [true; true; false; false; false; false].
  Proof. vm_compute. split; reflexivity. Qed.

  (* a default tag that does not convert is reported as a marshal error (targets 3, C05_default_error_reported) *)
  Example ex_default_error :
    match clear_defaults cfg1 orc0 ht0 (tree_octxs root_bad) (initial_pst cfg1 root_bad []) rt1 with
    | Ok (s, _) => ps_err s
    | _ => None
    end = Some (EFlags ErrMarshal
             (s2l "invalid argument for flag `--bad' (expected int): strconv.ParseInt: parsing ""x1"": invalid syntax")).
  Proof. vm_compute. reflexivity. Qed.

  (* ---- target 4: an as-defaults INI entry `tags = z` *)
  Definition groups1 := matching_groups root1 [].
  Definition e_tags : ini_entry := {| ie_name := s2l "tags"; ie_value := s2l "z"; ie_quoted := false; ie_line := 1 |}.
  Definition after_ini : res (rt * quotes * list nat * option err) :=
    apply_entry orc0 dot ht0 false true groups1 e_tags rt1 [] [].
  Definition rt_ini : rt := match after_ini with Ok (r1, _, _, _) => r1 | _ => rt1 end.

  Example ex_ini_hyps :
    resolve_entry dot groups1 (ie_name e_tags) = Some oc_tags /\
    f_prevent (rt_fl rt1 (o_fid (oc_opt oc_tags))) = false /\
    match after_ini with Ok (_, _, dfl1, er) => Some (dfl1, er) | _ => None end = Some ([2%nat], None) /\
    rt_vals rt_ini 2%nat = VSlice false [VStr (s2l "z")] /\
    (let fl := rt_fl rt_ini 2%nat in (f_prevent fl, f_isdefault fl, f_isset fl, f_clearref fl))
      = (true, true, true, false).
  Proof. vm_compute. repeat split. Qed.

  Definition val2 (x : res (rt * option err)) : option (value * option err) :=
    match x with Ok (r, e) => Some (rt_vals r 2%nat, e) | _ => None end.

  Example ex_ini_then_flag :
    (* (a) after the prologue re-armed the option the occurrence REPLACES the INI value ... *)
    val2 (opt_set orc0 dot ht0 oc_tags (Some (s2l "w")) (rearm 2 rt_ini)) = Some (VSlice false [VStr (s2l "w")], None) /\
    val2 (opt_set orc0 dot ht0 oc_tags (Some (s2l "w")) (rearm 2 rt1)) = Some (VSlice false [VStr (s2l "w")], None) /\
    (* ... whereas WITHOUT re-arming (the state the INI read leaves) it would extend it: the
       armed hypothesis of C05_explicit_value_independent cannot be dropped *)
    val2 (opt_set orc0 dot ht0 oc_tags (Some (s2l "w")) rt_ini)
      = Some (VSlice false [VStr (s2l "z"); VStr (s2l "w")], None).
  Proof. vm_compute. repeat split. Qed.

  Example ex_flag_then_ini :
    (* (b) the occurrence first, then the as-defaults entry: skipped *)
    match opt_set orc0 dot ht0 oc_tags (Some (s2l "w")) rt1 with
    | Ok (rb, _) =>
      match apply_entry orc0 dot ht0 false true groups1 e_tags rb [] [] with
      | Ok (rb', q, dfl, er) => Some (rt_vals rb' 2%nat, q, dfl, er)
      | _ => None
      end
    | _ => None
    end = Some (VSlice false [VStr (s2l "w")], [], [], None).
  Proof. vm_compute. reflexivity. Qed.

  Example ex_ini_beats_tags :
    (* (c) the INI value survives the defaults pass although default tags a,b exist; the
       other options still get their environment / default-tag values *)
    vals_of (clear_defaults cfg1 orc0 ht0 (tree_octxs root1) (initial_pst cfg1 root1 []) rt_ini) [0; 2; 5]%nat
    = Some (None, [VInt 9; VSlice false [VStr (s2l "z")]; VStr (s2l "bob")]).
  Proof. vm_compute. reflexivity. Qed.

  (* whole-file versions, through ini_apply *)
  Definition file1 : ini_file := [([], [e_tags])].
  Example ex_ini_apply :
    match ini_apply orc0 dot ht0 false true root1 file1 rt1 with
    | Ok (r', er) => Some (rt_vals r' 2%nat, f_prevent (rt_fl r' 2%nat), f_prevent (rt_fl r' 0%nat), rt_vals r' 0%nat, er)
    | _ => None
    end = Some (VSlice false [VStr (s2l "z")], true, false, VInt 1, None).
  Proof. vm_compute. reflexivity. Qed.
End PrecedenceExamples.

Print Assumptions C05_prevent_monotone.
Print Assumptions C05_prevented_untouched_by_defaults.
Print Assumptions clear_defaults_pointwise.
Print Assumptions C05_unprevented_gets_source.
Print Assumptions C05_defaults_replace_initial.
Print Assumptions C05_default_error_reported.
Print Assumptions C05_explicit_value_independent.
Print Assumptions C05_ini_defaults_then_flag.
Print Assumptions C05_flag_then_ini_defaults.
Print Assumptions C05_ini_flag_orders_agree.
Print Assumptions C05_ini_defaults_beat_env_and_tags.
Print Assumptions C05_end_to_end.
Print Assumptions C05_no_defaults_after_error.
Print Assumptions prologue_arms.
