(* C02 (interchangeable spellings of an option occurrence), C04 (typed errors of the
   argument loop) and C20 (nearest-command message) for Model/Parse.v, Model/Closest.v. *)
From GoFlags Require Import Base.Str Base.Utf8 Golib.Strings Golib.Strconv
     Model.Types Model.Tag Model.Scan Model.Lookup Model.Convert Model.State Model.Closest Model.Parse.
From GoFlags Require Import Proofs.FrameBase Proofs.FrameParse Proofs.LookupSpec
     Proofs.QuoteUtf8 Proofs.QuoteEsc Proofs.QuoteSpec.
From Coq Require Import Lia ZifyN ZifyNat ZifyBool Permutation Sorted.
Open Scope N_scope.

(* ====================================================================== *)
(* C20, part 1: closest_choice returns the FIRST minimum                    *)
(* ====================================================================== *)

Lemma closest_aux_spec w : forall cs pre mid best bestd c l,
  bestd = lev_go w best ->
  (forall p, In p pre -> (bestd < lev_go w p)%nat) ->
  (forall q, In q mid -> (bestd <= lev_go w q)%nat) ->
  closest_aux w cs best bestd = (c, l) ->
  l = lev_go w c /\
  exists pre' post, pre ++ best :: mid ++ cs = pre' ++ c :: post /\
    (forall p, In p pre' -> (l < lev_go w p)%nat) /\
    (forall q, In q post -> (l <= lev_go w q)%nat).
Proof.
  induction cs as [|x cs IH]; intros pre mid best bestd c l Hb Hpre Hmid H; cbn [closest_aux] in H.
  - injection H as <- <-. split; [exact Hb|]. exists pre, mid.
    rewrite app_nil_r. repeat split; auto.
  - cbv zeta in H. destruct (Nat.ltb (lev_go w x) bestd) eqn:E.
    + apply Nat.ltb_lt in E.
      destruct (IH (pre ++ best :: mid) [] x (lev_go w x) c l eq_refl) as (Hl & pre' & post & Heq & Hp & Hq);
        [| |exact H|].
      { intros p Hp. apply in_app_or in Hp. destruct Hp as [Hp|[<-|Hp]].
        - specialize (Hpre p Hp). lia.
        - lia.
        - specialize (Hmid p Hp). lia. }
      { intros q []. }
      split; [exact Hl|]. exists pre', post. split; [|split; assumption].
      rewrite <- Heq. rewrite <- app_assoc. reflexivity.
    + apply Nat.ltb_ge in E.
      destruct (IH pre (mid ++ [x]) best bestd c l Hb Hpre) as (Hl & pre' & post & Heq & Hp & Hq);
        [|exact H|].
      { intros q Hq. apply in_app_or in Hq. destruct Hq as [Hq|[<-|[]]]; [apply Hmid; exact Hq|exact E]. }
      split; [exact Hl|]. exists pre', post. split; [|split; assumption].
      rewrite <- Heq. rewrite <- app_assoc. reflexivity.
Qed.

Theorem C20_closest_is_minimum : forall (w : str) (names : list str) (c : str) (l : nat),
  names <> [] ->
  closest_choice w names = (c, l) ->
  In c names /\
  l = lev_go w c /\
  (forall c', In c' names -> (l <= lev_go w c')%nat) /\
  (exists pre post, names = pre ++ c :: post /\ forall p, In p pre -> (l < lev_go w p)%nat).
Proof.
  intros w names c l Hne H. destruct names as [|c0 cs]; [congruence|]. cbn [closest_choice] in H.
  destruct (closest_aux_spec w cs [] [] c0 (lev_go w c0) c l eq_refl) as (Hl & pre & post & Heq & Hp & Hq);
    [intros p []|intros q []|exact H|].
  cbn [app] in Heq.
  split; [rewrite Heq; apply in_or_app; right; left; reflexivity|].
  split; [exact Hl|]. split.
  - intros c' Hin. rewrite Heq in Hin. apply in_app_or in Hin. destruct Hin as [Hin|[<-|Hin]].
    + specialize (Hp c' Hin). lia.
    + lia.
    + apply Hq; exact Hin.
  - exists pre, post. split; [exact Heq|exact Hp].
Qed.

(* for completeness: the empty list of choices *)
Lemma closest_choice_nil : forall w, closest_choice w [] = ([], 0%nat).
Proof. reflexivity. Qed.

Example C20_closest_example :
  closest_choice (s2l "comit") [s2l "clone"; s2l "commit"; s2l "comet"] = (s2l "commit", 1%nat).
Proof. reflexivity. Qed.

(* ====================================================================== *)
(* C20, part 2: sort_strs, visible_sorted_names, estimate_command            *)
(* ====================================================================== *)

(* a <= b in Go's byte order on strings *)
Definition str_le (a b : str) : Prop := str_ltb b a = false.

Lemma str_ltb_asym : forall a b, str_ltb a b = true -> str_ltb b a = false.
Proof.
  induction a as [|x a IH]; intros [|y b]; cbn [str_ltb]; intros H; try reflexivity; try discriminate H.
  destruct (N.ltb_spec x y), (N.ltb_spec y x); try reflexivity; try discriminate H; try lia.
  all: try (apply IH; exact H).
Qed.

Lemma str_le_trans : forall a b c, str_le a b -> str_le b c -> str_le a c.
Proof.
  unfold str_le.
  induction a as [|x a IH]; intros [|y b] [|z c]; cbn [str_ltb]; intros H1 H2;
    try reflexivity; try discriminate.
  destruct (N.ltb_spec y x), (N.ltb_spec x y), (N.ltb_spec z y), (N.ltb_spec y z),
           (N.ltb_spec z x), (N.ltb_spec x z);
    try discriminate; try reflexivity; try lia.
  all: try (eapply IH; eauto).
Qed.

Lemma str_le_antisym : forall a b, str_le a b -> str_le b a -> a = b.
Proof.
  unfold str_le.
  induction a as [|x a IH]; intros [|y b]; cbn [str_ltb]; intros H1 H2;
    try reflexivity; try discriminate.
  destruct (N.ltb_spec y x), (N.ltb_spec x y); try discriminate; try lia.
  f_equal; [lia|]. apply IH; assumption.
Qed.

Lemma insert_str_perm x : forall l, Permutation (insert_str x l) (x :: l).
Proof.
  induction l as [|y l IH]; cbn [insert_str]; [apply Permutation_refl|].
  destruct (str_ltb y x).
  - eapply perm_trans; [apply perm_skip; exact IH|apply perm_swap].
  - destruct (str_ltb x y); [apply Permutation_refl|].
    eapply perm_trans; [apply perm_skip; exact IH|apply perm_swap].
Qed.

Lemma sort_strs_perm : forall l, Permutation (sort_strs l) l.
Proof.
  induction l as [|x l IH]; [apply perm_nil|].
  change (sort_strs (x :: l)) with (insert_str x (sort_strs l)).
  eapply perm_trans; [apply insert_str_perm|apply perm_skip; exact IH].
Qed.

Lemma insert_str_hd y x l : HdRel str_le y l -> str_le y x -> HdRel str_le y (insert_str x l).
Proof.
  intros H Hx. destruct l as [|z l]; cbn [insert_str]; [constructor; exact Hx|].
  inversion H; subst.
  destruct (str_ltb z x); [constructor; assumption|].
  destruct (str_ltb x z); constructor; assumption.
Qed.

Lemma insert_str_sorted x : forall l, Sorted str_le l -> Sorted str_le (insert_str x l).
Proof.
  induction l as [|y l IH]; intros H; cbn [insert_str]; [repeat constructor|].
  inversion H as [|? ? Hs Hh]; subst.
  destruct (str_ltb y x) eqn:E1.
  - constructor; [apply IH; exact Hs|]. apply insert_str_hd; [exact Hh|].
    apply str_ltb_asym; exact E1.
  - destruct (str_ltb x y) eqn:E2.
    + constructor; [exact H|]. constructor. exact E1.
    + constructor; [apply IH; exact Hs|]. apply insert_str_hd; [exact Hh|exact E2].
Qed.

Lemma sort_strs_sorted : forall l, Sorted str_le (sort_strs l).
Proof.
  induction l as [|x l IH]; [constructor|].
  change (sort_strs (x :: l)) with (insert_str x (sort_strs l)).
  apply insert_str_sorted; exact IH.
Qed.

Lemma sort_strs_strongly_sorted : forall l, StronglySorted str_le (sort_strs l).
Proof.
  intros l. apply Sorted_StronglySorted; [|apply sort_strs_sorted].
  intros a b c. apply str_le_trans.
Qed.

(* hidden commands are never suggested or enumerated: the candidate list consists of
   exactly the names (not the aliases) of the visible sub-commands, in sorted order *)
Theorem C20_hidden_never : forall (c : command),
  (forall n, In n (visible_sorted_names c) ->
     exists sc, In sc (cmd_subs c) /\ c_hidden (cmd_info sc) = false /\ c_name (cmd_info sc) = n) /\
  (forall sc, In sc (cmd_subs c) -> c_hidden (cmd_info sc) = false ->
     In (c_name (cmd_info sc)) (visible_sorted_names c)) /\
  Permutation (visible_sorted_names c)
              (map (fun sc => c_name (cmd_info sc))
                   (filter (fun sc => negb (c_hidden (cmd_info sc))) (cmd_subs c))) /\
  StronglySorted (fun a b => str_ltb b a = false) (visible_sorted_names c).
Proof.
  intros c. unfold visible_sorted_names.
  set (l := map _ (filter _ (cmd_subs c))).
  assert (P : Permutation (sort_strs l) l) by apply sort_strs_perm.
  split; [|split; [|split]].
  - intros n Hin. apply (Permutation_in _ P) in Hin. unfold l in Hin.
    apply in_map_iff in Hin. destruct Hin as (sc & Hn & Hf).
    apply filter_In in Hf. destruct Hf as [Hs Hh].
    exists sc. split; [exact Hs|]. split; [|exact Hn].
    destruct (c_hidden (cmd_info sc)); [discriminate Hh|reflexivity].
  - intros sc Hs Hh. apply (Permutation_in _ (Permutation_sym P)). unfold l.
    apply in_map_iff. exists sc. split; [reflexivity|].
    apply filter_In. split; [exact Hs|]. rewrite Hh. reflexivity.
  - exact P.
  - apply sort_strs_strongly_sorted.
Qed.

(* the two tails of the ErrUnknownCommand message *)
Definition suggestion_tail (c : str) : str := s2l ", did you mean `" ++ c ++ s2l "'?".
Definition enumeration_tail (names : list str) : str :=
  match names with
  | [] => []
  | [n] => s2l ". You should use the " ++ n ++ s2l " command"
  | _ => s2l ". Please specify one command of: " ++ one_of names
  end.
Definition required_text (names : list str) : str :=
  match names with
  | [] => []
  | [n] => s2l "Please specify the " ++ n ++ s2l " command"
  | _ => s2l "Please specify one command of: " ++ one_of names
  end.

Lemma suggestion_tail_head c : exists t, suggestion_tail c = 44 :: t.
Proof. eexists. reflexivity. Qed.
Lemma enumeration_tail_head names : enumeration_tail names = [] \/ exists t, enumeration_tail names = 46 :: t.
Proof. destruct names as [|n [|n2 l]]; [left; reflexivity|right; eexists; reflexivity..]. Qed.

Lemma enumeration_not_suggestion names c : enumeration_tail names <> suggestion_tail c.
Proof.
  destruct (suggestion_tail_head c) as [t ->].
  destruct (enumeration_tail_head names) as [->|[t' ->]]; intros H; discriminate H.
Qed.

Theorem C20_message_shape : forall (root : command) (s : pst),
  let names := visible_sorted_names (cur_cmd root s) in
  match ps_ret s with
  | w :: _ =>
    let c := fst (closest_choice w names) in
    let l := snd (closest_choice w names) in
    let base := s2l "Unknown command `" ++ w ++ s2l "'" in
    exists msg, estimate_command root s = EFlags ErrUnknownCommand msg /\
      ((2 * l < length c)%nat -> msg = base ++ suggestion_tail c) /\
      (~ (2 * l < length c)%nat ->
         msg = base ++ enumeration_tail names /\ forall c', msg <> base ++ suggestion_tail c') /\
      (msg = base ++ suggestion_tail c <-> (2 * l < length c)%nat)
  | [] => estimate_command root s = EFlags ErrCommandRequired (required_text names)
  end.
Proof.
  intros root s names. unfold estimate_command. fold names.
  destruct (ps_ret s) as [|w ret]; [destruct names as [|n [|n2 l]]; reflexivity|].
  cbv zeta. destruct (closest_choice w names) as [c l]. cbn [fst snd].
  destruct (Nat.ltb_spec (2 * l) (length c)) as [Hlt|Hge].
  - eexists. split; [reflexivity|]. split; [intros _; reflexivity|].
    split; [intros Hn; exfalso; apply Hn; exact Hlt|].
    split; [intros _; exact Hlt|intros _; reflexivity].
  - exists ((s2l "Unknown command `" ++ w ++ s2l "'") ++ enumeration_tail names).
    split; [destruct names as [|n [|n2 l']]; cbn [enumeration_tail]; rewrite ?app_nil_r; reflexivity|].
    assert (NS : forall c', (s2l "Unknown command `" ++ w ++ s2l "'") ++ enumeration_tail names <>
                            (s2l "Unknown command `" ++ w ++ s2l "'") ++ suggestion_tail c').
    { intros c' H. apply app_inv_head in H. exact (enumeration_not_suggestion _ _ H). }
    split; [intros Hlt; exfalso; lia|].
    split; [intros _; split; [reflexivity|exact NS]|].
    split; [intros H; exfalso; exact (NS c H)|intros Hlt; exfalso; lia].
Qed.

(* ====================================================================== *)
(* C04: classification of the errors recorded by the argument loop           *)
(* ====================================================================== *)

Notation wpT := (wp (fun _ : str => True)).

Definition err_opt (P : err -> Prop) (e : option err) : Prop :=
  match e with Some x => P x | None => True end.

(* errors of Option.Set *)
Definition is_set_err (e : err) : Prop :=
  (exists m, e = EFlags ErrInvalidChoice m) \/ (exists m, e = EFlags ErrHelp m) \/ (exists m, e = EForeign m).
(* errors returned by parseOption *)
Definition is_option_err (e : err) : Prop :=
  exists t m, e = EFlags t m /\
    In t [ErrExpectedArgument; ErrNoArgumentForBool; ErrMarshal; ErrInvalidChoice; ErrHelp].
(* errors returned by parseLong / parseShort *)
Definition is_flag_err (e : err) : Prop :=
  exists t m, e = EFlags t m /\
    In t [ErrUnknownFlag; ErrExpectedArgument; ErrNoArgumentForBool; ErrMarshal; ErrInvalidChoice; ErrHelp].
(* errors recorded by one loop iteration *)
Definition is_loop_err (e : err) : Prop :=
  (exists t m, e = EFlags t m /\
     In t [ErrUnknownFlag; ErrExpectedArgument; ErrNoArgumentForBool; ErrMarshal; ErrInvalidChoice; ErrHelp]) \/
  (exists m, e = EForeign m).

Definition not_unknown (e : err) : Prop :=
  match e with EFlags ErrUnknownFlag _ => False | _ => True end.

Lemma option_err_flag e : is_option_err e -> is_flag_err e.
Proof. intros (t & m & -> & H). exists t, m. split; [reflexivity|right; exact H]. Qed.

Lemma option_err_not_unknown e : is_option_err e -> not_unknown e.
Proof.
  intros (t & m & -> & H). cbn [In] in H.
  destruct H as [<-|[<-|[<-|[<-|[<-|[]]]]]]; exact I.
Qed.

Definition step_state (sr : step_res) : pst := match sr with Continue s _ | Break s _ => s end.
Definition step_rt (sr : step_res) : rt := match sr with Continue _ r | Break _ r => r end.

Section Typed.
  Variable cfg : pconfig.
  Variable orc : oracles.
  Variable root : command.
  Variable help_text : rt -> str.

  Lemma marshal_error_cls oc m : is_option_err (marshal_error cfg oc m).
  Proof. unfold marshal_error. eexists; eexists. split; [reflexivity|]. cbn [In]. tauto. Qed.

  Lemma wrap_marshal_cls oc e : is_set_err e -> is_option_err (wrap_marshal cfg oc e).
  Proof.
    intros [[m ->]|[[m ->]|[m ->]]]; cbn [wrap_marshal].
    - eexists; eexists. split; [reflexivity|]. cbn [In]. tauto.
    - eexists; eexists. split; [reflexivity|]. cbn [In]. tauto.
    - apply marshal_error_cls.
  Qed.

  Lemma opt_call_cls oc arg r :
    wpT (opt_call orc help_text oc arg r) (fun re => err_opt is_set_err (snd re)).
  Proof.
    assert (F : forall r0,
      wpT (if o_is_help (oc_opt oc) then Ok (r0, Some (EFlags ErrHelp (help_text r0)))
           else match rt_vals r0 (o_fid (oc_opt oc)), o_ty (oc_opt oc) with
                | VFunc true _, _ => Panic (s2l "reflect: call of nil function")
                | VFunc false fails, TFunc _ true =>
                  Ok (r0, if fails then Some (foreign (s2l "callback failed")) else None)
                | _, _ => Ok (r0, None)
                end) (fun re => err_opt is_set_err (snd re))).
    { intros r0. destruct (o_is_help (oc_opt oc)).
      { cbn [wp snd err_opt]. right; left. eexists; reflexivity. }
      destruct (rt_vals r0 (o_fid (oc_opt oc))); try exact I.
      destruct isnil; [exact I|].
      destruct (o_ty (oc_opt oc)); try exact I. destruct ret_err; [|exact I].
      destruct fails; [|exact I]. cbn [wp snd err_opt]. right; right. eexists; reflexivity. }
    unfold opt_call. cbv zeta.
    destruct arg as [v|]; destruct (o_ty (oc_opt oc)) as [k|k|e|k1 k2|[k|] b] eqn:E; try exact I.
    - apply wp_bind.
      destruct (convert orc (o_base (oc_opt oc)) v (TScalar k) (zero_kind k)) as [[x [e|]]| |];
        cbn [wp]; try exact I.
      + right; right. eexists; reflexivity.
      + apply F.
    - apply F.
    - apply F.
  Qed.

  Lemma opt_set_cls oc arg r :
    wpT (opt_set orc (pc_nsdelim cfg) help_text oc arg r) (fun re => err_opt is_set_err (snd re)).
  Proof.
    unfold opt_set. cbv zeta.
    set (r1 := set_fl _ _ _). clearbody r1.
    apply wp_bind.
    assert (K : wpT (if is_func (o_ty (oc_opt oc)) then opt_call orc help_text oc arg r1
         else bind (convert orc (o_base (oc_opt oc)) match arg with Some v => v | None => [] end
                       (o_ty (oc_opt oc)) (rt_vals r1 (o_fid (oc_opt oc))))
                (fun cv => let '(v, e) := cv in Ok (set_val r1 (o_fid (oc_opt oc)) v, option_map foreign e)))
         (fun re => err_opt is_set_err (snd re))).
    { destruct (is_func _); [apply opt_call_cls|].
      destruct (convert _ _ _ _ _) as [[v [e|]]| |]; cbn [bind wp snd option_map err_opt]; try exact I.
      right; right. eexists; reflexivity. }
    destruct (o_choices (oc_opt oc)) as [|c cs]; [exact K|].
    destruct arg as [v|]; [|exact K].
    destruct (existsb _ _); [exact K|].
    cbn [wp snd err_opt]. left. eexists; reflexivity.
  Qed.

  (* parseOption: the state keeps its recorded error; the returned error is typed *)
  Definition opt_post (P : err -> Prop) (s : pst) (x : pst * rt * option err) : Prop :=
    ps_err (fst (fst x)) = ps_err s /\ err_opt P (snd x).

  Lemma parse_option_cls oc canarg argument s r :
    wpT (parse_option cfg orc help_text oc canarg argument s r) (opt_post is_option_err s).
  Proof.
    unfold parse_option. cbv zeta.
    assert (FIN : forall s0 a r0, ps_err s0 = ps_err s ->
      wpT (bind (opt_set orc (pc_nsdelim cfg) help_text oc a r0)
                (fun rr => Ok (s0, fst rr, option_map (wrap_marshal cfg oc) (snd rr))))
          (opt_post is_option_err s)).
    { intros s0 a r0 H0. wp_bind_with opt_set_cls. intros [r' [e|]] H; cbn [fst snd err_opt] in *.
      - split; [exact H0|]. cbn [snd option_map err_opt]. apply wrap_marshal_cls; exact H.
      - split; [exact H0|exact I]. }
    assert (WA : forall s0 a, ps_err s0 = ps_err s ->
      wpT (match (if o_unquote (oc_opt oc) then match a with 34 :: _ => unquote a | _ => Some a end else Some a) with
           | None => Ok (s0, r, Some (marshal_error cfg oc err_syntax))
           | Some a' => bind (opt_set orc (pc_nsdelim cfg) help_text oc (Some a') r)
                             (fun rr => Ok (s0, fst rr, option_map (wrap_marshal cfg oc) (snd rr)))
           end) (opt_post is_option_err s)).
    { intros s0 a H0.
      destruct (if o_unquote (oc_opt oc) then _ else _).
      - apply FIN; exact H0.
      - split; [exact H0|]. cbn [snd err_opt]. apply marshal_error_cls. }
    destruct (negb (can_argument (oc_opt oc))).
    - destruct argument.
      + split; [reflexivity|]. cbn [snd err_opt]. eexists; eexists. split; [reflexivity|]. cbn [In]. tauto.
      + apply FIN; reflexivity.
    - destruct argument as [a|].
      + apply WA. reflexivity.
      + destruct (if canarg then ps_args s else []) as [|a rest] eqn:E.
        * destruct (o_optional (oc_opt oc)).
          -- generalize (opt_empty (oc_opt oc) r).
             induction (o_optval (oc_opt oc)) as [|v vs IH]; intros r0.
             ++ split; [reflexivity|exact I].
             ++ wp_bind_with opt_set_cls. intros [r' [e|]] H; cbn [fst snd err_opt] in *.
                ** split; [reflexivity|]. cbn [snd option_map err_opt]. apply wrap_marshal_cls; exact H.
                ** apply IH.
          -- split; [reflexivity|]. cbn [snd err_opt]. eexists; eexists. split; [reflexivity|]. cbn [In]. tauto.
        * destruct (negb (is_valid_value _ _)).
          -- destruct (has_percent _); [exact I|].
             split; [reflexivity|]. cbn [snd err_opt]. eexists; eexists. split; [reflexivity|]. cbn [In]. tauto.
          -- destruct (_ && _).
             ++ split; [reflexivity|]. cbn [snd err_opt]. eexists; eexists. split; [reflexivity|]. cbn [In]. tauto.
             ++ apply WA. reflexivity.
  Qed.

  Lemma opt_post_flag s x : opt_post is_option_err s x -> opt_post is_flag_err s x.
  Proof.
    intros [A B]. split; [exact A|]. destruct (snd x); [apply option_err_flag; exact B|exact I].
  Qed.

  Lemma unknown_flag_cls n : is_flag_err (unknown_flag n).
  Proof. eexists; eexists. split; [reflexivity|]. cbn [In]. tauto. Qed.

  Lemma parse_long_cls name argument s r :
    wpT (parse_long cfg orc help_text name argument s r) (opt_post is_flag_err s).
  Proof.
    unfold parse_long. destruct (find_last _ _).
    - eapply wp_conseq; [apply parse_option_cls|apply opt_post_flag].
    - split; [reflexivity|]. apply unknown_flag_cls.
  Qed.

  Lemma short_loop_cls total rs : forall argument s r,
    wpT (short_loop cfg orc help_text total rs argument s r) (opt_post is_flag_err s).
  Proof.
    induction rs as [|[[i c] n] rs IH]; intros argument s r; cbn [short_loop].
    - split; [reflexivity|exact I].
    - destruct (find_last _ _) as [oc|].
      + wp_bind_with parse_option_cls. intros [[s' r'] [e|]] [A B]; cbn [fst snd] in *.
        * split; [exact A|]. cbn [snd err_opt]. apply option_err_flag; exact B.
        * eapply wp_conseq; [apply IH|]. intros x [C D]. split; [congruence|exact D].
      + split; [reflexivity|]. apply unknown_flag_cls.
  Qed.

  Lemma parse_short_cls optname argument s r :
    wpT (parse_short cfg orc help_text optname argument s r) (opt_post is_flag_err s).
  Proof.
    unfold parse_short.
    destruct (match argument with None => _ | Some _ => _ end) as [o a].
    apply short_loop_cls.
  Qed.

  (* addArgs: the only error it records is the (foreign) conversion error *)
  Definition args_post (s : pst) (x : pst * rt * option err) : Prop :=
    ps_err (fst (fst x)) = ps_err s \/ exists m, ps_err (fst (fst x)) = Some (EForeign m).

  Lemma add_args_cls args : forall s r, wpT (add_args orc args s r) (args_post s).
  Proof.
    induction args as [|a rest IH]; intros s r; cbn [add_args].
    - left; reflexivity.
    - destruct (ps_pos s) as [|p ps'].
      + left; reflexivity.
      + apply wp_bind.
        destruct (convert orc (a_base p) a (a_ty p) (rt_vals r (a_fid p))) as [[v [m|]]| |];
          cbn [wp]; try exact I.
        * right. eexists; reflexivity.
        * eapply wp_conseq; [apply IH|]. intros x H. unfold args_post in *.
          destruct (is_slice (a_ty p)); exact H.
  Qed.

  Lemma parse_non_option_cls s r :
    wpT (parse_non_option cfg orc root s r) (args_post s).
  Proof.
    unfold parse_non_option.
    destruct (ps_pos s); [|apply add_args_cls].
    cbv zeta.
    destruct (_ && _); [|apply add_args_cls].
    destruct (find_last _ _).
    - left; reflexivity.
    - destruct (negb _); [|apply add_args_cls].
      wp_bind_with add_args_cls. intros [[s' r'] e] H. exact H.
  Qed.

  Definition step_err_post (s : pst) (sr : step_res) : Prop :=
    ps_err (step_state sr) = ps_err s \/
    exists e, ps_err (step_state sr) = Some e /\ is_loop_err e.

  Lemma args_post_step s s0 x sr :
    ps_err s0 = ps_err s -> args_post s0 x -> ps_err (step_state sr) = ps_err (fst (fst x)) ->
    step_err_post s sr.
  Proof.
    intros E0 [H|[m H]] E.
    - left. congruence.
    - right. exists (EForeign m). split; [congruence|]. right. eexists; reflexivity.
  Qed.

  Lemma step_cls s r : wpT (step cfg orc root help_text s r) (step_err_post s).
  Proof.
    unfold step.
    destruct (ps_args s) as [|a rest] eqn:E; [left; reflexivity|].
    cbv zeta.
    set (s0 := ps_with_args s a rest).
    assert (E0 : ps_err s0 = ps_err s) by reflexivity.
    clearbody s0.
    destruct (_ && str_eqb a _).
    { wp_bind_with add_args_cls. intros [[s' r'] e] H.
      eapply args_post_step; [exact E0|exact H|reflexivity]. }
    destruct (negb (argument_is_option a)).
    { destruct (_ && _).
      - wp_bind_with add_args_cls. intros [[s1 r1] [e1|]] H; cbn [fst snd] in *.
        + eapply args_post_step; [exact E0|exact H|reflexivity].
        + wp_bind_with add_args_cls. intros [[s2 r2] e2] H2; cbn [fst snd] in *.
          destruct H as [H|[m H]].
          * eapply args_post_step; [|exact H2|reflexivity]. cbn [fst] in H. congruence.
          * destruct H2 as [H2|[m2 H2]]; cbn [fst] in *.
            -- right. exists (EForeign m). split; [cbn [step_state]; congruence|]. right; eexists; reflexivity.
            -- right. exists (EForeign m2). split; [exact H2|]. right; eexists; reflexivity.
      - wp_bind_with parse_non_option_cls. intros [[s' r'] [e|]] H; cbn [fst snd] in *.
        + eapply args_post_step; [exact E0|exact H|reflexivity].
        + eapply args_post_step; [exact E0|exact H|reflexivity]. }
    destruct (split_option a) as [[islong optname] argument].
    apply wp_bind.
    eapply wp_conseq with (Q := opt_post is_flag_err s0).
    { destruct islong; [apply parse_long_cls|apply parse_short_cls]. }
    intros [[s' r'] [er|]] [A B]; cbn [fst snd err_opt] in *.
    2:{ left. cbn [wp step_state]. congruence. }
    destruct (_ || _).
    { right. exists er. split; [reflexivity|]. left. exact B. }
    destruct (po_ignore _).
    { wp_bind_with add_args_cls. intros [[s2 r2] e2] H2; cbn [fst snd] in *.
      eapply args_post_step; [|exact H2|reflexivity]. congruence. }
    unfold run_handler.
    destruct (pc_handler cfg); cbn [wp];
      first [ left; cbn [step_state ps_with_args ps_err]; congruence
            | right; eexists; split; [reflexivity|right; eexists; reflexivity] ].
  Qed.

  Theorem C04_typed_errors : forall (s : pst) (r : rt) (sr : step_res),
    step cfg orc root help_text s r = Ok sr ->
    ps_err (step_state sr) <> ps_err s ->
    exists e, ps_err (step_state sr) = Some e /\
      ((exists t m, e = EFlags t m /\
          In t [ErrUnknownFlag; ErrExpectedArgument; ErrNoArgumentForBool; ErrMarshal; ErrInvalidChoice; ErrHelp]) \/
       (exists m, e = EForeign m)).
  Proof.
    intros s r sr H Hne.
    destruct (wp_ok _ _ _ _ (step_cls s r) H) as [Heq|Hcls]; [contradiction|exact Hcls].
  Qed.

  (* the same for the whole loop: the error recorded when the loop ends is the one
     present before it, or one of the typed errors above *)
  Theorem C04_typed_errors_loop : forall (fuel : nat) (s : pst) (r : rt) (s' : pst) (r' : rt),
    run_loop cfg orc root help_text fuel s r = Ok (s', r') ->
    ps_err s' = ps_err s \/ exists e, ps_err s' = Some e /\ is_loop_err e.
  Proof.
    induction fuel as [|f IH]; intros s r s' r' H; cbn [run_loop] in H; [discriminate H|].
    destruct (ps_args s) as [|a rest] eqn:E.
    { injection H as <- <-. left; reflexivity. }
    pose proof (step_cls s r) as W.
    destruct (step cfg orc root help_text s r) as [[s1 r1|s1 r1]| |]; cbn [bind] in H; try discriminate H;
      cbn [wp] in W.
    - destruct (IH _ _ _ _ H) as [K|K]; [|right; exact K].
      destruct W as [W|W]; cbn [step_state] in W; [left; congruence|right].
      destruct W as (e & We & Wc). exists e. split; [congruence|exact Wc].
    - injection H as <- <-. exact W.
  Qed.
End Typed.

(* ====================================================================== *)
(* C02: interchangeable spellings                                            *)
(* ====================================================================== *)

(* ---- UTF-8 facts: encoding a valid rune and decoding it again ---- *)
Ltac Zify.zify_post_hook ::= Z.div_mod_to_equations.

Lemma rune_len_encode c : valid_rune c = true -> rune_len c = Some (length (encode_rune c)).
Proof.
  unfold valid_rune, rune_len, encode_rune, is_surrogate, in_range. intros H.
  split_ifs; cbn [length]; first [reflexivity | exfalso; lia].
Qed.

Lemma encode_decode c t : valid_rune c = true ->
  decode_rune (encode_rune c ++ t) = (c, length (encode_rune c)).
Proof.
  unfold valid_rune, encode_rune, is_surrogate, in_range. intros H.
  destruct (N.ltb_spec c 128).
  { cbn [app length decode_rune]. destruct (N.ltb_spec c 128); [reflexivity|lia]. }
  destruct (N.ltb_spec c 2048).
  { pose proof (dec_prefix _ _ _ (dec_2 (192 + c / 64) (128 + c mod 64) [] ltac:(lia) ltac:(lia))
                           ltac:(lia) t) as D.
    cbn [firstn] in D. cbn [length]. rewrite D. f_equal. lia. }
  destruct ((55296 <=? c) && (c <=? 57343) || (1114111 <? c)) eqn:E; [exfalso; lia|].
  destruct (N.ltb_spec c 65536).
  { pose proof (dec_prefix _ _ _
       (dec_3 (224 + c / 4096) (128 + (c / 64) mod 64) (128 + c mod 64) []
              ltac:(lia) ltac:(lia) ltac:(lia) ltac:(lia) ltac:(lia)) ltac:(lia) t) as D.
    cbn [firstn] in D. cbn [length]. rewrite D. f_equal. lia. }
  pose proof (dec_prefix _ _ _
       (dec_4 (240 + c / 262144) (128 + (c / 4096) mod 64) (128 + (c / 64) mod 64) (128 + c mod 64) []
              ltac:(lia) ltac:(lia) ltac:(lia) ltac:(lia) ltac:(lia) ltac:(lia)) ltac:(lia) t) as D.
  cbn [firstn] in D. cbn [length]. rewrite D. f_equal. lia.
Qed.
Ltac Zify.zify_post_hook ::= idtac.

Lemma encode_nonempty c : encode_rune c <> [].
Proof. unfold encode_rune. split_ifs; discriminate. Qed.

(* [x] is the UTF-8 encoding of the rune [c], and decodes back to it *)
Record rune_enc (c : N) (x : str) : Prop := {
  re_enc : encode_rune c = x;
  re_dec : forall t, decode_rune (x ++ t) = (c, length x);
  re_len : rune_len c = Some (length x);
  re_ne : x <> [] }.

Lemma valid_rune_enc c : valid_rune c = true -> rune_enc c (encode_rune c).
Proof.
  intros H. split; [reflexivity|intros t; apply encode_decode; exact H|apply rune_len_encode; exact H|
                    apply encode_nonempty].
Qed.

Lemma ascii_rune_enc a : a < 128 -> rune_enc a [a].
Proof.
  intros H.
  assert (E : encode_rune a = [a]).
  { unfold encode_rune. destruct (N.ltb_spec a 128); [reflexivity|lia]. }
  rewrite <- E. apply valid_rune_enc. unfold valid_rune. lia.
Qed.

Lemma rune_enc_hd c x : rune_enc c x -> c <> 45 -> exists b t, x = b :: t /\ b <> 45.
Proof.
  intros R Hc. destruct x as [|b t]; [exfalso; exact (re_ne _ _ R eq_refl)|].
  exists b, t. split; [reflexivity|].
  destruct (encode_small c b) as [->|H]; [rewrite (re_enc _ _ R); left; reflexivity|exact Hc|lia].
Qed.

Lemma rune_enc_no61 c x : rune_enc c x -> c <> 61 -> ~ In 61 x.
Proof.
  intros R Hc Hin. rewrite <- (re_enc _ _ R) in Hin.
  destruct (encode_small c 61 Hin) as [H|H]; [congruence|lia].
Qed.

(* ---- list / byte-search facts ---- *)
Lemma firstn_len_app {A} (x t : list A) : firstn (length x) (x ++ t) = x.
Proof. induction x as [|a x IH]; cbn [length app firstn]; [destruct t; reflexivity|rewrite IH; reflexivity]. Qed.
Lemma skipn_len_app {A} (x t : list A) : skipn (length x) (x ++ t) = t.
Proof. induction x as [|a x IH]; cbn [length app skipn]; [reflexivity|exact IH]. Qed.
Lemma skipn_S_len_app {A} (x : list A) a t : skipn (S (length x)) (x ++ a :: t) = t.
Proof. induction x as [|b x IH]; cbn [length app skipn]; [reflexivity|exact IH]. Qed.

Lemma index_byte_lt : forall s c pos, index_byte s c = Some pos -> (pos < length s)%nat.
Proof.
  induction s as [|x s IH]; intros c pos H; cbn [index_byte] in H; [discriminate H|].
  cbn [length]. destruct (N.eqb x c).
  - injection H as <-. lia.
  - destruct (index_byte s c) as [p|] eqn:E; cbn [option_map] in H; [|discriminate H].
    injection H as <-. specialize (IH c p E). lia.
Qed.

Lemma cut_byte_app : forall n V, ~ In 61 n -> cut_byte (n ++ 61 :: V) 61 = (n, Some V).
Proof.
  induction n as [|x n IH]; intros V H; cbn [app cut_byte].
  - reflexivity.
  - destruct (N.eqb_spec x 61) as [->|Hne]; [exfalso; apply H; left; reflexivity|].
    rewrite IH by (intros Hin; apply H; right; exact Hin). reflexivity.
Qed.

Lemma cut_byte_none : forall n, ~ In 61 n -> cut_byte n 61 = (n, None).
Proof.
  induction n as [|x n IH]; intros H; cbn [cut_byte].
  - reflexivity.
  - destruct (N.eqb_spec x 61) as [->|Hne]; [exfalso; apply H; left; reflexivity|].
    rewrite IH by (intros Hin; apply H; right; exact Hin). reflexivity.
Qed.

(* ---- splitOption ---- *)
Definition short_split (body : str) : bool * str * option str :=
  let n := snd (decode_rune body) in
  match index_byte body 61 with
  | Some pos => if Nat.ltb 0 pos && Nat.eqb pos n
                then (false, firstn pos body, Some (skipn (S pos) body))
                else (false, body, None)
  | None => (false, body, None)
  end.

Lemma split_option_short b t : b <> 45 -> split_option (45 :: b :: t) = short_split (b :: t).
Proof.
  intros H. destruct b as [|p]; [reflexivity|].
  destruct p as [p|p|]; try reflexivity.
  destruct p as [p|p|]; try reflexivity.
  destruct p as [p|p|]; try reflexivity.
  destruct p as [p|p|]; try reflexivity.
  destruct p as [p|p|]; try reflexivity.
  destruct p as [p|p|]; try reflexivity.
  congruence.
Qed.

Lemma split_option_long body : split_option (45 :: 45 :: body) =
  match cut_byte body 61 with (n, Some a) => (true, n, Some a) | (n, None) => (true, n, None) end.
Proof. reflexivity. Qed.

(* the split_option facts for long options *)
Lemma split_long_eq n V : ~ In 61 n ->
  split_option (s2l "--" ++ n ++ [61] ++ V) = (true, n, Some V).
Proof.
  intros H. change (s2l "--" ++ n ++ [61] ++ V) with (45 :: 45 :: (n ++ 61 :: V)).
  rewrite split_option_long, cut_byte_app by exact H. reflexivity.
Qed.

Lemma split_long_plain n : ~ In 61 n -> split_option (s2l "--" ++ n) = (true, n, None).
Proof.
  intros H. change (s2l "--" ++ n) with (45 :: 45 :: n).
  rewrite split_option_long, cut_byte_none by exact H. reflexivity.
Qed.

Lemma aio_long b t : b <> 45 -> argument_is_option (45 :: 45 :: b :: t) = true.
Proof.
  intros H. unfold argument_is_option. change (negb (45 =? 45)) with false. cbv iota.
  destruct (N.eqb_spec b 45); [contradiction|reflexivity].
Qed.

Lemma aio_short b t : b <> 45 -> argument_is_option (45 :: b :: t) = true.
Proof.
  intros H. unfold argument_is_option.
  destruct (N.eqb_spec b 45); [contradiction|reflexivity].
Qed.

(* the split_option facts for short options: x is one encoded rune *)
Lemma short_split_single x c : rune_enc c x -> short_split x = (false, x, None).
Proof.
  intros R. unfold short_split.
  pose proof (re_dec _ _ R []) as D. rewrite app_nil_r in D. rewrite D. cbn [snd].
  destruct (index_byte x 61) as [pos|] eqn:E; [|reflexivity].
  apply index_byte_lt in E.
  replace (Nat.eqb pos (length x)) with false by (symmetry; apply Nat.eqb_neq; lia).
  rewrite andb_false_r. reflexivity.
Qed.

Lemma short_split_eq x c V : rune_enc c x -> c <> 61 ->
  short_split (x ++ 61 :: V) = (false, x, Some V).
Proof.
  intros R Hc. unfold short_split. rewrite (re_dec _ _ R). cbn [snd].
  rewrite index_byte_app_notin by (apply (rune_enc_no61 c); assumption).
  cbn [index_byte]. change (61 =? 61) with true. cbn [option_map].
  rewrite Nat.add_0_r, Nat.eqb_refl.
  replace (Nat.ltb 0 (length x)) with true.
  2:{ symmetry; apply Nat.ltb_lt. pose proof (re_ne _ _ R). destruct x; [congruence|cbn [length]; lia]. }
  cbn [andb]. rewrite firstn_len_app, skipn_S_len_app. reflexivity.
Qed.

Lemma short_split_concat x c V : rune_enc c x -> c <> 61 -> V <> [] -> hd 0 V <> 61 ->
  short_split (x ++ V) = (false, x ++ V, None).
Proof.
  intros R Hc HV Hh. unfold short_split. rewrite (re_dec _ _ R). cbn [snd].
  rewrite index_byte_app_notin by (apply (rune_enc_no61 c); assumption).
  destruct V as [|v V']; [congruence|]. cbn [hd] in Hh. cbn [index_byte].
  destruct (N.eqb_spec v 61); [contradiction|].
  destruct (index_byte V' 61) as [k|]; cbn [option_map]; [|reflexivity].
  replace (Nat.eqb (length x + S k) (length x)) with false by (symmetry; apply Nat.eqb_neq; lia).
  rewrite andb_false_r. reflexivity.
Qed.

(* ---- range over a single rune / two ASCII runes ---- *)
Lemma range_fuel_nil f off : range_fuel f off [] = [].
Proof. destruct f; reflexivity. Qed.

Lemma range_str_single x c : rune_enc c x -> range_str x = [(0%nat, c, length x)].
Proof.
  intros R. pose proof (re_dec _ _ R []) as D. rewrite app_nil_r in D.
  pose proof (re_ne _ _ R) as Hne.
  unfold range_str. destruct x as [|b t]; [congruence|].
  change (length (b :: t)) with (S (length t)) at 1. cbn [range_fuel].
  rewrite D. cbn [Nat.add]. rewrite skipn_all, range_fuel_nil. reflexivity.
Qed.

Lemma range_str_ascii2 a b : a < 128 -> b < 128 -> range_str [a; b] = [(0%nat, a, 1%nat); (1%nat, b, 1%nat)].
Proof.
  intros Ha Hb. unfold range_str. cbn [length range_fuel].
  pose proof (re_dec _ _ (ascii_rune_enc a Ha) [b]) as Da. cbn [app length] in Da. rewrite Da.
  cbn [Nat.add skipn].
  pose proof (re_dec _ _ (ascii_rune_enc b Hb) []) as Db. cbn [app length] in Db. rewrite Db.
  reflexivity.
Qed.

(* ---- relations between parser states and between outcomes ---- *)
(* equal except for the pending arguments and the last popped token *)
Definition ps_sim (a b : pst) : Prop :=
  ps_ret a = ps_ret b /\ ps_pos a = ps_pos b /\ ps_err a = ps_err b /\
  ps_cmd a = ps_cmd b /\ ps_lk a = ps_lk b.
(* equal except for the last popped token *)
Definition ps_eqv (a b : pst) : Prop := ps_args a = ps_args b /\ ps_sim a b.

Definition res_eqv (x y : res step_res) : Prop :=
  match x, y with
  | Ok (Continue a r1), Ok (Continue b r2) => ps_eqv a b /\ r1 = r2
  | Ok (Break a r1), Ok (Break b r2) => ps_eqv a b /\ r1 = r2
  | Err e1, Err e2 => e1 = e2
  | Panic t1, Panic t2 => t1 = t2
  | _, _ => False
  end.

(* the relation for the cluster -ab versus -a -b: when the FIRST flag fails, the
   separate spelling still has the token of the second flag pending *)
Definition cluster_rel (tokb : str) (x y : res step_res) : Prop :=
  match x, y with
  | Ok (Continue a r1), Ok (Continue b r2) => ps_eqv a b /\ r1 = r2
  | Ok (Break a r1), Ok (Break b r2) =>
    ps_sim a b /\ r1 = r2 /\ (ps_args b = ps_args a \/ ps_args b = tokb :: ps_args a)
  | Err e1, Err e2 => e1 = e2
  | Panic t1, Panic t2 => t1 = t2
  | _, _ => False
  end.

Lemma ps_sim_refl a : ps_sim a a.
Proof. repeat split. Qed.
Lemma ps_sim_sym a b : ps_sim a b -> ps_sim b a.
Proof. intros (A & B & C & D & E). repeat split; congruence. Qed.
Lemma ps_sim_trans a b c : ps_sim a b -> ps_sim b c -> ps_sim a c.
Proof. intros (A & B & C & D & E) (A' & B' & C' & D' & E'). repeat split; congruence. Qed.
Lemma ps_sim_with_args a b x l y m : ps_sim a b -> ps_sim (ps_with_args a x l) (ps_with_args b y m).
Proof. intros H. exact H. Qed.
Lemma ps_sim_with_err a b e : ps_sim a b -> ps_sim (ps_with_err a e) (ps_with_err b e).
Proof. intros (A & B & C & D & E). repeat split; assumption. Qed.

Lemma dd_cond (p : bool) V : ~ (p = true /\ V = s2l "--") -> p && str_eqb V (s2l "--") = false.
Proof.
  intros H. destruct p; [|reflexivity]. cbn [andb].
  destruct (str_eqb_spec V (s2l "--")); [exfalso; apply H; split; [reflexivity|assumption]|reflexivity].
Qed.

Section Spell.
  Variable cfg : pconfig.
  Variable orc : oracles.
  Variable root : command.
  Variable help_text : rt -> str.

  (* what the loop does with the result of parseLong / parseShort *)
  Definition step_tail (a optname : str) (argument : option str) (x : pst * rt * option err) : res step_res :=
    let '(s', r', e) := x in
    match e with
    | None => Ok (Continue s' r')
    | Some er =>
      let is_unknown := match er with EFlags ErrUnknownFlag _ => true | _ => false end in
      let has_handler := match pc_handler cfg with HNone => false | _ => true end in
      if negb is_unknown || (negb (po_ignore (pc_opts cfg)) && negb has_handler) then
        Ok (Break (ps_with_err s' (Some er)) r')
      else if po_ignore (pc_opts cfg) then
        ' (s2, r2, _) <- add_args orc [a] s' r' ;; Ok (Continue s2 r2)
      else
        let r' := log_unknown r' optname argument (ps_args s') in
        match run_handler cfg optname argument (ps_args s') with
        | inr he => Ok (Break (ps_with_err s' (Some he)) r')
        | inl newargs => Ok (Continue (ps_with_args s' (ps_arg s') newargs) r')
        end
    end.

  Lemma step_on_option s r a rest il on arg :
    ps_args s = a :: rest -> argument_is_option a = true -> split_option a = (il, on, arg) ->
    step cfg orc root help_text s r =
    bind (if il then parse_long cfg orc help_text on arg (ps_with_args s a rest) r
          else parse_short cfg orc help_text on arg (ps_with_args s a rest) r)
         (step_tail a on arg).
  Proof.
    intros Hargs Hopt Hsplit. unfold step. rewrite Hargs. cbv zeta.
    rewrite (option_not_ddash a Hopt), andb_false_r, Hopt. cbn [negb].
    rewrite Hsplit. reflexivity.
  Qed.

  Lemma step_tail_err a n g s' r' er : not_unknown er ->
    step_tail a n g (s', r', Some er) = Ok (Break (ps_with_err s' (Some er)) r').
  Proof.
    intros H. destruct er as [t m|l m|m]; [destruct t|..]; try (exfalso; exact H); reflexivity.
  Qed.

  (* state-independent part of parseOption with an argument [a] *)
  Definition set_with (oc : octx) (a : str) (r : rt) : res (rt * option err) :=
    match (if o_unquote (oc_opt oc) then match a with 34 :: _ => unquote a | _ => Some a end else Some a) with
    | None => Ok (r, Some (marshal_error cfg oc err_syntax))
    | Some a' => rr <- opt_set orc (pc_nsdelim cfg) help_text oc (Some a') r ;;
                 Ok (fst rr, option_map (wrap_marshal cfg oc) (snd rr))
    end.
  (* ... and of parseOption for a flag without argument *)
  Definition flag_set (oc : octx) (r : rt) : res (rt * option err) :=
    rr <- opt_set orc (pc_nsdelim cfg) help_text oc None r ;;
    Ok (fst rr, option_map (wrap_marshal cfg oc) (snd rr)).

  Definition lift_s (s : pst) (x : res (rt * option err)) : res (pst * rt * option err) :=
    bind x (fun re => Ok (s, fst re, snd re)).

  (* outcome of a loop iteration whose option handler finished in state [s'] *)
  Definition outcome (s' : pst) (x : res (rt * option err)) : res step_res :=
    bind x (fun re => Ok (match snd re with
                          | None => Continue s' (fst re)
                          | Some er => Break (ps_with_err s' (Some er)) (fst re)
                          end)).

  Lemma set_with_cls oc a r : wpT (set_with oc a r) (fun re => err_opt not_unknown (snd re)).
  Proof.
    unfold set_with. destruct (if o_unquote (oc_opt oc) then _ else _).
    - apply wp_bind. eapply wp_conseq; [apply (opt_set_cls cfg orc help_text)|].
      intros [r' [e|]] H; cbn [wp fst snd option_map err_opt] in *; [|exact I].
      apply option_err_not_unknown, wrap_marshal_cls; exact H.
    - cbn [wp snd err_opt]. apply option_err_not_unknown, marshal_error_cls.
  Qed.

  Lemma flag_set_cls oc r : wpT (flag_set oc r) (fun re => err_opt not_unknown (snd re)).
  Proof.
    unfold flag_set.
    apply wp_bind. eapply wp_conseq; [apply (opt_set_cls cfg orc help_text)|].
    intros [r' [e|]] H; cbn [wp fst snd option_map err_opt] in *; [|exact I].
    apply option_err_not_unknown, wrap_marshal_cls; exact H.
  Qed.

  Lemma tail_lift a n g s' X : wpT X (fun re => err_opt not_unknown (snd re)) ->
    bind (lift_s s' X) (step_tail a n g) = outcome s' X.
  Proof.
    intros W. destruct X as [[r' [e|]]| |]; try reflexivity.
    cbn [wp snd err_opt] in W. unfold lift_s, outcome. cbn [bind fst snd].
    apply step_tail_err; exact W.
  Qed.

  Lemma outcome_eqv sA sB X : ps_eqv sA sB -> res_eqv (outcome sA X) (outcome sB X).
  Proof.
    intros [HA HS]. destruct X as [[r' [e|]]| |]; cbn [outcome bind fst snd res_eqv]; try reflexivity.
    - split; [|reflexivity]. split; [exact HA|apply ps_sim_with_err; exact HS].
    - split; [|reflexivity]. split; assumption.
  Qed.

  (* ---- parseOption in the three situations ---- *)
  Lemma parse_option_inline oc canarg a s r : can_argument (oc_opt oc) = true ->
    parse_option cfg orc help_text oc canarg (Some a) s r = lift_s s (set_with oc a r).
  Proof.
    intros H. unfold parse_option, set_with, lift_s. cbv zeta. rewrite H. cbn [negb].
    destruct (if o_unquote (oc_opt oc) then _ else _) as [a'|]; [|reflexivity].
    destruct (opt_set _ _ _ _ _ _) as [[r' e]| |]; reflexivity.
  Qed.

  Lemma parse_option_separate oc a rest s r :
    can_argument (oc_opt oc) = true -> ps_args s = a :: rest ->
    is_valid_value (oc_opt oc) a = true ->
    po_passdd (pc_opts cfg) && str_eqb a (s2l "--") = false ->
    parse_option cfg orc help_text oc true None s r = lift_s (ps_with_args s a rest) (set_with oc a r).
  Proof.
    intros H Hargs Hv Hdd. unfold parse_option, set_with, lift_s. cbv zeta. rewrite H. cbn [negb].
    cbv iota. rewrite Hargs, Hv, Hdd. cbn [negb].
    destruct (if o_unquote (oc_opt oc) then _ else _) as [a'|]; [|reflexivity].
    destruct (opt_set _ _ _ _ _ _) as [[r' e]| |]; reflexivity.
  Qed.

  Lemma parse_option_flag oc canarg s r : can_argument (oc_opt oc) = false ->
    parse_option cfg orc help_text oc canarg None s r = lift_s s (flag_set oc r).
  Proof.
    intros H. unfold parse_option, flag_set, lift_s. cbv zeta. rewrite H. cbn [negb].
    destruct (opt_set _ _ _ _ _ _) as [[r' e]| |]; reflexivity.
  Qed.

  (* ---- parseShort on a single rune, with or without a concatenated value ---- *)
  Lemma bind_eta3 (X : res (pst * rt * option err)) :
    bind X (fun x => let '(s', r', e) := x in
                     match e with Some _ => Ok (s', r', e) | None => Ok (s', r', None) end) = X.
  Proof. destruct X as [[[s' r'] [e|]]| |]; reflexivity. Qed.

  Lemma short_loop_single c x arg s r oc : rune_enc c x ->
    find_last (lk_short (ps_lk s)) x = Some oc ->
    short_loop cfg orc help_text (length x) [(0%nat, c, length x)] arg s r =
    parse_option cfg orc help_text oc (negb (o_optional (oc_opt oc))) arg s r.
  Proof.
    intros R Hf. cbn [short_loop]. rewrite (re_enc _ _ R), Hf, (re_len _ _ R).
    cbn [Nat.add]. rewrite Nat.eqb_refl. cbn [andb]. apply bind_eta3.
  Qed.

  Lemma parse_short_given c x V s r oc : rune_enc c x ->
    find_last (lk_short (ps_lk s)) x = Some oc ->
    parse_short cfg orc help_text x (Some V) s r =
    parse_option cfg orc help_text oc (negb (o_optional (oc_opt oc))) (Some V) s r.
  Proof.
    intros R Hf. unfold parse_short. rewrite (range_str_single x c R).
    apply short_loop_single; assumption.
  Qed.

  Lemma parse_short_alone c x s r oc : rune_enc c x ->
    find_last (lk_short (ps_lk s)) x = Some oc ->
    parse_short cfg orc help_text x None s r =
    parse_option cfg orc help_text oc (negb (o_optional (oc_opt oc))) None s r.
  Proof.
    intros R Hf. unfold parse_short, split_short_concat.
    pose proof (re_dec _ _ R []) as D. rewrite app_nil_r in D. rewrite D, Nat.eqb_refl.
    rewrite (range_str_single x c R).
    apply short_loop_single; assumption.
  Qed.

  Lemma parse_short_concat c x V s r oc : rune_enc c x -> V <> [] ->
    find_last (lk_short (ps_lk s)) x = Some oc -> can_argument (oc_opt oc) = true ->
    parse_short cfg orc help_text (x ++ V) None s r =
    parse_option cfg orc help_text oc (negb (o_optional (oc_opt oc))) (Some V) s r.
  Proof.
    intros R HV Hf Hc. unfold parse_short, split_short_concat.
    rewrite (re_dec _ _ R V).
    replace (Nat.eqb (length x) (length (x ++ V))) with false.
    2:{ symmetry; apply Nat.eqb_neq. rewrite app_length. destruct V; [congruence|cbn [length]; lia]. }
    cbv zeta. rewrite (re_enc _ _ R), Hf, Hc, skipn_len_app.
    rewrite (range_str_single x c R).
    apply short_loop_single; assumption.
  Qed.

  (* target 2, the dispatch equalities: the three spellings reach the same parseOption call *)
  Theorem C02_short_dispatch : forall (s : pst) (r : rt) (c : N) (V : str) (oc : octx),
    valid_rune c = true ->
    find_last (lk_short (ps_lk s)) (encode_rune c) = Some oc ->
    parse_short cfg orc help_text (encode_rune c) (Some V) s r =
      parse_option cfg orc help_text oc (negb (o_optional (oc_opt oc))) (Some V) s r /\
    (V <> [] -> can_argument (oc_opt oc) = true ->
     parse_short cfg orc help_text (encode_rune c ++ V) None s r =
       parse_option cfg orc help_text oc (negb (o_optional (oc_opt oc))) (Some V) s r) /\
    parse_short cfg orc help_text (encode_rune c) None s r =
      parse_option cfg orc help_text oc (negb (o_optional (oc_opt oc))) None s r.
  Proof.
    intros s r c V oc Hv Hf. pose proof (valid_rune_enc c Hv) as R.
    split; [eapply parse_short_given; eassumption|].
    split; [intros HV Hc; eapply parse_short_concat; eassumption|].
    eapply parse_short_alone; eassumption.
  Qed.

  (* ---- target 1: --name=V versus --name V ---- *)
  Section LongForms.
    Variables (s1 s2 : pst) (r : rt) (n V : str) (rest : list str) (oc : octx).
    Hypothesis Hsim : ps_sim s1 s2.
    Hypothesis Hne : n <> [].
    Hypothesis Hhd : hd 0 n <> 45.
    Hypothesis H61 : ~ In 61 n.
    Hypothesis Hfind : find_last (lk_long (ps_lk s1)) n = Some oc.
    Hypothesis Hcan : can_argument (oc_opt oc) = true.
    Hypothesis Hopt : o_optional (oc_opt oc) = false.
    Hypothesis Hval : is_valid_value (oc_opt oc) V = true.
    Hypothesis Hdd : ~ (po_passdd (pc_opts cfg) = true /\ V = s2l "--").
    Hypothesis Hargs1 : ps_args s1 = (s2l "--" ++ n ++ [61] ++ V) :: rest.
    Hypothesis Hargs2 : ps_args s2 = (s2l "--" ++ n) :: V :: rest.

    Lemma long_eq_nf :
      step cfg orc root help_text s1 r =
      outcome (ps_with_args s1 (s2l "--" ++ n ++ [61] ++ V) rest) (set_with oc V r).
    Proof.
      assert (A : argument_is_option (s2l "--" ++ n ++ [61] ++ V) = true).
      { destruct n as [|b n']; [congruence|]. cbn [hd] in Hhd.
        change (s2l "--" ++ (b :: n') ++ [61] ++ V) with (45 :: 45 :: b :: (n' ++ 61 :: V)).
        apply aio_long; exact Hhd. }
      rewrite (step_on_option s1 r _ rest true n (Some V) Hargs1 A (split_long_eq n V H61)).
      unfold parse_long. cbn [ps_lk ps_with_args]. rewrite Hfind, Hopt. cbn [negb].
      rewrite parse_option_inline by exact Hcan.
      apply tail_lift, set_with_cls.
    Qed.

    Lemma long_sep_nf :
      step cfg orc root help_text s2 r =
      outcome (ps_with_args (ps_with_args s2 (s2l "--" ++ n) (V :: rest)) V rest) (set_with oc V r).
    Proof.
      assert (A : argument_is_option (s2l "--" ++ n) = true).
      { destruct n as [|b n']; [congruence|]. cbn [hd] in Hhd.
        change (s2l "--" ++ (b :: n')) with (45 :: 45 :: b :: n').
        apply aio_long; exact Hhd. }
      rewrite (step_on_option s2 r _ (V :: rest) true n None Hargs2 A (split_long_plain n H61)).
      unfold parse_long. cbn [ps_lk ps_with_args].
      destruct Hsim as (_ & _ & _ & _ & Hlk). rewrite <- Hlk, Hfind, Hopt. cbn [negb].
      rewrite (parse_option_separate oc V rest) by (try assumption; try reflexivity; apply dd_cond; exact Hdd).
      apply tail_lift, set_with_cls.
    Qed.

    Lemma long_forms_eqv :
      res_eqv (step cfg orc root help_text s1 r) (step cfg orc root help_text s2 r).
    Proof.
      rewrite long_eq_nf, long_sep_nf. apply outcome_eqv.
      split; [reflexivity|]. exact Hsim.
    Qed.
  End LongForms.

  Theorem C02_long_eq_vs_separate :
    forall (s1 s2 : pst) (r : rt) (n V : str) (rest : list str) (oc : octx),
    ps_sim s1 s2 ->
    n <> [] -> hd 0 n <> 45 -> ~ In 61 n ->
    find_last (lk_long (ps_lk s1)) n = Some oc ->
    can_argument (oc_opt oc) = true ->
    o_optional (oc_opt oc) = false ->
    is_valid_value (oc_opt oc) V = true ->
    ~ (po_passdd (pc_opts cfg) = true /\ V = s2l "--") ->
    ps_args s1 = (s2l "--" ++ n ++ [61] ++ V) :: rest ->
    ps_args s2 = (s2l "--" ++ n) :: V :: rest ->
    res_eqv (step cfg orc root help_text s1 r) (step cfg orc root help_text s2 r).
  Proof. intros. eapply long_forms_eqv; eassumption. Qed.

  (* ---- target 2: -xV, -x=V, -x V ---- *)
  Section ShortForms.
    Variables (s1 s2 s3 : pst) (r : rt) (c : N) (V : str) (rest : list str) (oc : octx).
    Hypothesis Hsim2 : ps_sim s1 s2.
    Hypothesis Hsim3 : ps_sim s1 s3.
    Hypothesis Hvalid : valid_rune c = true.
    Hypothesis Hc45 : c <> 45.
    Hypothesis Hc61 : c <> 61.
    Hypothesis Hfind : find_last (lk_short (ps_lk s1)) (encode_rune c) = Some oc.
    Hypothesis Hcan : can_argument (oc_opt oc) = true.
    Hypothesis Hopt : o_optional (oc_opt oc) = false.
    Hypothesis HVne : V <> [].
    Hypothesis HVhd : hd 0 V <> 61.
    Hypothesis Hval : is_valid_value (oc_opt oc) V = true.
    Hypothesis Hdd : ~ (po_passdd (pc_opts cfg) = true /\ V = s2l "--").
    Hypothesis Hargs1 : ps_args s1 = (45 :: encode_rune c ++ V) :: rest.
    Hypothesis Hargs2 : ps_args s2 = (45 :: encode_rune c ++ 61 :: V) :: rest.
    Hypothesis Hargs3 : ps_args s3 = (45 :: encode_rune c) :: V :: rest.

    Let x := encode_rune c.
    Let R : rune_enc c x := valid_rune_enc c Hvalid.

    Lemma short_concat_nf :
      step cfg orc root help_text s1 r = outcome (ps_with_args s1 (45 :: x ++ V) rest) (set_with oc V r).
    Proof.
      destruct (rune_enc_hd c x R Hc45) as (b & t & Ex & Hb).
      assert (A : argument_is_option (45 :: x ++ V) = true).
      { rewrite Ex. apply aio_short; exact Hb. }
      assert (S : split_option (45 :: x ++ V) = (false, x ++ V, None)).
      { transitivity (short_split (x ++ V)); [|exact (short_split_concat x c V R Hc61 HVne HVhd)].
        rewrite Ex. apply split_option_short; exact Hb. }
      rewrite (step_on_option s1 r _ rest false (x ++ V) None Hargs1 A S).
      rewrite (parse_short_concat c x V _ r oc R HVne) by (try exact Hcan; exact Hfind).
      rewrite Hopt. cbn [negb].
      rewrite parse_option_inline by exact Hcan.
      apply tail_lift, set_with_cls.
    Qed.

    Lemma short_eq_nf :
      step cfg orc root help_text s2 r = outcome (ps_with_args s2 (45 :: x ++ 61 :: V) rest) (set_with oc V r).
    Proof.
      destruct (rune_enc_hd c x R Hc45) as (b & t & Ex & Hb).
      assert (A : argument_is_option (45 :: x ++ 61 :: V) = true).
      { rewrite Ex. apply aio_short; exact Hb. }
      assert (S : split_option (45 :: x ++ 61 :: V) = (false, x, Some V)).
      { transitivity (short_split (x ++ 61 :: V)); [|exact (short_split_eq x c V R Hc61)].
        rewrite Ex. apply split_option_short; exact Hb. }
      rewrite (step_on_option s2 r _ rest false x (Some V) Hargs2 A S).
      destruct Hsim2 as (_ & _ & _ & _ & Hlk).
      rewrite (parse_short_given c x V _ r oc R) by (cbn [ps_lk ps_with_args]; rewrite <- Hlk; exact Hfind).
      rewrite Hopt. cbn [negb].
      rewrite parse_option_inline by exact Hcan.
      apply tail_lift, set_with_cls.
    Qed.

    Lemma short_sep_nf :
      step cfg orc root help_text s3 r =
      outcome (ps_with_args (ps_with_args s3 (45 :: x) (V :: rest)) V rest) (set_with oc V r).
    Proof.
      destruct (rune_enc_hd c x R Hc45) as (b & t & Ex & Hb).
      assert (A : argument_is_option (45 :: x) = true).
      { rewrite Ex. apply aio_short; exact Hb. }
      assert (S : split_option (45 :: x) = (false, x, None)).
      { transitivity (short_split x); [|exact (short_split_single x c R)].
        rewrite Ex. apply split_option_short; exact Hb. }
      rewrite (step_on_option s3 r _ (V :: rest) false x None Hargs3 A S).
      destruct Hsim3 as (_ & _ & _ & _ & Hlk).
      rewrite (parse_short_alone c x _ r oc R) by (cbn [ps_lk ps_with_args]; rewrite <- Hlk; exact Hfind).
      rewrite Hopt. cbn [negb].
      rewrite (parse_option_separate oc V rest) by (try assumption; try reflexivity; apply dd_cond; exact Hdd).
      apply tail_lift, set_with_cls.
    Qed.

    Lemma short_forms_eqv :
      res_eqv (step cfg orc root help_text s1 r) (step cfg orc root help_text s2 r) /\
      res_eqv (step cfg orc root help_text s1 r) (step cfg orc root help_text s3 r).
    Proof.
      rewrite short_concat_nf, short_eq_nf, short_sep_nf. split; apply outcome_eqv.
      - split; [reflexivity|exact Hsim2].
      - split; [reflexivity|exact Hsim3].
    Qed.
  End ShortForms.

  Theorem C02_short_forms :
    forall (s1 s2 s3 : pst) (r : rt) (c : N) (V : str) (rest : list str) (oc : octx),
    ps_sim s1 s2 -> ps_sim s1 s3 ->
    valid_rune c = true -> c <> 45 -> c <> 61 ->
    find_last (lk_short (ps_lk s1)) (encode_rune c) = Some oc ->
    can_argument (oc_opt oc) = true ->
    o_optional (oc_opt oc) = false ->
    V <> [] -> hd 0 V <> 61 ->
    is_valid_value (oc_opt oc) V = true ->
    ~ (po_passdd (pc_opts cfg) = true /\ V = s2l "--") ->
    ps_args s1 = (45 :: encode_rune c ++ V) :: rest ->
    ps_args s2 = (45 :: encode_rune c ++ 61 :: V) :: rest ->
    ps_args s3 = (45 :: encode_rune c) :: V :: rest ->
    res_eqv (step cfg orc root help_text s1 r) (step cfg orc root help_text s2 r) /\
    res_eqv (step cfg orc root help_text s1 r) (step cfg orc root help_text s3 r).
  Proof. intros. eapply short_forms_eqv; eassumption. Qed.

  (* ---- target 3: the cluster -ab versus -a -b ---- *)
  (* two consecutive loop iterations (the second one only if the first continues) *)
  Definition two_steps (s : pst) (r : rt) : res step_res :=
    sr <- step cfg orc root help_text s r ;;
    match sr with
    | Continue s' r' => step cfg orc root help_text s' r'
    | Break s' r' => Ok (Break s' r')
    end.

  Lemma short_loop_cons total i c w rs arg s r oc :
    find_last (lk_short (ps_lk s)) (encode_rune c) = Some oc ->
    short_loop cfg orc help_text total ((i, c, w) :: rs) arg s r =
    bind (parse_option cfg orc help_text oc
            ((match rune_len c with Some l => Nat.eqb (i + l) total | None => false end)
             && negb (o_optional (oc_opt oc))) arg s r)
         (fun x => let '(s', r', e) := x in
                   match e with
                   | Some _ => Ok (s', r', e)
                   | None => short_loop cfg orc help_text total rs None s' r'
                   end).
  Proof. intros H. cbn [short_loop]. rewrite H. reflexivity. Qed.

  Lemma encode_ascii a : a < 128 -> encode_rune a = [a].
  Proof. intros H. unfold encode_rune. destruct (N.ltb_spec a 128); [reflexivity|lia]. Qed.

  (* one iteration on a single ASCII flag token -a *)
  Lemma single_flag_nf s r a rest oc :
    a < 128 -> a <> 45 ->
    find_last (lk_short (ps_lk s)) [a] = Some oc -> can_argument (oc_opt oc) = false ->
    ps_args s = [45; a] :: rest ->
    step cfg orc root help_text s r = outcome (ps_with_args s [45; a] rest) (flag_set oc r).
  Proof.
    intros Ha Ha45 Hf Hc Hargs.
    pose proof (ascii_rune_enc a Ha) as R.
    assert (A : argument_is_option [45; a] = true) by (apply aio_short; exact Ha45).
    assert (S : split_option [45; a] = (false, [a], None)).
    { transitivity (short_split [a]); [apply split_option_short; exact Ha45|exact (short_split_single [a] a R)]. }
    rewrite (step_on_option s r _ rest false [a] None Hargs A S).
    rewrite (parse_short_alone a [a] _ r oc R) by exact Hf.
    rewrite parse_option_flag by exact Hc.
    apply tail_lift, flag_set_cls.
  Qed.

  Section Cluster.
    Variables (s1 s2 : pst) (r : rt) (a b : N) (rest : list str) (oca ocb : octx).
    Hypothesis Hsim : ps_sim s1 s2.
    Hypothesis Ha : a < 128.
    Hypothesis Hb : b < 128.
    Hypothesis Ha45 : a <> 45.
    Hypothesis Hb45 : b <> 45.
    Hypothesis Hb61 : b <> 61.
    Hypothesis Hfa : find_last (lk_short (ps_lk s1)) [a] = Some oca.
    Hypothesis Hfb : find_last (lk_short (ps_lk s1)) [b] = Some ocb.
    Hypothesis Hca : can_argument (oc_opt oca) = false.
    Hypothesis Hcb : can_argument (oc_opt ocb) = false.
    Hypothesis Hargs1 : ps_args s1 = [45; a; b] :: rest.
    Hypothesis Hargs2 : ps_args s2 = [45; a] :: [45; b] :: rest.

    Let s0 := ps_with_args s1 [45; a; b] rest.
    Let sA := ps_with_args s2 [45; a] ([45; b] :: rest).
    Let sB := ps_with_args sA [45; b] rest.

    Lemma cluster_nf :
      step cfg orc root help_text s1 r =
      bind (flag_set oca r) (fun re1 =>
        match snd re1 with
        | Some er => Ok (Break (ps_with_err s0 (Some er)) (fst re1))
        | None => outcome s0 (flag_set ocb (fst re1))
        end).
    Proof.
      pose proof (re_dec _ _ (ascii_rune_enc a Ha) [b]) as D. cbn [app length] in D.
      assert (A : argument_is_option [45; a; b] = true) by (apply aio_short; exact Ha45).
      assert (S : split_option [45; a; b] = (false, [a; b], None)).
      { transitivity (short_split [a; b]); [apply split_option_short; exact Ha45|].
        unfold short_split. rewrite D. cbn [snd index_byte].
        destruct (N.eqb_spec a 61); [reflexivity|].
        destruct (N.eqb_spec b 61); [contradiction|]. reflexivity. }
      rewrite (step_on_option s1 r _ rest false [a; b] None Hargs1 A S). fold s0.
      unfold parse_short, split_short_concat. rewrite D.
      change (Nat.eqb 1 (length [a; b])) with false. cbv zeta.
      rewrite (encode_ascii a Ha). change (ps_lk s0) with (ps_lk s1). rewrite Hfa, Hca.
      rewrite (range_str_ascii2 a b Ha Hb).
      rewrite (short_loop_cons _ _ _ _ _ _ s0 r oca) by (rewrite (encode_ascii a Ha); exact Hfa).
      rewrite parse_option_flag by exact Hca.
      pose proof (flag_set_cls oca r) as Wa.
      destruct (flag_set oca r) as [[r1 [e1|]]| |]; unfold lift_s; cbn [bind fst snd]; try reflexivity.
      { cbn [wp snd err_opt] in Wa. apply step_tail_err; exact Wa. }
      rewrite (short_loop_cons _ _ _ _ _ _ s0 r1 ocb) by (rewrite (encode_ascii b Hb); exact Hfb).
      rewrite parse_option_flag by exact Hcb.
      pose proof (flag_set_cls ocb r1) as Wb.
      destruct (flag_set ocb r1) as [[r2 [e2|]]| |]; unfold lift_s, outcome;
        cbn [bind fst snd short_loop]; try reflexivity.
      cbn [wp snd err_opt] in Wb. apply step_tail_err; exact Wb.
    Qed.

    Lemma two_steps_nf :
      two_steps s2 r =
      bind (flag_set oca r) (fun re1 =>
        match snd re1 with
        | Some er => Ok (Break (ps_with_err sA (Some er)) (fst re1))
        | None => outcome sB (flag_set ocb (fst re1))
        end).
    Proof.
      destruct Hsim as (_ & _ & _ & _ & Hlk).
      unfold two_steps.
      rewrite (single_flag_nf s2 r a ([45; b] :: rest) oca Ha Ha45) by (try assumption; rewrite <- Hlk; exact Hfa).
      fold sA.
      destruct (flag_set oca r) as [[r1 [e1|]]| |]; unfold outcome at 1; cbn [bind fst snd]; try reflexivity.
      apply (single_flag_nf sA r1 b rest ocb Hb Hb45); [|exact Hcb|reflexivity].
      change (ps_lk sA) with (ps_lk s2). rewrite <- Hlk. exact Hfb.
    Qed.

    Lemma cluster_eqv :
      cluster_rel [45; b] (step cfg orc root help_text s1 r) (two_steps s2 r) /\
      (forall r1, opt_set orc (pc_nsdelim cfg) help_text oca None r = Ok (r1, None) ->
                  res_eqv (step cfg orc root help_text s1 r) (two_steps s2 r)).
    Proof.
      rewrite cluster_nf, two_steps_nf.
      assert (E0 : ps_eqv s0 sB) by (split; [reflexivity|exact Hsim]).
      split.
      - destruct (flag_set oca r) as [[r1 [e1|]]| |]; cbn [bind fst snd cluster_rel]; try reflexivity.
        + split; [apply ps_sim_with_err; exact Hsim|]. split; [reflexivity|]. right. reflexivity.
        + destruct (flag_set ocb r1) as [[r2 [e2|]]| |]; cbn [outcome bind fst snd cluster_rel]; try reflexivity.
          * split; [apply ps_sim_with_err; exact Hsim|]. split; [reflexivity|]. left. reflexivity.
          * split; [exact E0|reflexivity].
      - intros r1 H1. unfold flag_set at 1 3. rewrite H1. cbn [bind fst snd option_map].
        apply outcome_eqv. exact E0.
    Qed.
  End Cluster.

  Theorem C02_cluster :
    forall (s1 s2 : pst) (r : rt) (a b : N) (rest : list str) (oca ocb : octx),
    ps_sim s1 s2 ->
    a < 128 -> b < 128 -> a <> 45 -> b <> 45 -> b <> 61 ->
    find_last (lk_short (ps_lk s1)) (encode_rune a) = Some oca ->
    find_last (lk_short (ps_lk s1)) (encode_rune b) = Some ocb ->
    can_argument (oc_opt oca) = false ->
    can_argument (oc_opt ocb) = false ->
    ps_args s1 = [45; a; b] :: rest ->
    ps_args s2 = [45; a] :: [45; b] :: rest ->
    cluster_rel [45; b] (step cfg orc root help_text s1 r) (two_steps s2 r) /\
    (forall r1, opt_set orc (pc_nsdelim cfg) help_text oca None r = Ok (r1, None) ->
                res_eqv (step cfg orc root help_text s1 r) (two_steps s2 r)).
  Proof.
    intros s1 s2 r a b rest oca ocb Hsim Ha Hb Ha45 Hb45 Hb61 Hfa Hfb Hca Hcb H1 H2.
    rewrite (encode_ascii a Ha) in Hfa. rewrite (encode_ascii b Hb) in Hfb.
    exact (cluster_eqv s1 s2 r a b rest oca ocb Hsim Ha Hb Ha45 Hb45 Hb61 Hfa Hfb Hca Hcb H1 H2).
  Qed.
End Spell.

(* ====================================================================== *)
(* A concrete parser: the hypotheses of the theorems are satisfiable, and    *)
(* the counterexample that shaped the statement of C02_cluster               *)
(* ====================================================================== *)
Module Demo.
  Definition demo_cfg : pconfig :=
    {| pc_name := s2l "demo";
       pc_opts := {| po_help := false; po_passdd := true; po_ignore := false; po_print := false;
                     po_passafter := false |};
       pc_nsdelim := s2l "."; pc_envdelim := s2l "_"; pc_handler := HNone; pc_cmdhandler := false;
       pc_usage := []; pc_env := []; pc_cols := 80; pc_shortdesc := []; pc_longdesc := [] |}.
  Definition demo_orc : oracles := {| or_float := []; or_dur := []; or_durfmt := [] |}.
  Definition demo_opt (fid : nat) (short : N) (long : str) (ty : vtype) (is_help : bool) : opt :=
    {| o_fid := fid; o_field := long; o_short := short; o_long := long; o_desc := [];
       o_default := []; o_envkey := []; o_envdelim := []; o_optional := false; o_optval := [];
       o_required := false; o_valname := []; o_mask := []; o_choices := []; o_hidden := false;
       o_ininame := []; o_noini := false; o_unquote := true; o_base := []; o_ty := ty;
       o_is_help := is_help |}.
  (* -n/--name string, -a/--all bool, -b/--brief bool, -h/--help, and -é/--etat string
     (a two-byte short name) *)
  Definition o_name := demo_opt 0 110 (s2l "name") (TScalar KString) false.
  Definition o_all := demo_opt 1 97 (s2l "all") (TScalar KBool) false.
  Definition o_brief := demo_opt 2 98 (s2l "brief") (TScalar KBool) false.
  Definition o_help := demo_opt 3 104 (s2l "help") (TFunc None false) true.
  Definition o_etat := demo_opt 4 233 (s2l "etat") (TScalar KString) false.
  Definition demo_ginfo : ginfo :=
    {| g_short := s2l "Application Options"; g_long := []; g_ns := []; g_envns := [];
       g_hidden := false; g_builtin_help := false |}.
  Definition demo_cinfo (name : str) (hidden : bool) : cinfo :=
    {| c_name := name; c_aliases := []; c_sub_optional := false; c_args_required := false;
       c_hidden := hidden; c_exec := ExOk; c_usage := None; c_has_help := false |}.
  Definition demo_sub (name : str) (hidden : bool) : command :=
    Command (demo_cinfo name hidden) (Group demo_ginfo [] []) [] [].
  (* sub-commands commit, checkout (hidden), clone *)
  Definition demo_root : command :=
    Command (demo_cinfo (s2l "demo") false)
            (Group demo_ginfo [o_name; o_all; o_brief; o_help; o_etat] [])
            []
            [demo_sub (s2l "commit") false; demo_sub (s2l "checkout") true; demo_sub (s2l "clone") false].
  Definition demo_oc (o : opt) : octx :=
    {| oc_opt := o; oc_ns := [[]]; oc_envns := [[]]; oc_ghidden := false;
       oc_gshort := s2l "Application Options"; oc_builtin := false |}.
  Definition demo_rt : rt :=
    {| rt_vals := fun k => match k with
                           | 0%nat | 4%nat => VStr []
                           | 1%nat | 2%nat => VBool false
                           | _ => VFunc false false
                           end;
       rt_fl := fun _ => oflags0; rt_active := []; rt_logs := logs0 |}.
  Definition demo_help (_ : rt) : str := s2l "usage".
  (* the parser state at the start of ParseArgs(args): lookup tables built by makeLookup *)
  Definition demo_pst (args : list str) : pst := initial_pst demo_cfg demo_root args.
  Definition demo_step := step demo_cfg demo_orc demo_root demo_help.
  Definition demo_two_steps := two_steps demo_cfg demo_orc demo_root demo_help.
  (* observable part of an outcome: continue?, pending arguments, recorded error, values *)
  Definition obs (x : res step_res) : option (bool * list str * option err * list value) :=
    match x with
    | Ok (Continue s r) => Some (true, ps_args s, ps_err s, map (rt_vals r) [0; 1; 2; 4]%nat)
    | Ok (Break s r) => Some (false, ps_args s, ps_err s, map (rt_vals r) [0; 1; 2; 4]%nat)
    | _ => None
    end.

  Ltac solve_hyp :=
    first [ vm_compute; reflexivity
          | vm_compute; repeat split; reflexivity
          | vm_compute; intuition discriminate ].
  Ltac split_all := repeat match goal with |- _ /\ _ => split end.

  (* hypotheses of C02_long_eq_vs_separate: --name=bob x  versus  --name bob x *)
  Example C02_long_example :
    let s1 := demo_pst [s2l "--name=bob"; s2l "x"] in
    let s2 := demo_pst [s2l "--name"; s2l "bob"; s2l "x"] in
    let oc := demo_oc o_name in
    let n := s2l "name" in
    let V := s2l "bob" in
    ps_sim s1 s2 /\ n <> [] /\ hd 0 n <> 45 /\ ~ In 61 n /\
    find_last (lk_long (ps_lk s1)) n = Some oc /\
    can_argument (oc_opt oc) = true /\ o_optional (oc_opt oc) = false /\
    is_valid_value (oc_opt oc) V = true /\
    ~ (po_passdd (pc_opts demo_cfg) = true /\ V = s2l "--") /\
    ps_args s1 = (s2l "--" ++ n ++ [61] ++ V) :: [s2l "x"] /\
    ps_args s2 = (s2l "--" ++ n) :: V :: [s2l "x"] /\
    obs (demo_step s1 demo_rt) =
      Some (true, [s2l "x"], None, [VStr (s2l "bob"); VBool false; VBool false; VStr []]) /\
    obs (demo_step s2 demo_rt) =
      Some (true, [s2l "x"], None, [VStr (s2l "bob"); VBool false; VBool false; VStr []]).
  Proof. cbv zeta. split_all; solve_hyp. Qed.

  (* hypotheses of C02_short_forms / C02_short_dispatch with the two-byte short name é:
     -ébob x,  -é=bob x,  -é bob x *)
  Example C02_short_example :
    let c := 233 in
    let V := s2l "bob" in
    let s1 := demo_pst [45 :: encode_rune c ++ V; s2l "x"] in
    let s2 := demo_pst [45 :: encode_rune c ++ 61 :: V; s2l "x"] in
    let s3 := demo_pst [45 :: encode_rune c; V; s2l "x"] in
    let oc := demo_oc o_etat in
    ps_sim s1 s2 /\ ps_sim s1 s3 /\ valid_rune c = true /\ c <> 45 /\ c <> 61 /\
    find_last (lk_short (ps_lk s1)) (encode_rune c) = Some oc /\
    can_argument (oc_opt oc) = true /\ o_optional (oc_opt oc) = false /\
    V <> [] /\ hd 0 V <> 61 /\ is_valid_value (oc_opt oc) V = true /\
    ~ (po_passdd (pc_opts demo_cfg) = true /\ V = s2l "--") /\
    ps_args s1 = (45 :: encode_rune c ++ V) :: [s2l "x"] /\
    ps_args s2 = (45 :: encode_rune c ++ 61 :: V) :: [s2l "x"] /\
    ps_args s3 = (45 :: encode_rune c) :: V :: [s2l "x"] /\
    obs (demo_step s1 demo_rt) =
      Some (true, [s2l "x"], None, [VStr []; VBool false; VBool false; VStr (s2l "bob")]) /\
    obs (demo_step s2 demo_rt) = obs (demo_step s1 demo_rt) /\
    obs (demo_step s3 demo_rt) = obs (demo_step s1 demo_rt).
  Proof. cbv zeta. split_all; solve_hyp. Qed.

  (* hypotheses of C02_cluster: -ab x  versus  -a -b x, both flags succeed *)
  Example C02_cluster_example :
    let s1 := demo_pst [s2l "-ab"; s2l "x"] in
    let s2 := demo_pst [s2l "-a"; s2l "-b"; s2l "x"] in
    let a := 97 in
    let b := 98 in
    ps_sim s1 s2 /\ a < 128 /\ b < 128 /\ a <> 45 /\ b <> 45 /\ b <> 61 /\
    find_last (lk_short (ps_lk s1)) (encode_rune a) = Some (demo_oc o_all) /\
    find_last (lk_short (ps_lk s1)) (encode_rune b) = Some (demo_oc o_brief) /\
    can_argument o_all = false /\ can_argument o_brief = false /\
    ps_args s1 = [45; a; b] :: [s2l "x"] /\
    ps_args s2 = [45; a] :: [45; b] :: [s2l "x"] /\
    (exists r1, opt_set demo_orc (pc_nsdelim demo_cfg) demo_help (demo_oc o_all) None demo_rt = Ok (r1, None)) /\
    obs (demo_step s1 demo_rt) =
      Some (true, [s2l "x"], None, [VStr []; VBool true; VBool true; VStr []]) /\
    obs (demo_two_steps s2 demo_rt) = obs (demo_step s1 demo_rt).
  Proof.
    cbv zeta. split_all; try solve_hyp.
    eexists. vm_compute. reflexivity.
  Qed.

  (* COUNTEREXAMPLE to "same result up to ps_arg" for the cluster when the FIRST flag
     fails (here -h, the help flag): -ha x leaves [x] pending, -h -a x leaves [-a; x] *)
  Example C02_cluster_first_flag_error :
    let s1 := demo_pst [s2l "-ha"; s2l "x"] in
    let s2 := demo_pst [s2l "-h"; s2l "-a"; s2l "x"] in
    obs (demo_step s1 demo_rt) =
      Some (false, [s2l "x"], Some (EFlags ErrHelp (s2l "usage")),
            [VStr []; VBool false; VBool false; VStr []]) /\
    obs (demo_two_steps s2 demo_rt) =
      Some (false, [s2l "-a"; s2l "x"], Some (EFlags ErrHelp (s2l "usage")),
            [VStr []; VBool false; VBool false; VStr []]) /\
    ~ res_eqv (demo_step s1 demo_rt) (demo_two_steps s2 demo_rt).
  Proof.
    cbv zeta. split_all; solve_hyp.
  Qed.

  (* hypotheses of C04_typed_errors: an iteration that records a new error *)
  Example C04_example :
    let s := demo_pst [s2l "--name"] in
    match demo_step s demo_rt with
    | Ok sr => ps_err s = None /\
               ps_err (step_state sr) =
               Some (EFlags ErrExpectedArgument (s2l "expected argument for flag `-n, --name'"))
    | _ => False
    end.
  Proof. vm_compute. split; reflexivity. Qed.

  (* C20: candidates, suggestion and enumeration; the hidden command is never offered *)
  Example C20_names_example : visible_sorted_names demo_root = [s2l "clone"; s2l "commit"].
  Proof. reflexivity. Qed.
  Example C20_message_example :
    estimate_command demo_root (ps_with_retpos (demo_pst []) [s2l "comit"] []) =
      EFlags ErrUnknownCommand (s2l "Unknown command `comit', did you mean `commit'?") /\
    estimate_command demo_root (ps_with_retpos (demo_pst []) [s2l "checkout"] []) =
      EFlags ErrUnknownCommand (s2l "Unknown command `checkout'. Please specify one command of: clone or commit") /\
    estimate_command demo_root (demo_pst []) =
      EFlags ErrCommandRequired (s2l "Please specify one command of: clone or commit").
  Proof. split_all; vm_compute; reflexivity. Qed.
End Demo.

Print Assumptions C02_long_eq_vs_separate.
Print Assumptions C02_short_dispatch.
Print Assumptions C02_short_forms.
Print Assumptions C02_cluster.
Print Assumptions C04_typed_errors.
Print Assumptions C04_typed_errors_loop.
Print Assumptions C20_closest_is_minimum.
Print Assumptions C20_message_shape.
Print Assumptions C20_hidden_never.
