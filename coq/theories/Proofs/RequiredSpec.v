(* Properties C06 (positional count constraints / required check), C09 (completion
   mode executes nothing), C11 (conversion by kind) and C19 (positional
   declarations).  Specifications that do not mention the model functions they
   constrain, and proofs that the model meets them. *)
From GoFlags Require Import Base.Str Base.Utf8 Golib.Strings Golib.Strconv
     Model.Types Model.Tag Model.Scan Model.Lookup Model.Convert Model.State Model.Closest
     Model.Help Model.Parse Model.Ini Model.Complete Model.Scenario.
From GoFlags Require Import Proofs.StrconvSpec Proofs.ValueSpec.
From Coq Require Import Lia ZArith NArith List Bool ZifyN ZifyNat ZifyBool.
Import ListNotations.
Open Scope N_scope.

(* ====================================================================== C06 *)

(* number of elements stored in a slice-typed positional argument *)
Definition stored_count (v : value) : Z :=
  match v with VSlice _ l => Z.of_nat (length l) | _ => 0%Z end.

(* an Arg has an explicit count constraint (its `required` tag was non-empty) *)
Definition arg_explicit (a : arg) : bool :=
  negb (Z.eqb (a_req a) (-1)) || negb (Z.eqb (a_max a) (-1)).

(* the count constraint of the pending positional argument [a] is violated *)
Definition arg_unmet (root : command) (s : pst) (r : rt) (a : arg) : bool :=
  if is_slice (a_ty a) then
    let n := stored_count (rt_vals r (a_fid a)) in
    arg_explicit a &&
    ((n <? a_req a)%Z || (negb (Z.eqb (a_max a) (-1)) && (a_max a <? n)%Z))
  else
    c_args_required (cmd_info (cur_cmd root s)) || arg_explicit a.

(* the same thing as a proposition *)
Lemma arg_unmet_spec : forall root s r a,
  arg_unmet root s r a = true <->
  (is_slice (a_ty a) = false /\
   (c_args_required (cmd_info (cur_cmd root s)) = true \/ a_req a <> (-1)%Z \/ a_max a <> (-1)%Z))
  \/
  (is_slice (a_ty a) = true /\
   (a_req a <> (-1)%Z \/ a_max a <> (-1)%Z) /\
   let n := stored_count (rt_vals r (a_fid a)) in
   ((n < a_req a)%Z \/ (a_max a <> (-1)%Z /\ (a_max a < n)%Z))).
Proof.
  intros root s r a. unfold arg_unmet, arg_explicit. cbv zeta.
  destruct (is_slice (a_ty a)).
  - split.
    + intros H. right. split; [reflexivity|]. lia.
    + intros [[H _]|[_ H]]; [discriminate|]. lia.
  - split.
    + intros H. left. split; [reflexivity|].
      destruct (c_args_required _); [left; reflexivity|right; lia].
    + intros [[_ H]|[H _]]; [|discriminate].
      destruct (c_args_required _); [reflexivity|].
      destruct H as [H|H]; [discriminate|]. lia.
Qed.

Lemma slice_len_stored : forall v, slice_len v = stored_count v.
Proof. reflexivity. Qed.

Theorem C06_positional_constraints : forall root s r a,
  arg_reqname root s r a = [] <-> arg_unmet root s r a = false.
Proof.
  intros root s r a. unfold arg_reqname, arg_unmet, arg_explicit. cbv zeta.
  rewrite slice_len_stored.
  destruct (is_slice (a_ty a)); cbn [negb andb].
  - destruct (Z.eqb (a_req a) (-1)) eqn:E1; destruct (Z.eqb (a_max a) (-1)) eqn:E2;
      cbn [negb orb andb].
    + split; reflexivity.
    + destruct (stored_count _ <? a_req a)%Z; [split; discriminate|].
      destruct (a_max a <? stored_count _)%Z; cbn [orb];
        [destruct (Z.eqb (a_max a) 0); split; discriminate|split; reflexivity].
    + destruct (stored_count _ <? a_req a)%Z; [split; discriminate|split; reflexivity].
    + destruct (stored_count _ <? a_req a)%Z; [split; discriminate|].
      destruct (a_max a <? stored_count _)%Z; cbn [orb];
        [destruct (Z.eqb (a_max a) 0); split; discriminate|split; reflexivity].
  - destruct (c_args_required _); cbn [orb negb].
    + split; discriminate.
    + destruct (negb (Z.eqb (a_req a) (-1)) || negb (Z.eqb (a_max a) (-1))); cbn [negb];
        [split; discriminate|split; reflexivity].
Qed.

(* ---- the required check *)

(* options of the commands on the active chain that are required but were not set *)
Definition missing_required (root : command) (r : rt) : list octx :=
  flat_map (fun pc : list nat * command =>
              filter (fun oc => negb (f_isset (rt_fl r (o_fid (oc_opt oc)))) && o_required (oc_opt oc))
                     (cmd_octxs (snd pc)))
           (active_chain (cmd_depth root) (rt_active r) root []).

Lemma check_required_eq : forall cfg root s r,
  check_required cfg root s r =
  match missing_required root r with
  | [] =>
    match ps_pos s with
    | [] => s
    | pos =>
      let reqnames := flat_map (arg_reqname root s r) pos in
      match reqnames with
      | [] => s
      | [n] => ps_with_err s (Some (EFlags ErrRequired (s2l "the required argument " ++ n ++ s2l " was not provided")))
      | _ => ps_with_err s (Some (EFlags ErrRequired (s2l "the required arguments " ++ join_names reqnames ++ s2l " were not provided")))
      end
    end
  | _ =>
    let names := sort_strs (map (fun oc => 96 :: ostr cfg oc ++ [39]) (missing_required root r)) in
    match names with
    | [n] => ps_with_err s (Some (EFlags ErrRequired (s2l "the required flag " ++ n ++ s2l " was not specified")))
    | _ => ps_with_err s (Some (EFlags ErrRequired (s2l "the required flags " ++ join_names names ++ s2l " were not specified")))
    end
  end.
Proof. reflexivity. Qed.

Lemma flat_map_nil_iff : forall {A B} (f : A -> list B) l,
  flat_map f l = [] <-> forall x, In x l -> f x = [].
Proof.
  intros A B f l. induction l as [|x l IH]; cbn [flat_map].
  - split; [intros _ y []|reflexivity].
  - split.
    + intros H. apply app_eq_nil in H. destruct H as [H1 H2].
      intros y [<-|Hy]; [exact H1|]. apply IH; assumption.
    + intros H. rewrite (H x (or_introl eq_refl)). cbn [app]. apply IH.
      intros y Hy. apply H. right; exact Hy.
Qed.

Lemma filter_nil_iff : forall {A} (f : A -> bool) l,
  filter f l = [] <-> forall x, In x l -> f x = false.
Proof.
  intros A f l. induction l as [|x l IH]; cbn [filter].
  - split; [intros _ y []|reflexivity].
  - destruct (f x) eqn:E.
    + split; [discriminate|]. intros H. rewrite (H x (or_introl eq_refl)) in E. discriminate.
    + rewrite IH. split.
      * intros H y [<-|Hy]; [exact E|apply H; exact Hy].
      * intros H y Hy. apply H. right; exact Hy.
Qed.

(* no required option of an active command is unset *)
Lemma missing_required_nil_iff : forall root r,
  missing_required root r = [] <->
  (forall pc oc, In pc (active_chain (cmd_depth root) (rt_active r) root []) ->
                 In oc (cmd_octxs (snd pc)) ->
                 o_required (oc_opt oc) = true -> f_isset (rt_fl r (o_fid (oc_opt oc))) = true).
Proof.
  intros root r. unfold missing_required. rewrite flat_map_nil_iff. split.
  - intros H pc oc Hpc Hoc Hreq. specialize (H pc Hpc).
    rewrite filter_nil_iff in H. specialize (H oc Hoc). rewrite Hreq in H.
    destruct (f_isset _); [reflexivity|discriminate].
  - intros H pc Hpc. apply filter_nil_iff. intros oc Hoc.
    destruct (o_required (oc_opt oc)) eqn:Hreq; [|apply andb_false_r].
    rewrite (H pc oc Hpc Hoc Hreq). reflexivity.
Qed.

Lemma ps_err_with_err : forall s e, ps_err (ps_with_err s e) = e.
Proof. reflexivity. Qed.

(* check_required either leaves the state alone or records an ErrRequired error *)
Lemma check_required_cases : forall cfg root s r,
  (check_required cfg root s r = s /\
   missing_required root r = [] /\ forall a, In a (ps_pos s) -> arg_unmet root s r a = false)
  \/
  (exists m, check_required cfg root s r = ps_with_err s (Some (EFlags ErrRequired m)) /\
   (missing_required root r <> [] \/ exists a, In a (ps_pos s) /\ arg_unmet root s r a = true)).
Proof.
  intros cfg root s r. rewrite check_required_eq.
  destruct (missing_required root r) as [|oc ocs] eqn:EM.
  - destruct (ps_pos s) as [|p ps'] eqn:EP.
    + left. split; [reflexivity|]. split; [reflexivity|]. intros a [].
    + cbv zeta.
      destruct (flat_map (arg_reqname root s r) (p :: ps')) as [|n l] eqn:EF.
      * left. split; [reflexivity|]. split; [reflexivity|].
        intros a Ha. apply C06_positional_constraints.
        rewrite flat_map_nil_iff in EF. apply EF. exact Ha.
      * right.
        assert (HU : exists a, In a (p :: ps') /\ arg_unmet root s r a = true).
        { destruct (existsb (arg_unmet root s r) (p :: ps')) eqn:EX.
          - apply existsb_exists in EX. exact EX.
          - exfalso.
            assert (flat_map (arg_reqname root s r) (p :: ps') = []).
            { apply flat_map_nil_iff. intros a Ha. apply C06_positional_constraints.
              destruct (arg_unmet root s r a) eqn:EU; [|reflexivity].
              assert (existsb (arg_unmet root s r) (p :: ps') = true)
                by (apply existsb_exists; exists a; split; assumption).
              congruence. }
            congruence. }
        destruct l as [|n2 l]; eexists; (split; [reflexivity|right; exact HU]).
  - right. cbv zeta.
    match goal with |- context [sort_strs ?x] => destruct (sort_strs x) as [|n [|n2 l]] end;
      eexists; (split; [reflexivity|left; discriminate]).
Qed.

Lemma check_required_no_err : forall cfg root s r,
  ps_err (check_required cfg root s r) = None ->
  check_required cfg root s r = s /\ missing_required root r = [] /\
  forall a, In a (ps_pos s) -> arg_unmet root s r a = false.
Proof.
  intros cfg root s r H.
  destruct (check_required_cases cfg root s r) as [C|[m [E _]]]; [exact C|].
  rewrite E in H. discriminate H.
Qed.

Lemma parse_core_eq : forall cfg orc root ht args r,
  parse_core cfg orc root ht args r =
  bind (run_loop cfg orc root ht (S (length args)) (initial_pst cfg root args) r) (fun sr =>
    let '(s, r) := sr in
    match ps_err s with
    | None => bind (clear_defaults cfg orc ht (tree_octxs root) s r) (fun sr1 =>
                let '(s1, r1) := sr1 in Ok (check_required cfg root s1 r1, r1))
    | Some _ => Ok (s, r)
    end).
Proof. reflexivity. Qed.

(* a parse that ends without an error leaves no pending positional argument unmet,
   and no required option of an active command unset *)
Theorem C06_positional_main : forall cfg orc root ht args r s r1,
  parse_core cfg orc root ht args r = Ok (s, r1) ->
  ps_err s = None ->
  forall a, In a (ps_pos s) -> arg_unmet root s r1 a = false.
Proof.
  intros cfg orc root ht args r s r1 H He.
  rewrite parse_core_eq in H.
  destruct (run_loop _ _ _ _ _ _ _) as [[s0 r0]|e|t]; cbn [bind] in H; try discriminate H.
  destruct (ps_err s0) eqn:E0.
  - injection H as <- <-. congruence.
  - destruct (clear_defaults _ _ _ _ _ _) as [[s1 r1']|e|t]; cbn [bind] in H; try discriminate H.
    injection H as <- <-.
    destruct (check_required_no_err _ _ _ _ He) as (Hs & _ & Hu).
    rewrite Hs. exact Hu.
Qed.

Corollary C06_positional_main_body : forall cfg orc root ht args r r' res,
  parse_body cfg orc root ht args r = Ok (r', res) ->
  pr_err res = None ->
  exists s r1, parse_core cfg orc root ht args r = Ok (s, r1) /\ ps_err s = None /\
               forall a, In a (ps_pos s) -> arg_unmet root s r1 a = false.
Proof.
  intros cfg orc root ht args r r' res H He.
  unfold parse_body in H.
  destruct (parse_core cfg orc root ht args r) as [[s r1]|e|t] eqn:EC; cbn [bind] in H; try discriminate H.
  injection H as H.
  exists s, r1. split; [reflexivity|].
  assert (Hs : ps_err s = None).
  { unfold parse_finish in H.
    destruct (ps_err s) as [e|]; [|reflexivity].
    injection H as _ <-. cbn in He. discriminate He. }
  split; [exact Hs|]. eapply C06_positional_main; eassumption.
Qed.

Theorem C06_positional_message : forall cfg root s r,
  (forall pc oc, In pc (active_chain (cmd_depth root) (rt_active r) root []) ->
                 In oc (cmd_octxs (snd pc)) ->
                 o_required (oc_opt oc) = true -> f_isset (rt_fl r (o_fid (oc_opt oc))) = true) ->
  (exists a, In a (ps_pos s) /\ arg_unmet root s r a = true) ->
  exists m, check_required cfg root s r = ps_with_err s (Some (EFlags ErrRequired m)).
Proof.
  intros cfg root s r Hm [a [Ha Hu]].
  destruct (check_required_cases cfg root s r) as [(_ & _ & C)|[m [E _]]].
  - rewrite (C a Ha) in Hu. discriminate Hu.
  - exists m. exact E.
Qed.

(* ---- only commands on the active chain are examined *)

Lemma nth_error_combine_seq : forall {A} (l : list A) i x k,
  nth_error l i = Some x -> In ((k + i)%nat, x) (combine (seq k (length l)) l).
Proof.
  intros A l. induction l as [|y l IH]; intros i x k H.
  - destruct i; discriminate H.
  - destruct i as [|i]; cbn [nth_error] in H; cbn [length seq combine].
    + injection H as ->. left. f_equal. lia.
    + right. replace (k + S i)%nat with (S k + i)%nat by lia. apply IH. exact H.
Qed.

Lemma active_chain_in_all : forall fuel active c path pc,
  In pc (active_chain fuel active c path) -> In pc (all_cmds fuel c path).
Proof.
  induction fuel as [|f IH]; intros active c path pc H; cbn [active_chain all_cmds] in *; [exact H|].
  destruct H as [H|H]; [left; exact H|right].
  destruct (get_active active path) as [i|]; [|destruct H].
  destruct (nth_error (cmd_subs c) i) as [sub|] eqn:E; [|destruct H].
  apply in_flat_map. exists (i, sub). split.
  - apply (nth_error_combine_seq (cmd_subs c) i sub 0). exact E.
  - cbn [fst snd]. eapply IH. exact H.
Qed.

Lemma active_chain_in_tree : forall root active pc,
  In pc (active_chain (cmd_depth root) active root []) -> In pc (tree_cmds root).
Proof. intros root active pc H. unfold tree_cmds. eapply active_chain_in_all. exact H. Qed.

Theorem C06_unselected_not_demanded : forall cfg root s r,
  (forall pc oc, In pc (tree_cmds root) -> In oc (cmd_octxs (snd pc)) ->
                 o_required (oc_opt oc) = true -> f_isset (rt_fl r (o_fid (oc_opt oc))) = false ->
                 ~ In pc (active_chain (cmd_depth root) (rt_active r) root [])) ->
  (forall a, In a (ps_pos s) -> arg_unmet root s r a = false) ->
  check_required cfg root s r = s.
Proof.
  intros cfg root s r Hopt Hpos.
  assert (HM : missing_required root r = []).
  { apply missing_required_nil_iff. intros pc oc Hpc Hoc Hreq.
    destruct (f_isset (rt_fl r (o_fid (oc_opt oc)))) eqn:E; [reflexivity|].
    exfalso. eapply Hopt; try eassumption. eapply active_chain_in_tree. exact Hpc. }
  destruct (check_required_cases cfg root s r) as [(C & _)|[m [_ [E|[a [Ha Hu]]]]]].
  - exact C.
  - contradiction.
  - rewrite (Hpos a Ha) in Hu. discriminate Hu.
Qed.

(* the converse: the state is left alone only if nothing is missing *)
Theorem C06_check_required_id_iff : forall cfg root s r,
  ps_err s = None ->
  (check_required cfg root s r = s <->
   (forall pc oc, In pc (active_chain (cmd_depth root) (rt_active r) root []) ->
                  In oc (cmd_octxs (snd pc)) ->
                  o_required (oc_opt oc) = true -> f_isset (rt_fl r (o_fid (oc_opt oc))) = true) /\
   (forall a, In a (ps_pos s) -> arg_unmet root s r a = false)).
Proof.
  intros cfg root s r He. split.
  - intros H.
    assert (He' : ps_err (check_required cfg root s r) = None) by (rewrite H; exact He).
    destruct (check_required_no_err _ _ _ _ He') as (_ & HM & HU).
    split; [apply missing_required_nil_iff; exact HM|exact HU].
  - intros [HM HU]. apply missing_required_nil_iff in HM.
    destruct (check_required_cases cfg root s r) as [(C & _)|[m [_ [E|[a [Ha Hu]]]]]].
    + exact C.
    + contradiction.
    + rewrite (HU a Ha) in Hu. discriminate Hu.
Qed.

(* ====================================================================== C09 *)

(* everything of the runtime state except the two bookkeeping fields touched by the
   ParseArgs prologue (f_clearref, f_deflit) *)
Definition prologue_frame (r r' : rt) : Prop :=
  rt_vals r' = rt_vals r /\ rt_logs r' = rt_logs r /\ rt_active r' = rt_active r /\
  forall k, f_isset (rt_fl r' k) = f_isset (rt_fl r k) /\
            f_isdefault (rt_fl r' k) = f_isdefault (rt_fl r k) /\
            f_prevent (rt_fl r' k) = f_prevent (rt_fl r k) /\
            f_iniquote (rt_fl r' k) = f_iniquote (rt_fl r k) /\
            f_ininame (rt_fl r' k) = f_ininame (rt_fl r k).

Lemma prologue_frame_refl : forall r, prologue_frame r r.
Proof. intros r. repeat split. Qed.

Lemma prologue_frame_trans : forall r1 r2 r3,
  prologue_frame r1 r2 -> prologue_frame r2 r3 -> prologue_frame r1 r3.
Proof.
  intros r1 r2 r3 (A1 & A2 & A3 & A4) (B1 & B2 & B3 & B4).
  split; [congruence|]. split; [congruence|]. split; [congruence|].
  intros k. destruct (A4 k) as (a1 & a2 & a3 & a4 & a5). destruct (B4 k) as (b1 & b2 & b3 & b4 & b5).
  repeat split; congruence.
Qed.

Lemma prologue_frame_set_fl : forall r fid fl,
  f_isset fl = f_isset (rt_fl r fid) -> f_isdefault fl = f_isdefault (rt_fl r fid) ->
  f_prevent fl = f_prevent (rt_fl r fid) -> f_iniquote fl = f_iniquote (rt_fl r fid) ->
  f_ininame fl = f_ininame (rt_fl r fid) ->
  prologue_frame r (set_fl r fid fl).
Proof.
  intros r fid fl H1 H2 H3 H4 H5. split; [reflexivity|]. split; [reflexivity|]. split; [reflexivity|].
  intros k. cbn [set_fl rt_fl]. unfold upd.
  destruct (Nat.eqb_spec k fid) as [->|_]; repeat split; assumption.
Qed.

(* Option.updateDefaultLiteral only rewrites the f_deflit field of its own option *)
Lemma opt_update_default_literal_shape : forall orc oc r r',
  opt_update_default_literal orc oc r = Ok r' ->
  exists d, r' = set_fl r (o_fid (oc_opt oc))
                  {| f_isset := f_isset (rt_fl r (o_fid (oc_opt oc)));
                     f_isdefault := f_isdefault (rt_fl r (o_fid (oc_opt oc)));
                     f_prevent := f_prevent (rt_fl r (o_fid (oc_opt oc)));
                     f_clearref := f_clearref (rt_fl r (o_fid (oc_opt oc)));
                     f_iniquote := f_iniquote (rt_fl r (o_fid (oc_opt oc)));
                     f_ininame := f_ininame (rt_fl r (o_fid (oc_opt oc)));
                     f_deflit := d |}.
Proof.
  intros orc oc r r' H. unfold opt_update_default_literal in H. cbv zeta in H.
  destruct (o_default (oc_opt oc)) as [|d0 ds].
  - destruct (can_argument (oc_opt oc)).
    + match type of H with (if ?b then _ else _) = _ => destruct b end.
      * destruct (convert_to_string _ _ _ _) as [ts|e|t]; cbn [bind] in H; try discriminate H.
        injection H as <-. eexists; reflexivity.
      * injection H as <-. eexists; reflexivity.
    + injection H as <-. eexists; reflexivity.
  - injection H as <-. eexists; reflexivity.
Qed.

Lemma opt_update_default_literal_frame : forall orc oc r r',
  opt_update_default_literal orc oc r = Ok r' -> prologue_frame r r'.
Proof.
  intros orc oc r r' H. destruct (opt_update_default_literal_shape _ _ _ _ H) as [d ->].
  apply prologue_frame_set_fl; reflexivity.
Qed.

Lemma prologue_opts_frame : forall orc ocs r r',
  prologue_opts orc ocs r = Ok r' -> prologue_frame r r'.
Proof.
  intros orc ocs. induction ocs as [|oc ocs IH]; intros r r' H; cbn [prologue_opts] in H.
  - injection H as <-. apply prologue_frame_refl.
  - cbv zeta in H.
    destruct (opt_update_default_literal orc oc _) as [r1|e|t] eqn:E; cbn [bind] in H; try discriminate H.
    eapply prologue_frame_trans; [|eapply prologue_frame_trans].
    + apply prologue_frame_set_fl with (fl := fl_with (rt_fl r (o_fid (oc_opt oc)))
                                                 (f_isset (rt_fl r (o_fid (oc_opt oc))))
                                                 (f_isdefault (rt_fl r (o_fid (oc_opt oc))))
                                                 (f_prevent (rt_fl r (o_fid (oc_opt oc)))) true); reflexivity.
    + eapply opt_update_default_literal_frame. exact E.
    + apply IH. exact H.
Qed.

Theorem C09_completion_executes_nothing : forall cfg orc w args w' items,
  complete_args cfg orc w args = Ok (w', items) ->
  l_exec (rt_logs (w_rt w')) = l_exec (rt_logs (w_rt w)) /\
  l_out (rt_logs (w_rt w')) = l_out (rt_logs (w_rt w)) /\
  l_calls (rt_logs (w_rt w')) = l_calls (rt_logs (w_rt w)) /\
  l_unknown (rt_logs (w_rt w')) = l_unknown (rt_logs (w_rt w)) /\
  rt_vals (w_rt w') = rt_vals (w_rt w) /\
  rt_active (w_rt w') = rt_active (w_rt w) /\
  (forall k, f_isset (rt_fl (w_rt w') k) = f_isset (rt_fl (w_rt w) k) /\
             f_isdefault (rt_fl (w_rt w') k) = f_isdefault (rt_fl (w_rt w) k) /\
             f_prevent (rt_fl (w_rt w') k) = f_prevent (rt_fl (w_rt w) k) /\
             f_iniquote (rt_fl (w_rt w') k) = f_iniquote (rt_fl (w_rt w) k) /\
             f_ininame (rt_fl (w_rt w') k) = f_ininame (rt_fl (w_rt w) k)) /\
  w_attached w' = w_attached w /\ w_internal w' = w_internal w.
Proof.
  intros cfg orc w args w' items H. unfold complete_args in H.
  destruct (w_internal w) as [e|] eqn:EI.
  - injection H as <- _. rewrite EI. repeat split; reflexivity.
  - destruct (prologue_opts orc (tree_octxs (w_tree w)) (w_rt w)) as [r|e|t] eqn:EP;
      cbn [bind] in H; try discriminate H.
    injection H as <- _. cbn [w_rt w_attached w_internal].
    destruct (prologue_opts_frame _ _ _ _ EP) as (A1 & A2 & A3 & A4).
    rewrite A2. repeat split; try assumption; try reflexivity; apply A4.
Qed.

(* ====================================================================== C11 *)

Lemma ikind_good_bits : forall i, good_bits (ikind_bits i).
Proof. intros i. unfold good_bits. destruct i; cbn [ikind_bits]; auto. Qed.

Theorem C11_default_base : get_base [] = inl 10%Z /\ good_base 10.
Proof. split; [reflexivity|unfold good_base; lia]. Qed.

Lemma convert_kind_int_eq : forall orc base_tag v i,
  convert_kind orc base_tag v (KInt i) =
  match get_base base_tag with
  | inr e => Ok (inr e)
  | inl base =>
    if ikind_signed i then
      match parse_int v base (ikind_bits i) with
      | inl z => Ok (inl (VInt z))
      | inr e => Ok (inr (num_error_msg (s2l "ParseInt") v e))
      end
    else
      match parse_uint v base (ikind_bits i) with
      | inl n => Ok (inl (VInt (Z.of_N n)))
      | inr e => Ok (inr (num_error_msg (s2l "ParseUint") v e))
      end
  end.
Proof. reflexivity. Qed.

Theorem C11_kind_exact_signed : forall orc base_tag b v i z,
  ikind_signed i = true -> get_base base_tag = inl b -> good_base b ->
  (convert_kind orc base_tag v (KInt i) = Ok (inl (VInt z)) <->
   int_denotes (Z.to_N b) v z /\
   (- 2 ^ (Z.of_N (ikind_bits i) - 1) <= z < 2 ^ (Z.of_N (ikind_bits i) - 1))%Z).
Proof.
  intros orc base_tag b v i z Hs Hb Hg.
  rewrite convert_kind_int_eq, Hb, Hs.
  rewrite <- (parse_int_spec v b (ikind_bits i) z Hg (ikind_good_bits i)).
  destruct (parse_int v b (ikind_bits i)) as [z'|e]; split; intros H; congruence.
Qed.

Theorem C11_kind_exact_unsigned : forall orc base_tag b v i z,
  ikind_signed i = false -> get_base base_tag = inl b -> good_base b ->
  (convert_kind orc base_tag v (KInt i) = Ok (inl (VInt z)) <->
   uint_denotes (Z.to_N b) v (Z.to_N z) /\ (0 <= z < 2 ^ Z.of_N (ikind_bits i))%Z).
Proof.
  intros orc base_tag b v i z Hs Hb Hg.
  rewrite convert_kind_int_eq, Hb, Hs.
  pose proof (ikind_good_bits i) as Hbits.
  assert (P : (2 ^ Z.of_N (ikind_bits i))%Z = Z.of_N (2 ^ ikind_bits i)) by (rewrite N2Z.inj_pow; reflexivity).
  split.
  - intros H. destruct (parse_uint v b (ikind_bits i)) as [n|e] eqn:E; [|discriminate H].
    injection H as <-. apply parse_uint_spec in E; [|assumption|assumption].
    destruct E as [Hd Hlt]. rewrite N2Z.id. split; [exact Hd|]. rewrite P. lia.
  - intros [Hd [H0 Hlt]].
    assert (E : parse_uint v b (ikind_bits i) = inl (Z.to_N z)).
    { apply parse_uint_spec; [assumption|assumption|]. split; [exact Hd|]. rewrite P in Hlt. lia. }
    rewrite E, Z2N.id by assumption. reflexivity.
Qed.

(* every result of an integer conversion is a VInt or a foreign error text *)
Theorem C11_kind_total : forall orc base_tag v i,
  (exists z, convert_kind orc base_tag v (KInt i) = Ok (inl (VInt z))) \/
  (exists msg, convert_kind orc base_tag v (KInt i) = Ok (inr msg)).
Proof.
  intros orc base_tag v i. rewrite convert_kind_int_eq.
  destruct (get_base base_tag) as [b|e]; [|right; eexists; reflexivity].
  destruct (ikind_signed i).
  - destruct (parse_int v b (ikind_bits i)); [left|right]; eexists; reflexivity.
  - destruct (parse_uint v b (ikind_bits i)); [left|right]; eexists; reflexivity.
Qed.

Theorem C11_kind_exact : forall orc base_tag b v i,
  get_base base_tag = inl b -> good_base b ->
  (forall z, convert_kind orc base_tag v (KInt i) = Ok (inl (VInt z)) <->
     if ikind_signed i
     then int_denotes (Z.to_N b) v z /\
          (- 2 ^ (Z.of_N (ikind_bits i) - 1) <= z < 2 ^ (Z.of_N (ikind_bits i) - 1))%Z
     else uint_denotes (Z.to_N b) v (Z.to_N z) /\ (0 <= z < 2 ^ Z.of_N (ikind_bits i))%Z) /\
  ((exists z, convert_kind orc base_tag v (KInt i) = Ok (inl (VInt z))) \/
   (exists msg, convert_kind orc base_tag v (KInt i) = Ok (inr msg))) /\
  Z.of_N (ikind_bits i) = match i with I8 | U8 => 8 | I16 | U16 => 16 | I32 | U32 => 32 | _ => 64 end%Z.
Proof.
  intros orc base_tag b v i Hb Hg. split; [|split].
  - intros z. destruct (ikind_signed i) eqn:Hs.
    + apply C11_kind_exact_signed; assumption.
    + apply C11_kind_exact_unsigned; assumption.
  - apply C11_kind_total.
  - destruct i; reflexivity.
Qed.

(* an unusable base tag is reported as a foreign error, whatever the text *)
Theorem C11_bad_base_tag : forall orc base_tag e v i,
  get_base base_tag = inr e -> convert_kind orc base_tag v (KInt i) = Ok (inr e).
Proof. intros orc base_tag e v i H. rewrite convert_kind_int_eq, H. reflexivity. Qed.

Lemma convert_kind_no_err : forall orc b v k e, convert_kind orc b v k <> Err e.
Proof.
  intros orc b v k e. destruct k; unfold convert_kind.
  - destruct v; [discriminate|]. destruct (parse_bool _); discriminate.
  - destruct (get_base b); [|discriminate].
    destruct (ikind_signed k).
    + destruct (parse_int _ _ _); discriminate.
    + destruct (parse_uint _ _ _); discriminate.
  - destruct (find_float _ _ _) as [[?|?]|]; discriminate.
  - discriminate.
  - destruct (find_dur _ _) as [[?|?]|]; discriminate.
  - destruct (has_prefix _ _); discriminate.
  - destruct (has_prefix _ _); discriminate.
Qed.

(* pointee kept when the conversion of a pointer field fails *)
Definition pointee_or_zero (k : kind) (cur : value) : value :=
  match cur with VPtr (Some v) => v | _ => zero_kind k end.

Ltac conv_crush :=
  intros;
  repeat match goal with
         | H : exists _, _ |- _ => destruct H
         | H : _ /\ _ |- _ => destruct H
         | H : _ \/ _ |- _ => destruct H
         | H : Ok _ = Ok _ |- _ => inversion H; clear H; subst
         | H : Panic _ = Panic _ |- _ => inversion H; clear H; subst
         end;
  subst; try discriminate; try congruence; eauto 8.

Ltac conv_kind_destruct NE :=
  match goal with
  | |- context [convert_kind ?o ?b ?v ?k] =>
    let E := fresh "E" in
    pose proof (convert_kind_no_err o b v k) as NE;
    destruct (convert_kind o b v k) as [[?|?]|?|?] eqn:E; cbn [bind];
    [ clear NE | clear NE | exfalso; eapply NE; reflexivity | clear NE ]
  end.

Theorem C11_through_pointer : forall orc b v k cur,
  (forall v', convert orc b v (TPtr k) cur = Ok (v', None) <->
              exists x, convert_kind orc b v k = Ok (inl x) /\ v' = VPtr (Some x)) /\
  (forall v' e, convert orc b v (TPtr k) cur = Ok (v', Some e) <->
                convert_kind orc b v k = Ok (inr e) /\ v' = VPtr (Some (pointee_or_zero k cur))) /\
  (forall t, convert orc b v (TPtr k) cur = Panic t <-> convert_kind orc b v k = Panic t) /\
  (forall e, convert orc b v (TPtr k) cur <> Err e).
Proof.
  intros orc b v k cur. cbn [convert]. fold (pointee_or_zero k cur).
  conv_kind_destruct NE; repeat split; conv_crush.
Qed.

Theorem C11_through_scalar : forall orc b v k cur,
  (forall v', convert orc b v (TScalar k) cur = Ok (v', None) <->
              convert_kind orc b v k = Ok (inl v')) /\
  (forall v' e, convert orc b v (TScalar k) cur = Ok (v', Some e) <->
                convert_kind orc b v k = Ok (inr e) /\ v' = cur) /\
  (forall t, convert orc b v (TScalar k) cur = Panic t <-> convert_kind orc b v k = Panic t) /\
  (forall e, convert orc b v (TScalar k) cur <> Err e).
Proof.
  intros orc b v k cur. cbn [convert].
  conv_kind_destruct NE; repeat split; conv_crush.
Qed.

Lemma slice_push_eq : forall cur x,
  match cur with VSlice _ l => VSlice false (l ++ [x]) | _ => VSlice false [x] end
  = VSlice false (slice_elems cur ++ [x]).
Proof. intros cur x. destruct cur; reflexivity. Qed.

Lemma map_put_eq : forall cur x y,
  match cur with VMap _ l => VMap false (map_set l x y) | _ => VMap false [(x, y)] end
  = VMap false (map_set (map_elems cur) x y).
Proof. intros cur x y. destruct cur; reflexivity. Qed.

Theorem C11_through_slice : forall orc b v k cur,
  (forall v', convert orc b v (TSlice (TScalar k)) cur = Ok (v', None) <->
              exists x, convert_kind orc b v k = Ok (inl x) /\
                        v' = VSlice false (slice_elems cur ++ [x])) /\
  (forall v' e, convert orc b v (TSlice (TScalar k)) cur = Ok (v', Some e) <->
                convert_kind orc b v k = Ok (inr e) /\ v' = cur) /\
  (forall t, convert orc b v (TSlice (TScalar k)) cur = Panic t <-> convert_kind orc b v k = Panic t) /\
  (forall e, convert orc b v (TSlice (TScalar k)) cur <> Err e).
Proof.
  intros orc b v k cur. cbn [convert]. cbn [zero_value].
  conv_kind_destruct NE; try rewrite slice_push_eq; repeat split; conv_crush.
Qed.

Theorem C11_through_slice_of_pointers : forall orc b v k cur,
  (forall v', convert orc b v (TSlice (TPtr k)) cur = Ok (v', None) <->
              exists x, convert_kind orc b v k = Ok (inl x) /\
                        v' = VSlice false (slice_elems cur ++ [VPtr (Some x)])) /\
  (forall v' e, convert orc b v (TSlice (TPtr k)) cur = Ok (v', Some e) <->
                convert_kind orc b v k = Ok (inr e) /\ v' = cur) /\
  (forall t, convert orc b v (TSlice (TPtr k)) cur = Panic t <-> convert_kind orc b v k = Panic t) /\
  (forall e, convert orc b v (TSlice (TPtr k)) cur <> Err e).
Proof.
  intros orc b v k cur. cbn [convert]. cbn [zero_value].
  conv_kind_destruct NE; try rewrite slice_push_eq; repeat split; conv_crush.
Qed.

Theorem C11_through_map : forall orc b v kk kv cur,
  let ks := fst (map_split v) in
  let vs := snd (map_split v) in
  (forall v', convert orc b v (TMap kk kv) cur = Ok (v', None) <->
              exists x y, convert_kind orc b ks kk = Ok (inl x) /\
                          convert_kind orc b vs kv = Ok (inl y) /\
                          v' = VMap false (map_set (map_elems cur) x y)) /\
  (forall v' e, convert orc b v (TMap kk kv) cur = Ok (v', Some e) <->
                v' = cur /\
                (convert_kind orc b ks kk = Ok (inr e) \/
                 exists x, convert_kind orc b ks kk = Ok (inl x) /\
                           convert_kind orc b vs kv = Ok (inr e))) /\
  (forall t, convert orc b v (TMap kk kv) cur = Panic t <->
             convert_kind orc b ks kk = Panic t \/
             exists x, convert_kind orc b ks kk = Ok (inl x) /\ convert_kind orc b vs kv = Panic t) /\
  (forall e, convert orc b v (TMap kk kv) cur <> Err e).
Proof.
  intros orc b v kk kv cur. cbv zeta. cbn [convert]. unfold map_split.
  destruct (cut_byte v 58) as [a [c|]]; cbn [fst snd].
  - pose proof (convert_kind_no_err orc b a kk) as NE1.
    pose proof (convert_kind_no_err orc b c kv) as NE2.
    destruct (convert_kind orc b a kk) as [[x|e1]|e1|t1] eqn:E1; cbn [bind];
      [|repeat split; conv_crush|exfalso; eapply NE1; reflexivity|repeat split; conv_crush].
    destruct (convert_kind orc b c kv) as [[y|e2]|e2|t2] eqn:E2; cbn [bind];
      [rewrite map_put_eq; repeat split; conv_crush|repeat split; conv_crush
       |exfalso; eapply NE2; reflexivity|repeat split; conv_crush].
  - pose proof (convert_kind_no_err orc b a kk) as NE1.
    pose proof (convert_kind_no_err orc b [] kv) as NE2.
    destruct (convert_kind orc b a kk) as [[x|e1]|e1|t1] eqn:E1; cbn [bind];
      [|repeat split; conv_crush|exfalso; eapply NE1; reflexivity|repeat split; conv_crush].
    destruct (convert_kind orc b [] kv) as [[y|e2]|e2|t2] eqn:E2; cbn [bind];
      [rewrite map_put_eq; repeat split; conv_crush|repeat split; conv_crush
       |exfalso; eapply NE2; reflexivity|repeat split; conv_crush].
Qed.

Theorem C11_through_pointer_slice_map : forall orc b v cur,
  (* pointer: allocated and set exactly when the pointee converts *)
  (forall k v', convert orc b v (TPtr k) cur = Ok (v', None) <->
                exists x, convert_kind orc b v k = Ok (inl x) /\ v' = VPtr (Some x)) /\
  (forall k v' e, convert orc b v (TPtr k) cur = Ok (v', Some e) <->
                  convert_kind orc b v k = Ok (inr e) /\ v' = VPtr (Some (pointee_or_zero k cur))) /\
  (forall k t, convert orc b v (TPtr k) cur = Panic t <-> convert_kind orc b v k = Panic t) /\
  (* slice: one element appended exactly when the element converts; otherwise unchanged *)
  (forall k v', convert orc b v (TSlice (TScalar k)) cur = Ok (v', None) <->
                exists x, convert_kind orc b v k = Ok (inl x) /\
                          v' = VSlice false (slice_elems cur ++ [x])) /\
  (forall k v' e, convert orc b v (TSlice (TScalar k)) cur = Ok (v', Some e) <->
                  convert_kind orc b v k = Ok (inr e) /\ v' = cur) /\
  (forall k t, convert orc b v (TSlice (TScalar k)) cur = Panic t <-> convert_kind orc b v k = Panic t) /\
  (* map: one binding set exactly when both the key text and the value text convert *)
  (forall kk kv v', convert orc b v (TMap kk kv) cur = Ok (v', None) <->
                exists x y, convert_kind orc b (fst (map_split v)) kk = Ok (inl x) /\
                            convert_kind orc b (snd (map_split v)) kv = Ok (inl y) /\
                            v' = VMap false (map_set (map_elems cur) x y)) /\
  (forall kk kv v' e, convert orc b v (TMap kk kv) cur = Ok (v', Some e) <->
                v' = cur /\
                (convert_kind orc b (fst (map_split v)) kk = Ok (inr e) \/
                 exists x, convert_kind orc b (fst (map_split v)) kk = Ok (inl x) /\
                           convert_kind orc b (snd (map_split v)) kv = Ok (inr e))) /\
  (forall kk kv t, convert orc b v (TMap kk kv) cur = Panic t <->
                convert_kind orc b (fst (map_split v)) kk = Panic t \/
                exists x, convert_kind orc b (fst (map_split v)) kk = Ok (inl x) /\
                          convert_kind orc b (snd (map_split v)) kv = Panic t) /\
  (* never a model error *)
  (forall ty e, convert orc b v ty cur <> Err e).
Proof.
  intros orc b v cur.
  split; [intros k; apply (C11_through_pointer orc b v k cur)|].
  split; [intros k; apply (C11_through_pointer orc b v k cur)|].
  split; [intros k; apply (C11_through_pointer orc b v k cur)|].
  split; [intros k; apply (C11_through_slice orc b v k cur)|].
  split; [intros k; apply (C11_through_slice orc b v k cur)|].
  split; [intros k; apply (C11_through_slice orc b v k cur)|].
  split; [intros kk kv; apply (C11_through_map orc b v kk kv cur)|].
  split; [intros kk kv; apply (C11_through_map orc b v kk kv cur)|].
  split; [intros kk kv; apply (C11_through_map orc b v kk kv cur)|].
  intros ty. revert cur. induction ty as [k|k|el IH|kk kv|a r0]; intros cur e.
  - apply (C11_through_scalar orc b v k cur).
  - apply (C11_through_pointer orc b v k cur).
  - cbn [convert]. specialize (IH (zero_value el)).
    destruct (convert orc b v el (zero_value el)) as [[x [m|]]|e0|t]; cbn [bind]; try discriminate.
    intros H. injection H as ->. eapply IH. reflexivity.
  - apply (C11_through_map orc b v kk kv cur).
  - cbn [convert]. discriminate.
Qed.

(* ====================================================================== C19 *)

Lemma cut_byte_found : forall a c b, ~ In c a -> cut_byte (a ++ c :: b) c = (a, Some b).
Proof.
  induction a as [|x a IH]; intros c b Hn; cbn [app cut_byte].
  - rewrite N.eqb_refl. reflexivity.
  - destruct (N.eqb_spec x c) as [->|_]; [exfalso; apply Hn; left; reflexivity|].
    rewrite IH; [reflexivity|]. intros H. apply Hn. right; exact H.
Qed.

Lemma cut_byte_absent : forall s c, ~ In c s -> cut_byte s c = (s, None).
Proof.
  induction s as [|x s IH]; intros c Hn; cbn [cut_byte]; [reflexivity|].
  destruct (N.eqb_spec x c) as [->|_]; [exfalso; apply Hn; left; reflexivity|].
  rewrite IH; [reflexivity|]. intros H. apply Hn. right; exact H.
Qed.

(* [s] is a decimal numeral of an int32 with value [z] *)
Definition dec32 (s : str) (z : Z) : Prop :=
  int_denotes 10 s z /\ (- 2 ^ 31 <= z < 2 ^ 31)%Z.

Lemma parse_int_dec32 : forall s z, parse_int s 10 32 = inl z <-> dec32 s z.
Proof.
  intros s z. unfold dec32.
  assert (G : good_base 10) by (unfold good_base; lia).
  assert (B : good_bits 32) by (unfold good_bits; auto).
  pose proof (parse_int_spec s 10 32 z G B) as H.
  change (Z.to_N 10) with 10 in H. change (Z.of_N 32 - 1)%Z with 31%Z in H. exact H.
Qed.

Lemma parse_int_not_dec32 : forall s, (forall z, ~ dec32 s z) -> exists e, parse_int s 10 32 = inr e.
Proof.
  intros s H. destruct (parse_int s 10 32) as [z|e] eqn:E; [|exists e; reflexivity].
  exfalso. apply (H z). apply parse_int_dec32. exact E.
Qed.

Lemma parse_req_nonempty : forall s, s <> [] ->
  parse_req s =
  match cut_byte s 45 with
  | (a, Some b) =>
    (match parse_int a 10 32 with inl z => z | inr _ => 1%Z end,
     match parse_int b 10 32 with inl z => z | inr _ => (-1)%Z end)
  | (_, None) => (match parse_int s 10 32 with inl z => z | inr _ => 1%Z end, (-1)%Z)
  end.
Proof. intros s H. destruct s; [congruence|reflexivity]. Qed.

Theorem parse_req_spec :
  (* no tag: no constraint *)
  parse_req [] = ((-1)%Z, (-1)%Z) /\
  (* "N" *)
  (forall s n, ~ In 45 s -> dec32 s n -> parse_req s = (n, (-1)%Z)) /\
  (* "N-M" *)
  (forall a b n m, ~ In 45 a -> dec32 a n -> dec32 b m -> parse_req (a ++ 45 :: b) = (n, m)) /\
  (* any other non-empty text without '-' counts as "required: exactly one" *)
  (forall s, s <> [] -> ~ In 45 s -> (forall n, ~ dec32 s n) -> parse_req s = (1%Z, (-1)%Z)) /\
  (* "X-Y": each side falls back separately (1 for the minimum, -1 for the maximum) *)
  (forall a b, ~ In 45 a -> (forall n, ~ dec32 a n) -> fst (parse_req (a ++ 45 :: b)) = 1%Z) /\
  (forall a b, ~ In 45 a -> (forall m, ~ dec32 b m) -> snd (parse_req (a ++ 45 :: b)) = (-1)%Z) /\
  (forall a b n, ~ In 45 a -> dec32 a n -> fst (parse_req (a ++ 45 :: b)) = n) /\
  (forall a b m, ~ In 45 a -> dec32 b m -> snd (parse_req (a ++ 45 :: b)) = m).
Proof.
  assert (NE : forall a b, a ++ 45 :: b <> []) by (intros a b; destruct a; discriminate).
  split; [reflexivity|].
  split.
  { intros s n Hn Hd.
    assert (s <> []) by (intros ->; destruct Hd as [[(x & [Hx _] & _)|[(bd & x & Hx & _)|(bd & x & Hx & _)]] _]; congruence).
    rewrite parse_req_nonempty by assumption. rewrite cut_byte_absent by assumption.
    apply parse_int_dec32 in Hd. rewrite Hd. reflexivity. }
  split.
  { intros a b n m Hn Ha Hb. rewrite parse_req_nonempty by apply NE.
    rewrite cut_byte_found by assumption.
    apply parse_int_dec32 in Ha. apply parse_int_dec32 in Hb. rewrite Ha, Hb. reflexivity. }
  split.
  { intros s Hs Hn Hd. rewrite parse_req_nonempty by assumption. rewrite cut_byte_absent by assumption.
    destruct (parse_int_not_dec32 s Hd) as [e ->]. reflexivity. }
  split.
  { intros a b Hn Hd. rewrite parse_req_nonempty by apply NE. rewrite cut_byte_found by assumption.
    destruct (parse_int_not_dec32 a Hd) as [e ->]. reflexivity. }
  split.
  { intros a b Hn Hd. rewrite parse_req_nonempty by apply NE. rewrite cut_byte_found by assumption.
    destruct (parse_int_not_dec32 b Hd) as [e ->]. reflexivity. }
  split.
  { intros a b n Hn Hd. rewrite parse_req_nonempty by apply NE. rewrite cut_byte_found by assumption.
    apply parse_int_dec32 in Hd. rewrite Hd. reflexivity. }
  { intros a b m Hn Hd. rewrite parse_req_nonempty by apply NE. rewrite cut_byte_found by assumption.
    apply parse_int_dec32 in Hd. rewrite Hd. reflexivity. }
Qed.

(* the Arg declared by one field of a positional-args struct *)
Definition arg_faithful (f : field) (a : arg) : Prop :=
  exists name tag ty fid m,
    f = FLeaf name true tag ty fid /\ tag_scan tag = Ok m /\
    a_name a = (if nonempty (tm_get m (s2l "positional-arg-name"))
                then tm_get m (s2l "positional-arg-name") else name) /\
    a_desc a = tm_get m (s2l "description") /\
    (a_req a, a_max a) = parse_req (tm_get m (s2l "required")) /\
    a_ty a = ty /\ a_fid a = fid /\ a_base a = tm_get m (s2l "base").

Definition fields_nonempty (fs : list field) : bool := match fs with [] => false | _ => true end.

Lemma scan_positional_cons : forall name exported tag ty fid rest req acc,
  scan_positional (FLeaf name exported tag ty fid :: rest) req acc =
  if negb exported then Panic (unmodelled "unexported positional field") else
  bind (tag_scan tag) (fun m =>
    let nm := tm_get m (s2l "positional-arg-name") in
    let '(r, mx) := parse_req (tm_get m (s2l "required")) in
    let a := {| a_fid := fid; a_name := if nonempty nm then nm else name;
                a_desc := tm_get m (s2l "description"); a_req := r; a_max := mx; a_ty := ty;
                a_base := tm_get m (s2l "base") |} in
    scan_positional rest req
      {| sa_opts := sa_opts acc; sa_groups := sa_groups acc; sa_args := sa_args acc ++ [a];
         sa_argsreq := sa_argsreq acc || req; sa_cmds := sa_cmds acc;
         sa_attached := sa_attached acc |}).
Proof. reflexivity. Qed.

Opaque s2l.

Theorem C19_positional_faithful : forall fs req acc acc',
  scan_positional fs req acc = Ok acc' ->
  exists args,
    Forall2 arg_faithful fs args /\
    sa_args acc' = sa_args acc ++ args /\
    sa_argsreq acc' = sa_argsreq acc || (req && fields_nonempty fs) /\
    sa_opts acc' = sa_opts acc /\ sa_groups acc' = sa_groups acc /\
    sa_cmds acc' = sa_cmds acc /\ sa_attached acc' = sa_attached acc.
Proof.
  induction fs as [|f fs IH]; intros req acc acc' H.
  - cbn [scan_positional] in H. injection H as <-. exists []. split; [constructor|].
    rewrite app_nil_r, andb_false_r, orb_false_r. repeat split.
  - destruct f as [name exported tag ty fid|]; [|discriminate H].
    rewrite scan_positional_cons in H.
    destruct exported; cbn [negb] in H; [|discriminate H].
    destruct (tag_scan tag) as [m|e|t] eqn:ET; cbn [bind] in H; try discriminate H.
    cbv zeta in H.
    destruct (parse_req (tm_get m (s2l "required"))) as [rq mx] eqn:EP.
    apply IH in H. destruct H as (args & HF & HA & HR & HO & HG & HC & HT).
    cbn [sa_args sa_argsreq sa_opts sa_groups sa_cmds sa_attached] in *.
    match type of HA with _ = (_ ++ [?a]) ++ _ => exists (a :: args) end.
    split; [constructor; [|exact HF]|].
    + exists name, tag, ty, fid, m. cbn [a_name a_desc a_req a_max a_ty a_fid a_base].
      rewrite EP. repeat split. exact ET.
    + rewrite HA, <- app_assoc. cbn [app]. split; [reflexivity|].
      split; [|repeat split; assumption].
      rewrite HR. cbn [fields_nonempty]. rewrite andb_true_r.
      destruct (sa_argsreq acc), req, (fields_nonempty fs); reflexivity.
Qed.

(* scan_positional succeeds exactly on exported leaf fields with well-formed tags *)
Theorem C19_positional_total : forall fs req acc,
  Forall (fun f => exists name tag ty fid m, f = FLeaf name true tag ty fid /\ tag_scan tag = Ok m) fs ->
  exists acc', scan_positional fs req acc = Ok acc'.
Proof.
  induction fs as [|f fs IH]; intros req acc HF.
  - eexists; reflexivity.
  - inversion HF as [|? ? (name & tag & ty & fid & m & -> & ET) HF']; subst.
    rewrite scan_positional_cons. cbn [negb]. rewrite ET. cbn [bind]. cbv zeta.
    destruct (parse_req _) as [rq mx]. apply IH. exact HF'.
Qed.

Transparent s2l.

(* ====================================================================== examples
   (non-vacuity of the hypotheses above, on a realistic declaration tree) *)
Module RequiredExamples.
  Definition cfg : pconfig :=
    {| pc_name := s2l "app";
       pc_opts := {| po_help := false; po_passdd := true; po_ignore := false; po_print := false; po_passafter := false |};
       pc_nsdelim := s2l "."; pc_envdelim := s2l "_"; pc_handler := HNone; pc_cmdhandler := false;
       pc_usage := []; pc_env := []; pc_cols := 80; pc_shortdesc := []; pc_longdesc := [] |}.
  Definition orc : oracles := {| or_float := []; or_dur := []; or_durfmt := [] |}.
  Definition ht : rt -> str := fun _ => s2l "usage".
  Definition gi (short : string) : ginfo :=
    {| g_short := s2l short; g_long := []; g_ns := []; g_envns := []; g_hidden := false; g_builtin_help := false |}.
  Definition ci (name : string) (subopt : bool) : cinfo :=
    {| c_name := s2l name; c_aliases := []; c_sub_optional := subopt; c_args_required := false;
       c_hidden := false; c_exec := ExNone; c_usage := None; c_has_help := false |}.
  Definition mk_opt (fid : nat) (long : string) (ty : vtype) (required : bool) : opt :=
    {| o_fid := fid; o_field := s2l "Field"; o_short := 0; o_long := s2l long; o_desc := [];
       o_default := []; o_envkey := []; o_envdelim := []; o_optional := false; o_optval := [];
       o_required := required; o_valname := []; o_mask := []; o_choices := []; o_hidden := false;
       o_ininame := []; o_noini := false; o_unquote := true; o_base := []; o_ty := ty; o_is_help := false |}.
  (* positional-args struct { In string; Rest []string `required:"1-2"` } *)
  Definition a_in : arg :=
    {| a_fid := 1; a_name := s2l "In"; a_desc := []; a_req := (-1)%Z; a_max := (-1)%Z;
       a_ty := TScalar KString; a_base := [] |}.
  Definition a_rest : arg :=
    {| a_fid := 2; a_name := s2l "Rest"; a_desc := []; a_req := 1%Z; a_max := 2%Z;
       a_ty := TSlice (TScalar KString); a_base := [] |}.
  (* sub-command "deploy" with a required option --target *)
  Definition sub_deploy : command :=
    Command (ci "deploy" false) (Group (gi "Deploy Options") [mk_opt 5 "target" (TScalar KString) true] []) [] [].
  Definition root : command :=
    Command (ci "app" true) (Group (gi "Application Options") [mk_opt 0 "name" (TScalar KString) false] [])
            [a_in; a_rest] [sub_deploy].
  Definition rt0 : rt :=
    {| rt_vals := fun i => match i with 2%nat => VSlice true [] | _ => VStr [] end;
       rt_fl := fun _ => oflags0; rt_active := []; rt_logs := logs0 |}.
  Definition is_none {A} (o : option A) : bool := match o with None => true | Some _ => false end.

  (* C06_positional_main: app x y  -- In = x, Rest = [y], Rest stays pending and is satisfied;
     --target of the unselected command deploy is not demanded *)
  Example main_hyps :
    match parse_core cfg orc root ht [s2l "x"; s2l "y"] rt0 with
    | Ok (s, r1) => is_none (ps_err s) && Nat.eqb (length (ps_pos s)) 1 &&
                    forallb (fun a => negb (arg_unmet root s r1 a)) (ps_pos s)
    | _ => false
    end = true.
  Proof. vm_compute. reflexivity. Qed.

  (* app x  -- Rest got nothing *)
  Example message_run :
    match parse_core cfg orc root ht [s2l "x"] rt0 with
    | Ok (s, r1) => ps_err s
    | _ => None
    end = Some (EFlags ErrRequired (s2l "the required argument `Rest (at least 1 argument)` was not provided")).
  Proof. vm_compute. reflexivity. Qed.

  (* states just before the required check *)
  Definition s_pending : pst := ps_with_retpos (initial_pst cfg root []) [] [a_rest].
  Definition rt_one : rt := set_val rt0 2 (VSlice false [VStr (s2l "y")]).

  Example unmet_values :
    arg_unmet root s_pending rt0 a_rest = true /\ arg_unmet root s_pending rt_one a_rest = false /\
    arg_unmet root (initial_pst cfg root []) rt0 a_in = false /\
    arg_unmet root s_pending (set_val rt0 2 (VSlice false [VStr []; VStr []; VStr []])) a_rest = true.
  Proof. vm_compute. repeat split. Qed.

  Example message_hyps :
    (forall pc oc, In pc (active_chain (cmd_depth root) (rt_active rt0) root []) ->
                   In oc (cmd_octxs (snd pc)) ->
                   o_required (oc_opt oc) = true -> f_isset (rt_fl rt0 (o_fid (oc_opt oc))) = true) /\
    (exists a, In a (ps_pos s_pending) /\ arg_unmet root s_pending rt0 a = true).
  Proof.
    split.
    - intros pc oc Hpc Hoc Hreq. vm_compute in Hpc. destruct Hpc as [<-|[]].
      vm_compute in Hoc. destruct Hoc as [<-|[]]. discriminate Hreq.
    - exists a_rest. split; [left; reflexivity|vm_compute; reflexivity].
  Qed.

  Example unselected_hyps :
    (forall pc oc, In pc (tree_cmds root) -> In oc (cmd_octxs (snd pc)) ->
                   o_required (oc_opt oc) = true -> f_isset (rt_fl rt_one (o_fid (oc_opt oc))) = false ->
                   ~ In pc (active_chain (cmd_depth root) (rt_active rt_one) root [])) /\
    (forall a, In a (ps_pos s_pending) -> arg_unmet root s_pending rt_one a = false) /\
    (* the hypothesis is used: the tree does contain a required, unset option *)
    existsb (fun oc => o_required (oc_opt oc) && negb (f_isset (rt_fl rt_one (o_fid (oc_opt oc)))))
            (tree_octxs root) = true.
  Proof.
    split; [|split].
    - intros pc oc Hpc Hoc Hreq _. vm_compute in Hpc. destruct Hpc as [<-|[<-|[]]].
      + vm_compute in Hoc. destruct Hoc as [<-|[]]. discriminate Hreq.
      + intros Hin. vm_compute in Hin. destruct Hin as [Hin|[]]. discriminate Hin.
    - intros a [<-|[]]. vm_compute. reflexivity.
    - vm_compute. reflexivity.
  Qed.
  Example unselected_run : check_required cfg root s_pending rt_one = s_pending.
  Proof. vm_compute. reflexivity. Qed.

  (* C09 *)
  Definition w0 : world := {| w_tree := root; w_rt := rt0; w_internal := None; w_attached := [] |}.
  Example completion_hyps :
    match complete_args cfg orc w0 [s2l "--na"] with
    | Ok (_, Some items) => Some (map fst items)
    | _ => None
    end = Some [s2l "--name"].
  Proof. vm_compute. reflexivity. Qed.

  (* C11 *)
  Example kind_hyps :
    get_base (s2l "16") = inl 16%Z /\ good_base 16 /\ ikind_signed I16 = true /\ ikind_signed U8 = false /\
    convert_kind orc (s2l "16") (s2l "-ff") (KInt I16) = Ok (inl (VInt (-255))) /\
    convert_kind orc [] (s2l "128") (KInt I8) =
      Ok (inr (s2l "strconv.ParseInt: parsing ""128"": value out of range")) /\
    convert_kind orc [] (s2l "255") (KInt U8) = Ok (inl (VInt 255)) /\
    convert_kind orc [] (s2l "256") (KInt U8) =
      Ok (inr (s2l "strconv.ParseUint: parsing ""256"": value out of range")).
  Proof. unfold good_base. vm_compute. repeat split; discriminate. Qed.

  Example through_run :
    convert orc [] (s2l "7") (TPtr (KInt I0)) (VPtr None) = Ok (VPtr (Some (VInt 7)), None) /\
    convert orc [] (s2l "x") (TPtr (KInt I0)) (VPtr None) =
      Ok (VPtr (Some (VInt 0)), Some (s2l "strconv.ParseInt: parsing ""x"": invalid syntax")) /\
    convert orc [] (s2l "7") (TSlice (TScalar (KInt I0))) (VSlice false [VInt 1]) =
      Ok (VSlice false [VInt 1; VInt 7], None) /\
    convert orc [] (s2l "a:7") (TMap KString (KInt I0)) (VMap true []) =
      Ok (VMap false [(VStr (s2l "a"), VInt 7)], None) /\
    convert orc [] (s2l "a:x") (TMap KString (KInt I0)) (VMap true []) =
      Ok (VMap true [], Some (s2l "strconv.ParseInt: parsing ""x"": invalid syntax")).
  Proof. vm_compute. repeat split. Qed.

  (* C19 *)
  Example dec32_hyps : dec32 (s2l "2") 2 /\ dec32 (s2l "+13") 13 /\ forall n, ~ dec32 (s2l "yes") n.
  Proof.
    split; [|split].
    - apply parse_int_dec32. vm_compute. reflexivity.
    - apply parse_int_dec32. vm_compute. reflexivity.
    - intros n H. apply parse_int_dec32 in H. vm_compute in H. discriminate H.
  Qed.
  Example parse_req_run :
    parse_req (s2l "2") = (2, -1)%Z /\ parse_req (s2l "1-3") = (1, 3)%Z /\
    parse_req (s2l "yes") = (1, -1)%Z /\ parse_req (s2l "x-3") = (1, 3)%Z /\
    parse_req (s2l "2-") = (2, -1)%Z /\ parse_req (s2l "-5") = (1, 5)%Z.
  Proof. vm_compute. repeat split. Qed.

  (* why parse_req_spec needs "no '-' in the text" for the "N" and the fallback cases: the text is cut
     at its FIRST '-' before anything is parsed *)
  Example parse_req_negative_counterexample :
    parse_int (s2l "-5") 10 32 = inl (-5)%Z /\ parse_req (s2l "-5") = (1, 5)%Z.
  Proof. vm_compute. split; reflexivity. Qed.
  Example parse_req_nonnumeric_counterexample :
    (forall n, ~ dec32 (s2l "x-3") n) /\ parse_req (s2l "x-3") = (1, 3)%Z.
  Proof.
    split; [|vm_compute; reflexivity].
    intros n H. apply parse_int_dec32 in H. vm_compute in H. discriminate H.
  Qed.

  Definition pos_fields : list field :=
    [FLeaf (s2l "In") true (s2l "positional-arg-name:""input"" description:""the input file"" required:""yes""")
           (TScalar KString) 1;
     FLeaf (s2l "Rest") true (s2l "required:""1-2""") (TSlice (TScalar KString)) 2].
  Example positional_run :
    match scan_positional pos_fields true sacc0 with
    | Ok acc => Some (sa_args acc, sa_argsreq acc)
    | _ => None
    end = Some ([ {| a_fid := 1; a_name := s2l "input"; a_desc := s2l "the input file"; a_req := 1; a_max := (-1);
                     a_ty := TScalar KString; a_base := [] |};
                  {| a_fid := 2; a_name := s2l "Rest"; a_desc := []; a_req := 1; a_max := 2;
                     a_ty := TSlice (TScalar KString); a_base := [] |} ], true).
  Proof. vm_compute. reflexivity. Qed.
End RequiredExamples.

Print Assumptions C06_positional_constraints.
Print Assumptions arg_unmet_spec.
Print Assumptions C06_positional_main.
Print Assumptions C06_positional_main_body.
Print Assumptions C06_positional_message.
Print Assumptions C06_unselected_not_demanded.
Print Assumptions C06_check_required_id_iff.
Print Assumptions C09_completion_executes_nothing.
Print Assumptions C11_default_base.
Print Assumptions C11_kind_exact.
Print Assumptions C11_kind_exact_signed.
Print Assumptions C11_kind_exact_unsigned.
Print Assumptions C11_kind_total.
Print Assumptions C11_bad_base_tag.
Print Assumptions C11_through_pointer_slice_map.
Print Assumptions C11_through_scalar.
Print Assumptions C11_through_slice_of_pointers.
Print Assumptions parse_req_spec.
Print Assumptions C19_positional_faithful.
Print Assumptions C19_positional_total.
