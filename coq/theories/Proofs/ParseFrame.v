(* Structural theorems about the ParseArgs model (Model/Parse.v):
   termination (C04), which Panic outcomes exist (C04), logs frame, dispatch (C09),
   output discipline (C04), required options (C06). *)
From GoFlags Require Import Base.Str Base.Utf8 Golib.Strings Golib.Strconv
     Model.Types Model.Tag Model.Scan Model.Lookup Model.Convert Model.State Model.Closest Model.Parse.
From GoFlags Require Import Proofs.FrameBase Proofs.FrameParse.
From Coq Require Import Lia.
Open Scope N_scope.

Section Frame.
  Variable cfg : pconfig.
  Variable orc : oracles.
  Variable root : command.
  Variable help_text : rt -> str.

  (* ------------------------------------------------------------------ termination *)
  (* one loop iteration that continues strictly shortens the pending argument list
     (all unknown-option handlers of the model return a list no longer than the one
     they receive) *)
  Lemma step_decreases : forall s r s' r',
    step cfg orc root help_text s r = Ok (Continue s' r') ->
    (length (ps_args s') < length (ps_args s))%nat.
  Proof.
    intros s r s' r' H.
    exact (proj2 (wp_ok _ _ _ _ (step_wp cfg orc root help_text s r) H)).
  Qed.

  (* hence fuel [S (length args)] always suffices: the loop never runs out of fuel *)
  Theorem run_loop_fuel : forall fuel s r,
    (length (ps_args s) < fuel)%nat ->
    run_loop cfg orc root help_text fuel s r <> Panic (s2l "OUT-OF-FUEL").
  Proof.
    intros fuel s r L H. apply not_benign_fuel.
    exact (wp_panic _ _ _ _ (run_loop_wp cfg orc root help_text fuel s r L) H).
  Qed.

  (* ------------------------------------------------------------------ which panics exist *)
  (* every Panic outcome of the model carries one of these tags: they stand for
     (1) a missing entry in the finite float/duration oracle table of the test harness,
     (2) behaviour deliberately left unmodelled, (3) a nil callback or nil *Custom
     supplied by the caller; there is no other way for the model to "panic":
     every index/slice operation of the Go code is modelled by a total, guarded one. *)
  Definition benign_panic (t : str) : Prop :=
    has_prefix t (s2l "ORACLE-MISS:") = true \/ has_prefix t (s2l "UNMODELLED:") = true \/
    t = s2l "reflect: call of nil function" \/
    t = s2l "reflect: Call with too few input arguments" \/
    t = s2l "call on non-func" \/
    t = s2l "ill-typed value" \/ t = s2l "ill-typed map entry" \/
    t = s2l "value method main.Custom.MarshalFlag called using nil *Custom pointer".

  Theorem parse_body_panics : forall args r t,
    parse_body cfg orc root help_text args r = Panic t -> benign_panic t.
  Proof.
    intros args r t H.
    assert (W : wp benign (parse_body cfg orc root help_text args r) (fun _ => True)).
    { unfold parse_body. wp_bind_with parse_core_wp. intros [s r1] _. exact I. }
    exact (wp_panic _ _ _ _ W H).
  Qed.

  (* ------------------------------------------------------------------ logs frame *)
  (* the argument loop and the application of defaults never execute a command and
     never write to stdout/stderr *)
  Lemma run_loop_logs : forall fuel s r s' r',
    run_loop cfg orc root help_text fuel s r = Ok (s', r') ->
    l_exec (rt_logs r') = l_exec (rt_logs r) /\ l_out (rt_logs r') = l_out (rt_logs r).
  Proof.
    intros fuel s r s' r' H.
    exact (wp_ok _ _ _ _ (run_loop_wp_weak cfg orc root help_text fuel s r) H).
  Qed.

  Lemma parse_core_logs : forall args r s' r',
    parse_core cfg orc root help_text args r = Ok (s', r') ->
    l_exec (rt_logs r') = l_exec (rt_logs r) /\ l_out (rt_logs r') = l_out (rt_logs r).
  Proof.
    intros args r s' r' H.
    exact (wp_ok _ _ _ _ (parse_core_wp cfg orc root help_text args r) H).
  Qed.

  (* ------------------------------------------------------------------ parse_finish *)
  Lemma print_error_exec r e : l_exec (rt_logs (print_error cfg r e)) = l_exec (rt_logs r).
  Proof. unfold print_error. destruct (po_print _); reflexivity. Qed.
  Lemma print_error_out r e :
    l_out (rt_logs (print_error cfg r e)) =
    l_out (rt_logs r) ++
    (if po_print (pc_opts cfg)
     then [(match e with EFlags ErrHelp _ => true | _ => false end, err_text e ++ [10])] else []).
  Proof. unfold print_error. destruct (po_print _); [reflexivity|symmetry; apply app_nil_r]. Qed.

  (* the four shapes of the epilogue *)
  Lemma parse_finish_cases s r :
    (exists e ra, parse_finish cfg root s r = (print_error cfg r e, {| pr_ret := ra; pr_err := Some e |})) \/
    (ps_err s = None /\
     parse_finish cfg root s r = (r, {| pr_ret := Some (ps_ret s); pr_err := None |})) \/
    (ps_err s = None /\ exists c,
     parse_finish cfg root s r = (log_exec r c (ps_ret s), {| pr_ret := Some (ps_ret s); pr_err := None |})) \/
    (exists m ra,
     parse_finish cfg root s r =
       (print_error cfg (log_exec r (Some (ps_cmd s)) (ps_ret s)) (EForeign m),
        {| pr_ret := ra; pr_err := Some (EForeign m) |})).
  Proof.
    unfold parse_finish. cbv zeta.
    destruct (ps_err s) as [e|].
    { left. eexists; eexists; reflexivity. }
    destruct (_ && _).
    { left. eexists; eexists; reflexivity. }
    destruct (c_exec _) as [| |m].
    - destruct (pc_cmdhandler cfg).
      + right; right; left. split; [reflexivity|]. eexists; reflexivity.
      + right; left. split; reflexivity.
    - right; right; left. split; [reflexivity|]. eexists; reflexivity.
    - right; right; right. eexists; eexists; reflexivity.
  Qed.

  Lemma parse_body_inv args r r' res :
    parse_body cfg orc root help_text args r = Ok (r', res) ->
    exists s r1, parse_core cfg orc root help_text args r = Ok (s, r1) /\
                 parse_finish cfg root s r1 = (r', res).
  Proof.
    unfold parse_body. intros H.
    destruct (parse_core cfg orc root help_text args r) as [[s r1]| |]; cbn [bind] in H; try discriminate H.
    injection H as H. exists s, r1. split; [reflexivity|exact H].
  Qed.

  (* ------------------------------------------------------------------ C09: dispatch *)
  (* Outcome of a whole ParseArgs w.r.t. command execution.  Exactly these cases:
     - an error was detected while parsing (any stage, including a missing/unknown
       required command): nothing was invoked;
     - no error: at most one invocation, for the innermost command [ps_cmd], with
       precisely the remaining arguments that are also returned; if that invocation
       fails its error is returned unchanged. *)
  Theorem C09_dispatch_main : forall args r r' res,
    parse_body cfg orc root help_text args r = Ok (r', res) ->
    let old := l_exec (rt_logs r) in
    let new := l_exec (rt_logs r') in
    (* nothing invoked: either an error is returned, or the innermost command is not executable and no handler is installed *)
    (new = old) \/
    (* exactly one invocation, success: returned args = args handed to the command *)
    (exists c a, new = old ++ [(c, a)] /\ pr_err res = None /\ pr_ret res = Some a) \/
    (* exactly one invocation, which failed: its error is returned unchanged *)
    (exists c a m, new = old ++ [(Some c, a)] /\ pr_err res = Some (EForeign m)).
  Proof.
    intros args r r' res H.
    destruct (parse_body_inv _ _ _ _ H) as (s & r1 & HC & HF).
    destruct (parse_core_logs _ _ _ _ HC) as [Lx _].
    cbv zeta. rewrite <- Lx.
    destruct (parse_finish_cases s r1) as [(e & ra & E)|[(_ & E)|[(_ & c & E)|(m & ra & E)]]];
      rewrite E in HF; injection HF as <- <-.
    - left. apply print_error_exec.
    - left. reflexivity.
    - right; left. exists c, (ps_ret s). repeat split; reflexivity.
    - right; right. exists (ps_cmd s), (ps_ret s), m. split; [|reflexivity].
      rewrite print_error_exec. reflexivity.
  Qed.

  (* parse-stage errors (everything that is a *flags.Error, i.e. EFlags) never come with an invocation *)
  Theorem C09_no_exec_on_flags_error : forall args r r' res t m,
    parse_body cfg orc root help_text args r = Ok (r', res) ->
    pr_err res = Some (EFlags t m) ->
    l_exec (rt_logs r') = l_exec (rt_logs r).
  Proof.
    intros args r r' res t m H HE.
    destruct (parse_body_inv _ _ _ _ H) as (s & r1 & HC & HF).
    destruct (parse_core_logs _ _ _ _ HC) as [Lx _].
    rewrite <- Lx.
    destruct (parse_finish_cases s r1) as [(e & ra & E)|[(_ & E)|[(_ & c & E)|(m' & ra & E)]]];
      rewrite E in HF; injection HF as <- <-; cbn [pr_err] in HE; try discriminate HE.
    apply print_error_exec.
  Qed.

  (* ------------------------------------------------------------------ C04: output discipline *)
  Theorem C04_output_main : forall args r r' res,
    parse_body cfg orc root help_text args r = Ok (r', res) ->
    l_out (rt_logs r') =
    l_out (rt_logs r) ++
    match pr_err res with
    | Some e => if po_print (pc_opts cfg)
                then [(match e with EFlags ErrHelp _ => true | _ => false end, err_text e ++ [10])]
                else []
    | None => []
    end.
  Proof.
    intros args r r' res H.
    destruct (parse_body_inv _ _ _ _ H) as (s & r1 & HC & HF).
    destruct (parse_core_logs _ _ _ _ HC) as [_ Lo].
    rewrite <- Lo.
    destruct (parse_finish_cases s r1) as [(e & ra & E)|[(_ & E)|[(_ & c & E)|(m' & ra & E)]]];
      rewrite E in HF; injection HF as <- <-; cbn [pr_err].
    - apply print_error_out.
    - symmetry; apply app_nil_r.
    - symmetry; apply app_nil_r.
    - rewrite print_error_out. reflexivity.
  Qed.

  (* ------------------------------------------------------------------ C06: required options *)
  (* (proved first; restated as [check_required_missing] below) *)
  Lemma check_required_missing_aux : forall s r oc pc,
    In pc (active_chain (cmd_depth root) (rt_active r) root []) ->
    In oc (cmd_octxs (snd pc)) ->
    o_required (oc_opt oc) = true ->
    f_isset (rt_fl r (o_fid (oc_opt oc))) = false ->
    exists m, ps_err (check_required cfg root s r) = Some (EFlags ErrRequired m).
  Proof.
    intros s r oc pc Hpc Hoc Hreq Hset.
    unfold check_required. cbv zeta.
    set (missing := flat_map (fun pc0 : list nat * command => filter _ (cmd_octxs (snd pc0))) _).
    assert (HIn : In oc missing).
    { unfold missing. apply in_flat_map. exists pc. split; [exact Hpc|].
      apply filter_In. split; [exact Hoc|]. rewrite Hset, Hreq. reflexivity. }
    destruct missing as [|x l]; [contradiction|].
    destruct (sort_strs _) as [|n [|n2 l2]]; eexists; reflexivity.
  Qed.


  (* on success every required option declared on the parser or on a command of the
     active chain is marked as set *)
  Theorem C06_required_main : forall args r r' res,
    parse_body cfg orc root help_text args r = Ok (r', res) ->
    pr_err res = None ->
    forall pc oc,
      In pc (active_chain (cmd_depth root) (rt_active r') root []) ->
      In oc (cmd_octxs (snd pc)) ->
      o_required (oc_opt oc) = true ->
      f_isset (rt_fl r' (o_fid (oc_opt oc))) = true.
  Proof.
    intros args r r' res H HE pc oc Hpc Hoc Hreq.
    destruct (parse_body_inv _ _ _ _ H) as (s & r1 & HC & HF).
    (* the epilogue leaves flags and Active pointers alone, and ps_err s = None *)
    assert (K : ps_err s = None /\ rt_fl r' = rt_fl r1 /\ rt_active r' = rt_active r1).
    { destruct (parse_finish_cases s r1) as [(e & ra & E)|[(PE & E)|[(PE & c & E)|(m' & ra & E)]]];
        rewrite E in HF; injection HF as <- <-; cbn [pr_err] in HE; try discriminate HE;
        repeat split; try exact PE; reflexivity. }
    destruct K as (PE & Kf & Ka). rewrite Kf. rewrite Ka in Hpc.
    (* s is the result of the required check *)
    unfold parse_core in HC.
    destruct (run_loop _ _ _ _ _ _ _) as [[s0 r0]| |]; cbn [bind] in HC; try discriminate HC.
    destruct (ps_err s0) eqn:PE0.
    { injection HC as <- <-. congruence. }
    destruct (clear_defaults _ _ _ _ _ _) as [[s1 r2]| |]; cbn [bind] in HC; try discriminate HC.
    injection HC as <- <-.
    destruct (f_isset (rt_fl r2 (o_fid (oc_opt oc)))) eqn:IS; [reflexivity|].
    destruct (check_required_missing_aux s1 r2 oc pc Hpc Hoc Hreq IS) as [m Hm].
    congruence.
  Qed.

  (* and, when some required option of the active chain is missing after defaults, the
     outcome is ErrRequired (unless an error was already recorded before the check) *)
  Theorem check_required_missing : forall s r oc pc,
    In pc (active_chain (cmd_depth root) (rt_active r) root []) ->
    In oc (cmd_octxs (snd pc)) ->
    o_required (oc_opt oc) = true ->
    f_isset (rt_fl r (o_fid (oc_opt oc))) = false ->
    exists m, ps_err (check_required cfg root s r) = Some (EFlags ErrRequired m).
  Proof. exact check_required_missing_aux. Qed.
End Frame.

Print Assumptions step_decreases.
Print Assumptions run_loop_fuel.
Print Assumptions parse_body_panics.
Print Assumptions run_loop_logs.
Print Assumptions parse_core_logs.
Print Assumptions C09_dispatch_main.
Print Assumptions C09_no_exec_on_flags_error.
Print Assumptions C04_output_main.
Print Assumptions C06_required_main.
Print Assumptions check_required_missing.
