(* C10 ("positional arguments bind in declaration order"), END-TO-END over the whole
   argument loop (Parse.run_loop).

   ArgsSpec.v describes ONE call of parseState.addArgs (bind_spec / queue_after /
   add_args_spec).  Here a command line is a list of ITEMS - option occurrences
   (DenoteSpec.spell1, one or two tokens each) and plain words - in any interleaving,
   and the loop is shown to
     - bind the plain words, in order, exactly as [bind_spec] says (each converted into
       its field by the convert call addArgs makes), leave the words beyond the declared
       fields in ps_ret, in order, and leave the queue [queue_after];
     - set the option fields exactly as the fold of Option.Set ([DenoteSpec.denote]) over
       the option occurrences does;
     - hence: the interleaving of options and words is irrelevant;
     - after the `--` terminator (PassDoubleDash) bind every token as a positional;
     - stop at the first plain word whose conversion fails, with that error. *)
From GoFlags Require Import Base.Str Base.Utf8 Golib.Strings Golib.Strconv
     Model.Types Model.Tag Model.Scan Model.Lookup Model.Convert Model.State Model.Help Model.Parse
     Proofs.LookupSpec Proofs.FrameBase Proofs.ValueSpec Proofs.SpellSpec Proofs.ContextSpec
     Proofs.ArgsSpec Proofs.PrecedenceSpec Proofs.DenoteSpec.
From Coq Require Import Lia ZifyN ZifyNat ZifyBool.
Open Scope N_scope.

(* ================================================================== *)
(* 0. bind_spec / queue_after are compositional                        *)
(* ================================================================== *)

Lemma bind_spec_nil_pos : forall toks, bind_spec [] toks = ([], toks).
Proof. destruct toks; reflexivity. Qed.

Lemma queue_after_nil_pos : forall toks, queue_after [] toks = [].
Proof. destruct toks; reflexivity. Qed.

Lemma bind_spec_cons : forall p pos t toks,
  bind_spec (p :: pos) (t :: toks) =
  ((p, t) :: fst (bind_spec (if is_slice (a_ty p) then p :: pos else pos) toks),
   snd (bind_spec (if is_slice (a_ty p) then p :: pos else pos) toks)).
Proof. intros. cbn [bind_spec]. destruct (bind_spec _ toks); reflexivity. Qed.

Lemma bind_spec_app : forall a b pos,
  bind_spec pos (a ++ b) =
  (fst (bind_spec pos a) ++ fst (bind_spec (queue_after pos a) b),
   snd (bind_spec pos a) ++ snd (bind_spec (queue_after pos a) b)).
Proof.
  induction a as [|t a IH]; intros b pos.
  - cbn [app bind_spec queue_after fst snd]. destruct (bind_spec pos b); reflexivity.
  - change ((t :: a) ++ b) with (t :: (a ++ b)).
    destruct pos as [|p pos].
    + cbn [queue_after]. rewrite !bind_spec_nil_pos. reflexivity.
    + rewrite !bind_spec_cons. cbn [queue_after fst snd]. rewrite IH. reflexivity.
Qed.

Lemma queue_after_app : forall a b pos,
  queue_after pos (a ++ b) = queue_after (queue_after pos a) b.
Proof.
  induction a as [|t a IH]; intros b pos; [reflexivity|].
  change ((t :: a) ++ b) with (t :: (a ++ b)).
  destruct pos as [|p pos]; cbn [queue_after].
  - rewrite queue_after_nil_pos. reflexivity.
  - apply IH.
Qed.

(* only declared fields are bound, only declared fields stay queued *)
Lemma bind_spec_in : forall toks pos p t, In (p, t) (fst (bind_spec pos toks)) -> In p pos.
Proof.
  induction toks as [|t0 toks IH]; intros pos p t H.
  - destruct H.
  - destruct pos as [|p0 pos].
    + rewrite bind_spec_nil_pos in H. destruct H.
    + rewrite bind_spec_cons in H. cbn [fst] in H. destruct H as [H|H].
      * injection H as <- _. left; reflexivity.
      * apply IH in H. destruct (is_slice (a_ty p0)); [exact H|right; exact H].
Qed.

Lemma queue_after_in : forall toks pos p, In p (queue_after pos toks) -> In p pos.
Proof.
  induction toks as [|t0 toks IH]; intros pos p H; [exact H|].
  destruct pos as [|p0 pos]; [destruct H|].
  cbn [queue_after] in H. apply IH in H.
  destruct (is_slice (a_ty p0)); [exact H|right; exact H].
Qed.

(* what "declaration order" means, explicitly: with only scalar fields, the i-th word
   goes to the i-th field and the words beyond the fields are left over ... *)
Lemma bind_spec_scalars : forall scal ws,
  Forall (fun p => is_slice (a_ty p) = false) scal ->
  bind_spec scal ws = (combine scal ws, skipn (length scal) ws) /\
  queue_after scal ws = skipn (length ws) scal.
Proof.
  induction scal as [|p scal IH]; intros ws H.
  - rewrite bind_spec_nil_pos, queue_after_nil_pos, skipn_nil. split; reflexivity.
  - inversion H as [|x l Hp Hs]; subst.
    destruct ws as [|t ws]; [split; reflexivity|].
    rewrite bind_spec_cons. cbn [queue_after]. rewrite Hp.
    destruct (IH ws Hs) as [E1 E2]. rewrite E1, E2. split; reflexivity.
Qed.

(* ... and with a trailing slice field, the slice absorbs every further word, in order,
   nothing is left over and the slice stays queued *)
Lemma bind_spec_trailing_slice : forall scal sl ws,
  Forall (fun p => is_slice (a_ty p) = false) scal -> is_slice (a_ty sl) = true ->
  bind_spec (scal ++ [sl]) ws =
    (combine scal ws ++ map (pair sl) (skipn (length scal) ws), []) /\
  queue_after (scal ++ [sl]) ws = skipn (length ws) scal ++ [sl].
Proof.
  induction scal as [|p scal IH]; intros sl ws H Hsl.
  - cbn [app combine length skipn]. rewrite skipn_nil. cbn [app].
    induction ws as [|t ws IHw]; [split; reflexivity|].
    rewrite bind_spec_cons. cbn [queue_after]. rewrite Hsl.
    destruct IHw as [E1 E2]. rewrite E1, E2. split; reflexivity.
  - inversion H as [|x l Hp Hs]; subst.
    destruct ws as [|t ws]; [split; reflexivity|].
    change ((p :: scal) ++ [sl]) with (p :: (scal ++ [sl])).
    rewrite bind_spec_cons. cbn [queue_after]. rewrite Hp.
    destruct (IH sl ws Hs Hsl) as [E1 E2]. rewrite E1, E2. split; reflexivity.
Qed.

(* ================================================================== *)
(* 1. Items: option occurrences and plain words                        *)
(* ================================================================== *)

Definition item : Type := (occ + str)%type.

Fixpoint words (l : list item) : list str :=
  match l with
  | [] => []
  | inl _ :: l' => words l'
  | inr w :: l' => w :: words l'
  end.

Fixpoint occs (l : list item) : list occ :=
  match l with
  | [] => []
  | inl o :: l' => o :: occs l'
  | inr _ :: l' => occs l'
  end.

(* ================================================================== *)
(* 2. Runtime states that differ only in the positional fields         *)
(* ================================================================== *)

(* same values on the fields in [P] *)
Definition agree_on (P : nat -> Prop) (a b : rt) : Prop :=
  forall k, P k -> rt_vals a k = rt_vals b k.

(* same everything (values, bookkeeping, Active pointers, all logs) except the values of
   the fields in [P] *)
Definition same_but (P : nat -> Prop) (a b : rt) : Prop :=
  (forall k, ~ P k -> rt_vals a k = rt_vals b k) /\
  (forall k, rt_fl a k = rt_fl b k) /\
  rt_active a = rt_active b /\ rt_logs a = rt_logs b.

Lemma agree_on_refl P a : agree_on P a a.
Proof. intros k _. reflexivity. Qed.
Lemma agree_on_sym P a b : agree_on P a b -> agree_on P b a.
Proof. intros H k Hk. symmetry. apply H. exact Hk. Qed.
Lemma agree_on_trans P a b c : agree_on P a b -> agree_on P b c -> agree_on P a c.
Proof. intros H1 H2 k Hk. rewrite (H1 k Hk). apply H2. exact Hk. Qed.
Lemma agree_on_set_val P a b k v : agree_on P a b -> agree_on P (set_val a k v) (set_val b k v).
Proof.
  intros H k' Hk'. cbn [set_val rt_vals]. unfold upd.
  destruct (Nat.eqb k' k); [reflexivity|apply H; exact Hk'].
Qed.

Lemma sb_refl P a : same_but P a a.
Proof. repeat split. Qed.
Lemma sb_sym P a b : same_but P a b -> same_but P b a.
Proof.
  intros (A & B & C & D). split; [intros k Hk; symmetry; apply A; exact Hk|].
  split; [intros k; symmetry; apply B|]. split; symmetry; assumption.
Qed.
Lemma sb_trans P a b c : same_but P a b -> same_but P b c -> same_but P a c.
Proof.
  intros (A & B & C & D) (A' & B' & C' & D').
  split; [intros k Hk; rewrite (A k Hk); apply A'; exact Hk|].
  split; [intros k; rewrite (B k); apply B'|]. split; congruence.
Qed.
Lemma sb_set_fl P a b k f : same_but P a b -> same_but P (set_fl a k f) (set_fl b k f).
Proof.
  intros (A & B & C & D). split; [exact A|]. split; [|split; assumption].
  intros k'. cbn [set_fl rt_fl]. unfold upd. destruct (Nat.eqb k' k); [reflexivity|apply B].
Qed.
Lemma sb_set_val P a b k v : same_but P a b -> same_but P (set_val a k v) (set_val b k v).
Proof.
  intros (A & B & C & D). split; [|split; [exact B|split; assumption]].
  intros k' Hk'. cbn [set_val rt_vals]. unfold upd.
  destruct (Nat.eqb k' k); [reflexivity|apply A; exact Hk'].
Qed.
Lemma sb_log_call P a b k x : same_but P a b -> same_but P (log_call a k x) (log_call b k x).
Proof.
  intros (A & B & C & D). split; [exact A|]. split; [exact B|]. split; [exact C|].
  unfold log_call, set_logs. cbn [rt_logs]. rewrite D. reflexivity.
Qed.
Lemma sb_opt_empty P o a b : same_but P a b -> same_but P (opt_empty o a) (opt_empty o b).
Proof. intros H. unfold opt_empty. destruct (is_func (o_ty o)); [exact H|apply sb_set_val; exact H]. Qed.
(* writing a field of [P] *)
Lemma sb_set_val_in (P : nat -> Prop) a k v : P k -> same_but P (set_val a k v) a.
Proof.
  intros Hk. split; [|repeat split].
  intros k' Hk'. cbn [set_val rt_vals]. apply upd_neq. intros ->. exact (Hk' Hk).
Qed.

(* ---- Option.Set does not look at the positional fields ---- *)
Section Sim.
  Variable orc : oracles.
  Variable delim : str.
  Variable ht : rt -> str.
  Variable P : nat -> Prop.

  Definition sim_res (x1 x2 : res (rt * option err)) : Prop :=
    match x1, x2 with
    | Ok (a, e1), Ok (b, e2) => same_but P a b /\ same_err e1 e2
    | Err e1, Err e2 => e1 = e2
    | Panic a, Panic b => a = b
    | _, _ => False
    end.

  Lemma opt_call_sim oc arg r1 r2 :
    ~ P (o_fid (oc_opt oc)) -> same_but P r1 r2 ->
    sim_res (opt_call orc ht oc arg r1) (opt_call orc ht oc arg r2).
  Proof.
    intros HP H.
    assert (F : forall a b, same_but P a b ->
      sim_res
        (if o_is_help (oc_opt oc) then Ok (a, Some (EFlags ErrHelp (ht a)))
         else match rt_vals a (o_fid (oc_opt oc)), o_ty (oc_opt oc) with
              | VFunc true _, _ => Panic (s2l "reflect: call of nil function")
              | VFunc false fails, TFunc _ true =>
                Ok (a, if fails then Some (foreign (s2l "callback failed")) else None)
              | _, _ => Ok (a, None)
              end)
        (if o_is_help (oc_opt oc) then Ok (b, Some (EFlags ErrHelp (ht b)))
         else match rt_vals b (o_fid (oc_opt oc)), o_ty (oc_opt oc) with
              | VFunc true _, _ => Panic (s2l "reflect: call of nil function")
              | VFunc false fails, TFunc _ true =>
                Ok (b, if fails then Some (foreign (s2l "callback failed")) else None)
              | _, _ => Ok (b, None)
              end)).
    { intros a b Hab. destruct (o_is_help (oc_opt oc)).
      - split; [exact Hab|]. right. eexists. eexists. split; reflexivity.
      - rewrite <- (proj1 Hab _ HP).
        destruct (rt_vals a (o_fid (oc_opt oc))); try (split; [exact Hab|apply same_err_refl]).
        destruct isnil; [reflexivity|].
        destruct (o_ty (oc_opt oc)); try (split; [exact Hab|apply same_err_refl]).
        destruct ret_err; split; try exact Hab; apply same_err_refl. }
    unfold opt_call. cbv zeta.
    destruct arg as [v|]; destruct (o_ty (oc_opt oc)) as [k|k|e|k1 k2|[k|] b] eqn:E;
      try reflexivity.
    - destruct (convert orc (o_base (oc_opt oc)) v (TScalar k) (zero_kind k)) as [[x [e|]]|e|w];
        cbn [bind sim_res]; try reflexivity.
      + split; [exact H|apply same_err_refl].
      + apply F. apply sb_log_call. exact H.
    - apply F. destruct (o_is_help _); [exact H|apply sb_log_call; exact H].
    - apply F. destruct (o_is_help _); [exact H|apply sb_log_call; exact H].
  Qed.

  Lemma opt_set_sim oc arg r1 r2 :
    ~ P (o_fid (oc_opt oc)) -> same_but P r1 r2 ->
    sim_res (opt_set orc delim ht oc arg r1) (opt_set orc delim ht oc arg r2).
  Proof.
    intros HP H. unfold opt_set. cbv zeta.
    rewrite <- (proj1 (proj2 H) (o_fid (oc_opt oc))).
    set (fl := rt_fl r1 (o_fid (oc_opt oc))).
    set (a := set_fl (if (_ && _)%bool then opt_empty (oc_opt oc) r1 else r1) _ _).
    set (b := set_fl (if (_ && _)%bool then opt_empty (oc_opt oc) r2 else r2) _ _).
    assert (Hab : same_but P a b).
    { unfold a, b. apply sb_set_fl. destruct (_ && _); [apply sb_opt_empty; exact H|exact H]. }
    clearbody a b.
    assert (K : sim_res
      (if is_func (o_ty (oc_opt oc)) then opt_call orc ht oc arg a
       else bind (convert orc (o_base (oc_opt oc)) match arg with Some v => v | None => [] end
                     (o_ty (oc_opt oc)) (rt_vals a (o_fid (oc_opt oc))))
              (fun cv => let '(v, e) := cv in Ok (set_val a (o_fid (oc_opt oc)) v, option_map foreign e)))
      (if is_func (o_ty (oc_opt oc)) then opt_call orc ht oc arg b
       else bind (convert orc (o_base (oc_opt oc)) match arg with Some v => v | None => [] end
                     (o_ty (oc_opt oc)) (rt_vals b (o_fid (oc_opt oc))))
              (fun cv => let '(v, e) := cv in Ok (set_val b (o_fid (oc_opt oc)) v, option_map foreign e)))).
    { destruct (is_func _).
      - apply opt_call_sim; assumption.
      - rewrite <- (proj1 Hab _ HP).
        destruct (convert _ _ _ _ _) as [[v e]|e|w]; cbn [bind sim_res]; try reflexivity.
        split; [apply sb_set_val; exact Hab|apply same_err_refl]. }
    destruct (o_choices (oc_opt oc)) as [|c cs]; [exact K|].
    destruct arg as [v|]; [|exact K].
    destruct (existsb _ _); [exact K|].
    cbn [bind sim_res]. split; [exact Hab|apply same_err_refl].
  Qed.

  Lemma opt_set_sim_ok oc arg r1 r2 a :
    ~ P (o_fid (oc_opt oc)) -> same_but P r1 r2 ->
    opt_set orc delim ht oc arg r1 = Ok (a, None) ->
    exists b, opt_set orc delim ht oc arg r2 = Ok (b, None) /\ same_but P a b.
  Proof.
    intros HP H E. pose proof (opt_set_sim oc arg r1 r2 HP H) as S. rewrite E in S.
    destruct (opt_set orc delim ht oc arg r2) as [[b e2]|e2|w2]; cbn [sim_res] in S; try contradiction.
    destruct S as [S1 S2]. apply same_err_none_l in S2. subst e2. exists b. split; [reflexivity|exact S1].
  Qed.

  (* the fold of Option.Set over occurrences whose fields are outside [P] *)
  Lemma denote_sim : forall os r1 r2 a,
    (forall oc x, In (oc, x) os -> ~ P (o_fid (oc_opt oc))) -> same_but P r1 r2 ->
    denote orc delim ht os r1 = Ok (a, None) ->
    exists b, denote orc delim ht os r2 = Ok (b, None) /\ same_but P a b.
  Proof.
    induction os as [|[oc x] os IH]; intros r1 r2 a HP H E.
    - rewrite denote_nil in E. injection E as <-. exists r2. split; [reflexivity|exact H].
    - destruct (denote_cons_ok orc delim ht oc x os r1 a E) as (m1 & E1 & E2).
      destruct (opt_set_sim_ok oc x r1 r2 m1 (HP oc x (or_introl eq_refl)) H E1) as (m2 & F1 & F2).
      destruct (IH m1 m2 a (fun oc' x' Hin => HP oc' x' (or_intror Hin)) F2 E2) as (b & G1 & G2).
      exists b. split; [|exact G2]. rewrite denote_cons, F1. cbn [bind fst snd]. exact G1.
  Qed.
End Sim.

(* ================================================================== *)
(* 3. The loop over a mixed command line                               *)
(* ================================================================== *)
Section Pos.
  Variable cfg : pconfig.
  Variable orc : oracles.
  Variable root : command.
  Variable ht : rt -> str.

  Local Notation pstep := (step cfg orc root ht).
  Local Notation ploop := (run_loop cfg orc root ht).
  Local Notation oset := (opt_set orc (pc_nsdelim cfg) ht).
  Local Notation fold := (denote orc (pc_nsdelim cfg) ht).

  (* a PLAIN word: does not look like an option, and is not the terminator *)
  Definition plain_word (w : str) : Prop :=
    argument_is_option w = false /\ (po_passdd (pc_opts cfg) && str_eqb w (s2l "--")) = false.

  (* tokens vs items (analogous to DenoteSpec.spells) *)
  Inductive mixed (lk : lookup) : list str -> list item -> Prop :=
  | mixed_nil : mixed lk [] []
  | mixed_occ : forall ts o toks items,
      spell1 lk ts o -> mixed lk toks items -> mixed lk (ts ++ toks) (inl o :: items)
  | mixed_word : forall w toks items,
      plain_word w -> mixed lk toks items -> mixed lk (w :: toks) (inr w :: items).

  (* option-only command lines are DenoteSpec.spells *)
  Lemma spells_mixed lk toks os : spells lk toks os -> mixed lk toks (map inl os).
  Proof. induction 1; cbn [map]; constructor; assumption. Qed.

  Lemma mixed_app lk : forall t1 i1, mixed lk t1 i1 -> forall t2 i2, mixed lk t2 i2 ->
    mixed lk (t1 ++ t2) (i1 ++ i2).
  Proof.
    induction 1 as [|ts o toks items H1 _ IH|w toks items Hw _ IH]; intros t2 i2 H2.
    - exact H2.
    - rewrite <- app_assoc. cbn [app]. constructor; [exact H1|apply IH; exact H2].
    - cbn [app]. constructor; [exact Hw|apply IH; exact H2].
  Qed.

  (* ---- the successful conversions of a binding list, in order ---- *)
  Fixpoint bound (B : list (arg * str)) (r : rt) : option rt :=
    match B with
    | [] => Some r
    | (p, t) :: B' =>
      match convert orc (a_base p) t (a_ty p) (rt_vals r (a_fid p)) with
      | Ok (v, None) => bound B' (set_val r (a_fid p) v)
      | _ => None
      end
    end.

  Lemma bound_app : forall A B r,
    bound (A ++ B) r = match bound A r with Some r1 => bound B r1 | None => None end.
  Proof.
    induction A as [|[p t] A IH]; intros B r; [reflexivity|].
    cbn [app bound].
    destruct (convert orc (a_base p) t (a_ty p) (rt_vals r (a_fid p))) as [[v [m|]]|e|w];
      try reflexivity.
    apply IH.
  Qed.

  (* [bound] is ArgsSpec.store_binding folded, with every conversion successful *)
  Lemma bound_store : forall B r rp, bound B r = Some rp -> rp = fold_left (store_binding orc) B r.
  Proof.
    induction B as [|[p t] B IH]; intros r rp H; cbn [bound] in H.
    - injection H as <-. reflexivity.
    - cbn [fold_left store_binding].
      destruct (convert orc (a_base p) t (a_ty p) (rt_vals r (a_fid p))) as [[v [m|]]|e|w];
        try discriminate H.
      apply IH. exact H.
  Qed.

  Lemma bound_agree (P : nat -> Prop) : forall B a b a',
    (forall p t, In (p, t) B -> P (a_fid p)) -> agree_on P a b ->
    bound B a = Some a' -> exists b', bound B b = Some b' /\ agree_on P a' b'.
  Proof.
    induction B as [|[p t] B IH]; intros a b a' HB Hab H; cbn [bound] in *.
    - injection H as <-. exists b. split; [reflexivity|exact Hab].
    - assert (Pp : P (a_fid p)) by (apply (HB p t); left; reflexivity).
      rewrite <- (Hab _ Pp).
      destruct (convert orc (a_base p) t (a_ty p) (rt_vals a (a_fid p))) as [[v [m|]]|e|w];
        try discriminate H.
      apply (IH (set_val a (a_fid p) v) (set_val b (a_fid p) v) a');
        [intros p0 t0 Hin; apply (HB p0 t0); right; exact Hin|apply agree_on_set_val; exact Hab|exact H].
  Qed.

  Lemma bound_same_but (P : nat -> Prop) : forall B r r',
    (forall p t, In (p, t) B -> P (a_fid p)) -> bound B r = Some r' -> same_but P r' r.
  Proof.
    induction B as [|[p t] B IH]; intros r r' HB H; cbn [bound] in H.
    - injection H as <-. apply sb_refl.
    - destruct (convert orc (a_base p) t (a_ty p) (rt_vals r (a_fid p))) as [[v [m|]]|e|w];
        try discriminate H.
      eapply sb_trans; [apply (IH _ _ (fun p0 t0 Hin => HB p0 t0 (or_intror Hin)) H)|].
      apply sb_set_val_in. apply (HB p t). left; reflexivity.
  Qed.

  (* ---- addArgs = bound ---- *)
  Lemma add_args_bound_inv : forall toks s r s' r',
    add_args orc toks s r = Ok (s', r', None) ->
    bound (fst (bind_spec (ps_pos s) toks)) r = Some r'.
  Proof.
    induction toks as [|t toks IH]; intros s r s' r' H.
    - rewrite add_args_nil in H. inversion H; subst. reflexivity.
    - rewrite add_args_cons in H.
      destruct (ps_pos s) as [|p ps'] eqn:Hp.
      + inversion H; subst. reflexivity.
      + rewrite bind_spec_cons. cbn [fst bound].
        destruct (convert orc (a_base p) t (a_ty p) (rt_vals r (a_fid p))) as [[v e]|e|w] eqn:Hc;
          cbn [bind] in H; try discriminate.
        destruct e as [m|]; [inversion H|].
        apply IH in H.
        destruct (is_slice (a_ty p)).
        * rewrite Hp in H. exact H.
        * cbn [ps_with_retpos ps_pos] in H. exact H.
  Qed.

  Lemma add_args_bound : forall toks s r rp,
    bound (fst (bind_spec (ps_pos s) toks)) r = Some rp ->
    exists s1, add_args orc toks s r = Ok (s1, rp, None).
  Proof.
    induction toks as [|t toks IH]; intros s r rp H.
    - cbn [bind_spec fst bound] in H. injection H as <-. exists s. apply add_args_nil.
    - rewrite add_args_cons.
      destruct (ps_pos s) as [|p ps'] eqn:Hp.
      + rewrite bind_spec_nil_pos in H. cbn [fst bound] in H. injection H as <-.
        eexists. reflexivity.
      + rewrite bind_spec_cons in H. cbn [fst bound] in H.
        destruct (convert orc (a_base p) t (a_ty p) (rt_vals r (a_fid p))) as [[v [m|]]|e|w];
          try discriminate H.
        cbn [bind].
        destruct (is_slice (a_ty p)).
        * apply IH. rewrite Hp. exact H.
        * apply IH. cbn [ps_with_retpos ps_pos]. exact H.
  Qed.

  (* ---- the context in which a plain word is an argument (not a command word) ---- *)
  (* one word, given the command, the command table, the pending positionals and the
     arguments left over so far *)
  Definition arg_ok (c : command) (lk : lookup) (pos : list arg) (ret : list str) (w : str) : Prop :=
    pos <> [] \/ cmd_subs c = [] \/ ret <> [] \/
    (c_sub_optional (cmd_info c) = true /\ find_last (lk_cmds lk) w = None).

  (* all the words, along the run *)
  Fixpoint arg_context (c : command) (lk : lookup) (pos : list arg) (ret : list str) (ws : list str)
    : Prop :=
    match ws with
    | [] => True
    | w :: ws' =>
      arg_ok c lk pos ret w /\
      arg_context c lk (queue_after pos [w]) (ret ++ snd (bind_spec pos [w])) ws'
    end.

  (* the simplest sufficient condition: a leaf command *)
  Lemma arg_context_leaf c lk : cmd_subs c = [] -> forall ws pos ret, arg_context c lk pos ret ws.
  Proof.
    intros H. induction ws as [|w ws IH]; intros pos ret; cbn [arg_context]; [exact I|].
    split; [right; left; exact H|apply IH].
  Qed.

  Lemma cur_cmd_eq s1 s : ps_cmd s1 = ps_cmd s -> cur_cmd root s1 = cur_cmd root s.
  Proof. intros H. unfold cur_cmd. rewrite H. reflexivity. Qed.

  Lemma parse_non_option_arg s r :
    arg_ok (cur_cmd root s) (ps_lk s) (ps_pos s) (ps_ret s) (ps_arg s) ->
    parse_non_option cfg orc root s r = add_args orc [ps_arg s] s r.
  Proof.
    intros H. unfold parse_non_option. cbv zeta.
    destruct (ps_pos s) as [|p q] eqn:Hp; [|reflexivity].
    destruct H as [H|[H|[H|[Ho Hf]]]].
    - congruence.
    - rewrite H. reflexivity.
    - destruct (ps_ret s) as [|x l]; [congruence|].
      cbn [map nonempty negb]. rewrite Bool.andb_false_r. reflexivity.
    - rewrite Hf, Ho. cbn [negb]. destruct (_ && _); reflexivity.
  Qed.

  (* one loop iteration on a plain word *)
  Lemma step_plain_word s r w rest :
    ps_args s = w :: rest -> plain_word w -> po_passafter (pc_opts cfg) = false ->
    arg_ok (cur_cmd root s) (ps_lk s) (ps_pos s) (ps_ret s) w ->
    pstep s r = bind (add_args orc [w] (ps_with_args s w rest) r) (fun x =>
                  let '(s', r', e) := x in
                  match e with Some _ => Ok (Break s' r') | None => Ok (Continue s' r') end).
  Proof.
    intros Ha [Hno Hdd] Hpa Hok. unfold step. rewrite Ha. cbv zeta. rewrite Hdd, Hno, Hpa.
    cbn [negb andb].
    rewrite (parse_non_option_arg (ps_with_args s w rest) r) by exact Hok.
    reflexivity.
  Qed.

  (* [s1] is [s] after the plain word [w] went through addArgs *)
  Definition word_stepped (s : pst) (w : str) (rest : list str) (s1 : pst) : Prop :=
    ps_args s1 = rest /\ ps_arg s1 = w /\
    ps_ret s1 = ps_ret s ++ snd (bind_spec (ps_pos s) [w]) /\
    ps_pos s1 = queue_after (ps_pos s) [w] /\
    ps_err s1 = ps_err s /\ ps_cmd s1 = ps_cmd s /\ ps_lk s1 = ps_lk s.

  Lemma add_args_word_stepped s r w rest s1 r1 :
    add_args orc [w] (ps_with_args s w rest) r = Ok (s1, r1, None) -> word_stepped s w rest s1.
  Proof.
    intros H. pose proof (add_args_frame orc _ _ _ _ _ _ H) as (_ & _ & _ & Flk).
    apply add_args_spec in H. destruct H as (A & B & _ & C & D & E & F).
    cbn [ps_with_args ps_args ps_arg ps_ret ps_pos ps_err ps_cmd ps_lk] in *.
    repeat split; assumption.
  Qed.

  (* [sm] is the parser state reached from [s] after the tokens [toks] (whose plain
     words are [ws]) were processed, [suffix] still pending *)
  Definition reached (s : pst) (toks suffix ws : list str) (sm : pst) : Prop :=
    ps_args sm = suffix /\ ps_arg sm = last toks (ps_arg s) /\
    ps_ret sm = ps_ret s ++ snd (bind_spec (ps_pos s) ws) /\
    ps_pos sm = queue_after (ps_pos s) ws /\
    ps_err sm = ps_err s /\ ps_cmd sm = ps_cmd s /\ ps_lk sm = ps_lk s.

  Lemma reached_nil s suffix : ps_args s = suffix -> reached s [] suffix [] s.
  Proof.
    intros H. unfold reached. cbn [last bind_spec snd queue_after]. rewrite app_nil_r.
    repeat split. exact H.
  Qed.

  Lemma reached_occ s ts rest s1 toks suffix ws sm :
    ts <> [] -> popped s ts rest s1 -> reached s1 toks suffix ws sm ->
    reached s (ts ++ toks) suffix ws sm.
  Proof.
    intros Hne (_ & Parg & Pret & Ppos & Perr & Pcmd & Plk) (A & B & C & D & E & F & G).
    unfold reached. rewrite Pret, Ppos in C. rewrite Ppos in D.
    split; [exact A|]. split; [rewrite B, Parg; symmetry; apply last_app_nonempty; exact Hne|].
    split; [exact C|]. split; [exact D|]. repeat split; congruence.
  Qed.

  Lemma reached_word s w rest s1 toks suffix ws sm :
    word_stepped s w rest s1 -> reached s1 toks suffix ws sm ->
    reached s (w :: toks) suffix (w :: ws) sm.
  Proof.
    intros (_ & Parg & Pret & Ppos & Perr & Pcmd & Plk) (A & B & C & D & E & F & G).
    unfold reached. change (w :: ws) with ([w] ++ ws).
    rewrite bind_spec_app, queue_after_app. cbn [snd].
    split; [exact A|]. split; [rewrite B, Parg; symmetry; apply last_cons_default|].
    split; [rewrite C, Pret, Ppos, app_assoc; reflexivity|].
    split; [rewrite D, Ppos; reflexivity|]. repeat split; congruence.
  Qed.

  (* ---------------------------------------------------------------- *)
  (* the two simulations: from a successful run to the specification,  *)
  (* and from the specification to the run                             *)
  (* ---------------------------------------------------------------- *)

  (* what the runtime state [rm] is, in terms of the two specifications:
     [rp] (the bindings of the plain words) on the positional fields [P],
     [ro] (the fold of Option.Set) on everything else *)
  Definition rt_split (P : nat -> Prop) (rm rp ro : rt) : Prop :=
    agree_on P rm rp /\ same_but P rm ro.

  Lemma run_mixed_bwd : forall lk toks items, mixed lk toks items ->
    forall (P : nat -> Prop) suffix fuel s r s' r',
    ps_lk s = lk -> ps_args s = toks ++ suffix -> (length toks < fuel)%nat ->
    po_passafter (pc_opts cfg) = false ->
    arg_context (cur_cmd root s) lk (ps_pos s) (ps_ret s) (words items) ->
    (forall p, In p (ps_pos s) -> P (a_fid p)) ->
    (forall oc a, In (oc, a) (occs items) -> ~ P (o_fid (oc_opt oc))) ->
    ps_err s = None ->
    ploop fuel s r = Ok (s', r') -> ps_err s' = None ->
    exists sm rm f' rp ro,
      ploop f' sm rm = Ok (s', r') /\ (fuel <= f' + length toks)%nat /\
      reached s toks suffix (words items) sm /\
      bound (fst (bind_spec (ps_pos s) (words items))) r = Some rp /\
      fold (occs items) r = Ok (ro, None) /\
      rt_split P rm rp ro.
  Proof.
    induction 1 as [|ts [oc a] toks items H1 Hm IH|w toks items Hw Hm IH];
      intros P suffix fuel s r s' r' Hlk Hargs Hf Hpa Hctx HP Hdis Herr Hrun Herr';
      (destruct fuel as [|f]; [lia|]).
    - exists s, r, (S f), r, r. cbn [words occs length].
      split; [exact Hrun|]. split; [lia|]. split; [apply reached_nil; exact Hargs|].
      split; [reflexivity|]. split; [reflexivity|]. split; [apply agree_on_refl|apply sb_refl].
    - (* an option occurrence *)
      cbn [words occs] in *.
      destruct (spell1_nonempty lk ts _ H1) as (t & ts' & Ets).
      assert (Hne : ts <> []) by (rewrite Ets; discriminate).
      assert (Hargs2 : ps_args s = ts ++ (toks ++ suffix)) by (rewrite Hargs, app_assoc; reflexivity).
      destruct (step_spell1 cfg orc root ht lk ts oc a H1 s r (toks ++ suffix) Hlk Hargs2)
        as (s1 & Hp & Hstep).
      pose proof Hp as (Pargs & Parg & Pret & Ppos & Perr & Pcmd & Plk).
      assert (Hargs' : ps_args s = t :: (ts' ++ toks ++ suffix)) by (rewrite Hargs2, Ets; reflexivity).
      rewrite (run_loop_cons cfg orc root ht f s r t _ Hargs'), Hstep in Hrun.
      unfold after_set in Hrun.
      destruct (oset oc a r) as [[r1 [e|]]|e|w] eqn:Eset; cbn [bind fst snd] in Hrun;
        try discriminate Hrun.
      + injection Hrun as <- <-. cbn [ps_with_err ps_err] in Herr'. discriminate Herr'.
      + assert (Hf' : (length toks < f)%nat).
        { rewrite app_length, Ets in Hf. cbn [length] in Hf. lia. }
        destruct (IH P suffix f s1 r1 s' r' (eq_trans Plk Hlk) Pargs Hf' Hpa)
          as (sm & rm & f' & rp1 & ro & Hl & Hfu & Hre & Hb & Hd & Hag & Hsb).
        { rewrite (cur_cmd_eq s1 s Pcmd), Ppos, Pret. exact Hctx. }
        { rewrite Ppos. exact HP. }
        { intros oc0 a0 Hin. apply (Hdis oc0 a0). right. exact Hin. }
        { rewrite Perr. exact Herr. }
        { exact Hrun. }
        { exact Herr'. }
        (* Option.Set does not touch the positional fields *)
        assert (Hr1 : agree_on P r1 r).
        { destruct (opt_set_frame orc _ ht oc a r r1 None Eset) as (FA & _).
          intros k Hk. apply FA. intros ->. exact (Hdis oc a (or_introl eq_refl) Hk). }
        rewrite Ppos in Hb.
        destruct (bound_agree P _ r1 r rp1
                    (fun p t Hin => HP p (bind_spec_in _ _ p t Hin)) Hr1 Hb) as (rp & Hb' & Hag').
        exists sm, rm, f', rp, ro.
        split; [exact Hl|]. split; [rewrite app_length, Ets in *; cbn [length] in *; lia|].
        split; [exact (reached_occ s ts _ s1 toks suffix _ sm Hne Hp Hre)|].
        split; [exact Hb'|].
        split; [rewrite denote_cons, Eset; cbn [bind fst snd]; exact Hd|].
        split; [eapply agree_on_trans; eassumption|exact Hsb].
    - (* a plain word *)
      cbn [words occs arg_context] in *. destruct Hctx as [Hok Hctx].
      assert (Hargs' : ps_args s = w :: (toks ++ suffix)) by exact Hargs.
      rewrite (run_loop_cons cfg orc root ht f s r w _ Hargs') in Hrun.
      rewrite (step_plain_word s r w (toks ++ suffix) Hargs' Hw Hpa) in Hrun
        by (rewrite Hlk; exact Hok).
      destruct (add_args orc [w] (ps_with_args s w (toks ++ suffix)) r) as [[[s1 r1] e]|e|x] eqn:Hadd;
        cbn [bind] in Hrun; try discriminate Hrun.
      destruct e as [e|].
      + injection Hrun as <- <-. apply add_args_error in Hadd. destruct Hadd as [Hadd _].
        rewrite Hadd in Herr'. discriminate Herr'.
      + pose proof (add_args_word_stepped s r w _ s1 r1 Hadd) as Hws.
        pose proof Hws as (Pargs & Parg & Pret & Ppos & Perr & Pcmd & Plk).
        apply add_args_bound_inv in Hadd. cbn [ps_with_args ps_pos] in Hadd.
        assert (Hf' : (length toks < f)%nat) by (cbn [length] in Hf; lia).
        assert (HB1 : forall p t, In (p, t) (fst (bind_spec (ps_pos s) [w])) -> P (a_fid p))
          by (intros p t Hin; exact (HP p (bind_spec_in _ _ p t Hin))).
        destruct (IH P suffix f s1 r1 s' r' (eq_trans Plk Hlk) Pargs Hf' Hpa)
          as (sm & rm & f' & rp & ro1 & Hl & Hfu & Hre & Hb & Hd & Hag & Hsb).
        { rewrite (cur_cmd_eq s1 s Pcmd), Ppos, Pret. exact Hctx. }
        { intros p Hin. rewrite Ppos in Hin. exact (HP p (queue_after_in _ _ p Hin)). }
        { exact Hdis. }
        { rewrite Perr. exact Herr. }
        { exact Hrun. }
        { exact Herr'. }
        destruct (denote_sim orc (pc_nsdelim cfg) ht P (occs items) r1 r ro1 Hdis
                    (bound_same_but P _ r r1 HB1 Hadd) Hd) as (ro & Hd' & Hsb').
        exists sm, rm, f', rp, ro.
        split; [exact Hl|]. split; [cbn [length]; lia|].
        split; [exact (reached_word s w _ s1 toks suffix _ sm Hws Hre)|].
        split.
        { change (w :: words items) with ([w] ++ words items).
          rewrite bind_spec_app. cbn [fst]. rewrite bound_app, Hadd. rewrite Ppos in Hb. exact Hb. }
        split; [exact Hd'|].
        split; [exact Hag|eapply sb_trans; eassumption].
  Qed.

  Lemma run_mixed_fwd : forall lk toks items, mixed lk toks items ->
    forall (P : nat -> Prop) suffix fuel s r rp ro,
    ps_lk s = lk -> ps_args s = toks ++ suffix -> (length toks < fuel)%nat ->
    po_passafter (pc_opts cfg) = false ->
    arg_context (cur_cmd root s) lk (ps_pos s) (ps_ret s) (words items) ->
    (forall p, In p (ps_pos s) -> P (a_fid p)) ->
    (forall oc a, In (oc, a) (occs items) -> ~ P (o_fid (oc_opt oc))) ->
    bound (fst (bind_spec (ps_pos s) (words items))) r = Some rp ->
    fold (occs items) r = Ok (ro, None) ->
    exists sm rm f',
      ploop fuel s r = ploop f' sm rm /\ (fuel <= f' + length toks)%nat /\
      reached s toks suffix (words items) sm /\
      rt_split P rm rp ro.
  Proof.
    induction 1 as [|ts [oc a] toks items H1 Hm IH|w toks items Hw Hm IH];
      intros P suffix fuel s r rp ro Hlk Hargs Hf Hpa Hctx HP Hdis Hb Hd;
      (destruct fuel as [|f]; [lia|]).
    - cbn [words occs bind_spec fst bound] in *. rewrite denote_nil in Hd.
      injection Hb as <-. injection Hd as <-.
      exists s, r, (S f). split; [reflexivity|]. split; [cbn [length]; lia|].
      split; [apply reached_nil; exact Hargs|]. split; [apply agree_on_refl|apply sb_refl].
    - cbn [words occs] in *.
      destruct (spell1_nonempty lk ts _ H1) as (t & ts' & Ets).
      assert (Hne : ts <> []) by (rewrite Ets; discriminate).
      assert (Hargs2 : ps_args s = ts ++ (toks ++ suffix)) by (rewrite Hargs, app_assoc; reflexivity).
      destruct (step_spell1 cfg orc root ht lk ts oc a H1 s r (toks ++ suffix) Hlk Hargs2)
        as (s1 & Hp & Hstep).
      pose proof Hp as (Pargs & Parg & Pret & Ppos & Perr & Pcmd & Plk).
      assert (Hargs' : ps_args s = t :: (ts' ++ toks ++ suffix)) by (rewrite Hargs2, Ets; reflexivity).
      rewrite (run_loop_cons cfg orc root ht f s r t _ Hargs'), Hstep.
      destruct (denote_cons_ok orc _ ht oc a _ r ro Hd) as (r1 & Eset & Hd1).
      unfold after_set. rewrite Eset. cbn [bind fst snd].
      assert (Hr1 : agree_on P r r1).
      { destruct (opt_set_frame orc _ ht oc a r r1 None Eset) as (FA & _).
        intros k Hk. symmetry. apply FA. intros ->. exact (Hdis oc a (or_introl eq_refl) Hk). }
      destruct (bound_agree P _ r r1 rp
                  (fun p t Hin => HP p (bind_spec_in _ _ p t Hin)) Hr1 Hb) as (rp1 & Hb1 & Hag1).
      assert (Hf' : (length toks < f)%nat).
      { rewrite app_length, Ets in Hf. cbn [length] in Hf. lia. }
      destruct (IH P suffix f s1 r1 rp1 ro (eq_trans Plk Hlk) Pargs Hf' Hpa)
        as (sm & rm & f' & Hl & Hfu & Hre & Hag & Hsb).
      { rewrite (cur_cmd_eq s1 s Pcmd), Ppos, Pret. exact Hctx. }
      { rewrite Ppos. exact HP. }
      { intros oc0 a0 Hin. apply (Hdis oc0 a0). right. exact Hin. }
      { rewrite Ppos. exact Hb1. }
      { exact Hd1. }
      exists sm, rm, f'. split; [exact Hl|].
      split; [rewrite app_length, Ets in *; cbn [length] in *; lia|].
      split; [exact (reached_occ s ts _ s1 toks suffix _ sm Hne Hp Hre)|].
      split; [|exact Hsb].
      eapply agree_on_trans; [exact Hag|apply agree_on_sym; exact Hag1].
    - cbn [words occs arg_context] in *. destruct Hctx as [Hok Hctx].
      assert (Hargs' : ps_args s = w :: (toks ++ suffix)) by exact Hargs.
      rewrite (run_loop_cons cfg orc root ht f s r w _ Hargs').
      rewrite (step_plain_word s r w (toks ++ suffix) Hargs' Hw Hpa) by (rewrite Hlk; exact Hok).
      change (w :: words items) with ([w] ++ words items) in Hb.
      rewrite bind_spec_app in Hb. cbn [fst] in Hb. rewrite bound_app in Hb.
      destruct (bound (fst (bind_spec (ps_pos s) [w])) r) as [r1|] eqn:Hb1; [|discriminate Hb].
      destruct (add_args_bound [w] (ps_with_args s w (toks ++ suffix)) r r1 Hb1) as (s1 & Hadd).
      rewrite Hadd. cbn [bind].
      pose proof (add_args_word_stepped s r w _ s1 r1 Hadd) as Hws.
      pose proof Hws as (Pargs & Parg & Pret & Ppos & Perr & Pcmd & Plk).
      assert (HB1 : forall p t, In (p, t) (fst (bind_spec (ps_pos s) [w])) -> P (a_fid p))
        by (intros p t Hin; exact (HP p (bind_spec_in _ _ p t Hin))).
      destruct (denote_sim orc (pc_nsdelim cfg) ht P (occs items) r r1 ro Hdis
                  (sb_sym _ _ _ (bound_same_but P _ r r1 HB1 Hb1)) Hd) as (ro1 & Hd1 & Hsb1).
      assert (Hf' : (length toks < f)%nat) by (cbn [length] in Hf; lia).
      destruct (IH P suffix f s1 r1 rp ro1 (eq_trans Plk Hlk) Pargs Hf' Hpa)
        as (sm & rm & f' & Hl & Hfu & Hre & Hag & Hsb).
      { rewrite (cur_cmd_eq s1 s Pcmd), Ppos, Pret. exact Hctx. }
      { intros p Hin. rewrite Ppos in Hin. exact (HP p (queue_after_in _ _ p Hin)). }
      { exact Hdis. }
      { rewrite Ppos. exact Hb. }
      { exact Hd1. }
      exists sm, rm, f'. split; [exact Hl|]. split; [cbn [length]; lia|].
      split; [exact (reached_word s w _ s1 toks suffix _ sm Hws Hre)|].
      split; [exact Hag|]. eapply sb_trans; [exact Hsb|apply sb_sym; exact Hsb1].
  Qed.

  (* ================================================================ *)
  (* 4. The target theorems                                            *)
  (* ================================================================ *)

  Lemma pos_fid_in (pos : list arg) : forall p, In p pos -> In (a_fid p) (map a_fid pos).
  Proof. intros p H. apply in_map. exact H. Qed.

  (* C10, main statement, under the GENERAL context condition [arg_context]: every
     plain word is met with a positional pending, or in a command without sub-commands,
     or after an argument was already left over, or (sub-commands optional) is not a
     sub-command name. *)
  Theorem C10_loop_binds_in_order_gen :
    forall (toks : list str) (items : list item) (fuel : nat) (s : pst) (r : rt) (s' : pst) (r' : rt),
    mixed (ps_lk s) toks items -> ps_args s = toks -> (length toks < fuel)%nat ->
    po_passafter (pc_opts cfg) = false ->
    arg_context (cur_cmd root s) (ps_lk s) (ps_pos s) (ps_ret s) (words items) ->
    (forall oc a, In (oc, a) (occs items) -> ~ In (o_fid (oc_opt oc)) (map a_fid (ps_pos s))) ->
    ps_err s = None ->
    ploop fuel s r = Ok (s', r') -> ps_err s' = None ->
    let B := fst (bind_spec (ps_pos s) (words items)) in
    exists rp ro,
      (* the positional fields: every conversion succeeded, in declaration order *)
      bound B r = Some rp /\ rp = fold_left (store_binding orc) B r /\
      (forall k, In k (map a_fid (ps_pos s)) -> rt_vals r' k = rt_vals rp k) /\
      ps_ret s' = ps_ret s ++ snd (bind_spec (ps_pos s) (words items)) /\
      ps_pos s' = queue_after (ps_pos s) (words items) /\
      (* everything else: the fold of Option.Set over the option occurrences *)
      fold (occs items) r = Ok (ro, None) /\
      (forall k, ~ In k (map a_fid (ps_pos s)) -> rt_vals r' k = rt_vals ro k) /\
      (forall k, rt_fl r' k = rt_fl ro k) /\ rt_active r' = rt_active ro /\ rt_logs r' = rt_logs ro /\
      (* fields that are neither positional nor set by an occurrence are untouched *)
      (forall k, ~ In k (map a_fid (ps_pos s)) ->
                 (forall oc a, In (oc, a) (occs items) -> o_fid (oc_opt oc) <> k) ->
                 rt_vals r' k = rt_vals r k /\ rt_fl r' k = rt_fl r k) /\
      (* the rest of the parser state *)
      ps_args s' = [] /\ ps_arg s' = last toks (ps_arg s) /\ ps_cmd s' = ps_cmd s /\ ps_lk s' = ps_lk s.
  Proof.
    intros toks items fuel s r s' r' Hm Ha Hf Hpa Hctx Hdis He Hrun He' B.
    assert (Ha' : ps_args s = toks ++ []) by (rewrite app_nil_r; exact Ha).
    destruct (run_mixed_bwd (ps_lk s) toks items Hm (fun k => In k (map a_fid (ps_pos s))) [] fuel s r s' r'
                eq_refl Ha' Hf Hpa Hctx (pos_fid_in (ps_pos s)) Hdis He Hrun He')
      as (sm & rm & f' & rp & ro & Hl & Hfu & Hre & Hb & Hd & Hag & (SA & SB & SC & SD)).
    destruct Hre as (A1 & A2 & A3 & A4 & A5 & A6 & A7).
    destruct f' as [|f']; [lia|].
    rewrite (run_loop_done cfg orc root ht f' sm rm A1) in Hl. injection Hl as <- <-.
    exists rp, ro.
    split; [exact Hb|]. split; [apply bound_store; exact Hb|]. split; [exact Hag|].
    split; [exact A3|]. split; [exact A4|]. split; [exact Hd|]. split; [exact SA|].
    split; [exact SB|]. split; [exact SC|]. split; [exact SD|].
    split.
    { intros k Hk Hno.
      destruct (C01_denote_untouched orc _ ht k (occs items) r ro None Hd Hno) as (U1 & U2 & _).
      split; [rewrite (SA k Hk); exact U1|rewrite (SB k); exact U2]. }
    repeat split; assumption.
  Qed.

  (* C10, main statement: a leaf command *)
  Theorem C10_loop_binds_in_order :
    forall (toks : list str) (items : list item) (fuel : nat) (s : pst) (r : rt) (s' : pst) (r' : rt),
    mixed (ps_lk s) toks items -> ps_args s = toks -> (length toks < fuel)%nat ->
    cmd_subs (cur_cmd root s) = [] ->
    po_passafter (pc_opts cfg) = false ->
    (forall oc a, In (oc, a) (occs items) -> ~ In (o_fid (oc_opt oc)) (map a_fid (ps_pos s))) ->
    ps_err s = None ->
    ploop fuel s r = Ok (s', r') -> ps_err s' = None ->
    let B := fst (bind_spec (ps_pos s) (words items)) in
    exists rp ro,
      (* the positional fields: every conversion succeeded, in declaration order *)
      bound B r = Some rp /\ rp = fold_left (store_binding orc) B r /\
      (forall k, In k (map a_fid (ps_pos s)) -> rt_vals r' k = rt_vals rp k) /\
      ps_ret s' = ps_ret s ++ snd (bind_spec (ps_pos s) (words items)) /\
      ps_pos s' = queue_after (ps_pos s) (words items) /\
      (* everything else: the fold of Option.Set over the option occurrences *)
      fold (occs items) r = Ok (ro, None) /\
      (forall k, ~ In k (map a_fid (ps_pos s)) -> rt_vals r' k = rt_vals ro k) /\
      (forall k, rt_fl r' k = rt_fl ro k) /\ rt_active r' = rt_active ro /\ rt_logs r' = rt_logs ro /\
      (* fields that are neither positional nor set by an occurrence are untouched *)
      (forall k, ~ In k (map a_fid (ps_pos s)) ->
                 (forall oc a, In (oc, a) (occs items) -> o_fid (oc_opt oc) <> k) ->
                 rt_vals r' k = rt_vals r k /\ rt_fl r' k = rt_fl r k) /\
      (* the rest of the parser state *)
      ps_args s' = [] /\ ps_arg s' = last toks (ps_arg s) /\ ps_cmd s' = ps_cmd s /\ ps_lk s' = ps_lk s.
  Proof.
    intros toks items fuel s r s' r' Hm Ha Hf Hleaf Hpa Hdis He Hrun He'.
    exact (C10_loop_binds_in_order_gen toks items fuel s r s' r' Hm Ha Hf Hpa
             (arg_context_leaf _ _ Hleaf _ _ _) Hdis He Hrun He').
  Qed.

  (* the converse: whenever the specification succeeds (all conversions of the plain
     words and all Option.Set calls), so does the loop, with the state described above;
     so the hypotheses "the run succeeds" of C10_loop_binds_in_order is exactly
     "the specification succeeds" *)
  Theorem C10_loop_binds_in_order_conv :
    forall (toks : list str) (items : list item) (fuel : nat) (s : pst) (r rp ro : rt),
    mixed (ps_lk s) toks items -> ps_args s = toks -> (length toks < fuel)%nat ->
    po_passafter (pc_opts cfg) = false ->
    arg_context (cur_cmd root s) (ps_lk s) (ps_pos s) (ps_ret s) (words items) ->
    (forall oc a, In (oc, a) (occs items) -> ~ In (o_fid (oc_opt oc)) (map a_fid (ps_pos s))) ->
    bound (fst (bind_spec (ps_pos s) (words items))) r = Some rp ->
    fold (occs items) r = Ok (ro, None) ->
    exists s' r',
      ploop fuel s r = Ok (s', r') /\ ps_err s' = ps_err s /\
      reached s toks [] (words items) s' /\
      rt_split (fun k => In k (map a_fid (ps_pos s))) r' rp ro.
  Proof.
    intros toks items fuel s r rp ro Hm Ha Hf Hpa Hctx Hdis Hb Hd.
    assert (Ha' : ps_args s = toks ++ []) by (rewrite app_nil_r; exact Ha).
    destruct (run_mixed_fwd (ps_lk s) toks items Hm (fun k => In k (map a_fid (ps_pos s))) [] fuel s r rp ro
                eq_refl Ha' Hf Hpa Hctx (pos_fid_in (ps_pos s)) Hdis Hb Hd)
      as (sm & rm & f' & Hl & Hfu & Hre & Hsp).
    destruct f' as [|f']; [lia|].
    rewrite (run_loop_done cfg orc root ht f' sm rm (proj1 Hre)) in Hl.
    exists sm, rm. split; [exact Hl|]. split; [apply Hre|]. split; [exact Hre|exact Hsp].
  Qed.

  (* INTERLEAVING DOES NOT MATTER *)
  Theorem C10_interleaving_irrelevant :
    forall (toks1 toks2 : list str) (items1 items2 : list item) (fuel1 fuel2 : nat)
           (s1 s2 : pst) (r : rt) (s1' s2' : pst) (r1' r2' : rt),
    words items1 = words items2 -> occs items1 = occs items2 ->
    ps_lk s1 = ps_lk s2 -> ps_pos s1 = ps_pos s2 -> ps_ret s1 = ps_ret s2 -> ps_cmd s1 = ps_cmd s2 ->
    mixed (ps_lk s1) toks1 items1 -> mixed (ps_lk s2) toks2 items2 ->
    ps_args s1 = toks1 -> ps_args s2 = toks2 ->
    (length toks1 < fuel1)%nat -> (length toks2 < fuel2)%nat ->
    cmd_subs (cur_cmd root s1) = [] ->
    po_passafter (pc_opts cfg) = false ->
    (forall oc a, In (oc, a) (occs items1) -> ~ In (o_fid (oc_opt oc)) (map a_fid (ps_pos s1))) ->
    ps_err s1 = None -> ps_err s2 = None ->
    ploop fuel1 s1 r = Ok (s1', r1') -> ps_err s1' = None ->
    ploop fuel2 s2 r = Ok (s2', r2') -> ps_err s2' = None ->
    (forall k, rt_vals r1' k = rt_vals r2' k) /\
    (forall k, rt_fl r1' k = rt_fl r2' k) /\
    rt_active r1' = rt_active r2' /\ rt_logs r1' = rt_logs r2' /\
    ps_ret s1' = ps_ret s2' /\ ps_pos s1' = ps_pos s2' /\
    ps_cmd s1' = ps_cmd s2' /\ ps_lk s1' = ps_lk s2' /\ ps_args s1' = ps_args s2'.
  Proof.
    intros toks1 toks2 items1 items2 fuel1 fuel2 s1 s2 r s1' s2' r1' r2'
           Hw Ho Hlk Hpos Hret Hcmd Hm1 Hm2 Ha1 Ha2 Hf1 Hf2 Hleaf Hpa Hdis He1 He2 Hr1 He1' Hr2 He2'.
    assert (Hleaf2 : cmd_subs (cur_cmd root s2) = [])
      by (rewrite (cur_cmd_eq s2 s1 (eq_sym Hcmd)); exact Hleaf).
    assert (Hdis2 : forall oc a, In (oc, a) (occs items2) ->
                                 ~ In (o_fid (oc_opt oc)) (map a_fid (ps_pos s2)))
      by (rewrite <- Ho, <- Hpos; exact Hdis).
    destruct (C10_loop_binds_in_order toks1 items1 fuel1 s1 r s1' r1' Hm1 Ha1 Hf1 Hleaf Hpa Hdis He1 Hr1 He1')
      as (rp1 & ro1 & B1 & _ & P1 & R1 & Q1 & D1 & O1 & F1 & A1 & L1 & _ & G1 & _ & C1 & K1).
    destruct (C10_loop_binds_in_order toks2 items2 fuel2 s2 r s2' r2' Hm2 Ha2 Hf2 Hleaf2 Hpa Hdis2 He2 Hr2 He2')
      as (rp2 & ro2 & B2 & _ & P2 & R2 & Q2 & D2 & O2 & F2 & A2 & L2 & _ & G2 & _ & C2 & K2).
    rewrite <- Hw, <- Hpos in B2, R2, Q2. rewrite <- Ho in D2. rewrite <- Hpos in P2, O2.
    rewrite B1 in B2. injection B2 as <-. rewrite D1 in D2. injection D2 as <-.
    split.
    { intros k. destruct (in_dec Nat.eq_dec k (map a_fid (ps_pos s1))) as [Hk|Hk].
      - rewrite (P1 k Hk), (P2 k Hk). reflexivity.
      - rewrite (O1 k Hk), (O2 k Hk). reflexivity. }
    split; [intros k; rewrite (F1 k), (F2 k); reflexivity|].
    repeat split; congruence.
  Qed.

  (* after the `--` terminator every token is a positional argument *)
  Theorem C10_after_terminator_everything_is_positional :
    forall (pre : list str) (items : list item) (tail : list str) (fuel : nat)
           (s : pst) (r : rt) (s' : pst) (r' : rt),
    po_passdd (pc_opts cfg) = true ->
    mixed (ps_lk s) pre items -> ps_args s = pre ++ s2l "--" :: tail ->
    (length pre < fuel)%nat ->
    cmd_subs (cur_cmd root s) = [] ->
    po_passafter (pc_opts cfg) = false ->
    (forall oc a, In (oc, a) (occs items) -> ~ In (o_fid (oc_opt oc)) (map a_fid (ps_pos s))) ->
    ps_err s = None ->
    ploop fuel s r = Ok (s', r') -> ps_err s' = None ->
    let P := fun k => In k (map a_fid (ps_pos s)) in
    let W := words items ++ tail in
    exists sm rm sa rp0 rp ro,
      (* the loop reaches the terminator in the state C10_loop_binds_in_order describes for [pre] *)
      reached s pre (s2l "--" :: tail) (words items) sm /\
      bound (fst (bind_spec (ps_pos s) (words items))) r = Some rp0 /\
      fold (occs items) r = Ok (ro, None) /\ rt_split P rm rp0 ro /\
      (* the terminator step is ONE addArgs on the whole tail, whatever its tokens look like *)
      add_args orc tail (ps_with_args sm (s2l "--") tail) rm = Ok (sa, r', None) /\
      s' = ps_with_args sa (s2l "--") tail /\
      (* hence the tail continues the binding of the plain words before it; no option is set *)
      bound (fst (bind_spec (ps_pos s) W)) r = Some rp /\ rt_split P r' rp ro /\
      ps_ret s' = ps_ret s ++ snd (bind_spec (ps_pos s) W) /\
      ps_pos s' = queue_after (ps_pos s) W /\
      ps_args s' = tail /\ ps_arg s' = s2l "--" /\ ps_cmd s' = ps_cmd s /\ ps_lk s' = ps_lk s.
  Proof.
    intros pre items tail fuel s r s' r' Hdd Hm Ha Hf Hleaf Hpa Hdis He Hrun He' P W.
    destruct (run_mixed_bwd (ps_lk s) pre items Hm P (s2l "--" :: tail) fuel s r s' r'
                eq_refl Ha Hf Hpa (arg_context_leaf _ _ Hleaf _ _ _) (pos_fid_in (ps_pos s)) Hdis He Hrun He')
      as (sm & rm & f' & rp0 & ro & Hl & Hfu & Hre & Hb & Hd & Hag & Hsb).
    pose proof Hre as (A1 & A2 & A3 & A4 & A5 & A6 & A7).
    destruct f' as [|f']; [lia|].
    rewrite (run_loop_cons cfg orc root ht f' sm rm _ _ A1) in Hl.
    rewrite (step_dd cfg orc root ht sm rm _ _ A1) in Hl by (rewrite Hdd; reflexivity).
    destruct (add_args orc tail (ps_with_args sm (s2l "--") tail) rm) as [[[sa ra] e]|e|x] eqn:Hadd;
      cbn [bind] in Hl; try discriminate Hl.
    injection Hl as <- <-. cbn [ps_with_args ps_err] in He'.
    destruct e as [e|].
    { apply add_args_error in Hadd. destruct Hadd as [Hadd _]. rewrite Hadd in He'. discriminate He'. }
    pose proof (add_args_frame orc _ _ _ _ _ _ Hadd) as (_ & _ & _ & Flk).
    pose proof (add_args_spec orc _ _ _ _ _ Hadd) as (S1 & S2 & _ & _ & _ & _ & S7).
    pose proof (add_args_bound_inv _ _ _ _ _ Hadd) as Hbt.
    cbn [ps_with_args ps_ret ps_pos ps_cmd ps_lk] in S1, S2, S7, Flk, Hbt.
    rewrite A4 in Hbt, S1, S2.
    assert (HB : forall p t, In (p, t) (fst (bind_spec (queue_after (ps_pos s) (words items)) tail)) ->
                             P (a_fid p)).
    { intros p t Hin. apply pos_fid_in. eapply queue_after_in. eapply bind_spec_in. exact Hin. }
    destruct (bound_agree P _ rm rp0 ra HB Hag Hbt) as (rp & Hbt' & Hag').
    exists sm, rm, sa, rp0, rp, ro.
    split; [exact Hre|]. split; [exact Hb|]. split; [exact Hd|]. split; [split; assumption|].
    split; [exact Hadd|]. split; [reflexivity|].
    split; [unfold W; rewrite bind_spec_app; cbn [fst]; rewrite bound_app, Hb; exact Hbt'|].
    split; [split; [exact Hag'|eapply sb_trans; [exact (bound_same_but P _ rm ra HB Hbt)|exact Hsb]]|].
    cbn [ps_with_args ps_ret ps_pos ps_args ps_arg ps_cmd ps_lk]. unfold W.
    rewrite bind_spec_app, queue_after_app. cbn [snd].
    split; [rewrite S1, A3, app_assoc; reflexivity|]. split; [exact S2|].
    repeat split; congruence.
  Qed.

  (* a plain word whose conversion fails stops the loop there, with the conversion
     error as it is (EForeign: it is NOT wrapped as ErrMarshal, unlike an option's) *)
  Theorem C10_conversion_failure_stops :
    forall (pre : list str) (items : list item) (w : str) (rest : list str) (fuel : nat)
           (s : pst) (r rp ro : rt) (p : arg) (q : list arg) (v : value) (m : str),
    mixed (ps_lk s) pre items -> plain_word w -> ps_args s = pre ++ w :: rest ->
    (length pre < fuel)%nat ->
    cmd_subs (cur_cmd root s) = [] ->
    po_passafter (pc_opts cfg) = false ->
    (forall oc a, In (oc, a) (occs items) -> ~ In (o_fid (oc_opt oc)) (map a_fid (ps_pos s))) ->
    (* everything before [w] succeeds ... *)
    bound (fst (bind_spec (ps_pos s) (words items))) r = Some rp ->
    fold (occs items) r = Ok (ro, None) ->
    (* ... [w] is due for the positional [p], and its conversion fails with message [m] *)
    queue_after (ps_pos s) (words items) = p :: q ->
    convert orc (a_base p) w (a_ty p) (rt_vals rp (a_fid p)) = Ok (v, Some m) ->
    exists s' r',
      ploop fuel s r = Ok (s', r') /\
      ps_err s' = Some (EForeign m) /\
      (* no later token is processed *)
      ps_args s' = rest /\ ps_arg s' = w /\
      ps_pos s' = p :: q /\ ps_ret s' = ps_ret s ++ snd (bind_spec (ps_pos s) (words items)) /\
      ps_cmd s' = ps_cmd s /\ ps_lk s' = ps_lk s /\
      rt_vals r' (a_fid p) = v /\
      (forall k, In k (map a_fid (ps_pos s)) -> k <> a_fid p -> rt_vals r' k = rt_vals rp k) /\
      same_but (fun k => In k (map a_fid (ps_pos s))) r' ro.
  Proof.
    intros pre items w rest fuel s r rp ro p q v m Hm Hw Ha Hf Hleaf Hpa Hdis Hb Hd Hq Hconv.
    set (P := fun k => In k (map a_fid (ps_pos s))).
    destruct (run_mixed_fwd (ps_lk s) pre items Hm P (w :: rest) fuel s r rp ro
                eq_refl Ha Hf Hpa (arg_context_leaf _ _ Hleaf _ _ _) (pos_fid_in (ps_pos s)) Hdis Hb Hd)
      as (sm & rm & f' & Hl & Hfu & Hre & Hag & Hsb).
    destruct Hre as (A1 & A2 & A3 & A4 & A5 & A6 & A7).
    destruct f' as [|f']; [lia|].
    assert (Pp : P (a_fid p)).
    { apply pos_fid_in. apply (queue_after_in (words items)). rewrite Hq. left; reflexivity. }
    rewrite Hl, (run_loop_cons cfg orc root ht f' sm rm _ _ A1).
    rewrite (step_plain_word sm rm w rest A1 Hw Hpa)
      by (right; left; rewrite (cur_cmd_eq sm s A6); exact Hleaf).
    rewrite add_args_cons. cbn [ps_with_args ps_pos]. rewrite A4, Hq, (Hag _ Pp), Hconv.
    cbn [bind].
    eexists. eexists. split; [reflexivity|].
    cbn [ps_with_err ps_with_args ps_err ps_args ps_arg ps_pos ps_ret ps_cmd ps_lk].
    split; [reflexivity|]. split; [reflexivity|]. split; [reflexivity|].
    split; [rewrite A4; exact Hq|]. split; [exact A3|]. split; [exact A6|]. split; [exact A7|].
    split; [cbn [set_val rt_vals]; apply upd_eq|].
    split.
    { intros k Hk Hne. cbn [set_val rt_vals]. rewrite upd_neq by exact Hne. apply Hag. exact Hk. }
    eapply sb_trans; [apply sb_set_val_in; exact Pp|exact Hsb].
  Qed.
End Pos.

(* ================================================================== *)
(* 5. A realistic instance: the hypotheses are satisfiable             *)
(* ================================================================== *)
Module PositionalDemo.
  Import SpellSpec.Demo.

  (* a leaf command  demo [-v|--verbose] [--num N] src count rest...
     with positionals  src string, count int, rest []string  (fields 10, 11, 12)
     and options -v/--verbose bool (field 1), --num int (field 8);
     PassDoubleDash on, PassAfterNonOption off (SpellSpec.Demo.demo_cfg) *)
  Definition p_arg (fid : nat) (name : str) (ty : vtype) : arg :=
    {| a_fid := fid; a_name := name; a_desc := []; a_req := (-1)%Z; a_max := (-1)%Z;
       a_ty := ty; a_base := [] |}.
  Definition a_src := p_arg 10 (s2l "src") (TScalar KString).
  Definition a_cnt := p_arg 11 (s2l "count") (TScalar (KInt I0)).
  Definition a_rest := p_arg 12 (s2l "rest") (TSlice (TScalar KString)).
  Definition o_verb := demo_opt 1 118 (s2l "verbose") (TScalar KBool) false.
  Definition o_num := demo_opt 8 0 (s2l "num") (TScalar (KInt I0)) false.
  Definition p_root : command :=
    Command (demo_cinfo (s2l "demo") false) (Group demo_ginfo [o_verb; o_num] [])
            [a_src; a_cnt; a_rest] [].
  Definition p_rt : rt :=
    {| rt_vals := fun k => match k with
                           | 1%nat => VBool false
                           | 8%nat | 11%nat => VInt 0
                           | 10%nat => VStr []
                           | 12%nat => VSlice true []
                           | _ => VFunc false false
                           end;
       rt_fl := fun _ => oflags0; rt_active := []; rt_logs := logs0 |}.
  Definition p_lk : lookup := make_lookup (pc_nsdelim demo_cfg) p_root [].
  Definition p_pst (args : list str) : pst := initial_pst demo_cfg p_root args.
  Definition p_run (args : list str) (s : pst) :=
    run_loop demo_cfg demo_orc p_root demo_help (S (length args)) s p_rt.
  Definition p_loop (args : list str) := p_run args (p_pst args).
  Definition p_obs (x : res (pst * rt)) :=
    match x with
    | Ok (s, r) => Some (map (rt_vals r) [1; 8; 10; 11; 12]%nat, ps_ret s, map a_fid (ps_pos s),
                         ps_args s, ps_err s)
    | _ => None
    end.

  Definition oc_num7 : occ := (demo_oc o_num, Some (s2l "7")).
  Definition oc_verb : occ := (demo_oc o_verb, None).

  (*  a --num 7 3 c -v d   versus   --num=7 -v a 3 c d  *)
  Definition toks1 : list str := [s2l "a"; s2l "--num"; s2l "7"; s2l "3"; s2l "c"; s2l "-v"; s2l "d"].
  Definition items1 : list item :=
    [inr (s2l "a"); inl oc_num7; inr (s2l "3"); inr (s2l "c"); inl oc_verb; inr (s2l "d")].
  Definition toks2 : list str := [s2l "--num=7"; s2l "-v"; s2l "a"; s2l "3"; s2l "c"; s2l "d"].
  Definition items2 : list item :=
    [inl oc_num7; inl oc_verb; inr (s2l "a"); inr (s2l "3"); inr (s2l "c"); inr (s2l "d")].

  Ltac side :=
    first [ reflexivity
          | apply not_in_61; reflexivity
          | let HH := fresh in intro HH; vm_compute in HH; discriminate HH ].
  Ltac word := apply mixed_word; [split; reflexivity|].

  Example p_mixed1 : mixed demo_cfg p_lk toks1 items1.
  Proof.
    unfold toks1, items1. word.
    apply (mixed_occ demo_cfg p_lk [_; _]); [apply (sp_long_sep p_lk (s2l "num") (s2l "7")); side|].
    word. word.
    apply (mixed_occ demo_cfg p_lk [_]); [apply (sp_short_flag p_lk 118); side|].
    word. apply mixed_nil.
  Qed.

  Example p_mixed2 : mixed demo_cfg p_lk toks2 items2.
  Proof.
    unfold toks2, items2.
    apply (mixed_occ demo_cfg p_lk [_]); [apply (sp_long_eq p_lk (s2l "num") (s2l "7")); side|].
    apply (mixed_occ demo_cfg p_lk [_]); [apply (sp_short_flag p_lk 118); side|].
    word. word. word. word. apply mixed_nil.
  Qed.

  Example p_same_words_occs : words items1 = words items2 /\ occs items1 = occs items2.
  Proof. split; reflexivity. Qed.

  Lemma p_disjoint : forall items args, occs items = [oc_num7; oc_verb] \/ occs items = [oc_verb] \/ occs items = [] ->
    forall oc a, In (oc, a) (occs items) ->
    ~ In (o_fid (oc_opt oc)) (map a_fid (ps_pos (p_pst args))).
  Proof.
    intros items args H oc a Hin.
    destruct H as [H|[H|H]]; rewrite H in Hin; cbn [In] in Hin;
      repeat (destruct Hin as [Hin|Hin]; [injection Hin as <- <-; vm_compute; intuition discriminate|]);
      destruct Hin.
  Qed.

  (* both runs succeed, and (observed) leave the same fields, remaining arguments and queue:
     verbose = true, num = 7, src = "a", count = 3, rest = ["c"; "d"] *)
  Example p_observed :
    p_obs (p_loop toks1) = p_obs (p_loop toks2) /\
    p_obs (p_loop toks1) =
      Some ([VBool true; VInt 7; VStr (s2l "a"); VInt 3; VSlice false [VStr (s2l "c"); VStr (s2l "d")]],
            [], [12%nat], [], None).
  Proof. vm_compute. split; reflexivity. Qed.

  (* every hypothesis of C10_loop_binds_in_order holds for `a --num 7 3 c -v d` *)
  Example p_main_hyps :
    let s := p_pst toks1 in
    mixed demo_cfg (ps_lk s) toks1 items1 /\ ps_args s = toks1 /\
    (length toks1 < S (length toks1))%nat /\
    cmd_subs (cur_cmd p_root s) = [] /\ po_passafter (pc_opts demo_cfg) = false /\
    (forall oc a, In (oc, a) (occs items1) -> ~ In (o_fid (oc_opt oc)) (map a_fid (ps_pos s))) /\
    ps_err s = None /\
    exists s' r', p_loop toks1 = Ok (s', r') /\ ps_err s' = None.
  Proof.
    cbv zeta. split; [exact p_mixed1|]. split; [reflexivity|]. split; [apply Nat.lt_succ_diag_r|].
    split; [reflexivity|]. split; [reflexivity|].
    split; [apply p_disjoint; left; reflexivity|]. split; [reflexivity|].
    eexists. eexists. split; [vm_compute; reflexivity|reflexivity].
  Qed.

  (* the theorem applied to the two command lines *)
  Example p_interleaving :
    forall s1' r1' s2' r2',
    p_loop toks1 = Ok (s1', r1') -> ps_err s1' = None ->
    p_loop toks2 = Ok (s2', r2') -> ps_err s2' = None ->
    (forall k, rt_vals r1' k = rt_vals r2' k) /\ (forall k, rt_fl r1' k = rt_fl r2' k) /\
    rt_active r1' = rt_active r2' /\ rt_logs r1' = rt_logs r2' /\
    ps_ret s1' = ps_ret s2' /\ ps_pos s1' = ps_pos s2'.
  Proof.
    intros s1' r1' s2' r2' H1 E1 H2 E2.
    destruct (C10_interleaving_irrelevant demo_cfg demo_orc p_root demo_help
                toks1 toks2 items1 items2 (S (length toks1)) (S (length toks2))
                (p_pst toks1) (p_pst toks2) p_rt s1' s2' r1' r2')
      as (A & B & C & D & E & F & _); try reflexivity; try assumption.
    - exact p_mixed1.
    - exact p_mixed2.
    - apply Nat.lt_succ_diag_r.
    - apply Nat.lt_succ_diag_r.
    - apply p_disjoint. left; reflexivity.
    - repeat split; assumption.
  Qed.

  (*  x -- 5 -v --num  : after the terminator -v and --num are positionals (count = 5,
      rest = ["-v"; "--num"]); the options keep their initial values *)
  Definition toks3 : list str := [s2l "x"; s2l "--"; s2l "5"; s2l "-v"; s2l "--num"].
  Definition pre3 : list str := [s2l "x"].
  Definition items3 : list item := [inr (s2l "x")].
  Definition tail3 : list str := [s2l "5"; s2l "-v"; s2l "--num"].

  Example p_terminator_observed :
    p_obs (p_loop toks3) =
      Some ([VBool false; VInt 0; VStr (s2l "x"); VInt 5;
             VSlice false [VStr (s2l "-v"); VStr (s2l "--num")]],
            [], [12%nat], tail3, None).
  Proof. vm_compute. reflexivity. Qed.

  Example p_terminator_hyps :
    let s := p_pst toks3 in
    po_passdd (pc_opts demo_cfg) = true /\
    mixed demo_cfg (ps_lk s) pre3 items3 /\ ps_args s = pre3 ++ s2l "--" :: tail3 /\
    (length pre3 < S (length toks3))%nat /\
    cmd_subs (cur_cmd p_root s) = [] /\ po_passafter (pc_opts demo_cfg) = false /\
    (forall oc a, In (oc, a) (occs items3) -> ~ In (o_fid (oc_opt oc)) (map a_fid (ps_pos s))) /\
    ps_err s = None /\
    (exists s' r', p_loop toks3 = Ok (s', r') /\ ps_err s' = None) /\
    argument_is_option (s2l "-v") = true /\ argument_is_option (s2l "--num") = true.
  Proof.
    cbv zeta. split; [reflexivity|].
    split; [unfold pre3, items3; word; apply mixed_nil|]. split; [reflexivity|].
    split; [cbn [length pre3 toks3]; lia|]. split; [reflexivity|]. split; [reflexivity|].
    split; [intros oc a []|]. split; [reflexivity|].
    split; [eexists; eexists; split; [vm_compute; reflexivity|reflexivity]|].
    split; reflexivity.
  Qed.

  (*  -v a b c  : "b" is not an int; the loop stops there, "c" is not processed *)
  Definition toks4 : list str := [s2l "-v"; s2l "a"; s2l "b"; s2l "c"].
  Definition pre4 : list str := [s2l "-v"; s2l "a"].
  Definition items4 : list item := [inl oc_verb; inr (s2l "a")].
  Definition msg4 : str := s2l "strconv.ParseInt: parsing ""b"": invalid syntax".

  Example p_failure_observed :
    p_obs (p_loop toks4) =
      Some ([VBool true; VInt 0; VStr (s2l "a"); VInt 0; VSlice true []],
            [], [11%nat; 12%nat], [s2l "c"], Some (EForeign msg4)).
  Proof. vm_compute. reflexivity. Qed.

  Example p_failure_hyps :
    let s := p_pst toks4 in
    exists rp ro,
    mixed demo_cfg (ps_lk s) pre4 items4 /\ plain_word demo_cfg (s2l "b") /\
    ps_args s = pre4 ++ s2l "b" :: [s2l "c"] /\
    (length pre4 < S (length toks4))%nat /\
    cmd_subs (cur_cmd p_root s) = [] /\ po_passafter (pc_opts demo_cfg) = false /\
    (forall oc a, In (oc, a) (occs items4) -> ~ In (o_fid (oc_opt oc)) (map a_fid (ps_pos s))) /\
    bound demo_orc (fst (bind_spec (ps_pos s) (words items4))) p_rt = Some rp /\
    denote demo_orc (pc_nsdelim demo_cfg) demo_help (occs items4) p_rt = Ok (ro, None) /\
    queue_after (ps_pos s) (words items4) = a_cnt :: [a_rest] /\
    convert demo_orc (a_base a_cnt) (s2l "b") (a_ty a_cnt) (rt_vals rp (a_fid a_cnt)) =
      Ok (VInt 0, Some msg4).
  Proof.
    cbv zeta. eexists. eexists.
    split.
    { unfold pre4, items4.
      apply (mixed_occ demo_cfg _ [_]); [apply (sp_short_flag _ 118); side|]. word. apply mixed_nil. }
    split; [split; reflexivity|]. split; [reflexivity|].
    split; [cbn [length pre4 toks4]; lia|]. split; [reflexivity|]. split; [reflexivity|].
    split; [apply p_disjoint; right; left; reflexivity|].
    split; [vm_compute; reflexivity|]. split; [vm_compute; reflexivity|].
    split; [reflexivity|]. vm_compute. reflexivity.
  Qed.

  (* why [ps_err s = None] is assumed in addition to the sketch's "ps_err s' = ps_err s":
     started with the very error the failing conversion produces already recorded, the
     run of `a b c` ends with ps_err s' = ps_err s although it stopped at "b" *)
  Example err_none_is_needed :
    let args := [s2l "a"; s2l "b"; s2l "c"] in
    let s := ps_with_err (p_pst args) (Some (EForeign msg4)) in
    match p_run args s with
    | Ok (s', r') => ps_err s' = ps_err s /\ ps_args s' = [s2l "c"] /\
                     ps_pos s' <> queue_after (ps_pos s) args
    | _ => False
    end.
  Proof. vm_compute. repeat split. discriminate. Qed.

  (* why a context hypothesis is needed: the same words given to a command WITH
     sub-commands and no positional pending are command words, not arguments
     (SpellSpec.Demo.demo_root has the sub-command "commit") *)
  Example context_is_needed :
    match run_loop demo_cfg demo_orc demo_root demo_help 3
                   (initial_pst demo_cfg demo_root [s2l "commit"; s2l "x"]) demo_rt with
    | Ok (s', r') => ps_err s' = None /\ ps_ret s' = [s2l "x"] /\ ps_cmd s' = [0%nat]
    | _ => False
    end.
  Proof. vm_compute. repeat split. Qed.
End PositionalDemo.

Print Assumptions bind_spec_scalars.
Print Assumptions bind_spec_trailing_slice.
Print Assumptions C10_loop_binds_in_order_gen.
Print Assumptions C10_loop_binds_in_order.
Print Assumptions C10_loop_binds_in_order_conv.
Print Assumptions C10_interleaving_irrelevant.
Print Assumptions C10_after_terminator_everything_is_positional.
Print Assumptions C10_conversion_failure_stops.
