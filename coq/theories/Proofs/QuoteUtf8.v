(* UTF-8 decode/encode facts and hex facts used by the Quote/Unquote round trip. *)
From GoFlags Require Import Base.Str Base.Utf8 Golib.Strings Golib.Strconv.
From Coq Require Import Lia ZifyN ZifyBool ZifyNat.
Open Scope N_scope.
Ltac Zify.zify_post_hook ::= Z.div_mod_to_equations.

(* relational view of decode_rune *)
Inductive dec : str -> N -> nat -> Prop :=
| dec_nil : dec [] rune_error 0
| dec_ascii b t : b < 128 -> dec (b :: t) b 1
| dec_bad b t : 128 <= b -> dec (b :: t) rune_error 1
| dec_2 b0 b1 t : 194 <= b0 <= 223 -> 128 <= b1 <= 191 ->
    dec (b0 :: b1 :: t) ((b0 mod 32) * 64 + (b1 mod 64)) 2
| dec_3 b0 b1 b2 t : 224 <= b0 <= 239 -> 128 <= b1 <= 191 ->
    (b0 = 224 -> 160 <= b1) -> (b0 = 237 -> b1 <= 159) -> 128 <= b2 <= 191 ->
    dec (b0 :: b1 :: b2 :: t) ((b0 mod 16) * 4096 + (b1 mod 64) * 64 + (b2 mod 64)) 3
| dec_4 b0 b1 b2 b3 t : 240 <= b0 <= 244 -> 128 <= b1 <= 191 ->
    (b0 = 240 -> 144 <= b1) -> (b0 = 244 -> b1 <= 143) -> 128 <= b2 <= 191 -> 128 <= b3 <= 191 ->
    dec (b0 :: b1 :: b2 :: b3 :: t)
        ((b0 mod 8) * 262144 + (b1 mod 64) * 4096 + (b2 mod 64) * 64 + (b3 mod 64)) 4.

Ltac split_ifs :=
  repeat match goal with
  | |- context [if N.eqb ?a ?b then _ else _] => destruct (N.eqb_spec a b)
  | |- context [if ?c then _ else _] => destruct c eqn:?
  | |- context [match ?l with [] => _ | _ :: _ => _ end] => destruct l
  end.

Lemma decode_dec s r w : decode_rune s = (r, w) -> dec s r w.
Proof.
  unfold decode_rune, is_cont, in_range.
  destruct s as [|b0 t]; [intros [= <- <-]; constructor|].
  split_ifs; intros [= <- <-]; constructor; lia.
Qed.

Lemma dec_width s r w : dec s r w -> s <> [] -> (1 <= w <= 4)%nat /\ (w <= length s)%nat.
Proof. destruct 1; cbn [length]; intros; try congruence; lia. Qed.

Lemma dec_encode s r w : dec s r w -> (1 < w)%nat -> encode_rune r = firstn w s.
Proof.
  destruct 1; intros Hw; try lia; cbn [firstn]; unfold encode_rune, is_surrogate, in_range.
  - split_ifs; first [ exfalso; lia | repeat f_equal; lia ].
  - split_ifs; first [ exfalso; lia | repeat f_equal; lia ].
  - split_ifs; first [ exfalso; lia | repeat f_equal; lia ].
Qed.

Lemma dec_valid s r w : dec s r w -> valid_rune r = true /\ r <= 1114111.
Proof. destruct 1; unfold valid_rune, rune_error; lia. Qed.

Lemma dec_w1 s r w : dec s r w -> w = 1%nat -> exists b t, s = b :: t /\ ((b < 128 /\ r = b) \/ (128 <= b /\ r = rune_error)).
Proof. destruct 1; intros; try lia; eauto 8. Qed.

Lemma dec_wide s r w : dec s r w -> (1 < w)%nat -> 128 <= r /\ exists b t, s = b :: t /\ 128 <= b.
Proof. destruct 1; intros; try lia; (split; [lia | do 2 eexists; split; [reflexivity|lia]]). Qed.

Lemma dec_prefix s r w : dec s r w -> (1 < w)%nat -> forall rest, decode_rune (firstn w s ++ rest) = (r, w).
Proof.
  destruct 1; intros Hw rest; try lia; cbn [firstn app]; unfold decode_rune, is_cont, in_range;
  split_ifs; first [ reflexivity | exfalso; lia ].
Qed.
