(* Property C16: "help and man page show exactly the visible interface".
   Specifications and proofs about Model/Help.v. *)
From GoFlags Require Import Base.Str Base.Utf8 Golib.Strings Golib.Strconv
     Model.Types Model.Tag Model.Scan Model.Lookup Model.Convert Model.State Model.Help.
From Coq Require Import List Arith NArith ZArith Lia Bool.
Import ListNotations.
Open Scope N_scope.

(* ------------------------------------------------------------------ restatement *)
(* The nested local fixes of [write_help_rows] as stand-alone definitions.  Each is
   literally the [fix] of the model with its free variables abstracted, so that
   [write_help_rows] is convertible with the version using them (whr_eq below). *)
Section Restate.
  Variable cfg : pconfig.
  Variable r : rt.

  Definition whr_opts (c : command) (no_header : bool) (g : group) (ns envns : list str) :=
    fix opts (os : list opt) (a : align) (acc : str) (printcmd first : bool) (rows : list hrow)
      : res (align * str * bool * bool * list hrow) :=
      match os with
      | [] => Ok (a, acc, printcmd, first, rows)
      | o :: orest =>
        if negb (opt_show_in_help o) then opts orest a acc printcmd first rows
        else
          let '(a, acc) :=
              if printcmd then
                ({| al_maxlong := al_maxlong a; al_hasshort := al_hasshort a;
                    al_hasvalname := al_hasvalname a; al_indent := true |},
                 acc ++ [10] ++ s2l "[" ++ c_name (cmd_info c) ++ s2l " command options]" ++ [10])
              else (a, acc) in
          let '(acc, first) :=
              if first && negb no_header then
                (acc ++ [10] ++ (if al_indent a then s2l "    " else []) ++ g_short (grp_info g) ++ s2l ":" ++ [10], false)
              else (acc, first) in
          row <- help_option cfg r o ns envns g a ;;
          opts orest a (acc ++ row) false first (rows ++ [HOpt (o_fid o)])
      end.

  Definition whr_groups (c : command) (rest : list (list nat * command)) (is_root : bool) :=
    fix groups (gs : list (group * list str * list str)) (a : align) (acc : str) (printcmd own : bool) (rows : list hrow)
      : res (align * str * bool * list hrow) :=
      match gs with
      | [] => Ok (a, acc, printcmd, rows)
      | (g, ns, envns) :: grest =>
        let no_header := own && match rest with [] => true | _ => false end in
        if g_hidden (grp_info g) || (g_builtin_help (grp_info g) && negb is_root) then groups grest a acc printcmd false rows
        else
          ' (a', acc', printcmd', _, rows') <-
            whr_opts c no_header g ns envns (grp_opts g) a acc printcmd true rows ;;
          groups grest a' acc' printcmd' false rows'
      end.

  Definition whr_argrows (dstart : nat) :=
    fix argrows (l : list arg) (acc : str) (rows : list hrow) : res (str * list hrow) :=
      match l with
      | [] => Ok (acc, rows)
      | ar :: lrest =>
        let argprefix := s2l "  " ++ a_name ar ++ s2l ":" in
        match repeat_space (Z.of_nat dstart - Z.of_nat (rune_count argprefix)) with
        | None => Panic (s2l "strings: negative Repeat count")
        | Some pad =>
          argrows lrest (acc ++ argprefix ++ pad ++
                         wrap_text (a_desc ar) (cols cfg - 1 - Z.of_nat dstart) (spaces dstart) ++ [10])
                  (rows ++ [HArg (a_fid ar)])
        end
      end.

  (* text of the "Available commands:" block *)
  Definition whr_cmdlist (sc : list command) : str :=
    match sc with
    | [] => []
    | _ =>
      let maxlen := fold_left (fun m c => Nat.max m (rune_count (c_name (cmd_info c)))) sc O in
      [10] ++ s2l "Available commands:" ++ [10] ++
      concat (map (fun c =>
                     let ci := cmd_info c in
                     let sd := g_short (grp_info (cmd_group c)) in
                     s2l "  " ++ c_name ci ++
                     (if nonempty sd then
                        spaces (maxlen - rune_count (c_name ci)) ++ s2l "  " ++ sd ++
                        (match c_aliases ci with
                         | [] => []
                         | als => s2l " (aliases: " ++ join als (s2l ", ") ++ s2l ")"
                         end)
                      else []) ++ [10]) sc)
    end.

  Definition whr_cmds (innermost : command) :=
    fix cmds (l : list (list nat * command)) (a : align) (acc : str) (rows : list hrow) : res (str * list hrow) :=
      match l with
      | [] =>
        let sc := sorted_visible_cmds innermost in
        Ok (acc ++ whr_cmdlist sc, rows ++ map (fun c => HCmd (c_name (cmd_info c))) sc)
      | (p, c) :: rest =>
        let is_root := is_root_path p in
        ' (a1, acc1, _, rows1) <-
          whr_groups c rest is_root (cmd_group_ctxs c) a acc (negb is_root) true rows ;;
        let dargs := filter (fun ar : arg => nonempty (a_desc ar)) (cmd_args c) in
        ' (acc2, rows2) <-
          (match dargs with
           | [] => Ok (acc1, rows1)
           | _ =>
             let head := if is_root then [10] ++ s2l "Arguments:" ++ [10]
                         else [10] ++ s2l "[" ++ c_name (cmd_info c) ++ s2l " command arguments]" ++ [10] in
             let dstart := (description_start a1 + 2)%nat in
             whr_argrows dstart dargs (acc1 ++ head) rows1
           end) ;;
        cmds rest a1 acc2 rows2
      end.
End Restate.

Definition help_chain (root : command) (r : rt) : list (list nat * command) :=
  active_chain (cmd_depth root) (rt_active r) root [].
Definition help_innermost (root : command) (r : rt) : command :=
  match rev (help_chain root r) with (_, c) :: _ => c | [] => root end.

(* [write_help_rows] is the restated [whr_cmds] run over the active chain (for some
   initial alignment and usage text, which do not matter for the log) *)
Lemma whr_eq : forall cfg root r,
  exists a usage,
    write_help_rows cfg root r = whr_cmds cfg r (help_innermost root r) (help_chain root r) a usage [].
Proof. intros cfg root r. eexists. eexists. reflexivity. Qed.

(* ------------------------------------------------------------------ one-step equations *)
Definition opt_row (o : opt) : hrow := HOpt (o_fid o).
Definition arg_row (ar : arg) : hrow := HArg (a_fid ar).
Definition cmd_row (c : command) : hrow := HCmd (c_name (cmd_info c)).

Section Steps.
  Variable cfg : pconfig.
  Variable r : rt.

  Lemma whr_opts_nil : forall c nh g ns envns a acc pc first rows,
    whr_opts cfg r c nh g ns envns [] a acc pc first rows = Ok (a, acc, pc, first, rows).
  Proof. reflexivity. Qed.

  Lemma whr_opts_skip : forall c nh g ns envns o os a acc pc first rows,
    opt_show_in_help o = false ->
    whr_opts cfg r c nh g ns envns (o :: os) a acc pc first rows =
    whr_opts cfg r c nh g ns envns os a acc pc first rows.
  Proof. intros. change (whr_opts cfg r c nh g ns envns (o :: os) a acc pc first rows)
    with (if negb (opt_show_in_help o) then whr_opts cfg r c nh g ns envns os a acc pc first rows
          else
          let '(a, acc) :=
              if pc then
                ({| al_maxlong := al_maxlong a; al_hasshort := al_hasshort a;
                    al_hasvalname := al_hasvalname a; al_indent := true |},
                 acc ++ [10] ++ s2l "[" ++ c_name (cmd_info c) ++ s2l " command options]" ++ [10])
              else (a, acc) in
          let '(acc, first) :=
              if first && negb nh then
                (acc ++ [10] ++ (if al_indent a then s2l "    " else []) ++ g_short (grp_info g) ++ s2l ":" ++ [10], false)
              else (acc, first) in
          row <- help_option cfg r o ns envns g a ;;
          whr_opts cfg r c nh g ns envns os a (acc ++ row) false first (rows ++ [HOpt (o_fid o)])).
    rewrite H. reflexivity. Qed.

  (* the visible case: whatever header text is emitted, the continuation logs the row *)
  Lemma whr_opts_show : forall c nh g ns envns o os a acc pc first rows,
    opt_show_in_help o = true ->
    exists a1 acc1 first1,
      whr_opts cfg r c nh g ns envns (o :: os) a acc pc first rows =
      (row <- help_option cfg r o ns envns g a1 ;;
       whr_opts cfg r c nh g ns envns os a1 (acc1 ++ row) false first1 (rows ++ [opt_row o])).
  Proof.
    intros.
    change (whr_opts cfg r c nh g ns envns (o :: os) a acc pc first rows)
    with (if negb (opt_show_in_help o) then whr_opts cfg r c nh g ns envns os a acc pc first rows
          else
          let '(a, acc) :=
              if pc then
                ({| al_maxlong := al_maxlong a; al_hasshort := al_hasshort a;
                    al_hasvalname := al_hasvalname a; al_indent := true |},
                 acc ++ [10] ++ s2l "[" ++ c_name (cmd_info c) ++ s2l " command options]" ++ [10])
              else (a, acc) in
          let '(acc, first) :=
              if first && negb nh then
                (acc ++ [10] ++ (if al_indent a then s2l "    " else []) ++ g_short (grp_info g) ++ s2l ":" ++ [10], false)
              else (acc, first) in
          row <- help_option cfg r o ns envns g a ;;
          whr_opts cfg r c nh g ns envns os a (acc ++ row) false first (rows ++ [HOpt (o_fid o)])).
    rewrite H. cbn [negb].
    destruct pc; destruct (first && negb nh); eexists; eexists; eexists; reflexivity.
  Qed.

  Lemma whr_opts_rows : forall c nh g ns envns os a acc pc first rows a' acc' pc' first' rows',
    whr_opts cfg r c nh g ns envns os a acc pc first rows = Ok (a', acc', pc', first', rows') ->
    rows' = rows ++ map opt_row (filter opt_show_in_help os).
  Proof.
    intros c nh g ns envns os; induction os as [|o os IH]; intros a acc pc first rows a' acc' pc' first' rows' H.
    - rewrite whr_opts_nil in H. inversion H; subst. cbn [filter map]. rewrite app_nil_r. reflexivity.
    - cbn [filter]. destruct (opt_show_in_help o) eqn:E.
      + destruct (whr_opts_show c nh g ns envns o os a acc pc first rows E) as (a1 & acc1 & first1 & Eq).
        rewrite Eq in H. clear Eq.
        destruct (help_option cfg r o ns envns g a1) as [row|e|w]; cbn [bind] in H; try discriminate.
        apply IH in H. rewrite H. cbn [map]. rewrite <- app_assoc. reflexivity.
      + rewrite whr_opts_skip in H by exact E. eapply IH; exact H.
  Qed.
End Steps.

(* rows contributed by one group of the command at path-rootness [is_root] *)
Definition group_rows (is_root : bool) (gc : group * list str * list str) : list hrow :=
  let g := fst (fst gc) in
  if g_hidden (grp_info g) || (g_builtin_help (grp_info g) && negb is_root) then []
  else map opt_row (filter opt_show_in_help (grp_opts g)).

Section Steps2.
  Variable cfg : pconfig.
  Variable r : rt.

  Lemma whr_groups_nil : forall c rest is_root a acc pc own rows,
    whr_groups cfg r c rest is_root [] a acc pc own rows = Ok (a, acc, pc, rows).
  Proof. reflexivity. Qed.

  Lemma whr_groups_cons : forall c rest is_root g ns envns gs a acc pc own rows,
    whr_groups cfg r c rest is_root ((g, ns, envns) :: gs) a acc pc own rows =
    if g_hidden (grp_info g) || (g_builtin_help (grp_info g) && negb is_root)
    then whr_groups cfg r c rest is_root gs a acc pc false rows
    else
      x <- whr_opts cfg r c (own && match rest with [] => true | _ => false end) g ns envns
                    (grp_opts g) a acc pc true rows ;;
      whr_groups cfg r c rest is_root gs (fst (fst (fst (fst x)))) (snd (fst (fst (fst x))))
                 (snd (fst (fst x))) false (snd x).
  Proof.
    intros. change (whr_groups cfg r c rest is_root ((g, ns, envns) :: gs) a acc pc own rows)
    with (if g_hidden (grp_info g) || (g_builtin_help (grp_info g) && negb is_root)
          then whr_groups cfg r c rest is_root gs a acc pc false rows
          else
            ' (a', acc', printcmd', _, rows') <-
              whr_opts cfg r c (own && match rest with [] => true | _ => false end) g ns envns
                       (grp_opts g) a acc pc true rows ;;
            whr_groups cfg r c rest is_root gs a' acc' printcmd' false rows').
    destruct (g_hidden (grp_info g) || (g_builtin_help (grp_info g) && negb is_root)); [reflexivity|].
    destruct (whr_opts cfg r c (own && match rest with [] => true | _ => false end) g ns envns
                       (grp_opts g) a acc pc true rows) as [[[[[a1 acc1] pc1] f1] rows1]|e|w]; reflexivity.
  Qed.

  Lemma whr_groups_rows : forall c rest is_root gs a acc pc own rows a' acc' pc' rows',
    whr_groups cfg r c rest is_root gs a acc pc own rows = Ok (a', acc', pc', rows') ->
    rows' = rows ++ flat_map (group_rows is_root) gs.
  Proof.
    intros c rest is_root gs; induction gs as [|[[g ns] envns] gs IH]; intros a acc pc own rows a' acc' pc' rows' H.
    - rewrite whr_groups_nil in H. inversion H; subst. cbn [flat_map]. rewrite app_nil_r. reflexivity.
    - rewrite whr_groups_cons in H. cbn [flat_map]. unfold group_rows at 1. cbn [fst].
      destruct (g_hidden (grp_info g) || (g_builtin_help (grp_info g) && negb is_root)).
      + apply IH in H. exact H.
      + destruct (whr_opts cfg r c (own && match rest with [] => true | _ => false end) g ns envns
                       (grp_opts g) a acc pc true rows) as [[[[[a1 acc1] pc1] f1] rows1]|e|w] eqn:E;
          cbn [bind fst snd] in H; try discriminate.
        apply whr_opts_rows in E. apply IH in H. rewrite H, E, <- app_assoc. reflexivity.
  Qed.

  Lemma whr_argrows_nil : forall dstart acc rows, whr_argrows cfg dstart [] acc rows = Ok (acc, rows).
  Proof. reflexivity. Qed.

  Lemma whr_argrows_cons : forall dstart ar l acc rows,
    whr_argrows cfg dstart (ar :: l) acc rows =
    match repeat_space (Z.of_nat dstart - Z.of_nat (rune_count (s2l "  " ++ a_name ar ++ s2l ":"))) with
    | None => Panic (s2l "strings: negative Repeat count")
    | Some pad =>
      whr_argrows cfg dstart l
                  (acc ++ (s2l "  " ++ a_name ar ++ s2l ":") ++ pad ++
                   wrap_text (a_desc ar) (cols cfg - 1 - Z.of_nat dstart) (spaces dstart) ++ [10])
                  (rows ++ [arg_row ar])
    end.
  Proof. reflexivity. Qed.

  Lemma whr_argrows_rows : forall dstart l acc rows acc' rows',
    whr_argrows cfg dstart l acc rows = Ok (acc', rows') -> rows' = rows ++ map arg_row l.
  Proof.
    intros dstart l; induction l as [|ar l IH]; intros acc rows acc' rows' H.
    - rewrite whr_argrows_nil in H. inversion H; subst. cbn [map]. rewrite app_nil_r. reflexivity.
    - rewrite whr_argrows_cons in H.
      destruct (repeat_space (Z.of_nat dstart - Z.of_nat (rune_count (s2l "  " ++ a_name ar ++ s2l ":")))); try discriminate.
      apply IH in H. rewrite H. cbn [map]. rewrite <- app_assoc. reflexivity.
  Qed.

  Definition described_args (c : command) : list arg := filter (fun ar : arg => nonempty (a_desc ar)) (cmd_args c).

  Lemma whr_cmds_nil : forall inner a acc rows,
    whr_cmds cfg r inner [] a acc rows =
    Ok (acc ++ whr_cmdlist (sorted_visible_cmds inner), rows ++ map cmd_row (sorted_visible_cmds inner)).
  Proof. reflexivity. Qed.

  Lemma whr_cmds_cons : forall inner p c rest a acc rows,
    whr_cmds cfg r inner ((p, c) :: rest) a acc rows =
    x <- whr_groups cfg r c rest (is_root_path p) (cmd_group_ctxs c) a acc (negb (is_root_path p)) true rows ;;
    y <- match described_args c with
         | [] => Ok (snd (fst (fst x)), snd x)
         | _ =>
           whr_argrows cfg (description_start (fst (fst (fst x))) + 2)%nat (described_args c)
                       (snd (fst (fst x)) ++
                        (if is_root_path p then [10] ++ s2l "Arguments:" ++ [10]
                         else [10] ++ s2l "[" ++ c_name (cmd_info c) ++ s2l " command arguments]" ++ [10]))
                       (snd x)
         end ;;
    whr_cmds cfg r inner rest (fst (fst (fst x))) (fst y) (snd y).
  Proof.
    intros.
    change (whr_cmds cfg r inner ((p, c) :: rest) a acc rows)
    with (' (a1, acc1, _, rows1) <-
            whr_groups cfg r c rest (is_root_path p) (cmd_group_ctxs c) a acc (negb (is_root_path p)) true rows ;;
          ' (acc2, rows2) <-
            (match described_args c with
             | [] => Ok (acc1, rows1)
             | _ =>
               whr_argrows cfg (description_start a1 + 2)%nat (described_args c)
                           (acc1 ++
                            (if is_root_path p then [10] ++ s2l "Arguments:" ++ [10]
                             else [10] ++ s2l "[" ++ c_name (cmd_info c) ++ s2l " command arguments]" ++ [10]))
                           rows1
             end) ;;
          whr_cmds cfg r inner rest a1 acc2 rows2).
    destruct (whr_groups cfg r c rest (is_root_path p) (cmd_group_ctxs c) a acc (negb (is_root_path p)) true rows)
      as [[[[a1 acc1] pc1] rows1]|e|w]; try reflexivity.
    cbn [bind fst snd].
    destruct (match described_args c with
     | [] => Ok (acc1, rows1)
     | _ :: _ =>
         whr_argrows cfg (description_start a1 + 2) (described_args c)
           (acc1 ++
            (if is_root_path p
             then [10] ++ s2l "Arguments:" ++ [10]
             else [10] ++ s2l "[" ++ c_name (cmd_info c) ++ s2l " command arguments]" ++ [10])) rows1
     end) as [[acc2 rows2]|e|w]; reflexivity.
  Qed.

  Lemma visible_rows_cmd_eq : forall p c,
    visible_rows_cmd (p, c) = flat_map (group_rows (is_root_path p)) (cmd_group_ctxs c) ++ map arg_row (described_args c).
  Proof. reflexivity. Qed.

  Lemma whr_cmds_rows : forall inner l a acc rows t rows',
    whr_cmds cfg r inner l a acc rows = Ok (t, rows') ->
    rows' = rows ++ flat_map visible_rows_cmd l ++ map cmd_row (sorted_visible_cmds inner).
  Proof.
    intros inner l; induction l as [|[p c] rest IH]; intros a acc rows t rows' H.
    - rewrite whr_cmds_nil in H. inversion H; subst. reflexivity.
    - rewrite whr_cmds_cons in H.
      destruct (whr_groups cfg r c rest (is_root_path p) (cmd_group_ctxs c) a acc (negb (is_root_path p)) true rows)
        as [[[[a1 acc1] pc1] rows1]|e|w] eqn:EG; cbn [bind fst snd] in H; try discriminate.
      apply whr_groups_rows in EG.
      cbn [flat_map]. rewrite visible_rows_cmd_eq.
      destruct (described_args c) as [|ar l] eqn:ED.
      + cbn [bind fst snd] in H. apply IH in H. rewrite H, EG. cbn [map].
        rewrite app_nil_r, <- !app_assoc. reflexivity.
      + destruct (whr_argrows cfg (description_start a1 + 2) (ar :: l)
           (acc1 ++
            (if is_root_path p
             then [10] ++ s2l "Arguments:" ++ [10]
             else [10] ++ s2l "[" ++ c_name (cmd_info c) ++ s2l " command arguments]" ++ [10])) rows1)
          as [[acc2 rows2]|e|w] eqn:EA; cbn [bind fst snd] in H; try discriminate.
        apply whr_argrows_rows in EA. apply IH in H. rewrite H, EA, EG.
        rewrite <- !app_assoc. reflexivity.
  Qed.
End Steps2.

(* ================================================================== C16.1 *)
Theorem C16_help_rows_exact : forall cfg root r t rows,
  write_help_rows cfg root r = Ok (t, rows) -> rows = help_visible_rows root r.
Proof.
  intros cfg root r t rows H.
  destruct (whr_eq cfg root r) as (a & usage & Eq). rewrite Eq in H.
  apply whr_cmds_rows in H. rewrite H. reflexivity.
Qed.

(* ------------------------------------------------------------------ membership facts *)
Lemma in_insert_by : forall {A} (key : A -> str) (x y : A) l, In y (insert_by key x l) <-> y = x \/ In y l.
Proof.
  intros A key x y l; induction l as [|z l IH]; cbn [insert_by].
  - cbn [In]. intuition.
  - destruct (str_ltb (key x) (key z)); cbn [In]; [intuition|]. rewrite IH. intuition.
Qed.

Lemma in_sort_by : forall {A} (key : A -> str) (y : A) l, In y (sort_by key l) <-> In y l.
Proof.
  intros A key y l; unfold sort_by; induction l as [|x l IH]; cbn [fold_right].
  - reflexivity.
  - rewrite in_insert_by, IH. cbn [In]. intuition.
Qed.

Lemma nonempty_true : forall s : str, nonempty s = true <-> s <> [].
Proof. intros [|x s]; cbn; split; intros; congruence. Qed.

Lemma opt_show_in_help_spec : forall o,
  opt_show_in_help o = true <-> o_hidden o = false /\ (o_short o <> 0 \/ o_long o <> []).
Proof.
  intros o; unfold opt_show_in_help.
  rewrite andb_true_iff, orb_true_iff, !negb_true_iff, N.eqb_neq, nonempty_true. reflexivity.
Qed.

Lemma group_listed_spec : forall is_root g,
  g_hidden (grp_info g) || (g_builtin_help (grp_info g) && negb is_root) = false <->
  g_hidden (grp_info g) = false /\ (g_builtin_help (grp_info g) = false \/ is_root = true).
Proof.
  intros is_root g. rewrite orb_false_iff, andb_false_iff, negb_false_iff. reflexivity.
Qed.

Lemma is_root_path_true : forall p, is_root_path p = true <-> p = [].
Proof. intros [|x p]; cbn; split; intros; congruence. Qed.

Lemma in_group_rows : forall is_root gc x,
  In x (group_rows is_root gc) <->
  g_hidden (grp_info (fst (fst gc))) = false /\
  (g_builtin_help (grp_info (fst (fst gc))) = false \/ is_root = true) /\
  exists o, In o (grp_opts (fst (fst gc))) /\ opt_show_in_help o = true /\ x = opt_row o.
Proof.
  intros is_root gc x. unfold group_rows. cbv zeta.
  rewrite <- and_assoc, <- group_listed_spec.
  destruct (g_hidden (grp_info (fst (fst gc))) || (g_builtin_help (grp_info (fst (fst gc))) && negb is_root)).
  - cbn [In]. split; [tauto|]. intros [? _]; discriminate.
  - rewrite in_map_iff. split.
    + intros (o & <- & Hin). apply filter_In in Hin. split; [reflexivity|]. exists o. tauto.
    + intros (_ & o & Hin & Hs & ->). exists o. split; [reflexivity|]. apply filter_In. tauto.
Qed.

(* complete characterisation of the specification list *)
Lemma in_help_visible_rows : forall root r x,
  In x (help_visible_rows root r) <->
  (exists p c g ns envns o,
     In (p, c) (help_chain root r) /\ In (g, ns, envns) (cmd_group_ctxs c) /\
     g_hidden (grp_info g) = false /\ (g_builtin_help (grp_info g) = false \/ p = []) /\
     In o (grp_opts g) /\ opt_show_in_help o = true /\ x = HOpt (o_fid o)) \/
  (exists p c ar,
     In (p, c) (help_chain root r) /\ In ar (cmd_args c) /\ nonempty (a_desc ar) = true /\ x = HArg (a_fid ar)) \/
  (exists sc,
     In sc (cmd_subs (help_innermost root r)) /\ c_hidden (cmd_info sc) = false /\ x = HCmd (c_name (cmd_info sc))).
Proof.
  intros root r x.
  change (help_visible_rows root r)
    with (flat_map visible_rows_cmd (help_chain root r) ++ map cmd_row (sorted_visible_cmds (help_innermost root r))).
  rewrite in_app_iff, in_flat_map, in_map_iff. split.
  - intros [([p c] & Hpc & Hx)|(sc & <- & Hsc)].
    + rewrite visible_rows_cmd_eq, in_app_iff, in_flat_map, in_map_iff in Hx.
      destruct Hx as [([[g ns] envns] & Hg & Hx)|(ar & <- & Har)].
      * left. apply in_group_rows in Hx. cbn [fst] in Hx. destruct Hx as (Hh & Hb & o & Ho & Hs & ->).
        exists p, c, g, ns, envns, o. rewrite is_root_path_true in Hb. tauto.
      * right; left. apply filter_In in Har. exists p, c, ar. tauto.
    + right; right. unfold sorted_visible_cmds in Hsc. apply in_sort_by in Hsc.
      apply filter_In in Hsc. rewrite negb_true_iff in Hsc. exists sc. tauto.
  - intros [(p & c & g & ns & envns & o & Hpc & Hg & Hh & Hb & Ho & Hs & ->)
           |[(p & c & ar & Hpc & Har & Hd & ->)|(sc & Hsc & Hh & ->)]].
    + left. exists (p, c). split; [exact Hpc|].
      rewrite visible_rows_cmd_eq, in_app_iff, in_flat_map. left.
      exists (g, ns, envns). split; [exact Hg|]. apply in_group_rows. cbn [fst].
      rewrite is_root_path_true. split; [exact Hh|]. split; [exact Hb|]. exists o. tauto.
    + left. exists (p, c). split; [exact Hpc|].
      rewrite visible_rows_cmd_eq, in_app_iff, in_map_iff. right.
      exists ar. split; [reflexivity|]. apply filter_In. tauto.
    + right. exists sc. split; [reflexivity|]. unfold sorted_visible_cmds. apply in_sort_by.
      apply filter_In. rewrite negb_true_iff. tauto.
Qed.

(* the innermost active command is on the active chain, and the chain starts at the root *)
Lemma help_chain_head : forall root r, exists tl, help_chain root r = ([], root) :: tl.
Proof.
  intros root r. unfold help_chain. destruct root as [ci g args subs].
  cbn [cmd_depth]. cbn [active_chain]. eexists. reflexivity.
Qed.

Lemma help_innermost_on_chain : forall root r, exists p, In (p, help_innermost root r) (help_chain root r).
Proof.
  intros root r. unfold help_innermost.
  destruct (help_chain_head root r) as (tl & E).
  destruct (rev (help_chain root r)) as [|[p c] l] eqn:ER.
  - apply (f_equal (@rev _)) in ER. rewrite rev_involutive, E in ER. discriminate.
  - exists p. apply in_rev. rewrite ER. left. reflexivity.
Qed.

(* ================================================================== C16.2 *)
Theorem C16_hidden_never_listed : forall root r,
  (forall fid, In (HOpt fid) (help_visible_rows root r) ->
     exists p c g ns envns o,
       In (p, c) (help_chain root r) /\ In (g, ns, envns) (cmd_group_ctxs c) /\
       g_hidden (grp_info g) = false /\ (g_builtin_help (grp_info g) = false \/ p = []) /\
       In o (grp_opts g) /\ o_fid o = fid /\ o_hidden o = false /\ (o_short o <> 0 \/ o_long o <> [])) /\
  (forall fid, In (HArg fid) (help_visible_rows root r) ->
     exists p c ar,
       In (p, c) (help_chain root r) /\ In ar (cmd_args c) /\ a_fid ar = fid /\ a_desc ar <> []) /\
  (forall n, In (HCmd n) (help_visible_rows root r) ->
     exists sc,
       In sc (cmd_subs (help_innermost root r)) /\ c_name (cmd_info sc) = n /\ c_hidden (cmd_info sc) = false).
Proof.
  intros root r. split; [|split].
  - intros fid H. apply in_help_visible_rows in H.
    destruct H as [(p & c & g & ns & envns & o & Hpc & Hg & Hh & Hb & Ho & Hs & Hx)
                  |[(p & c & ar & _ & _ & _ & Hx)|(sc & _ & _ & Hx)]]; try discriminate.
    inversion Hx; subst fid. apply opt_show_in_help_spec in Hs.
    exists p, c, g, ns, envns, o. tauto.
  - intros fid H. apply in_help_visible_rows in H.
    destruct H as [(p & c & g & ns & envns & o & _ & _ & _ & _ & _ & _ & Hx)
                  |[(p & c & ar & Hpc & Har & Hd & Hx)|(sc & _ & _ & Hx)]]; try discriminate.
    inversion Hx; subst fid. apply nonempty_true in Hd. exists p, c, ar. tauto.
  - intros n H. apply in_help_visible_rows in H.
    destruct H as [(p & c & g & ns & envns & o & _ & _ & _ & _ & _ & _ & Hx)
                  |[(p & c & ar & _ & _ & _ & Hx)|(sc & Hsc & Hh & Hx)]]; try discriminate.
    inversion Hx; subst n. exists sc. tauto.
Qed.

(* ================================================================== C16.3 *)
Theorem C16_help_complete : forall root r,
  (forall p c g ns envns o,
     In (p, c) (help_chain root r) -> In (g, ns, envns) (cmd_group_ctxs c) ->
     g_hidden (grp_info g) = false -> (g_builtin_help (grp_info g) = false \/ p = []) ->
     In o (grp_opts g) -> o_hidden o = false -> (o_short o <> 0 \/ o_long o <> []) ->
     In (HOpt (o_fid o)) (help_visible_rows root r)) /\
  (forall p c ar,
     In (p, c) (help_chain root r) -> In ar (cmd_args c) -> a_desc ar <> [] ->
     In (HArg (a_fid ar)) (help_visible_rows root r)) /\
  (forall sc,
     In sc (cmd_subs (help_innermost root r)) -> c_hidden (cmd_info sc) = false ->
     In (HCmd (c_name (cmd_info sc))) (help_visible_rows root r)).
Proof.
  intros root r. split; [|split].
  - intros p c g ns envns o Hpc Hg Hh Hb Ho Hho Hn. apply in_help_visible_rows. left.
    exists p, c, g, ns, envns, o. rewrite opt_show_in_help_spec. tauto.
  - intros p c ar Hpc Har Hd. apply in_help_visible_rows. right; left.
    exists p, c, ar. rewrite nonempty_true. tauto.
  - intros sc Hsc Hh. apply in_help_visible_rows. right; right. exists sc. tauto.
Qed.

(* ================================================================== C16.4 *)
(* two option-bookkeeping records that agree on every field except the default literal *)
Definition fl_agree_except_deflit (f1 f2 : oflags) : Prop :=
  f_isset f1 = f_isset f2 /\ f_isdefault f1 = f_isdefault f2 /\ f_prevent f1 = f_prevent f2 /\
  f_clearref f1 = f_clearref f2 /\ f_iniquote f1 = f_iniquote f2 /\ f_ininame f1 = f_ininame f2.

(* stronger form: with a default mask the row does not depend on the runtime state at all *)
Lemma C16_mask_help_any : forall cfg r1 r2 o ns envns g a,
  o_mask o <> [] ->
  help_option cfg r1 o ns envns g a = help_option cfg r2 o ns envns g a.
Proof.
  intros cfg r1 r2 o ns envns g a Hm. unfold help_option.
  destruct (o_mask o) as [|m0 m]; [congruence|]. reflexivity.
Qed.

Theorem C16_mask_help : forall cfg r1 r2 o ns envns g a,
  (forall k, fl_agree_except_deflit (rt_fl r1 k) (rt_fl r2 k)) ->
  o_mask o <> [] ->
  help_option cfg r1 o ns envns g a = help_option cfg r2 o ns envns g a.
Proof. intros cfg r1 r2 o ns envns g a _ Hm. apply C16_mask_help_any. exact Hm. Qed.

(* ================================================================== C16.5 *)
(* [o] with its default list replaced by [d]; every other field is kept *)
Definition opt_with_default (o : opt) (d : list str) : opt :=
  {| o_fid := o_fid o; o_field := o_field o; o_short := o_short o; o_long := o_long o; o_desc := o_desc o;
     o_default := d; o_envkey := o_envkey o; o_envdelim := o_envdelim o;
     o_optional := o_optional o; o_optval := o_optval o; o_required := o_required o;
     o_valname := o_valname o; o_mask := o_mask o; o_choices := o_choices o; o_hidden := o_hidden o;
     o_ininame := o_ininame o; o_noini := o_noini o; o_unquote := o_unquote o; o_base := o_base o;
     o_ty := o_ty o; o_is_help := o_is_help o |}.

(* field-wise: [o'] equals [o] except possibly for o_default *)
Definition opt_eq_except_default (o o' : opt) : Prop :=
  o_fid o' = o_fid o /\ o_field o' = o_field o /\ o_short o' = o_short o /\ o_long o' = o_long o /\
  o_desc o' = o_desc o /\ o_envkey o' = o_envkey o /\ o_envdelim o' = o_envdelim o /\
  o_optional o' = o_optional o /\ o_optval o' = o_optval o /\ o_required o' = o_required o /\
  o_valname o' = o_valname o /\ o_mask o' = o_mask o /\ o_choices o' = o_choices o /\
  o_hidden o' = o_hidden o /\ o_ininame o' = o_ininame o /\ o_noini o' = o_noini o /\
  o_unquote o' = o_unquote o /\ o_base o' = o_base o /\ o_ty o' = o_ty o /\ o_is_help o' = o_is_help o.

Lemma opt_with_default_except : forall o d,
  opt_eq_except_default o (opt_with_default o d) /\ o_default (opt_with_default o d) = d.
Proof. intros o d. unfold opt_eq_except_default. cbn. repeat split. Qed.

Lemma opt_eq_except_default_inv : forall o o',
  opt_eq_except_default o o' -> o' = opt_with_default o (o_default o').
Proof.
  intros o o' H. unfold opt_eq_except_default in H. destruct o, o'. cbn in H.
  decompose [and] H. subst. reflexivity.
Qed.

Lemma C16_mask_man_with : forall cfg o d ns envns g,
  o_mask o <> [] ->
  man_option cfg (opt_with_default o d) ns envns g = man_option cfg o ns envns g.
Proof.
  intros cfg o d ns envns g Hm. unfold man_option.
  change (o_mask (opt_with_default o d)) with (o_mask o).
  destruct (o_mask o) as [|m0 m]; [congruence|]. reflexivity.
Qed.

Theorem C16_mask_man : forall cfg o o' ns envns g,
  opt_eq_except_default o o' ->
  o_mask o <> [] ->
  man_option cfg o ns envns g = man_option cfg o' ns envns g.
Proof.
  intros cfg o o' ns envns g H Hm. rewrite (opt_eq_except_default_inv o o' H).
  symmetry. apply C16_mask_man_with. exact Hm.
Qed.

(* ================================================================== C16.6 *)
(* the optional ".SS" header of a group inside the man page of command [c] *)
Definition man_group_header (c : command) (g : group) : str :=
  if nonempty (g_short (grp_info g)) && nonempty (map (fun _ => 0) (grp_subs (cmd_group c))) then
    s2l ".SS " ++ g_short (grp_info g) ++ [10] ++
    (if nonempty (g_long (grp_info g)) then format_for_man (g_long (grp_info g)) ++ [10] else [])
  else [].

(* header and one ".TP" row per displayable option *)
Definition man_group_block (cfg : pconfig) (c : command) (gc : group * list str * list str) : str :=
  let '(g, ns, envns) := gc in
  man_group_header c g ++
  flat_map (fun o => man_option cfg o ns envns g) (filter opt_show_in_help (grp_opts g)).

Lemma concat_map_if : forall {A B} (p : A -> bool) (f : A -> list B) l,
  concat (map (fun x => if p x then f x else []) l) = flat_map f (filter p l).
Proof.
  intros A B p f l; induction l as [|x l IH]; cbn [map concat filter]; [reflexivity|].
  destruct (p x); cbn [flat_map app]; rewrite IH; reflexivity.
Qed.

Theorem C16_man_rows : forall cfg c,
  man_options cfg c =
  flat_map (man_group_block cfg c)
           (filter (fun gc : group * list str * list str => group_show_in_help (fst (fst gc))) (cmd_group_ctxs c)).
Proof.
  intros cfg c. unfold man_options. cbv zeta.
  induction (cmd_group_ctxs c) as [|[[g ns] envns] l IH]; cbn [map concat filter fst]; [reflexivity|].
  rewrite IH. destruct (group_show_in_help g); cbn [negb flat_map app]; [|reflexivity].
  f_equal. unfold man_group_block, man_group_header. f_equal. apply concat_map_if.
Qed.

(* ================================================================== non-vacuity *)
(* A small realistic instance: an application with a masked option, an unmasked option,
   a hidden option, a hidden group, the built-in help group at both levels, an active
   sub-command "add" with a described argument, a visible and a hidden sub-sub-command. *)
Module Sample.
  Definition mkopt (fid : nat) (short : N) (long desc : str) (dflt : list str) (mask : str) (hidden : bool) : opt :=
    {| o_fid := fid; o_field := []; o_short := short; o_long := long; o_desc := desc;
       o_default := dflt; o_envkey := []; o_envdelim := []; o_optional := false; o_optval := [];
       o_required := false; o_valname := []; o_mask := mask; o_choices := []; o_hidden := hidden;
       o_ininame := []; o_noini := false; o_unquote := true; o_base := []; o_ty := TScalar KString;
       o_is_help := false |}.
  Definition mkgi (short : str) (hidden : bool) : ginfo :=
    {| g_short := short; g_long := []; g_ns := []; g_envns := []; g_hidden := hidden; g_builtin_help := false |}.
  Definition mkci (name : str) (hidden : bool) : cinfo :=
    {| c_name := name; c_aliases := []; c_sub_optional := false; c_args_required := false;
       c_hidden := hidden; c_exec := ExNone; c_usage := None; c_has_help := true |}.

  Definition o_pass := mkopt 1 112 (s2l "password") (s2l "Password") [s2l "hunter2"] (s2l "****") false.
  Definition o_user := mkopt 2 117 (s2l "user") (s2l "User name") [s2l "root"] [] false.
  Definition o_dbg := mkopt 3 0 (s2l "debug") (s2l "Debug") [] [] true.
  Definition o_int := mkopt 4 0 (s2l "internal") (s2l "Internal") [] [] false.
  Definition o_force := mkopt 5 102 (s2l "force") (s2l "Force") [] [] false.
  Definition o_noname := mkopt 6 0 [] (s2l "No flag name") [] [] false.

  Definition g_hid : group := Group (mkgi (s2l "Internal Options") true) [o_int] [].
  Definition g_root : group :=
    Group (mkgi (s2l "Application Options") false) [o_pass; o_user; o_dbg; o_noname] [g_hid; help_group].
  Definition a_file : arg :=
    {| a_fid := 10; a_name := s2l "FILE"; a_desc := s2l "Input file"; a_req := 0%Z; a_max := (-1)%Z;
       a_ty := TScalar KString; a_base := [] |}.
  Definition a_undesc : arg :=
    {| a_fid := 11; a_name := s2l "REST"; a_desc := []; a_req := 0%Z; a_max := (-1)%Z;
       a_ty := TSlice (TScalar KString); a_base := [] |}.
  Definition c_now : command := Command (mkci (s2l "now") false) (Group (mkgi (s2l "Now") false) [] []) [] [].
  Definition c_later : command := Command (mkci (s2l "later") true) (Group (mkgi (s2l "Later") false) [] []) [] [].
  Definition c_add : command :=
    Command (mkci (s2l "add") false) (Group (mkgi (s2l "Add a thing") false) [o_force] [help_group])
            [a_file; a_undesc] [c_now; c_later].
  Definition c_secret : command :=
    Command (mkci (s2l "secret") true) (Group (mkgi (s2l "Secret") false) [] []) [] [].
  Definition root : command := Command (mkci (s2l "app") false) g_root [] [c_add; c_secret].

  Definition cfg : pconfig :=
    {| pc_name := s2l "app";
       pc_opts := {| po_help := true; po_passdd := false; po_ignore := false; po_print := false; po_passafter := false |};
       pc_nsdelim := s2l "."; pc_envdelim := s2l "_"; pc_handler := HNone; pc_cmdhandler := false;
       pc_usage := []; pc_env := []; pc_cols := 80; pc_shortdesc := []; pc_longdesc := [] |}.

  Definition lit (s : str) : oflags :=
    {| f_isset := false; f_isdefault := true; f_prevent := false; f_clearref := false;
       f_iniquote := false; f_ininame := []; f_deflit := s |}.
  (* runtime state: "add" is active; default literals as updateDefaultLiteral leaves them *)
  Definition r1 : rt :=
    {| rt_vals := fun _ => VStr [];
       rt_fl := fun k => if Nat.eqb k 1 then lit (s2l "hunter2") else if Nat.eqb k 2 then lit (s2l "root") else oflags0;
       rt_active := [([], 0%nat)]; rt_logs := logs0 |}.
  (* same, the default literal of the masked option 1 changed *)
  Definition r2 : rt :=
    {| rt_vals := fun _ => VStr [];
       rt_fl := fun k => if Nat.eqb k 1 then lit (s2l "swordfish") else if Nat.eqb k 2 then lit (s2l "root") else oflags0;
       rt_active := [([], 0%nat)]; rt_logs := logs0 |}.
  (* same as r1, the default literal of the unmasked option 2 changed *)
  Definition r3 : rt :=
    {| rt_vals := fun _ => VStr [];
       rt_fl := fun k => if Nat.eqb k 1 then lit (s2l "hunter2") else if Nat.eqb k 2 then lit (s2l "admin") else oflags0;
       rt_active := [([], 0%nat)]; rt_logs := logs0 |}.

  Definition expected_rows : list hrow :=
    [HOpt 1; HOpt 2; HOpt 0; HOpt 5; HArg 10; HCmd (s2l "now")].

  (* C16.1: the premise holds here (help renders without panic) and the log is as expected:
     the hidden option 3, the nameless option 6, the hidden group's option 4, the help
     group of the sub-command, the undescribed argument 11 and the hidden commands are absent *)
  Example rows_exact_premise : exists t, write_help_rows cfg root r1 = Ok (t, expected_rows).
  Proof. eexists. vm_compute. reflexivity. Qed.
  Example spec_value : help_visible_rows root r1 = expected_rows.
  Proof. vm_compute. reflexivity. Qed.
  Example chain_value : map fst (help_chain root r1) = [[]; [0%nat]] /\ help_innermost root r1 = c_add.
  Proof. split; vm_compute; reflexivity. Qed.

  (* C16.2 premises *)
  Example listed_opt : In (HOpt 1) (help_visible_rows root r1).
  Proof. rewrite spec_value. cbn. tauto. Qed.
  Example listed_arg : In (HArg 10) (help_visible_rows root r1).
  Proof. rewrite spec_value. cbn. tauto. Qed.
  Example listed_cmd : In (HCmd (s2l "now")) (help_visible_rows root r1).
  Proof. rewrite spec_value. cbn. tauto. Qed.

  (* C16.3 premises: option 5 of the active sub-command's own group *)
  Example complete_premises :
    In ([0%nat], c_add) (help_chain root r1) /\
    In (cmd_group c_add, [[]], [[]]) (cmd_group_ctxs c_add) /\
    g_hidden (grp_info (cmd_group c_add)) = false /\
    g_builtin_help (grp_info (cmd_group c_add)) = false /\
    In o_force (grp_opts (cmd_group c_add)) /\ o_hidden o_force = false /\ o_short o_force <> 0 /\
    In a_file (cmd_args c_add) /\ a_desc a_file <> [] /\
    In c_now (cmd_subs (help_innermost root r1)) /\ c_hidden (cmd_info c_now) = false.
  Proof. vm_compute. repeat split; try tauto; discriminate. Qed.

  (* C16.4 premises, and the mask matters: without a mask the row shows the literal *)
  Example mask_help_premises :
    (forall k, fl_agree_except_deflit (rt_fl r1 k) (rt_fl r2 k)) /\ o_mask o_pass <> [] /\
    f_deflit (rt_fl r1 1%nat) <> f_deflit (rt_fl r2 1%nat).
  Proof.
    split; [|split; discriminate].
    intros k. unfold fl_agree_except_deflit, r1, r2. cbn [rt_fl].
    destruct (Nat.eqb k 1); [|destruct (Nat.eqb k 2)]; repeat split.
  Qed.
  Definition a0 : align := {| al_maxlong := 10; al_hasshort := true; al_hasvalname := false; al_indent := false |}.
  Example mask_help_row :
    help_option cfg r1 o_pass [[]] [[]] g_root a0 =
    Ok (s2l "  -p, --password=   Password (default: ****)" ++ [10]).
  Proof. vm_compute. reflexivity. Qed.
  Example unmasked_help_differs :
    (forall k, fl_agree_except_deflit (rt_fl r1 k) (rt_fl r3 k)) /\
    help_option cfg r1 o_user [[]] [[]] g_root a0 <> help_option cfg r3 o_user [[]] [[]] g_root a0.
  Proof.
    split.
    - intros k. unfold fl_agree_except_deflit, r1, r3. cbn [rt_fl].
      destruct (Nat.eqb k 1); [|destruct (Nat.eqb k 2)]; repeat split.
    - vm_compute. discriminate.
  Qed.

  (* C16.5 premises, and the mask matters *)
  Example mask_man_premises :
    opt_eq_except_default o_pass (opt_with_default o_pass [s2l "swordfish"]) /\ o_mask o_pass <> [] /\
    o_default o_pass <> o_default (opt_with_default o_pass [s2l "swordfish"]).
  Proof. split; [apply opt_with_default_except|split; discriminate]. Qed.
  Example unmasked_man_differs :
    man_option cfg o_user [[]] [[]] g_root <> man_option cfg (opt_with_default o_user [s2l "admin"]) [[]] [[]] g_root.
  Proof. vm_compute. discriminate. Qed.

  (* C16.6 on the instance: only the two visible groups contribute *)
  Example man_rows_value :
    man_options cfg root =
    man_group_header root g_root ++ man_option cfg o_pass [[]] [[]] g_root ++ man_option cfg o_user [[]] [[]] g_root ++
    man_group_header root help_group ++ man_option cfg help_opt [[]; []] [[]; []] help_group.
  Proof. vm_compute. reflexivity. Qed.
End Sample.

(* ================================================================== assumptions *)
Print Assumptions C16_help_rows_exact.
Print Assumptions C16_hidden_never_listed.
Print Assumptions C16_help_complete.
Print Assumptions C16_mask_help.
Print Assumptions C16_mask_man.
Print Assumptions C16_man_rows.
