(* C07 ("unknown options are never silently accepted"), END-TO-END over the whole
   argument loop (Parse.run_loop), for the three policies:
     - none            : the loop stops at the first unknown token with ErrUnknownFlag,
     - IgnoreUnknown   : every unknown token is passed through verbatim (ps_ret),
     - unknown handler : the handler is called once per unknown token with the name, the
                         inline argument and exactly the not-yet-consumed tokens; what it
                         returns is what is parsed next.
   Built on DenoteSpec: the known option occurrences are applied as the fold [denote]. *)
From GoFlags Require Import Base.Str Base.Utf8 Golib.Strings Golib.Strconv
     Model.Types Model.Tag Model.Scan Model.Lookup Model.Convert Model.State Model.Help Model.Parse
     Proofs.LookupSpec Proofs.FrameBase Proofs.ValueSpec Proofs.SpellSpec Proofs.ContextSpec
     Proofs.DenoteSpec.
From Coq Require Import Lia ZifyN ZifyNat ZifyBool.
Open Scope N_scope.

(* ================================================================== *)
(* 1. Unknown tokens, mixed command lines                              *)
(* ================================================================== *)

(* [unknown_tok lk u name arg]: the token [u] has option syntax, names [name] (with the
   optional inline argument [arg]) and [name] is not defined in the lookup [lk]:
     --name / --name=V  with [name] not a long name of [lk];
     -c / -c=V          (one rune) with [c] not a short name of [lk]. *)
Inductive unknown_tok (lk : lookup) : str -> str -> option str -> Prop :=
| unk_long : forall u name arg,
    argument_is_option u = true -> split_option u = (true, name, arg) ->
    find_last (lk_long lk) name = None ->
    unknown_tok lk u name arg
| unk_short : forall c,
    valid_rune c = true -> c <> 45 ->
    find_last (lk_short lk) (encode_rune c) = None ->
    unknown_tok lk (45 :: encode_rune c) (encode_rune c) None
| unk_short_eq : forall c V,
    valid_rune c = true -> c <> 45 -> c <> 61 ->
    find_last (lk_short lk) (encode_rune c) = None ->
    unknown_tok lk (45 :: encode_rune c ++ 61 :: V) (encode_rune c) (Some V).

(* in every case: option syntax, and splitOption yields (name, arg) *)
Lemma unknown_tok_syntax lk u name arg : unknown_tok lk u name arg ->
  argument_is_option u = true /\ exists il, split_option u = (il, name, arg).
Proof.
  intros H. destruct H as [u name arg Hopt Hsplit _|c Hv Hc _|c V Hv Hc Hc61 _].
  - split; [exact Hopt|exists true; exact Hsplit].
  - pose proof (valid_rune_enc c Hv) as R.
    destruct (rune_enc_hd c _ R Hc) as (b & t & Ex & Hb).
    split; [rewrite Ex; apply aio_short; exact Hb|]. exists false.
    transitivity (short_split (encode_rune c)); [|exact (short_split_single _ c R)].
    rewrite Ex. apply split_option_short; exact Hb.
  - pose proof (valid_rune_enc c Hv) as R.
    destruct (rune_enc_hd c _ R Hc) as (b & t & Ex & Hb).
    split; [rewrite Ex; apply aio_short; exact Hb|]. exists false.
    transitivity (short_split (encode_rune c ++ 61 :: V)); [|exact (short_split_eq _ c V R Hc61)].
    rewrite Ex. apply split_option_short; exact Hb.
Qed.

(* an item of a command line: a known option occurrence, or an unknown token
   (the token, its name, its inline argument) *)
Definition item : Type := (occ + (str * str * option str))%type.

Inductive umixed (lk : lookup) : list str -> list item -> Prop :=
| um_nil : umixed lk [] []
| um_known : forall ts o toks items,
    spell1 lk ts o -> umixed lk toks items -> umixed lk (ts ++ toks) (inl o :: items)
| um_unknown : forall u name arg toks items,
    unknown_tok lk u name arg -> umixed lk toks items ->
    umixed lk (u :: toks) (inr (u, name, arg) :: items).

(* the known occurrences / the unknown tokens of an item list, in order *)
Definition knowns (items : list item) : list occ :=
  flat_map (fun i : item => match i with inl o => [o] | inr _ => [] end) items.
Definition utoks (items : list item) : list str :=
  flat_map (fun i : item => match i with inl _ => [] | inr (u, _, _) => [u] end) items.

(* the handler-log entries of a mixed command line: one per unknown token, in order,
   each (name, inline argument, THE TOKENS AFTER THAT TOKEN) *)
Definition uentry : Type := (str * option str * list str)%type.

Inductive ulog (lk : lookup) : list str -> list item -> list uentry -> Prop :=
| ul_nil : ulog lk [] [] []
| ul_known : forall ts o toks items ents,
    spell1 lk ts o -> ulog lk toks items ents -> ulog lk (ts ++ toks) (inl o :: items) ents
| ul_unknown : forall u name arg toks items ents,
    unknown_tok lk u name arg -> ulog lk toks items ents ->
    ulog lk (u :: toks) (inr (u, name, arg) :: items) ((name, arg, toks) :: ents).

Lemma ulog_umixed lk toks items ents : ulog lk toks items ents -> umixed lk toks items.
Proof. induction 1; constructor; assumption. Qed.

Lemma umixed_ulog lk toks items : umixed lk toks items -> exists ents, ulog lk toks items ents.
Proof.
  induction 1 as [|ts o toks items H1 _ [ents IH]|u name arg toks items H1 _ [ents IH]].
  - exists []. constructor.
  - exists ents. constructor; assumption.
  - exists ((name, arg, toks) :: ents). constructor; assumption.
Qed.

(* names and inline arguments of the entries are those of the unknown items, in order *)
Definition unames (items : list item) : list (str * option str) :=
  flat_map (fun i : item => match i with inl _ => [] | inr (_, n, a) => [(n, a)] end) items.

Lemma ulog_names lk toks items ents : ulog lk toks items ents ->
  map fst ents = unames items.
Proof.
  induction 1 as [|ts o toks items ents _ _ IH|u name arg toks items ents _ _ IH].
  - reflexivity.
  - exact IH.
  - cbn [map fst unames flat_map app]. f_equal. exact IH.
Qed.

(* the third component of every entry is the token list after its unknown token *)
Lemma ulog_suffix lk toks items ents : ulog lk toks items ents ->
  forall n a l, In (n, a, l) ents ->
  exists before u, toks = before ++ u :: l /\ unknown_tok lk u n a.
Proof.
  induction 1 as [|ts o toks items ents _ _ IH|u name arg toks items ents Hu _ IH]; intros n a l Hin.
  - destruct Hin.
  - destruct (IH n a l Hin) as (before & u & -> & Hu). exists (ts ++ before), u.
    split; [rewrite app_assoc; reflexivity|exact Hu].
  - destruct Hin as [E|Hin].
    + injection E as <- <- <-. exists [], u. split; [reflexivity|exact Hu].
    + destruct (IH n a l Hin) as (before & u' & -> & Hu'). exists (u :: before), u'.
      split; [reflexivity|exact Hu'].
Qed.

(* pure token lists (no unknown token) are the special case of DenoteSpec *)
Lemma spells_umixed lk toks occs : spells lk toks occs -> umixed lk toks (map inl occs).
Proof. induction 1; cbn [map]; constructor; assumption. Qed.

(* ================================================================== *)
(* 2. The unknown-handler log commutes with Option.Set                 *)
(* ================================================================== *)

(* [r] with the entries [ext] appended to the unknown-handler log; nothing else differs *)
Definition add_unk (r : rt) (ext : list uentry) : rt :=
  set_logs r {| l_calls := l_calls (rt_logs r); l_exec := l_exec (rt_logs r);
                l_unknown := l_unknown (rt_logs r) ++ ext; l_out := l_out (rt_logs r) |}.

Lemma log_unknown_add_unk r n a l : log_unknown r n a l = add_unk r [(n, a, l)].
Proof. reflexivity. Qed.

Lemma add_unk_nil r : add_unk r [] = r.
Proof.
  destruct r as [v f a [c e u o]]. unfold add_unk, set_logs.
  cbn [rt_vals rt_fl rt_active rt_logs l_calls l_exec l_unknown l_out].
  rewrite app_nil_r. reflexivity.
Qed.

Lemma add_unk_add_unk r e1 e2 : add_unk (add_unk r e1) e2 = add_unk r (e1 ++ e2).
Proof.
  unfold add_unk, set_logs. cbn [rt_vals rt_fl rt_active rt_logs l_calls l_exec l_unknown l_out].
  rewrite app_assoc. reflexivity.
Qed.

Lemma add_unk_proj r ext :
  rt_vals (add_unk r ext) = rt_vals r /\ rt_fl (add_unk r ext) = rt_fl r /\
  rt_active (add_unk r ext) = rt_active r /\
  l_calls (rt_logs (add_unk r ext)) = l_calls (rt_logs r) /\
  l_exec (rt_logs (add_unk r ext)) = l_exec (rt_logs r) /\
  l_out (rt_logs (add_unk r ext)) = l_out (rt_logs r) /\
  l_unknown (rt_logs (add_unk r ext)) = l_unknown (rt_logs r) ++ ext.
Proof. repeat split. Qed.

Lemma opt_empty_add_unk o r ext : opt_empty o (add_unk r ext) = add_unk (opt_empty o r) ext.
Proof. unfold opt_empty. destruct (is_func (o_ty o)); reflexivity. Qed.

Section Commute.
  Variable orc : oracles.
  Variable delim : str.
  Variable ht : rt -> str.

  Local Notation oset := (opt_set orc delim ht).
  Local Notation fold := (denote orc delim ht).

  Lemma opt_call_add_unk oc a r r1 ext :
    opt_call orc ht oc a r = Ok (r1, None) ->
    opt_call orc ht oc a (add_unk r ext) = Ok (add_unk r1 ext, None).
  Proof.
    unfold opt_call. cbv zeta.
    assert (F : forall (ty : vtype) (r0 : rt),
      match rt_vals r0 (o_fid (oc_opt oc)), ty with
      | VFunc true _, _ => Panic (s2l "reflect: call of nil function")
      | VFunc false fails, TFunc _ true =>
        Ok (r0, if fails then Some (foreign (s2l "callback failed")) else None)
      | _, _ => Ok (r0, None)
      end = Ok (r1, None) ->
      match rt_vals r0 (o_fid (oc_opt oc)), ty with
      | VFunc true _, _ => Panic (s2l "reflect: call of nil function")
      | VFunc false fails, TFunc _ true =>
        Ok (add_unk r0 ext, if fails then Some (foreign (s2l "callback failed")) else None)
      | _, _ => Ok (add_unk r0 ext, None)
      end = Ok (add_unk r1 ext, None)).
    { intros ty r0 H.
      destruct (rt_vals r0 (o_fid (oc_opt oc))); try (injection H as <-; reflexivity).
      destruct isnil; [discriminate H|].
      destruct ty; try (injection H as <-; reflexivity).
      destruct ret_err; [|injection H as <-; reflexivity].
      destruct fails; [discriminate H|injection H as <-; reflexivity]. }
    destruct (o_is_help (oc_opt oc)) eqn:Eh.
    - destruct a as [v|]; destruct (o_ty (oc_opt oc)) as [k|k|t|k1 k2|[k|] b]; try discriminate.
      cbn [convert].
      destruct (convert_kind orc (o_base (oc_opt oc)) v k) as [[y|m]|e0|w]; cbn [bind]; discriminate.
    - destruct a as [v|]; destruct (o_ty (oc_opt oc)) as [k|k|t|k1 k2|[k|] b]; try discriminate.
      + cbn [convert].
        destruct (convert_kind orc (o_base (oc_opt oc)) v k) as [[y|m]|e0|w]; cbn [bind];
          try discriminate.
        intros H. exact (F (TFunc (Some k) b) _ H).
      + intros H. exact (F (TFunc None b) _ H).
      + intros H. exact (F (TFunc None b) _ H).
  Qed.

  (* a successful Option.Set neither reads nor writes the unknown-handler log *)
  Lemma opt_set_add_unk oc a r r1 ext :
    oset oc a r = Ok (r1, None) -> oset oc a (add_unk r ext) = Ok (add_unk r1 ext, None).
  Proof.
    unfold opt_set. cbv zeta.
    change (rt_fl (add_unk r ext)) with (rt_fl r).
    rewrite opt_empty_add_unk.
    set (fl' := fl_with _ true _ true false).
    set (cond := (is_map (o_ty (oc_opt oc)) || is_slice (o_ty (oc_opt oc))) &&
                 f_clearref (rt_fl r (o_fid (oc_opt oc)))).
    set (r2 := set_fl (if cond then opt_empty (oc_opt oc) r else r) (o_fid (oc_opt oc)) fl').
    assert (E2 : set_fl (if cond then add_unk (opt_empty (oc_opt oc) r) ext else add_unk r ext)
                        (o_fid (oc_opt oc)) fl' = add_unk r2 ext).
    { unfold r2. destruct cond; reflexivity. }
    rewrite E2. clearbody r2. clear E2.
    assert (K : (if is_func (o_ty (oc_opt oc)) then opt_call orc ht oc a r2
         else bind (convert orc (o_base (oc_opt oc)) match a with Some v => v | None => [] end
                       (o_ty (oc_opt oc)) (rt_vals r2 (o_fid (oc_opt oc))))
                (fun cv => let '(v, e) := cv in Ok (set_val r2 (o_fid (oc_opt oc)) v, option_map foreign e)))
          = Ok (r1, None) ->
         (if is_func (o_ty (oc_opt oc)) then opt_call orc ht oc a (add_unk r2 ext)
         else bind (convert orc (o_base (oc_opt oc)) match a with Some v => v | None => [] end
                       (o_ty (oc_opt oc)) (rt_vals (add_unk r2 ext) (o_fid (oc_opt oc))))
                (fun cv => let '(v, e) := cv in
                           Ok (set_val (add_unk r2 ext) (o_fid (oc_opt oc)) v, option_map foreign e)))
          = Ok (add_unk r1 ext, None)).
    { destruct (is_func (o_ty (oc_opt oc))).
      - apply opt_call_add_unk.
      - change (rt_vals (add_unk r2 ext)) with (rt_vals r2).
        destruct (convert _ _ _ _ _) as [[v [m|]]|e0|w]; cbn [bind option_map]; try discriminate.
        intros H. injection H as <-. reflexivity. }
    destruct (o_choices (oc_opt oc)) as [|c cs]; [exact K|].
    destruct a as [v|]; [|exact K].
    destruct (existsb _ _); [exact K|].
    cbn [bind]. discriminate.
  Qed.

  Lemma denote_add_unk : forall occs r rf ext,
    fold occs r = Ok (rf, None) -> fold occs (add_unk r ext) = Ok (add_unk rf ext, None).
  Proof.
    induction occs as [|[oc a] occs IH]; intros r rf ext H.
    - rewrite denote_nil in H. injection H as <-. reflexivity.
    - destruct (denote_cons_ok orc delim ht oc a occs r rf H) as (r1 & E & H').
      rewrite denote_cons, (opt_set_add_unk oc a r r1 ext E). cbn [bind fst snd].
      apply IH. exact H'.
  Qed.
End Commute.

(* ================================================================== *)
(* 3. One loop iteration on an unknown token                           *)
(* ================================================================== *)
Section Loop.
  Variable cfg : pconfig.
  Variable orc : oracles.
  Variable root : command.
  Variable ht : rt -> str.

  Local Notation pstep := (step cfg orc root ht).
  Local Notation ploop := (run_loop cfg orc root ht).
  Local Notation oset := (opt_set orc (pc_nsdelim cfg) ht).
  Local Notation fold := (denote orc (pc_nsdelim cfg) ht).

  (* parseShort on one rune that is not a short name *)
  Lemma parse_short_unknown c x arg s r : rune_enc c x ->
    find_last (lk_short (ps_lk s)) x = None ->
    parse_short cfg orc ht x arg s r = Ok (s, r, Some (unknown_flag x)).
  Proof.
    intros R Hf. unfold parse_short.
    assert (E : (match arg with
                 | None => split_short_concat s x
                 | Some _ => (x, arg)
                 end) = (x, arg)).
    { destruct arg as [V|]; [reflexivity|]. unfold split_short_concat.
      pose proof (re_dec _ _ R []) as D. rewrite app_nil_r in D. rewrite D, Nat.eqb_refl. reflexivity. }
    rewrite E. rewrite (range_str_single x c R). cbn [short_loop].
    rewrite (re_enc _ _ R), Hf. reflexivity.
  Qed.

  (* whatever the policy: parseLong / parseShort report ErrUnknownFlag naming [name],
     nothing is changed, and the loop decides in [step_tail] *)
  Lemma step_unknown s r u rest name arg :
    unknown_tok (ps_lk s) u name arg -> ps_args s = u :: rest ->
    pstep s r = step_tail cfg orc u name arg (ps_with_args s u rest, r, Some (unknown_flag name)).
  Proof.
    intros H Hargs.
    destruct (unknown_tok_syntax _ _ _ _ H) as (Hopt & il & Hsplit).
    rewrite (step_on_option cfg orc root ht s r u rest il name arg Hargs Hopt Hsplit).
    inversion H as [u' name' arg' _ Hsplit' Hfind|c Hv Hc Hfind|c V Hv Hc Hc61 Hfind]; subst.
    - rewrite Hsplit in Hsplit'. injection Hsplit' as ->.
      unfold parse_long. cbn [ps_lk ps_with_args]. rewrite Hfind. reflexivity.
    - assert (il = false) as ->.
      { destruct il; [|reflexivity]. exfalso.
        pose proof (valid_rune_enc c Hv) as R.
        destruct (rune_enc_hd c _ R Hc) as (b & t & Ex & Hb).
        rewrite Ex, (split_option_short b t Hb) in Hsplit. rewrite <- Ex in Hsplit.
        rewrite (short_split_single _ c R) in Hsplit. discriminate Hsplit. }
      rewrite (parse_short_unknown c _ None _ r (valid_rune_enc c Hv)) by exact Hfind. reflexivity.
    - assert (il = false) as ->.
      { destruct il; [|reflexivity]. exfalso.
        pose proof (valid_rune_enc c Hv) as R.
        destruct (rune_enc_hd c _ R Hc) as (b & t & Ex & Hb).
        rewrite Ex in Hsplit. cbn [app] in Hsplit. rewrite (split_option_short b _ Hb) in Hsplit.
        change (b :: t ++ 61 :: V) with ((b :: t) ++ 61 :: V) in Hsplit. rewrite <- Ex in Hsplit.
        rewrite (short_split_eq _ c V R Hc61) in Hsplit. discriminate Hsplit. }
      rewrite (parse_short_unknown c _ (Some V) _ r (valid_rune_enc c Hv)) by exact Hfind. reflexivity.
  Qed.

  (* policy "none": break with ErrUnknownFlag *)
  Lemma step_unknown_none s r u rest name arg :
    po_ignore (pc_opts cfg) = false -> pc_handler cfg = HNone ->
    unknown_tok (ps_lk s) u name arg -> ps_args s = u :: rest ->
    pstep s r = Ok (Break (ps_with_err (ps_with_args s u rest) (Some (unknown_flag name))) r).
  Proof.
    intros Hign Hh H Hargs. rewrite (step_unknown s r u rest name arg H Hargs).
    unfold step_tail, unknown_flag. rewrite Hign, Hh. reflexivity.
  Qed.

  (* IgnoreUnknown (any handler): the token goes to the returned arguments *)
  Lemma step_unknown_ignore s r u rest name arg :
    po_ignore (pc_opts cfg) = true -> ps_pos s = [] ->
    unknown_tok (ps_lk s) u name arg -> ps_args s = u :: rest ->
    pstep s r = Ok (Continue (ps_with_retpos (ps_with_args s u rest) (ps_ret s ++ [u]) []) r).
  Proof.
    intros Hign Hpos H Hargs. rewrite (step_unknown s r u rest name arg H Hargs).
    unfold step_tail, unknown_flag. rewrite Hign. cbn [negb andb orb].
    cbn [add_args ps_pos ps_with_args]. rewrite Hpos. reflexivity.
  Qed.

  (* a handler, no IgnoreUnknown: logged call, then the handler's verdict *)
  Lemma step_unknown_handler s r u rest name arg :
    po_ignore (pc_opts cfg) = false -> pc_handler cfg <> HNone ->
    unknown_tok (ps_lk s) u name arg -> ps_args s = u :: rest ->
    pstep s r =
    Ok (match run_handler cfg name arg rest with
        | inr he => Break (ps_with_err (ps_with_args s u rest) (Some he)) (log_unknown r name arg rest)
        | inl newargs => Continue (ps_with_args (ps_with_args s u rest) u newargs) (log_unknown r name arg rest)
        end).
  Proof.
    intros Hign Hh H Hargs. rewrite (step_unknown s r u rest name arg H Hargs).
    unfold step_tail, unknown_flag. rewrite Hign. cbn [negb andb orb ps_args ps_arg ps_with_args].
    destruct (pc_handler cfg) eqn:E; [congruence| | |];
      destruct (run_handler cfg name arg rest); reflexivity.
  Qed.

  (* ================================================================== *)
  (* 4. A spelled prefix of the command line                             *)
  (* ================================================================== *)
  (* the loop over [pre ++ rest], where [pre] spells occurrences whose fold succeeds, is
     the loop over [rest] started in the fold's state: all of [pre] applied, only
     ps_arg / ps_args of the parser state moved *)
  Lemma loop_prefix : forall lk pre occs, spells lk pre occs ->
    forall rest fuel s r r1,
    ps_lk s = lk -> ps_args s = pre ++ rest -> (length (pre ++ rest) < fuel)%nat ->
    fold occs r = Ok (r1, None) ->
    exists fuel' s1, (length rest < fuel')%nat /\ popped s pre rest s1 /\
                     ploop fuel s r = ploop fuel' s1 r1.
  Proof.
    induction 1 as [|ts [oc a] toks occs H1 Hs IH]; intros rest fuel s r r1 Hlk Hargs Hf Hd.
    - rewrite denote_nil in Hd. injection Hd as <-. exists fuel, s.
      split; [exact Hf|]. split; [|reflexivity]. repeat split. exact Hargs.
    - destruct fuel as [|f]; [lia|].
      destruct (spell1_nonempty lk ts _ H1) as (t & ts' & Ets).
      assert (Hne : ts <> []) by (rewrite Ets; discriminate).
      rewrite <- app_assoc in Hargs.
      destruct (step_spell1 cfg orc root ht lk ts oc a H1 s r (toks ++ rest) Hlk Hargs) as (s1 & Hp & Hstep).
      destruct Hp as (Pargs & Parg & Pret & Ppos & Perr & Pcmd & Plk).
      destruct (denote_cons_ok orc (pc_nsdelim cfg) ht oc a occs r r1 Hd) as (rm & Eset & Hd').
      assert (Hargs' : ps_args s = t :: (ts' ++ toks ++ rest)) by (rewrite Hargs, Ets; reflexivity).
      rewrite (run_loop_cons cfg orc root ht f s r t _ Hargs'), Hstep.
      unfold after_set. rewrite Eset. cbn [bind fst snd].
      assert (Hf' : (length (toks ++ rest) < f)%nat).
      { rewrite <- app_assoc, app_length, Ets in Hf. cbn [length] in Hf. lia. }
      destruct (IH rest f s1 rm r1 (eq_trans Plk Hlk) Pargs Hf' Hd')
        as (fuel' & s2 & Hf2 & (Qargs & Qarg & Qret & Qpos & Qerr & Qcmd & Qlk) & Hl).
      exists fuel', s2. split; [exact Hf2|]. split; [|exact Hl].
      split; [exact Qargs|].
      split; [rewrite Qarg, Parg; symmetry; apply last_app_nonempty; exact Hne|].
      repeat split; congruence.
  Qed.

  (* ================================================================== *)
  (* 5. Policy "none": the loop fails at the first unknown token         *)
  (* ================================================================== *)
  Theorem C07_loop_fails_at_first_unknown :
    forall (lk : lookup) (pre post : list str) (occs_pre : list occ)
           (u name : str) (arg : option str) (fuel : nat) (s : pst) (r r1 : rt),
    po_ignore (pc_opts cfg) = false -> pc_handler cfg = HNone ->
    spells lk pre occs_pre -> unknown_tok lk u name arg ->
    ps_lk s = lk -> ps_args s = pre ++ [u] ++ post ->
    (length (pre ++ [u] ++ post) < fuel)%nat ->
    fold occs_pre r = Ok (r1, None) ->
    exists s',
      (* the runtime state is the fold of the occurrences BEFORE u; nothing after *)
      ploop fuel s r = Ok (s', r1) /\
      ps_err s' = Some (EFlags ErrUnknownFlag (s2l "unknown flag `" ++ name ++ s2l "'")) /\
      ps_args s' = post /\ ps_arg s' = u /\
      ps_ret s' = ps_ret s /\ ps_pos s' = ps_pos s /\ ps_cmd s' = ps_cmd s /\ ps_lk s' = ps_lk s.
  Proof.
    intros lk pre post occs_pre u name arg fuel s r r1 Hign Hh Hsp Hu Hlk Hargs Hf Hd.
    destruct (loop_prefix lk pre occs_pre Hsp ([u] ++ post) fuel s r r1 Hlk Hargs Hf Hd)
      as (fuel' & s1 & Hf1 & (Pargs & Parg & Pret & Ppos & Perr & Pcmd & Plk) & Hl).
    destruct fuel' as [|f]; [cbn [length app] in Hf1; lia|].
    assert (Hu1 : unknown_tok (ps_lk s1) u name arg) by (rewrite Plk, Hlk; exact Hu).
    rewrite Hl, (run_loop_cons cfg orc root ht f s1 r1 u post Pargs).
    rewrite (step_unknown_none s1 r1 u post name arg Hign Hh Hu1 Pargs). cbn [bind].
    eexists. split; [reflexivity|].
    cbn [ps_with_err ps_with_args ps_err ps_args ps_arg ps_ret ps_pos ps_cmd ps_lk].
    repeat split; assumption.
  Qed.

  (* ================================================================== *)
  (* 6. IgnoreUnknown: every unknown token is passed through             *)
  (* ================================================================== *)
  Theorem C07_loop_ignores_all_unknown :
    forall (lk : lookup) (toks : list str) (items : list item),
    umixed lk toks items ->
    forall (fuel : nat) (s : pst) (r rf : rt),
    po_ignore (pc_opts cfg) = true ->
    ps_lk s = lk -> ps_args s = toks -> ps_pos s = [] -> (length toks < fuel)%nat ->
    fold (knowns items) r = Ok (rf, None) ->
    exists s',
      (* the runtime state is exactly the fold over the known occurrences *)
      ploop fuel s r = Ok (s', rf) /\
      (* the unknown tokens, verbatim and in order, are appended to the returned arguments *)
      ps_ret s' = ps_ret s ++ utoks items /\
      ps_args s' = [] /\ ps_arg s' = last toks (ps_arg s) /\ ps_pos s' = [] /\
      ps_err s' = ps_err s /\ ps_cmd s' = ps_cmd s /\ ps_lk s' = ps_lk s /\
      (* no handler was consulted *)
      l_unknown (rt_logs rf) = l_unknown (rt_logs r).
  Proof.
    intros lk toks items H fuel s r rf Hign Hlk Hargs Hpos Hf Hd.
    assert (G : l_unknown (rt_logs rf) = l_unknown (rt_logs r))
      by (destruct (denote_global orc (pc_nsdelim cfg) ht _ r rf None Hd) as (_ & _ & G & _); exact G).
    cut (exists s', ploop fuel s r = Ok (s', rf) /\
      ps_ret s' = ps_ret s ++ utoks items /\
      ps_args s' = [] /\ ps_arg s' = last toks (ps_arg s) /\ ps_pos s' = [] /\
      ps_err s' = ps_err s /\ ps_cmd s' = ps_cmd s /\ ps_lk s' = ps_lk s).
    { intros (s' & A & B & C & D & E & F & I & J). exists s'. repeat split; assumption. }
    clear G. revert fuel s r Hlk Hargs Hpos Hf Hd.
    induction H as [|ts [oc a] toks items H1 Hm IH|u name arg toks items Hu Hm IH];
      intros fuel s r Hlk Hargs Hpos Hf Hd; (destruct fuel as [|f]; [cbn [length] in Hf; lia|]).
    - cbn [knowns flat_map] in Hd. rewrite denote_nil in Hd. injection Hd as <-.
      exists s. rewrite (run_loop_done cfg orc root ht f s r Hargs).
      cbn [utoks flat_map]. rewrite app_nil_r. repeat split; assumption.
    - change (knowns (inl (oc, a) :: items)) with ((oc, a) :: knowns items) in Hd.
      destruct (spell1_nonempty lk ts _ H1) as (t & ts' & Ets).
      assert (Hne : ts <> []) by (rewrite Ets; discriminate).
      destruct (step_spell1 cfg orc root ht lk ts oc a H1 s r toks Hlk Hargs) as (s1 & Hp & Hstep).
      destruct Hp as (Pargs & Parg & Pret & Ppos & Perr & Pcmd & Plk).
      destruct (denote_cons_ok orc (pc_nsdelim cfg) ht oc a _ r rf Hd) as (rm & Eset & Hd').
      assert (Hargs' : ps_args s = t :: (ts' ++ toks)) by (rewrite Hargs, Ets; reflexivity).
      rewrite (run_loop_cons cfg orc root ht f s r t _ Hargs'), Hstep.
      unfold after_set. rewrite Eset. cbn [bind fst snd].
      assert (Hf' : (length toks < f)%nat).
      { rewrite app_length, Ets in Hf. cbn [length] in Hf. lia. }
      destruct (IH f s1 rm (eq_trans Plk Hlk) Pargs (eq_trans Ppos Hpos) Hf' Hd')
        as (s' & Hl & Qret & Qargs & Qarg & Qpos & Qerr & Qcmd & Qlk).
      exists s'. split; [exact Hl|].
      split; [rewrite Qret, Pret; reflexivity|]. split; [exact Qargs|].
      split; [rewrite Qarg, Parg; symmetry; apply last_app_nonempty; exact Hne|].
      repeat split; congruence.
    - change (knowns (inr (u, name, arg) :: items)) with (knowns items) in Hd.
      assert (Hu1 : unknown_tok (ps_lk s) u name arg) by (rewrite Hlk; exact Hu).
      rewrite (run_loop_cons cfg orc root ht f s r u toks Hargs).
      rewrite (step_unknown_ignore s r u toks name arg Hign Hpos Hu1 Hargs). cbn [bind].
      assert (Hf' : (length toks < f)%nat) by (cbn [length] in Hf; lia).
      destruct (IH f (ps_with_retpos (ps_with_args s u toks) (ps_ret s ++ [u]) []) r Hlk
                   eq_refl eq_refl Hf' Hd)
        as (s' & Hl & Qret & Qargs & Qarg & Qpos & Qerr & Qcmd & Qlk).
      cbn [ps_with_retpos ps_with_args ps_err ps_args ps_arg ps_ret ps_pos ps_cmd ps_lk] in *.
      exists s'. split; [exact Hl|].
      split; [rewrite Qret, <- app_assoc; reflexivity|]. split; [exact Qargs|].
      split; [rewrite Qarg; symmetry; apply last_cons_default|].
      repeat split; assumption.
  Qed.

  (* ================================================================== *)
  (* 7. The identity handler                                             *)
  (* ================================================================== *)
  Lemma loop_identity_aux :
    forall (lk : lookup) (toks : list str) (items : list item) (ents : list uentry),
    ulog lk toks items ents ->
    forall (fuel : nat) (s : pst) (r0 rf : rt) (ext : list uentry),
    po_ignore (pc_opts cfg) = false -> pc_handler cfg = HIdentity ->
    ps_lk s = lk -> ps_args s = toks -> (length toks < fuel)%nat ->
    fold (knowns items) r0 = Ok (rf, None) ->
    exists s', ploop fuel s (add_unk r0 ext) = Ok (s', add_unk rf (ext ++ ents)) /\
               popped s toks [] s'.
  Proof.
    intros lk toks items ents H.
    induction H as [|ts [oc a] toks items ents H1 Hm IH|u name arg toks items ents Hu Hm IH];
      intros fuel s r0 rf ext Hign Hh Hlk Hargs Hf Hd;
      (destruct fuel as [|f]; [cbn [length] in Hf; lia|]).
    - cbn [knowns flat_map] in Hd. rewrite denote_nil in Hd. injection Hd as <-.
      exists s. rewrite (run_loop_done cfg orc root ht f s _ Hargs), app_nil_r.
      split; [reflexivity|]. repeat split. exact Hargs.
    - change (knowns (inl (oc, a) :: items)) with ((oc, a) :: knowns items) in Hd.
      destruct (spell1_nonempty lk ts _ H1) as (t & ts' & Ets).
      assert (Hne : ts <> []) by (rewrite Ets; discriminate).
      destruct (step_spell1 cfg orc root ht lk ts oc a H1 s (add_unk r0 ext) toks Hlk Hargs)
        as (s1 & Hp & Hstep).
      destruct Hp as (Pargs & Parg & Pret & Ppos & Perr & Pcmd & Plk).
      destruct (denote_cons_ok orc (pc_nsdelim cfg) ht oc a _ r0 rf Hd) as (rm & Eset & Hd').
      assert (Hargs' : ps_args s = t :: (ts' ++ toks)) by (rewrite Hargs, Ets; reflexivity).
      rewrite (run_loop_cons cfg orc root ht f s _ t _ Hargs'), Hstep.
      unfold after_set. rewrite (opt_set_add_unk orc (pc_nsdelim cfg) ht oc a r0 rm ext Eset).
      cbn [bind fst snd].
      assert (Hf' : (length toks < f)%nat).
      { rewrite app_length, Ets in Hf. cbn [length] in Hf. lia. }
      destruct (IH f s1 rm rf ext Hign Hh (eq_trans Plk Hlk) Pargs Hf' Hd')
        as (s' & Hl & Qargs & Qarg & Qret & Qpos & Qerr & Qcmd & Qlk).
      exists s'. split; [exact Hl|].
      split; [exact Qargs|].
      split; [rewrite Qarg, Parg; symmetry; apply last_app_nonempty; exact Hne|].
      repeat split; congruence.
    - change (knowns (inr (u, name, arg) :: items)) with (knowns items) in Hd.
      assert (Hu1 : unknown_tok (ps_lk s) u name arg) by (rewrite Hlk; exact Hu).
      assert (Hh' : pc_handler cfg <> HNone) by (rewrite Hh; discriminate).
      rewrite (run_loop_cons cfg orc root ht f s _ u toks Hargs).
      rewrite (step_unknown_handler s _ u toks name arg Hign Hh' Hu1 Hargs).
      unfold run_handler. rewrite Hh. cbn [bind].
      rewrite log_unknown_add_unk, add_unk_add_unk.
      assert (Hf' : (length toks < f)%nat) by (cbn [length] in Hf; lia).
      destruct (IH f (ps_with_args (ps_with_args s u toks) u toks) r0 rf (ext ++ [(name, arg, toks)])
                   Hign Hh Hlk eq_refl Hf' Hd)
        as (s' & Hl & Qargs & Qarg & Qret & Qpos & Qerr & Qcmd & Qlk).
      cbn [ps_with_args ps_err ps_args ps_arg ps_ret ps_pos ps_cmd ps_lk] in *.
      exists s'. split; [rewrite Hl, <- app_assoc; reflexivity|].
      split; [exact Qargs|].
      split; [rewrite Qarg; symmetry; apply last_cons_default|].
      repeat split; assumption.
  Qed.

  Theorem C07_loop_handler_identity :
    forall (lk : lookup) (toks : list str) (items : list item) (ents : list uentry),
    ulog lk toks items ents ->
    forall (fuel : nat) (s : pst) (r rf : rt),
    po_ignore (pc_opts cfg) = false -> pc_handler cfg = HIdentity ->
    ps_lk s = lk -> ps_args s = toks -> (length toks < fuel)%nat ->
    fold (knowns items) r = Ok (rf, None) ->
    exists s' r',
      ploop fuel s r = Ok (s', r') /\
      (* the fold's state plus one log entry per unknown token, and nothing else *)
      r' = add_unk rf ents /\
      l_unknown (rt_logs r') = l_unknown (rt_logs r) ++ ents /\
      rt_vals r' = rt_vals rf /\ rt_fl r' = rt_fl rf /\ rt_active r' = rt_active rf /\
      l_calls (rt_logs r') = l_calls (rt_logs rf) /\ l_exec (rt_logs r') = l_exec (rt_logs rf) /\
      l_out (rt_logs r') = l_out (rt_logs rf) /\
      (* every token consumed; the returned arguments, pending positionals, error,
         command and lookup of the parser state unchanged *)
      ps_args s' = [] /\ ps_arg s' = last toks (ps_arg s) /\ ps_ret s' = ps_ret s /\
      ps_pos s' = ps_pos s /\ ps_err s' = ps_err s /\ ps_cmd s' = ps_cmd s /\ ps_lk s' = ps_lk s.
  Proof.
    intros lk toks items ents H fuel s r rf Hign Hh Hlk Hargs Hf Hd.
    destruct (loop_identity_aux lk toks items ents H fuel s r rf [] Hign Hh Hlk Hargs Hf Hd)
      as (s' & Hl & Qargs & Qarg & Qret & Qpos & Qerr & Qcmd & Qlk).
    rewrite add_unk_nil in Hl. cbn [app] in Hl.
    exists s', (add_unk rf ents). split; [exact Hl|]. split; [reflexivity|].
    split.
    { destruct (denote_global orc (pc_nsdelim cfg) ht _ r rf None Hd) as (_ & _ & G & _).
      cbn [add_unk set_logs rt_logs l_unknown]. rewrite G. reflexivity. }
    repeat split; assumption.
  Qed.

  (* ================================================================== *)
  (* 8. What the handler returns is what is parsed next                  *)
  (* ================================================================== *)
  (* HDropNext returns the pending arguments without the first one: the token [t] after
     the unknown token is never parsed; the loop continues with [post] in the state
     reached before [u] plus the one logged handler call *)
  Theorem C07_loop_handler_result_is_parsed_next :
    forall (lk : lookup) (pre post : list str) (occs_pre : list occ)
           (u name t : str) (arg : option str) (fuel : nat) (s : pst) (r r1 : rt),
    po_ignore (pc_opts cfg) = false -> pc_handler cfg = HDropNext ->
    spells lk pre occs_pre -> unknown_tok lk u name arg ->
    ps_lk s = lk -> ps_args s = pre ++ [u] ++ [t] ++ post ->
    (length (pre ++ [u] ++ [t] ++ post) < fuel)%nat ->
    fold occs_pre r = Ok (r1, None) ->
    exists fuel' s2,
      (length post < fuel')%nat /\
      ploop fuel s r = ploop fuel' s2 (log_unknown r1 name arg (t :: post)) /\
      ps_args s2 = post /\ ps_arg s2 = u /\
      ps_ret s2 = ps_ret s /\ ps_pos s2 = ps_pos s /\ ps_err s2 = ps_err s /\
      ps_cmd s2 = ps_cmd s /\ ps_lk s2 = ps_lk s.
  Proof.
    intros lk pre post occs_pre u name t arg fuel s r r1 Hign Hh Hsp Hu Hlk Hargs Hf Hd.
    destruct (loop_prefix lk pre occs_pre Hsp ([u] ++ [t] ++ post) fuel s r r1 Hlk Hargs Hf Hd)
      as (fuel' & s1 & Hf1 & (Pargs & Parg & Pret & Ppos & Perr & Pcmd & Plk) & Hl).
    destruct fuel' as [|f]; [cbn [length app] in Hf1; lia|].
    assert (Hu1 : unknown_tok (ps_lk s1) u name arg) by (rewrite Plk, Hlk; exact Hu).
    assert (Hh' : pc_handler cfg <> HNone) by (rewrite Hh; discriminate).
    rewrite Hl, (run_loop_cons cfg orc root ht f s1 r1 u (t :: post) Pargs).
    rewrite (step_unknown_handler s1 r1 u (t :: post) name arg Hign Hh' Hu1 Pargs).
    unfold run_handler. rewrite Hh. cbn [bind tl].
    exists f, (ps_with_args (ps_with_args s1 u (t :: post)) u post).
    split; [cbn [length app] in Hf1; lia|]. split; [reflexivity|].
    cbn [ps_with_args ps_err ps_args ps_arg ps_ret ps_pos ps_cmd ps_lk].
    repeat split; assumption.
  Qed.

  (* ... in particular when the rest of the line is spelled by known occurrences: the
     run is the fold over the occurrences before [u] and after [t]; whatever [t] spells
     is not applied *)
  Theorem C07_loop_handler_dropnext_end_to_end :
    forall (lk : lookup) (pre post : list str) (occs_pre occs_post : list occ)
           (u name t : str) (arg : option str) (fuel : nat) (s : pst) (r rf : rt),
    po_ignore (pc_opts cfg) = false -> pc_handler cfg = HDropNext ->
    spells lk pre occs_pre -> unknown_tok lk u name arg -> spells lk post occs_post ->
    ps_lk s = lk -> ps_args s = pre ++ [u] ++ [t] ++ post ->
    (length (pre ++ [u] ++ [t] ++ post) < fuel)%nat ->
    fold (occs_pre ++ occs_post) r = Ok (rf, None) ->
    exists s',
      ploop fuel s r = Ok (s', add_unk rf [(name, arg, t :: post)]) /\
      ps_args s' = [] /\ ps_arg s' = last post u /\ ps_ret s' = ps_ret s /\
      ps_pos s' = ps_pos s /\ ps_err s' = ps_err s /\ ps_cmd s' = ps_cmd s /\ ps_lk s' = ps_lk s.
  Proof.
    intros lk pre post occs_pre occs_post u name t arg fuel s r rf Hign Hh Hsp Hu Hsp2 Hlk Hargs Hf Hd.
    apply denote_app_ok in Hd. destruct Hd as (r1 & Hd1 & Hd2).
    destruct (C07_loop_handler_result_is_parsed_next lk pre post occs_pre u name t arg fuel s r r1
                Hign Hh Hsp Hu Hlk Hargs Hf Hd1)
      as (fuel' & s2 & Hf2 & Hl & Qargs & Qarg & Qret & Qpos & Qerr & Qcmd & Qlk).
    pose proof (C01_loop_is_fold cfg orc root ht lk post occs_post Hsp2 fuel' s2
                  (log_unknown r1 name arg (t :: post)) (eq_trans Qlk Hlk) Qargs Hf2) as L.
    rewrite log_unknown_add_unk in L, Hl.
    rewrite (denote_add_unk orc (pc_nsdelim cfg) ht occs_post r1 rf _ Hd2) in L.
    cbn [loop_rel] in L. destruct L as (s' & Hl' & Pargs & Parg & Pret & Ppos & Perr & Pcmd & Plk).
    exists s'. split; [rewrite Hl; exact Hl'|].
    split; [exact Pargs|]. split; [rewrite Parg, Qarg; reflexivity|].
    repeat split; congruence.
  Qed.

  (* HError: the loop stops with the handler's error; the handler was logged once, with
     the name, the inline argument and all the tokens after the unknown one *)
  Theorem C07_loop_handler_error_stops :
    forall (lk : lookup) (pre rest : list str) (occs_pre : list occ)
           (u name : str) (arg : option str) (fuel : nat) (s : pst) (r r1 : rt),
    po_ignore (pc_opts cfg) = false -> pc_handler cfg = HError ->
    spells lk pre occs_pre -> unknown_tok lk u name arg ->
    ps_lk s = lk -> ps_args s = pre ++ [u] ++ rest ->
    (length (pre ++ [u] ++ rest) < fuel)%nat ->
    fold occs_pre r = Ok (r1, None) ->
    exists s',
      ploop fuel s r = Ok (s', log_unknown r1 name arg rest) /\
      l_unknown (rt_logs (log_unknown r1 name arg rest)) = l_unknown (rt_logs r) ++ [(name, arg, rest)] /\
      ps_err s' = Some (EForeign (s2l "handler error: " ++ name)) /\
      ps_args s' = rest /\ ps_arg s' = u /\
      ps_ret s' = ps_ret s /\ ps_pos s' = ps_pos s /\ ps_cmd s' = ps_cmd s /\ ps_lk s' = ps_lk s.
  Proof.
    intros lk pre rest occs_pre u name arg fuel s r r1 Hign Hh Hsp Hu Hlk Hargs Hf Hd.
    destruct (loop_prefix lk pre occs_pre Hsp ([u] ++ rest) fuel s r r1 Hlk Hargs Hf Hd)
      as (fuel' & s1 & Hf1 & (Pargs & Parg & Pret & Ppos & Perr & Pcmd & Plk) & Hl).
    destruct fuel' as [|f]; [cbn [length app] in Hf1; lia|].
    assert (Hu1 : unknown_tok (ps_lk s1) u name arg) by (rewrite Plk, Hlk; exact Hu).
    assert (Hh' : pc_handler cfg <> HNone) by (rewrite Hh; discriminate).
    rewrite Hl, (run_loop_cons cfg orc root ht f s1 r1 u rest Pargs).
    rewrite (step_unknown_handler s1 r1 u rest name arg Hign Hh' Hu1 Pargs).
    unfold run_handler. rewrite Hh. cbn [bind].
    eexists. split; [reflexivity|].
    split.
    { destruct (denote_global orc (pc_nsdelim cfg) ht _ r r1 None Hd) as (_ & _ & G & _).
      cbn [log_unknown set_logs rt_logs l_unknown]. rewrite G. reflexivity. }
    cbn [ps_with_err ps_with_args ps_err ps_args ps_arg ps_ret ps_pos ps_cmd ps_lk].
    repeat split; assumption.
  Qed.

  (* ================================================================== *)
  (* 9. Options of other commands are unknown here                       *)
  (* ================================================================== *)
  (* [n] is the long name of no option declared along the chain root -> ... -> current
     command (e.g. an option declared only in a sibling command, or in a command that
     has not been named yet): --n / --n=V is an unknown token there, and under policy
     "none" the loop fails at it *)
  Lemma out_of_scope_unknown_tok path u n arg :
    (forall oc, In oc (chain_octxs root path) -> nonempty (o_long (oc_opt oc)) = true ->
                long_name (pc_nsdelim cfg) oc <> n) ->
    argument_is_option u = true -> split_option u = (true, n, arg) ->
    unknown_tok (make_lookup (pc_nsdelim cfg) root path) u n arg.
  Proof.
    intros Hsc Hopt Hsplit. apply unk_long; [exact Hopt|exact Hsplit|].
    apply lookup_long_scope. exact Hsc.
  Qed.

  Theorem C07_out_of_scope_unknown_in_loop :
    forall (path : list nat) (pre post : list str) (occs_pre : list occ)
           (u n : str) (arg : option str) (fuel : nat) (s : pst) (r r1 : rt),
    po_ignore (pc_opts cfg) = false -> pc_handler cfg = HNone ->
    ps_lk s = make_lookup (pc_nsdelim cfg) root path ->
    (forall oc, In oc (chain_octxs root path) -> nonempty (o_long (oc_opt oc)) = true ->
                long_name (pc_nsdelim cfg) oc <> n) ->
    argument_is_option u = true -> split_option u = (true, n, arg) ->
    spells (ps_lk s) pre occs_pre -> ps_args s = pre ++ [u] ++ post ->
    (length (pre ++ [u] ++ post) < fuel)%nat ->
    fold occs_pre r = Ok (r1, None) ->
    exists s',
      ploop fuel s r = Ok (s', r1) /\
      ps_err s' = Some (EFlags ErrUnknownFlag (s2l "unknown flag `" ++ n ++ s2l "'")) /\
      ps_args s' = post /\ ps_arg s' = u /\
      ps_ret s' = ps_ret s /\ ps_pos s' = ps_pos s /\ ps_cmd s' = ps_cmd s /\ ps_lk s' = ps_lk s.
  Proof.
    intros path pre post occs_pre u n arg fuel s r r1 Hign Hh Hlk Hsc Hopt Hsplit Hsp Hargs Hf Hd.
    apply (C07_loop_fails_at_first_unknown (ps_lk s) pre post occs_pre u n arg fuel s r r1);
      try assumption; try reflexivity.
    rewrite Hlk. apply out_of_scope_unknown_tok; assumption.
  Qed.

  (* ================================================================== *)
  (* 10. Through ParseArgs: what the caller sees under policy "none"     *)
  (* ================================================================== *)
  Corollary C07_parse_fails_at_first_unknown :
    forall (pre post : list str) (occs_pre : list occ) (u name : str) (arg : option str) (r r1 : rt),
    let lk := make_lookup (pc_nsdelim cfg) root [] in
    let e := EFlags ErrUnknownFlag (s2l "unknown flag `" ++ name ++ s2l "'") in
    po_ignore (pc_opts cfg) = false -> pc_handler cfg = HNone ->
    spells lk pre occs_pre -> unknown_tok lk u name arg ->
    fold occs_pre r = Ok (r1, None) ->
    (* no defaults pass, no required check, no command execution: the state of the fold
       (plus the printed message under PrintErrors), the error, and the unparsed rest
       starting with the offending token *)
    parse_body cfg orc root ht (pre ++ [u] ++ post) r =
    Ok (print_error cfg r1 e, {| pr_ret := Some (u :: post); pr_err := Some e |}).
  Proof.
    intros pre post occs_pre u name arg r r1 lk e Hign Hh Hsp Hu Hd.
    destruct (C07_loop_fails_at_first_unknown lk pre post occs_pre u name arg
                (S (length (pre ++ [u] ++ post))) (initial_pst cfg root (pre ++ [u] ++ post)) r r1
                Hign Hh Hsp Hu eq_refl eq_refl ltac:(lia) Hd)
      as (s' & Hl & Herr & Hargs & Harg & _).
    unfold parse_body, parse_core. rewrite Hl. cbn [bind]. rewrite Herr. cbn [bind].
    unfold parse_finish. rewrite Herr, Hargs, Harg. reflexivity.
  Qed.
End Loop.

(* ================================================================== *)
(* 11. A realistic instance: the hypotheses are satisfiable            *)
(* ================================================================== *)
Module UnknownDemo.
  Import SpellSpec.Demo DenoteSpec.DenoteDemo.

  (* the parser of DenoteSpec.DenoteDemo under a given policy *)
  Definition u_cfg (ign : bool) (h : handler_kind) : pconfig :=
    {| pc_name := s2l "demo";
       pc_opts := {| po_help := false; po_passdd := true; po_ignore := ign; po_print := false;
                     po_passafter := false |};
       pc_nsdelim := s2l "."; pc_envdelim := s2l "_"; pc_handler := h; pc_cmdhandler := false;
       pc_usage := []; pc_env := []; pc_cols := 80; pc_shortdesc := []; pc_longdesc := [] |}.
  Definition u_pst (ign : bool) (h : handler_kind) (args : list str) : pst :=
    initial_pst (u_cfg ign h) d_root args.
  Definition u_loop (ign : bool) (h : handler_kind) (args : list str) :=
    run_loop (u_cfg ign h) demo_orc d_root demo_help (S (length args)) (u_pst ign h args) d_rt.

  (* --all --bogus=1 -b *)
  Definition u_bogus : str := s2l "--bogus=1".
  Definition u_toks : list str := [s2l "--" ++ s2l "all"; u_bogus; 45 :: encode_rune 98].
  Definition u_items : list item :=
    [inl (demo_oc o_all, None); inr (u_bogus, s2l "bogus", Some (s2l "1")); inl (demo_oc o_brief, None)].
  Definition u_ents : list uentry := [(s2l "bogus", Some (s2l "1"), [s2l "-b"])].

  Example u_toks_text : u_toks = [s2l "--all"; s2l "--bogus=1"; s2l "-b"].
  Proof. vm_compute. reflexivity. Qed.
  Example u_lk_any_policy ign h : ps_lk (u_pst ign h u_toks) = d_lk.
  Proof. reflexivity. Qed.

  (* unknown tokens: long with inline argument, short, short with inline argument *)
  Example u_bogus_unknown : unknown_tok d_lk u_bogus (s2l "bogus") (Some (s2l "1")).
  Proof. apply unk_long; reflexivity. Qed.
  Example u_short_unknown : unknown_tok d_lk (s2l "-z") (s2l "z") None.
  Proof. apply (unk_short d_lk 122); side. Qed.
  Example u_short_eq_unknown : unknown_tok d_lk (s2l "-z=5") (s2l "z") (Some (s2l "5")).
  Proof. apply (unk_short_eq d_lk 122 (s2l "5")); side. Qed.

  Example u_spells_pre : spells d_lk [s2l "--" ++ s2l "all"] [(demo_oc o_all, None)].
  Proof.
    apply (spells_cons d_lk [_] _ []); [apply (sp_long_flag d_lk (s2l "all")); side|apply spells_nil].
  Qed.
  Example u_spells_post : spells d_lk [45 :: encode_rune 98] [(demo_oc o_brief, None)].
  Proof.
    apply (spells_cons d_lk [_] _ []); [apply (sp_short_flag d_lk 98); side|apply spells_nil].
  Qed.

  Example u_ulog : ulog d_lk u_toks u_items u_ents.
  Proof.
    unfold u_toks, u_items, u_ents.
    apply (ul_known d_lk [_]); [apply (sp_long_flag d_lk (s2l "all")); side|].
    apply ul_unknown; [exact u_bogus_unknown|].
    apply (ul_known d_lk [_] _ []); [apply (sp_short_flag d_lk 98); side|].
    apply ul_nil.
  Qed.
  Example u_mixed : umixed d_lk u_toks u_items.
  Proof. exact (ulog_umixed _ _ _ _ u_ulog). Qed.

  Example u_fold_known_ok : exists rf, d_fold (knowns u_items) = Ok (rf, None).
  Proof. eexists. vm_compute. reflexivity. Qed.
  Example u_fold_pre_ok : exists r1, d_fold [(demo_oc o_all, None)] = Ok (r1, None).
  Proof. eexists. vm_compute. reflexivity. Qed.

  (* observable part of a run: values of --all / --brief, handler log, returned
     arguments, recorded error, pending tokens *)
  Definition u_obs (x : res (pst * rt)) :=
    match x with
    | Ok (s', r') => Some (map (rt_vals r') [1; 2]%nat, l_unknown (rt_logs r'), ps_ret s', ps_err s', ps_args s')
    | _ => None
    end.

  (* policy none: stops at --bogus=1; --all applied, -b pending and not applied *)
  Example u_none_observed :
    u_obs (u_loop false HNone u_toks) =
    Some ([VBool true; VBool false], [], [],
          Some (EFlags ErrUnknownFlag (s2l "unknown flag `bogus'")), [s2l "-b"]).
  Proof. vm_compute. reflexivity. Qed.

  (* IgnoreUnknown (even with a handler installed): passed through verbatim, no handler call *)
  Example u_ignore_observed :
    u_obs (u_loop true HNone u_toks) =
      Some ([VBool true; VBool true], [], [s2l "--bogus=1"], None, []) /\
    u_obs (u_loop true HError u_toks) =
      Some ([VBool true; VBool true], [], [s2l "--bogus=1"], None, []).
  Proof. vm_compute. split; reflexivity. Qed.

  (* identity handler: called once with ("bogus", "1", [-b]); -b then parsed *)
  Example u_identity_observed :
    u_obs (u_loop false HIdentity u_toks) =
    Some ([VBool true; VBool true], [(s2l "bogus", Some (s2l "1"), [s2l "-b"])], [], None, []).
  Proof. vm_compute. reflexivity. Qed.

  (* drop-next handler: -b is dropped: --brief stays false *)
  Example u_dropnext_observed :
    u_obs (u_loop false HDropNext u_toks) =
    Some ([VBool true; VBool false], [(s2l "bogus", Some (s2l "1"), [s2l "-b"])], [], None, []).
  Proof. vm_compute. reflexivity. Qed.

  (* failing handler *)
  Example u_error_observed :
    u_obs (u_loop false HError u_toks) =
    Some ([VBool true; VBool false], [(s2l "bogus", Some (s2l "1"), [s2l "-b"])], [],
          Some (EForeign (s2l "handler error: bogus")), [s2l "-b"]).
  Proof. vm_compute. reflexivity. Qed.

  (* the short forms, policy none: the message names the rune *)
  Example u_short_observed :
    u_obs (u_loop false HNone [s2l "-z=5"; s2l "-b"]) =
    Some ([VBool false; VBool false], [], [], Some (EFlags ErrUnknownFlag (s2l "unknown flag `z'")), [s2l "-b"]).
  Proof. vm_compute. reflexivity. Qed.

  (* ---- the theorems applied to the instance ---- *)
  Example u_none_by_theorem : exists s' r1,
    d_fold [(demo_oc o_all, None)] = Ok (r1, None) /\
    u_loop false HNone u_toks = Ok (s', r1) /\
    ps_err s' = Some (EFlags ErrUnknownFlag (s2l "unknown flag `" ++ s2l "bogus" ++ s2l "'")) /\
    ps_args s' = [45 :: encode_rune 98].
  Proof.
    destruct u_fold_pre_ok as [r1 Hd].
    destruct (C07_loop_fails_at_first_unknown (u_cfg false HNone) demo_orc d_root demo_help d_lk
                [s2l "--" ++ s2l "all"] [45 :: encode_rune 98] _ u_bogus _ _ 4%nat
                (u_pst false HNone u_toks) d_rt r1 eq_refl eq_refl u_spells_pre u_bogus_unknown
                eq_refl eq_refl ltac:(cbn [length app]; lia) Hd)
      as (s' & Hl & He & Ha & _).
    exists s', r1. repeat split; assumption.
  Qed.

  Example u_ignore_by_theorem : exists s' rf,
    d_fold (knowns u_items) = Ok (rf, None) /\
    u_loop true HIdentity u_toks = Ok (s', rf) /\ ps_ret s' = [u_bogus] /\
    l_unknown (rt_logs rf) = [].
  Proof.
    destruct u_fold_known_ok as [rf Hd].
    destruct (C07_loop_ignores_all_unknown (u_cfg true HIdentity) demo_orc d_root demo_help d_lk
                u_toks u_items u_mixed 4%nat (u_pst true HIdentity u_toks) d_rt rf
                eq_refl eq_refl eq_refl eq_refl ltac:(cbn [length u_toks]; lia) Hd)
      as (s' & Hl & Hret & _ & _ & _ & _ & _ & _ & Hu).
    exists s', rf. split; [exact Hd|]. split; [exact Hl|]. split; [exact Hret|exact Hu].
  Qed.

  Example u_identity_by_theorem : exists s' rf,
    d_fold (knowns u_items) = Ok (rf, None) /\
    u_loop false HIdentity u_toks = Ok (s', add_unk rf u_ents) /\ ps_ret s' = [].
  Proof.
    destruct u_fold_known_ok as [rf Hd].
    destruct (C07_loop_handler_identity (u_cfg false HIdentity) demo_orc d_root demo_help d_lk
                u_toks u_items u_ents u_ulog 4%nat (u_pst false HIdentity u_toks) d_rt rf
                eq_refl eq_refl eq_refl eq_refl ltac:(cbn [length u_toks]; lia) Hd)
      as (s' & r' & Hl & -> & _ & _ & _ & _ & _ & _ & _ & _ & _ & Hret & _).
    exists s', rf. split; [exact Hd|]. split; [exact Hl|exact Hret].
  Qed.

  (* -b spells --brief, yet it is not applied: the fold is over --all only *)
  Example u_dropnext_by_theorem : exists s' rf,
    d_fold ([(demo_oc o_all, None)] ++ []) = Ok (rf, None) /\
    u_loop false HDropNext u_toks = Ok (s', add_unk rf u_ents) /\
    rt_vals (add_unk rf u_ents) 2%nat = VBool false.
  Proof.
    destruct u_fold_pre_ok as [rf Hd].
    destruct (C07_loop_handler_dropnext_end_to_end (u_cfg false HDropNext) demo_orc d_root demo_help d_lk
                [s2l "--" ++ s2l "all"] [] _ [] u_bogus _ (45 :: encode_rune 98) _ 4%nat
                (u_pst false HDropNext u_toks) d_rt rf eq_refl eq_refl u_spells_pre u_bogus_unknown
                (spells_nil d_lk) eq_refl eq_refl ltac:(cbn [length app]; lia) Hd)
      as (s' & Hl & _).
    exists s', rf. split; [exact Hd|]. split; [exact Hl|].
    change (rt_vals (add_unk rf u_ents)) with (rt_vals rf).
    vm_compute in Hd. injection Hd as <-. reflexivity.
  Qed.

  Example u_error_by_theorem : exists s' r1,
    d_fold [(demo_oc o_all, None)] = Ok (r1, None) /\
    u_loop false HError u_toks = Ok (s', log_unknown r1 (s2l "bogus") (Some (s2l "1")) [45 :: encode_rune 98]) /\
    ps_err s' = Some (EForeign (s2l "handler error: " ++ s2l "bogus")).
  Proof.
    destruct u_fold_pre_ok as [r1 Hd].
    destruct (C07_loop_handler_error_stops (u_cfg false HError) demo_orc d_root demo_help d_lk
                [s2l "--" ++ s2l "all"] [45 :: encode_rune 98] _ u_bogus _ _ 4%nat
                (u_pst false HError u_toks) d_rt r1 eq_refl eq_refl u_spells_pre u_bogus_unknown
                eq_refl eq_refl ltac:(cbn [length app]; lia) Hd)
      as (s' & Hl & _ & He & _).
    exists s', r1. repeat split; assumption.
  Qed.

  (* through ParseArgs: the caller gets the error and the unparsed rest --bogus=1 -b *)
  Example u_parse_observed :
    match parse_body (u_cfg false HNone) demo_orc d_root demo_help u_toks d_rt with
    | Ok (r', pr) => pr = {| pr_ret := Some [s2l "--bogus=1"; s2l "-b"];
                             pr_err := Some (EFlags ErrUnknownFlag (s2l "unknown flag `bogus'")) |} /\
                     map (rt_vals r') [1; 2]%nat = [VBool true; VBool false]
    | _ => False
    end.
  Proof. vm_compute. split; reflexivity. Qed.

  (* ---- out of scope: ContextSpec's tree  app [-v] [-c] <remote [-f/--force] ...|status|version>
     --force is declared only in "remote"; in the context of its sibling "version"
     (path [2]) it is an unknown token ---- *)
  Definition x_path : list nat := [2%nat].
  Definition x_pst (args : list str) : pst :=
    fill_parse_state cx_cfg cx_root (ps_with_args (initial_pst cx_cfg cx_root []) (s2l "version") args) x_path.

  Example x_scope_hyp : forall oc, In oc (chain_octxs cx_root x_path) ->
    nonempty (o_long (oc_opt oc)) = true -> long_name (pc_nsdelim cx_cfg) oc <> s2l "force".
  Proof.
    intros oc Hin _. vm_compute in Hin.
    repeat (destruct Hin as [<-|Hin]; [vm_compute; discriminate|]). destruct Hin.
  Qed.
  Example x_defined_in_sibling :
    exists oc, find_last (lk_long (make_lookup (pc_nsdelim cx_cfg) cx_root [0%nat])) (s2l "force") = Some oc.
  Proof. eexists. vm_compute. reflexivity. Qed.
  Example x_by_theorem : exists s',
    run_loop cx_cfg cx_orc cx_root cx_help 2 (x_pst [s2l "--force"]) cx_r0 = Ok (s', cx_r0) /\
    ps_err s' = Some (EFlags ErrUnknownFlag (s2l "unknown flag `" ++ s2l "force" ++ s2l "'")).
  Proof.
    destruct (C07_out_of_scope_unknown_in_loop cx_cfg cx_orc cx_root cx_help x_path [] [] []
                (s2l "--force") (s2l "force") None 2%nat (x_pst [s2l "--force"]) cx_r0 cx_r0
                eq_refl eq_refl eq_refl x_scope_hyp eq_refl eq_refl (spells_nil _) eq_refl
                ltac:(cbn [length app]; lia) eq_refl)
      as (s' & Hl & He & _).
    exists s'. split; assumption.
  Qed.
  (* observed from the start of ParseArgs: "version --force" fails, "remote --force" does not *)
  Example x_observed :
    match run_loop cx_cfg cx_orc cx_root cx_help 3 (initial_pst cx_cfg cx_root [s2l "version"; s2l "--force"]) cx_r0,
          run_loop cx_cfg cx_orc cx_root cx_help 3 (initial_pst cx_cfg cx_root [s2l "remote"; s2l "--force"]) cx_r0 with
    | Ok (s1, _), Ok (s2, r2) =>
      ps_err s1 = Some (EFlags ErrUnknownFlag (s2l "unknown flag `force'")) /\ ps_cmd s1 = [2%nat] /\
      ps_err s2 = None /\ rt_vals r2 4%nat = VBool true
    | _, _ => False
    end.
  Proof. vm_compute. repeat split. Qed.

  (* ---- why C07_loop_ignores_all_unknown assumes no pending positional: under
     IgnoreUnknown the passed-through token goes through addArgs, which binds it to the
     next pending positional first: "remote add --bogus" sets NAME = "--bogus" and
     returns nothing ---- *)
  Definition x_cfg_ign : pconfig :=
    {| pc_name := s2l "app";
       pc_opts := {| po_help := false; po_passdd := true; po_ignore := true; po_print := false;
                     po_passafter := false |};
       pc_nsdelim := s2l "."; pc_envdelim := s2l "_"; pc_handler := HNone; pc_cmdhandler := false;
       pc_usage := []; pc_env := []; pc_cols := 80; pc_shortdesc := []; pc_longdesc := [] |}.
  Example x_ignore_binds_positional :
    match run_loop x_cfg_ign cx_orc cx_root cx_help 4
            (initial_pst x_cfg_ign cx_root [s2l "remote"; s2l "add"; s2l "--bogus"]) cx_r0 with
    | Ok (s', r') => ps_ret s' = [] /\ ps_err s' = None /\ rt_vals r' 5%nat = VStr (s2l "--bogus")
    | _ => False
    end.
  Proof. vm_compute. repeat split. Qed.
End UnknownDemo.

Print Assumptions C07_loop_fails_at_first_unknown.
Print Assumptions C07_loop_ignores_all_unknown.
Print Assumptions C07_loop_handler_identity.
Print Assumptions C07_loop_handler_result_is_parsed_next.
Print Assumptions C07_loop_handler_dropnext_end_to_end.
Print Assumptions C07_loop_handler_error_stops.
Print Assumptions C07_out_of_scope_unknown_in_loop.
Print Assumptions C07_parse_fails_at_first_unknown.
