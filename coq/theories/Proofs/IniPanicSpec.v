(* Properties C14 (INI reading and application never panic, errors are located,
   IgnoreUnknown skips exactly the unresolvable items), C13 (section resolution) and
   C04 (the prologue of ParseArgs) of the go-flags model. *)
From GoFlags Require Import Base.Str Base.Utf8 Golib.Strings Golib.Strconv
     Model.Types Model.Tag Model.Scan Model.Lookup Model.Convert Model.State Model.Closest
     Model.Help Model.Parse Model.Ini Model.Complete Model.Scenario.
From GoFlags Require Import Proofs.FrameBase Proofs.FrameParse Proofs.ParseFrame Proofs.IniSpec.
From Coq Require Import Lia ZifyN ZifyNat ZifyBool.
Open Scope N_scope.

(* ================================================================== 1. the reader is total *)
Lemma read_lines_total : forall ls n cur acc,
  (exists f, read_lines ls n cur acc = Ok f) \/
  (exists k m, read_lines ls n cur acc = Err (EIni k m) /\ n < k <= n + N.of_nat (length ls)).
Proof.
  induction ls as [|a ls IH]; intros n cur acc.
  - left. eexists. reflexivity.
  - rewrite read_lines_cons. cbn [length].
    destruct (classify_line a) as [|h|k v q|m].
    + destruct (IH (n + 1) cur acc) as [H|(k & m & H & R)]; [left; exact H|].
      right. exists k, m. split; [exact H|lia].
    + destruct (IH (n + 1) h (sec_add acc h None)) as [H|(k & m & H & R)]; [left; exact H|].
      right. exists k, m. split; [exact H|lia].
    + destruct (IH (n + 1) cur
                   (sec_add acc cur (Some {| ie_name := k; ie_value := v; ie_quoted := q; ie_line := n + 1 |})))
        as [H|(k' & m & H & R)]; [left; exact H|].
      right. exists k', m. split; [exact H|lia].
    + right. exists (n + 1), m. split; [reflexivity|lia].
Qed.

(* For any byte sequence the reader returns normally: a file, or an IniError whose line
   number is that of one of the physical lines of the text (numbered from 1).  In
   particular it never panics and never produces another kind of error. *)
Theorem C14_read_never_panics : forall text,
  (exists f, read_ini text = Ok f) \/
  (exists k m, read_ini text = Err (EIni k m) /\ 1 <= k <= N.of_nat (length (ini_lines text))).
Proof.
  intros text. unfold read_ini.
  destruct (read_lines_total (ini_lines text) 0 [] [([], [])]) as [H|(k & m & H & R)]; [left; exact H|].
  right. exists k, m. split; [exact H|lia].
Qed.

(* the form asked for in the brief, as a corollary *)
Corollary C14_read_never_panics_weak : forall text,
  (exists f, read_ini text = Ok f) \/ (exists k m, read_ini text = Err (EIni k m)).
Proof.
  intros text. destruct (C14_read_never_panics text) as [H|(k & m & H & _)]; [left; exact H|].
  right. exists k, m. exact H.
Qed.

Corollary C14_read_no_panic : forall text t, read_ini text <> Panic t.
Proof.
  intros text t H. destruct (C14_read_never_panics text) as [(f & E)|(k & m & E & _)]; congruence.
Qed.

Example C14_read_never_panics_ex :
  read_ini [91; 255; 0; 10; 61; 61; 13; 10; 34; 92] = Err (EIni 1 (s2l "malformed section header")) /\
  read_ini [61; 10; 61; 34; 10] = Err (EIni 2 (s2l "invalid syntax")) /\
  length (ini_lines [61; 10; 61; 34; 10]) = 2%nat.
Proof. vm_compute. repeat split. Qed.

(* ================================================================== 2. application: panics, errors *)
(* ---- the model-level [Err] outcome never occurs below Option.Set (conversion failures
   are ordinary values [Ok (_, Some e)]) *)
Definition no_err {A} (x : res A) : Prop := match x with Err _ => False | _ => True end.

Lemma no_err_bind {A B} (a : res A) (f : A -> res B) :
  no_err a -> (forall x, a = Ok x -> no_err (f x)) -> no_err (bind a f).
Proof. destruct a; cbn; auto. Qed.

Lemma convert_kind_no_err orc b v k : no_err (convert_kind orc b v k).
Proof.
  destruct k; unfold convert_kind.
  - destruct v; [exact I|]. destruct (parse_bool _); exact I.
  - destruct (get_base b); [|exact I].
    destruct (ikind_signed k).
    + destruct (parse_int _ _ _); exact I.
    + destruct (parse_uint _ _ _); exact I.
  - destruct (find_float _ _ _) as [[?|?]|]; exact I.
  - exact I.
  - destruct (find_dur _ _) as [[?|?]|]; exact I.
  - destruct (has_prefix _ _); exact I.
  - destruct (has_prefix _ _); exact I.
Qed.

Lemma convert_no_err orc b ty : forall v cur, no_err (convert orc b v ty cur).
Proof.
  induction ty as [k|k|e IHty|k1 k2|a b0]; intros v cur; cbn [convert].
  - apply no_err_bind; [apply convert_kind_no_err|]. intros [x|x] _; exact I.
  - apply no_err_bind; [apply convert_kind_no_err|]. intros [x|x] _; exact I.
  - apply no_err_bind; [apply IHty|]. intros [x [e0|]] _; exact I.
  - destruct (cut_byte v 58) as [a [c|]].
    + apply no_err_bind; [apply convert_kind_no_err|]. intros [x|x] _; [|exact I].
      apply no_err_bind; [apply convert_kind_no_err|]. intros [y|y] _; exact I.
    + apply no_err_bind; [apply convert_kind_no_err|]. intros [x|x] _; [|exact I].
      apply no_err_bind; [apply convert_kind_no_err|]. intros [y|y] _; exact I.
  - exact I.
Qed.

Section OpsNoErr.
  Variable orc : oracles.
  Variable delim : str.
  Variable help_text : rt -> str.

  Lemma opt_call_no_err oc arg r : no_err (opt_call orc help_text oc arg r).
  Proof.
    assert (F : forall r0,
      no_err
        (if o_is_help (oc_opt oc) then Ok (r0, Some (EFlags ErrHelp (help_text r0)))
         else match rt_vals r0 (o_fid (oc_opt oc)), o_ty (oc_opt oc) with
              | VFunc true _, _ => Panic (s2l "reflect: call of nil function")
              | VFunc false fails, TFunc _ true =>
                Ok (r0, if fails then Some (foreign (s2l "callback failed")) else None)
              | _, _ => Ok (r0, None)
              end)).
    { intros r0. destruct (o_is_help (oc_opt oc)); [exact I|].
      destruct (rt_vals r0 (o_fid (oc_opt oc))); try exact I.
      destruct isnil; [exact I|].
      destruct (o_ty (oc_opt oc)); try exact I. destruct ret_err; exact I. }
    unfold opt_call. cbv zeta.
    destruct arg as [v|]; destruct (o_ty (oc_opt oc)) as [k|k|e|k1 k2|[k|] b] eqn:E;
      try exact I; try apply F.
    apply no_err_bind; [apply convert_no_err|]. intros [x [e|]] _; [exact I|apply F].
  Qed.

  Lemma opt_set_no_err oc arg r : no_err (opt_set orc delim help_text oc arg r).
  Proof.
    unfold opt_set. cbv zeta.
    set (r1 := set_fl _ _ _). clearbody r1.
    assert (K : no_err (if is_func (o_ty (oc_opt oc)) then opt_call orc help_text oc arg r1
         else bind (convert orc (o_base (oc_opt oc)) match arg with Some v => v | None => [] end
                       (o_ty (oc_opt oc)) (rt_vals r1 (o_fid (oc_opt oc))))
                (fun cv => let '(v, e) := cv in Ok (set_val r1 (o_fid (oc_opt oc)) v, option_map foreign e)))).
    { destruct (is_func _).
      - apply opt_call_no_err.
      - apply no_err_bind; [apply convert_no_err|]. intros [v e] _. exact I. }
    destruct (o_choices (oc_opt oc)) as [|c cs]; [exact K|].
    destruct arg as [v|]; [|exact K].
    destruct (existsb _ _); [exact K|]. exact I.
  Qed.

  Lemma opt_set_default_no_err oc arg r : no_err (opt_set_default orc delim help_text oc arg r).
  Proof.
    unfold opt_set_default. cbv zeta.
    destruct (f_prevent _); [exact I|].
    apply no_err_bind; [apply opt_set_no_err|]. intros [r' [e|]] _; exact I.
  Qed.
End OpsNoErr.

(* ---- a [wp] that also excludes the model-level [Err] outcome *)
Definition wpn {A} (x : res A) (Q : A -> Prop) : Prop :=
  match x with Ok a => Q a | Err _ => False | Panic t => benign t end.

Lemma wpn_intro {A} (x : res A) Q : wp benign x Q -> no_err x -> wpn x Q.
Proof. destruct x; cbn; auto. Qed.
Lemma wpn_wp {A} (x : res A) Q : wpn x Q -> wp benign x Q.
Proof. destruct x; cbn; auto. Qed.
Lemma wpn_no_err {A} (x : res A) Q : wpn x Q -> no_err x.
Proof. destruct x; cbn; auto. Qed.
Lemma wpn_bind {A B} (a : res A) (f : A -> res B) Q :
  wpn a (fun x => a = Ok x -> wpn (f x) Q) -> wpn (bind a f) Q.
Proof. destruct a; cbn; auto. Qed.
Lemma wpn_conseq {A} (a : res A) (Q Q' : A -> Prop) :
  wpn a Q -> (forall x, a = Ok x -> Q x -> Q' x) -> wpn a Q'.
Proof. destruct a; cbn; auto. Qed.
Lemma wpn_ok {A} (a : res A) Q x : wpn a Q -> a = Ok x -> Q x.
Proof. intros H ->; exact H. Qed.
Lemma wpn_panic {A} (a : res A) Q t : wpn a Q -> a = Panic t -> benign t.
Proof. intros H ->; exact H. Qed.
Lemma wpn_err {A} (a : res A) Q e : wpn a Q -> a <> Err e.
Proof. intros H ->; exact H. Qed.

Lemma fold_left_same_logs {A} (g : rt -> A -> rt) :
  (forall r x, same_logs r (g r x)) -> forall l r, same_logs r (fold_left g l r).
Proof.
  intros Hg. induction l as [|x l IH]; intros r; cbn [fold_left]; [apply same_logs_refl|].
  eapply same_logs_trans; [apply Hg|apply IH].
Qed.

Section ApplySpec.
  Variable orc : oracles.
  Variable delim : str.
  Variable ht : rt -> str.
  Variable ignore : bool.
  Variable asd : bool.

  (* the Option.Set variant IniParser.parse uses *)
  Definition set_op (oc : octx) (v : option str) (r : rt) : res (rt * option err) :=
    if asd then opt_set_default orc delim ht oc v r else opt_set orc delim ht oc v r.

  Lemma set_op_wpn oc v r : wpn (set_op oc v r) (fun re => same_logs r (fst re)).
  Proof.
    unfold set_op. destruct asd.
    - apply wpn_intro; [apply opt_set_default_wp|apply opt_set_default_no_err].
    - apply wpn_intro; [apply opt_set_wp|apply opt_set_no_err].
  Qed.

  (* where an error reported for entry [en] of a section resolved to [groups] can come from *)
  Inductive entry_error (groups : list gref) (en : ini_entry) : err -> Prop :=
  | ee_unknown :
      ignore = false ->
      resolve_entry delim groups (ie_name en) = None ->
      entry_error groups en (EIni (ie_line en) (s2l "unknown option: " ++ ie_name en))
  | ee_quote : forall oc k v,
      resolve_entry delim groups (ie_name en) = Some oc ->
      is_map (o_ty (oc_opt oc)) = true ->
      cut_byte (ie_value en) 58 = (k, Some (34 :: v)) ->
      unquote (34 :: v) = None ->
      entry_error groups en (EIni (ie_line en) err_syntax)
  | ee_set : forall oc v r0 r1 er,
      resolve_entry delim groups (ie_name en) = Some oc ->
      set_op oc v r0 = Ok (r1, Some er) ->
      entry_error groups en (EIni (ie_line en) (err_text er)).

  Definition entry_post (groups : list gref) (en : ini_entry) (r : rt)
             (x : rt * quotes * list nat * option err) : Prop :=
    same_logs r (fst (fst (fst x))) /\ forall er, snd x = Some er -> entry_error groups en er.

  Lemma apply_entry_spec groups e r q dfl :
    wpn (apply_entry orc delim ht ignore asd groups e r q dfl) (entry_post groups e r).
  Proof.
    unfold apply_entry.
    destruct (resolve_entry delim groups (ie_name e)) as [oc|] eqn:R.
    2:{ destruct ignore eqn:Ig; (split; cbn [fst snd]; [apply same_logs_refl|]); intros er H; [discriminate H|].
        injection H as <-. apply ee_unknown; [exact Ig|exact R]. }
    cbv zeta.
    destruct (asd && f_prevent (rt_fl r (o_fid (oc_opt oc))) && negb (existsb (Nat.eqb (o_fid (oc_opt oc))) dfl)).
    { split; cbn [fst snd]; [apply same_logs_refl|]. intros er H; discriminate H. }
    set (r1 := if asd && f_prevent (rt_fl r (o_fid (oc_opt oc))) then _ else r).
    assert (H1 : same_logs r r1).
    { unfold r1. destruct (asd && _); auto with sl. }
    clearbody r1.
    match goal with |- wpn (match ?pv with inl _ => _ | inr _ => _ end) _ => set (PV := pv) end.
    assert (HPV : forall er, PV = inr er ->
              er = EIni (ie_line e) err_syntax /\ is_map (o_ty (oc_opt oc)) = true /\
              exists k v, cut_byte (ie_value e) 58 = (k, Some (34 :: v)) /\ unquote (34 :: v) = None).
    { intros er. unfold PV.
      destruct (negb (can_argument (oc_opt oc)) && negb (nonempty (ie_value e))); [discriminate|].
      destruct (is_map (o_ty (oc_opt oc))); [|discriminate].
      destruct (cut_byte (ie_value e) 58) as [k [v|]]; [|discriminate].
      destruct v as [|c v]; [discriminate|].
      destruct c as [|p]; [discriminate|].
      repeat (destruct p as [p|p|]; try discriminate).
      destruct (unquote (34 :: v)) eqn:U; [discriminate|].
      intros H. injection H as <-. split; [reflexivity|]. split; [reflexivity|].
      exists k, v. split; [reflexivity|exact U]. }
    clearbody PV.
    destruct PV as [v|er0].
    2:{ destruct (HPV er0 eq_refl) as (-> & M & k & v & C & U).
        split; cbn [fst snd]; [exact H1|]. intros er H. injection H as <-.
        eapply ee_quote; eassumption. }
    clear HPV.
    apply wpn_bind.
    eapply wpn_conseq; [apply (set_op_wpn oc v r1)|].
    intros [r' [er|]] E S; cbn [fst] in S; intros _.
    - split; cbn [fst snd]; [eapply same_logs_trans; eauto|].
      intros er' H. injection H as <-. eapply ee_set; [exact R|exact E].
    - split; cbn [fst snd].
      + eapply same_logs_trans; [exact H1|]. eapply same_logs_trans; [exact S|].
        eapply same_logs_trans; apply sl_set_fl.
      + intros er' H; discriminate H.
  Qed.

  Lemma apply_entries_spec groups : forall es r q dfl,
    wpn (apply_entries orc delim ht ignore asd groups es r q dfl)
        (fun x => same_logs r (fst (fst (fst x))) /\
                  forall er, snd x = Some er -> exists en, In en es /\ entry_error groups en er).
  Proof.
    induction es as [|e es IH]; intros r q dfl; cbn [apply_entries].
    - split; cbn [fst snd]; [apply same_logs_refl|]. intros er H; discriminate H.
    - apply wpn_bind. eapply wpn_conseq; [apply apply_entry_spec|].
      intros [[[r' q'] dfl'] [er|]] _ [S HE] _; cbn [fst snd] in *.
      + split; cbn [fst snd]; [exact S|]. intros er' H. exists e. split; [left; reflexivity|].
        apply HE. exact H.
      + eapply wpn_conseq; [apply IH|]. intros x _ [S' HE']. split.
        * eapply same_logs_trans; eauto.
        * intros er H. destruct (HE' er H) as (en & Hin & Hen). exists en. split; [right; exact Hin|exact Hen].
  Qed.

  (* where an error returned by IniParser.parse for the file [f] can come from *)
  Inductive file_error (root : command) (f : ini_file) : err -> Prop :=
  | fe_group : forall name es,
      ignore = false ->
      In (name, es) f ->
      matching_groups root name = [] ->
      file_error root f (EFlags ErrUnknownGroup (s2l "could not find option group `" ++ name ++ s2l "'"))
  | fe_entry : forall name es en er,
      In (name, es) f ->
      In en es ->
      matching_groups root name <> [] ->
      entry_error (matching_groups root name) en er ->
      file_error root f er.

  Lemma file_error_cons root s f er : file_error root f er -> file_error root (s :: f) er.
  Proof.
    intros [name es Ig Hin M|name es en er' Hin He M E].
    - eapply fe_group; [exact Ig|right; exact Hin|exact M].
    - eapply fe_entry; [right; exact Hin|exact He|exact M|exact E].
  Qed.

  Lemma apply_sections_spec root : forall f r q dfl,
    wpn (apply_sections orc delim ht ignore asd root f r q dfl)
        (fun x => same_logs r (fst (fst x)) /\ forall er, snd x = Some er -> file_error root f er).
  Proof.
    induction f as [|[name es] f IH]; intros r q dfl; cbn [apply_sections].
    - split; cbn [fst snd]; [apply same_logs_refl|]. intros er H; discriminate H.
    - destruct (matching_groups root name) as [|g gs] eqn:M.
      + destruct ignore eqn:Ig.
        * eapply wpn_conseq; [apply IH|]. intros x _ [S HE]. split; [exact S|].
          intros er H. apply file_error_cons, HE, H.
        * split; cbn [fst snd]; [apply same_logs_refl|]. intros er H. injection H as <-.
          eapply fe_group; [exact Ig|left; reflexivity|exact M].
      + apply wpn_bind. eapply wpn_conseq; [apply apply_entries_spec|].
        intros [[[r' q'] dfl'] [er|]] _ [S HE] _; cbn [fst snd] in *.
        * split; cbn [fst snd]; [exact S|]. intros er' H.
          destruct (HE er' H) as (en & Hin & Hen).
          eapply fe_entry; [left; reflexivity|exact Hin|rewrite M; discriminate|rewrite M; exact Hen].
        * eapply wpn_conseq; [apply IH|]. intros x _ [S' HE']. split.
          -- eapply same_logs_trans; eauto.
          -- intros er H. apply file_error_cons, HE', H.
  Qed.

  Lemma ini_apply_spec root f r :
    wpn (ini_apply orc delim ht ignore asd root f r)
        (fun x => same_logs r (fst x) /\ forall er, snd x = Some er -> file_error root f er).
  Proof.
    unfold ini_apply.
    match goal with |- context [apply_sections _ _ _ _ _ _ _ ?r0 _ _] => set (r1 := r0) end.
    assert (H1 : same_logs r r1).
    { unfold r1. apply fold_left_same_logs. intros; apply sl_set_fl. }
    clearbody r1.
    apply wpn_bind. eapply wpn_conseq; [apply apply_sections_spec|].
    intros [[r' q] [er|]] _ [S HE] _; cbn [fst snd] in *.
    - split; cbn [fst snd]; [eapply same_logs_trans; eauto|exact HE].
    - split; cbn [fst snd].
      + eapply same_logs_trans; [exact H1|]. eapply same_logs_trans; [exact S|].
        apply fold_left_same_logs. intros; apply sl_set_fl.
      + intros er H; discriminate H.
  Qed.
End ApplySpec.

(* Every Panic outcome of IniParser.parse carries a benign tag (oracle-table miss,
   unmodelled behaviour, nil callback / ill-typed callback field supplied by the caller). *)
Theorem C14_apply_panics_benign : forall orc delim ht ignore as_defaults root f r t,
  ini_apply orc delim ht ignore as_defaults root f r = Panic t -> benign_panic t.
Proof.
  intros orc delim ht ignore asd root f r t H.
  exact (wpn_panic _ _ _ (ini_apply_spec orc delim ht ignore asd root f r) H).
Qed.

(* ... and the model-level Err outcome (rendered MODEL-ERR by the scenario driver) never occurs *)
Theorem C14_apply_never_err : forall orc delim ht ignore as_defaults root f r e,
  ini_apply orc delim ht ignore as_defaults root f r <> Err e.
Proof.
  intros orc delim ht ignore asd root f r e.
  exact (wpn_err _ _ e (ini_apply_spec orc delim ht ignore asd root f r)).
Qed.

(* precise provenance of every error value returned, and the logs frame: applying an INI
   file never executes a command and never writes to stdout/stderr *)
Theorem C14_apply_error_origin : forall orc delim ht ignore as_defaults root f r r' oe,
  ini_apply orc delim ht ignore as_defaults root f r = Ok (r', oe) ->
  same_logs r r' /\
  forall e, oe = Some e -> file_error orc delim ht ignore as_defaults root f e.
Proof.
  intros orc delim ht ignore asd root f r r' oe H.
  exact (wpn_ok _ _ _ (ini_apply_spec orc delim ht ignore asd root f r) H).
Qed.

(* errors are located: an IniError carries the line of an entry of the file; the only
   other error is ErrUnknownGroup for a section of the file that matches no group *)
Theorem C14_apply_errors_located : forall orc delim ht ignore as_defaults root f r r' e,
  ini_apply orc delim ht ignore as_defaults root f r = Ok (r', Some e) ->
  (exists name es en msg, In (name, es) f /\ In en es /\ e = EIni (ie_line en) msg) \/
  (ignore = false /\
   exists name es, In (name, es) f /\ matching_groups root name = [] /\
     e = EFlags ErrUnknownGroup (s2l "could not find option group `" ++ name ++ s2l "'")).
Proof.
  intros orc delim ht ignore asd root f r r' e H.
  destruct (C14_apply_error_origin _ _ _ _ _ _ _ _ _ _ H) as [_ HE].
  destruct (HE e eq_refl) as [name es Ig Hin M|name es en er Hin He M E].
  - right. split; [exact Ig|]. exists name, es. repeat split; assumption.
  - left. exists name, es, en.
    destruct E as [Ig R|oc k v R Mp C U|oc v r0 r1 er R S]; eexists; (split; [exact Hin|split; [exact He|reflexivity]]).
Qed.

(* ================================================================== 3. IgnoreUnknown *)
Definition entry_resolves (delim : str) (groups : list gref) (e : ini_entry) : bool :=
  match resolve_entry delim groups (ie_name e) with Some _ => true | None => false end.

(* the file without the sections that match no group and without the entries that name
   no option of their section *)
Definition prune_file (delim : str) (root : command) (f : ini_file) : ini_file :=
  flat_map (fun s : str * list ini_entry =>
              match matching_groups root (fst s) with
              | [] => []
              | groups => [(fst s, filter (entry_resolves delim groups) (snd s))]
              end) f.

Section Ignore.
  Variable orc : oracles.
  Variable delim : str.
  Variable ht : rt -> str.
  Variable asd : bool.

  Lemma apply_entries_cons ignore groups e rest r q dfl :
    apply_entries orc delim ht ignore asd groups (e :: rest) r q dfl =
    bind (apply_entry orc delim ht ignore asd groups e r q dfl) (fun x =>
      let '(r', q', dfl', er) := x in
      match er with
      | Some _ => Ok (r', q', dfl', er)
      | None => apply_entries orc delim ht ignore asd groups rest r' q' dfl'
      end).
  Proof. reflexivity. Qed.

  (* an entry that resolves is treated the same whatever IgnoreUnknown says *)
  Lemma apply_entry_ignore_irrelevant groups e r q dfl i1 i2 :
    entry_resolves delim groups e = true ->
    apply_entry orc delim ht i1 asd groups e r q dfl = apply_entry orc delim ht i2 asd groups e r q dfl.
  Proof.
    unfold entry_resolves, apply_entry.
    destruct (resolve_entry delim groups (ie_name e)); [reflexivity|discriminate].
  Qed.

  Lemma apply_entries_filter groups : forall es r q dfl,
    apply_entries orc delim ht true asd groups es r q dfl =
    apply_entries orc delim ht true asd groups (filter (entry_resolves delim groups) es) r q dfl.
  Proof.
    induction es as [|e es IH]; intros r q dfl; [reflexivity|].
    cbn [filter]. destruct (entry_resolves delim groups e) eqn:R.
    - rewrite !apply_entries_cons.
      destruct (apply_entry orc delim ht true asd groups e r q dfl) as [[[[r' q'] dfl'] [er|]]|er|t];
        cbn [bind]; try reflexivity. apply IH.
    - unfold entry_resolves in R.
      destruct (resolve_entry delim groups (ie_name e)) eqn:R'; [discriminate R|].
      rewrite (proj2 (C14_unknown_option_entries orc delim ht asd groups e es r q dfl R')). apply IH.
  Qed.

  Lemma apply_sections_cons ignore root name es rest r q dfl :
    apply_sections orc delim ht ignore asd root ((name, es) :: rest) r q dfl =
    match matching_groups root name with
    | [] =>
      if ignore then apply_sections orc delim ht ignore asd root rest r q dfl
      else Ok (r, q, Some (EFlags ErrUnknownGroup (s2l "could not find option group `" ++ name ++ s2l "'")))
    | groups =>
      bind (apply_entries orc delim ht ignore asd groups es r q dfl) (fun x =>
        let '(r', q', dfl', er) := x in
        match er with
        | Some _ => Ok (r', q', er)
        | None => apply_sections orc delim ht ignore asd root rest r' q' dfl'
        end)
    end.
  Proof. reflexivity. Qed.

  Lemma apply_sections_prune root : forall f r q dfl,
    apply_sections orc delim ht true asd root f r q dfl =
    apply_sections orc delim ht true asd root (prune_file delim root f) r q dfl.
  Proof.
    induction f as [|[name es] f IH]; intros r q dfl; [reflexivity|].
    unfold prune_file. cbn [flat_map fst snd]. fold (prune_file delim root f).
    rewrite apply_sections_cons.
    destruct (matching_groups root name) as [|g gs] eqn:M.
    - cbn [app]. apply IH.
    - cbn [app]. rewrite apply_sections_cons, M.
      rewrite <- apply_entries_filter.
      destruct (apply_entries orc delim ht true asd (g :: gs) es r q dfl) as [[[[r' q'] dfl'] [er|]]|er|t];
        cbn [bind]; try reflexivity. apply IH.
  Qed.

  (* a file in which every section matches and every entry resolves *)
  Definition all_resolve (root : command) (f : ini_file) : Prop :=
    forall name es, In (name, es) f ->
      matching_groups root name <> [] /\
      forall en, In en es -> entry_resolves delim (matching_groups root name) en = true.

  Lemma apply_entries_ignore_irrelevant groups i1 i2 : forall es r q dfl,
    (forall en, In en es -> entry_resolves delim groups en = true) ->
    apply_entries orc delim ht i1 asd groups es r q dfl = apply_entries orc delim ht i2 asd groups es r q dfl.
  Proof.
    induction es as [|e es IH]; intros r q dfl H; [reflexivity|].
    rewrite !apply_entries_cons.
    rewrite (apply_entry_ignore_irrelevant groups e r q dfl i1 i2) by (apply H; left; reflexivity).
    destruct (apply_entry orc delim ht i2 asd groups e r q dfl) as [[[[r' q'] dfl'] [er|]]|er|t];
      cbn [bind]; try reflexivity.
    apply IH. intros en Hen. apply H. right; exact Hen.
  Qed.

  Lemma apply_sections_ignore_irrelevant root i1 i2 : forall f r q dfl,
    all_resolve root f ->
    apply_sections orc delim ht i1 asd root f r q dfl = apply_sections orc delim ht i2 asd root f r q dfl.
  Proof.
    induction f as [|[name es] f IH]; intros r q dfl H; [reflexivity|].
    rewrite !apply_sections_cons.
    destruct (H name es (or_introl eq_refl)) as [M HE].
    destruct (matching_groups root name) as [|g gs]; [congruence|].
    rewrite (apply_entries_ignore_irrelevant (g :: gs) i1 i2 es r q dfl HE).
    destruct (apply_entries orc delim ht i2 asd (g :: gs) es r q dfl) as [[[[r' q'] dfl'] [er|]]|er|t];
      cbn [bind]; try reflexivity.
    apply IH. intros n e Hin. apply H. right; exact Hin.
  Qed.

  Lemma prune_all_resolve root : forall f, all_resolve root (prune_file delim root f).
  Proof.
    induction f as [|[name es] f IH]; intros n e Hin; [destruct Hin|].
    unfold prune_file in Hin. cbn [flat_map fst snd] in Hin. fold (prune_file delim root f) in Hin.
    destruct (matching_groups root name) as [|g gs] eqn:M.
    - cbn [app] in Hin. apply IH. exact Hin.
    - cbn [app] in Hin. destruct Hin as [E|Hin]; [|apply IH; exact Hin].
      injection E as <- <-. rewrite M. split; [discriminate|].
      intros en Hen. apply filter_In in Hen. exact (proj2 Hen).
  Qed.
End Ignore.

(* With IgnoreUnknown, unknown sections and unknown options are skipped without touching
   anything and the rest is applied: the whole application (state, quoting table, error)
   is the same as for the file without those sections and entries ... *)
Theorem C14_ignore_unknown_applies_rest : forall orc delim ht as_defaults root f r q dfl,
  apply_sections orc delim ht true as_defaults root f r q dfl =
  apply_sections orc delim ht true as_defaults root (prune_file delim root f) r q dfl.
Proof. intros. apply apply_sections_prune. Qed.

Corollary C14_ignore_unknown_applies_rest_ini : forall orc delim ht as_defaults root f r,
  ini_apply orc delim ht true as_defaults root f r =
  ini_apply orc delim ht true as_defaults root (prune_file delim root f) r.
Proof. intros. unfold ini_apply. rewrite <- apply_sections_prune. reflexivity. Qed.

(* ... which in turn is what the strict parser does on the pruned file (nothing is left to ignore) *)
Corollary C14_ignore_unknown_as_strict : forall orc delim ht as_defaults root f r,
  ini_apply orc delim ht true as_defaults root f r =
  ini_apply orc delim ht false as_defaults root (prune_file delim root f) r.
Proof.
  intros. rewrite C14_ignore_unknown_applies_rest_ini. unfold ini_apply.
  rewrite (apply_sections_ignore_irrelevant orc delim ht as_defaults root true false
             (prune_file delim root f) _ [] [] (prune_all_resolve delim root f)).
  reflexivity.
Qed.

(* IgnoreUnknown only matters for unresolvable items *)
Corollary C14_ignore_irrelevant_when_all_resolve : forall orc delim ht as_defaults root f r i1 i2,
  all_resolve delim root f ->
  ini_apply orc delim ht i1 as_defaults root f r = ini_apply orc delim ht i2 as_defaults root f r.
Proof.
  intros. unfold ini_apply.
  rewrite (apply_sections_ignore_irrelevant orc delim ht as_defaults root i1 i2 f _ [] [] H).
  reflexivity.
Qed.

(* with IgnoreUnknown an error is never ErrUnknownGroup nor "unknown option": it is an
   IniError for an entry that DOES resolve to an option, stemming from the unquoting of a
   map value or from Option.Set / setDefault on that option *)
Theorem C14_ignore_unknown_errors : forall orc delim ht as_defaults root f r r' e,
  ini_apply orc delim ht true as_defaults root f r = Ok (r', Some e) ->
  exists name es en oc,
    In (name, es) f /\ In en es /\ matching_groups root name <> [] /\
    resolve_entry delim (matching_groups root name) (ie_name en) = Some oc /\
    ((is_map (o_ty (oc_opt oc)) = true /\ e = EIni (ie_line en) err_syntax) \/
     (exists v r0 r1 er, set_op orc delim ht as_defaults oc v r0 = Ok (r1, Some er) /\
                         e = EIni (ie_line en) (err_text er))).
Proof.
  intros orc delim ht asd root f r r' e H.
  destruct (C14_apply_error_origin _ _ _ _ _ _ _ _ _ _ H) as [_ HE].
  destruct (HE e eq_refl) as [name es Ig Hin M|name es en er Hin He M E]; [discriminate Ig|].
  exists name, es, en.
  destruct E as [Ig R|oc k v R Mp C U|oc v r0 r1 er R S]; [discriminate Ig| |].
  - exists oc. repeat split; try assumption. left. split; [exact Mp|reflexivity].
  - exists oc. repeat split; try assumption. right. exists v, r0, r1, er. split; [exact S|reflexivity].
Qed.

(* in particular: never ErrUnknownGroup (nor any other flags.Error), and the reported line is
   that of an entry of the file that names an existing option *)
Corollary C14_ignore_unknown_no_flags_error : forall orc delim ht as_defaults root f r r' t m,
  ini_apply orc delim ht true as_defaults root f r <> Ok (r', Some (EFlags t m)).
Proof.
  intros orc delim ht asd root f r r' t m H.
  destruct (C14_ignore_unknown_errors _ _ _ _ _ _ _ _ _ H)
    as (name & es & en & oc & _ & _ & _ & _ & [[_ E]|(v & r0 & r1 & er & _ & E)]); discriminate E.
Qed.

(* ================================================================== 4. section resolution *)
(* ---- depth bookkeeping *)
Lemma fold_max_in {A} (d : A -> nat) : forall (l : list A) x,
  In x l -> (d x <= fold_right (fun s acc => Nat.max (d s) acc) O l)%nat.
Proof.
  induction l as [|y l IH]; intros x H; [destruct H|].
  cbn [fold_right]. destruct H as [->|H]; [lia|]. specialize (IH x H). lia.
Qed.

Lemma cmd_depth_in_sub c sc : In sc (cmd_subs c) -> (cmd_depth sc < cmd_depth c)%nat.
Proof.
  destruct c as [ci g args subs]. cbn [cmd_subs]. intros H.
  change (cmd_depth (Command ci g args subs))
    with (S (fold_right (fun s acc => Nat.max (cmd_depth s) acc) O subs)).
  pose proof (fold_max_in cmd_depth subs sc H). lia.
Qed.

Lemma cmd_depth_S c : exists d, cmd_depth c = S d.
Proof. destruct c as [ci g args subs]. eexists. reflexivity. Qed.

(* the parser's / a command's own group is the first group of its tree *)
Definition own_gref (c : command) : gref := {| gr_group := cmd_group c; gr_ns := []; gr_envns := [] |}.

Lemma cmd_group_refs_own c : exists rest, cmd_group_refs c = own_gref c :: rest.
Proof.
  unfold cmd_group_refs, own_gref. destruct (cmd_group c) as [gi os subs]. cbv zeta.
  change (group_depth (Group gi os subs))
    with (S (fold_right (fun s acc => Nat.max (group_depth s) acc) O subs)).
  eexists. reflexivity.
Qed.

Lemma hd_cmd_group_refs c : hd_error (cmd_group_refs c) = Some (own_gref c).
Proof. destruct (cmd_group_refs_own c) as [rest ->]. reflexivity. Qed.

(* ---- Group.Find *)
Definition desc_matches (name : str) (gr : gref) : bool :=
  str_eqb (to_lower (g_short (grp_info (gr_group gr)))) (to_lower name).

Lemma find_app_ {A} (p : A -> bool) : forall l1 l2,
  find p (l1 ++ l2) = match find p l1 with Some x => Some x | None => find p l2 end.
Proof.
  induction l1 as [|x l1 IH]; intros l2; [reflexivity|].
  cbn [app find]. destruct (p x); [reflexivity|apply IH].
Qed.

Lemma fold_left_last_match {A} (p : A -> bool) : forall l acc,
  fold_left (fun acc x => if p x then Some x else acc) l acc =
  match find p (rev l) with Some x => Some x | None => acc end.
Proof.
  induction l as [|x l IH]; intros acc; [reflexivity|].
  cbn [fold_left rev]. rewrite IH, find_app_. cbn [find].
  destruct (find p (rev l)); [reflexivity|]. destruct (p x); reflexivity.
Qed.

(* Group.Find returns the LAST group (in eachGroup order, the command's own group excluded)
   whose short description equals the name case-insensitively *)
Theorem C13_group_find_last : forall c name,
  group_find c name = find (desc_matches name) (rev (tl (cmd_group_refs c))).
Proof.
  intros c name. unfold group_find. cbv zeta.
  change (fun (acc : option gref) (gr : gref) =>
            if str_eqb (to_lower (g_short (grp_info (gr_group gr)))) (to_lower name) then Some gr else acc)
    with (fun (acc : option gref) (gr : gref) => if desc_matches name gr then Some gr else acc).
  rewrite fold_left_last_match. destruct (find _ _); reflexivity.
Qed.

Lemma find_rev_last {A} (p : A -> bool) pre x post :
  p x = true -> (forall y, In y post -> p y = false) -> find p (rev (pre ++ x :: post)) = Some x.
Proof.
  intros Hx Hpost. rewrite rev_app_distr. cbn [rev]. rewrite <- app_assoc, find_app_.
  assert (E : find p (rev post) = None).
  { destruct (find p (rev post)) as [y|] eqn:F; [|reflexivity].
    apply find_some in F. destruct F as [Hin Hy]. apply in_rev in Hin.
    rewrite (Hpost y Hin) in Hy. discriminate Hy. }
  rewrite E. cbn [app find]. rewrite Hx. reflexivity.
Qed.

Corollary group_find_split : forall c name pre g post,
  tl (cmd_group_refs c) = pre ++ g :: post ->
  desc_matches name g = true ->
  (forall g', In g' post -> desc_matches name g' = false) ->
  group_find c name = Some g.
Proof.
  intros c name pre g post E Hg Hpost. rewrite C13_group_find_last, E.
  apply find_rev_last; assumption.
Qed.

Lemma group_find_none c name :
  (forall g, In g (tl (cmd_group_refs c)) -> desc_matches name g = false) <-> group_find c name = None.
Proof.
  rewrite C13_group_find_last. split.
  - intros H. destruct (find _ _) as [g|] eqn:F; [|reflexivity].
    apply find_some in F. destruct F as [Hin Hg]. apply in_rev in Hin.
    rewrite (H g Hin) in Hg. discriminate Hg.
  - intros F g Hin. apply in_rev in Hin.
    exact (find_none _ _ F g Hin).
Qed.

(* ---- Command.groupByName: one level, and independence of the fuel *)
(* the loop over the sub-commands, with the recursive call abstracted *)
Fixpoint subs_lookup (rec : command -> str -> option gref) (name : str) (l : list command) : option gref :=
  match l with
  | [] => None
  | sc :: rest =>
    let prefix := c_name (cmd_info sc) ++ [46] in
    if has_prefix name prefix then
      match rec sc (skipn (length prefix) name) with
      | Some g => Some g
      | None => subs_lookup rec name rest
      end
    else if str_eqb name (c_name (cmd_info sc)) then hd_error (cmd_group_refs sc)
    else subs_lookup rec name rest
  end.

Definition own_lookup (c : command) (name : str) : option gref :=
  match name with
  | [] => hd_error (cmd_group_refs c)
  | _ => group_find c name
  end.

Lemma cmd_group_by_name_S f c name :
  cmd_group_by_name (S f) c name =
  match own_lookup c name with
  | Some g => Some g
  | None => subs_lookup (cmd_group_by_name f) name (cmd_subs c)
  end.
Proof.
  cbn [cmd_group_by_name]. unfold own_lookup.
  destruct (match name with [] => hd_error (cmd_group_refs c) | _ :: _ => group_find c name end);
    [reflexivity|].
  induction (cmd_subs c) as [|sc rest IH]; [reflexivity|].
  cbn [subs_lookup]. cbv zeta. rewrite <- IH. reflexivity.
Qed.

Lemma subs_lookup_ext rec1 rec2 name : forall l,
  (forall sc n, In sc l -> rec1 sc n = rec2 sc n) ->
  subs_lookup rec1 name l = subs_lookup rec2 name l.
Proof.
  induction l as [|sc rest IH]; intros H; [reflexivity|].
  cbn [subs_lookup]. cbv zeta.
  rewrite (H sc _ (or_introl eq_refl)).
  rewrite IH by (intros sc' n Hin; apply H; right; exact Hin).
  reflexivity.
Qed.

Lemma cmd_group_by_name_fuel : forall f1 f2 c name,
  (cmd_depth c <= f1)%nat -> (cmd_depth c <= f2)%nat ->
  cmd_group_by_name f1 c name = cmd_group_by_name f2 c name.
Proof.
  induction f1 as [|f1 IH]; intros f2 c name H1 H2.
  - destruct (cmd_depth_S c) as [d E]. lia.
  - destruct f2 as [|f2]; [destruct (cmd_depth_S c) as [d E]; lia|].
    rewrite !cmd_group_by_name_S.
    destruct (own_lookup c name); [reflexivity|].
    apply subs_lookup_ext. intros sc n Hin.
    pose proof (cmd_depth_in_sub c sc Hin). apply IH; lia.
Qed.

(* Command.groupByName with sufficient fuel *)
Definition section_group (c : command) (name : str) : option gref :=
  cmd_group_by_name (cmd_depth c) c name.

(* the complete recursive specification of Command.groupByName: the command's own groups
   are tried first (its own group for the empty name, Group.Find otherwise); then the
   sub-commands in order: a sub-command whose name followed by "." is a prefix of the name
   is searched with the remainder (and the search goes on with the next sub-command if that
   fails); a sub-command whose name is the whole name yields its own group *)
Theorem C13_section_group_eq : forall c name,
  section_group c name =
  match own_lookup c name with
  | Some g => Some g
  | None => subs_lookup section_group name (cmd_subs c)
  end.
Proof.
  intros c name. unfold section_group at 1.
  destruct (cmd_depth_S c) as [d E]. rewrite E, cmd_group_by_name_S.
  destruct (own_lookup c name); [reflexivity|].
  apply subs_lookup_ext. intros sc n Hin.
  pose proof (cmd_depth_in_sub c sc Hin). unfold section_group.
  apply cmd_group_by_name_fuel; lia.
Qed.

Lemma cmd_group_by_name_section_group fuel c name :
  (cmd_depth c <= fuel)%nat -> cmd_group_by_name fuel c name = section_group c name.
Proof. intros H. apply cmd_group_by_name_fuel; [exact H|apply Nat.le_refl]. Qed.

Theorem C13_section_resolution : forall root name,
  matching_groups root name =
  match name with
  | [] => cmd_group_refs root
  | _ => match section_group root name with Some g => [g] | None => [] end
  end.
Proof. intros root [|c name]; reflexivity. Qed.

(* (a) the empty (global) section: all groups of the parser's own group tree in eachGroup
   order, the parser's own group first *)
Theorem C13_section_global : forall root,
  matching_groups root [] = cmd_group_refs root /\
  exists rest, cmd_group_refs root = own_gref root :: rest.
Proof. intros root. split; [reflexivity|apply cmd_group_refs_own]. Qed.

(* (b) a non-empty name that is (case-insensitively) the short description of a group of
   the parser's own tree other than its own group: the LAST such group *)
Theorem C13_section_by_description : forall root name pre g post,
  name <> [] ->
  tl (cmd_group_refs root) = pre ++ g :: post ->
  desc_matches name g = true ->
  (forall g', In g' post -> desc_matches name g' = false) ->
  group_find root name = Some g /\ matching_groups root name = [g].
Proof.
  intros root name pre g post Hn E Hg Hpost.
  pose proof (group_find_split root name pre g post E Hg Hpost) as F.
  split; [exact F|].
  rewrite C13_section_resolution. destruct name as [|c name]; [congruence|].
  rewrite C13_section_group_eq. unfold own_lookup. rewrite F. reflexivity.
Qed.

(* a sub-command that the loop of groupByName passes over for this name *)
Definition sub_passes (name : str) (sc : command) : Prop :=
  if has_prefix name (c_name (cmd_info sc) ++ [46])
  then section_group sc (skipn (length (c_name (cmd_info sc) ++ [46])) name) = None
  else name <> c_name (cmd_info sc).

Lemma subs_lookup_passes name : forall pre rest,
  (forall sc, In sc pre -> sub_passes name sc) ->
  subs_lookup section_group name (pre ++ rest) = subs_lookup section_group name rest.
Proof.
  induction pre as [|sc pre IH]; intros rest H; [reflexivity|].
  cbn [app subs_lookup]. cbv zeta.
  pose proof (H sc (or_introl eq_refl)) as P. unfold sub_passes in P.
  destruct (has_prefix name (c_name (cmd_info sc) ++ [46])).
  - rewrite P. apply IH. intros sc' Hin. apply H. right; exact Hin.
  - destruct (str_eqb_spec name (c_name (cmd_info sc))) as [E|_]; [contradiction|].
    apply IH. intros sc' Hin. apply H. right; exact Hin.
Qed.

Lemma has_prefix_app p : forall rest, has_prefix (p ++ rest) p = true.
Proof.
  induction p as [|x p IH]; intros rest; [destruct rest; reflexivity|].
  cbn [app has_prefix]. rewrite N.eqb_refl. apply IH.
Qed.

Lemma has_prefix_length : forall p s, has_prefix s p = true -> (length p <= length s)%nat.
Proof.
  induction p as [|x p IH]; intros s H; [cbn [length]; lia|].
  destruct s as [|y s]; [discriminate H|]. cbn [has_prefix] in H.
  apply andb_true_iff in H. destruct H as [_ H]. apply IH in H. cbn [length]. lia.
Qed.

Lemma skipn_length_app {A} (p rest : list A) : skipn (length p) (p ++ rest) = rest.
Proof. induction p as [|x p IH]; [reflexivity|exact IH]. Qed.

(* (c1) otherwise, a name that is exactly the name of a sub-command: that command's own group *)
Theorem C13_section_command : forall root name pre sc post,
  name <> [] ->
  group_find root name = None ->
  cmd_subs root = pre ++ sc :: post ->
  (forall sc', In sc' pre -> sub_passes name sc') ->
  name = c_name (cmd_info sc) ->
  matching_groups root name = [own_gref sc].
Proof.
  intros root name pre sc post Hn F E Hpre Hname.
  rewrite C13_section_resolution. destruct name as [|c name]; [congruence|].
  rewrite C13_section_group_eq. unfold own_lookup. rewrite F, E.
  rewrite subs_lookup_passes by exact Hpre.
  cbn [subs_lookup]. cbv zeta.
  destruct (has_prefix (c :: name) (c_name (cmd_info sc) ++ [46])) eqn:P.
  - apply has_prefix_length in P. rewrite Hname, app_length in P. cbn [length] in P. lia.
  - rewrite Hname at 1. rewrite str_eqb_refl, hd_cmd_group_refs. reflexivity.
Qed.

Lemma subs_lookup_hit_path sc post rest :
  subs_lookup section_group ((c_name (cmd_info sc) ++ [46]) ++ rest) (sc :: post) =
  match section_group sc rest with
  | Some g => Some g
  | None => subs_lookup section_group ((c_name (cmd_info sc) ++ [46]) ++ rest) post
  end.
Proof.
  cbn [subs_lookup]. cbv zeta. rewrite has_prefix_app, skipn_length_app. reflexivity.
Qed.

(* (c2) otherwise, a dotted path  cname.rest : Command.groupByName of the sub-command on the
   rest; when that finds nothing the search continues with the later sub-commands *)
Theorem C13_section_command_path : forall root pre sc post rest,
  let name := c_name (cmd_info sc) ++ [46] ++ rest in
  group_find root name = None ->
  cmd_subs root = pre ++ sc :: post ->
  (forall sc', In sc' pre -> sub_passes name sc') ->
  matching_groups root name =
  match section_group sc rest with
  | Some g => [g]
  | None => match subs_lookup section_group name post with Some g => [g] | None => [] end
  end.
Proof.
  intros root pre sc post rest name F E Hpre.
  rewrite C13_section_resolution.
  assert (Hn : exists c n, name = c :: n).
  { unfold name. destruct (c_name (cmd_info sc)); cbn; eauto. }
  destruct Hn as (c & n & Hn). rewrite Hn. rewrite <- Hn.
  rewrite C13_section_group_eq. unfold own_lookup. rewrite Hn. rewrite <- Hn. rewrite F, E.
  rewrite subs_lookup_passes by exact Hpre.
  assert (SL : subs_lookup section_group name (sc :: post) =
               match section_group sc rest with
               | Some g => Some g
               | None => subs_lookup section_group name post
               end).
  { unfold name. rewrite app_assoc. apply subs_lookup_hit_path. }
  rewrite SL. destruct (section_group sc rest); reflexivity.
Qed.

(* in particular "cname." (empty rest) names the sub-command's own group *)
Corollary C13_section_command_trailing_dot : forall root pre sc post,
  let name := c_name (cmd_info sc) ++ [46] in
  group_find root name = None ->
  cmd_subs root = pre ++ sc :: post ->
  (forall sc', In sc' pre -> sub_passes name sc') ->
  matching_groups root name = [own_gref sc].
Proof.
  intros root pre sc post name F E Hpre.
  assert (N : name = c_name (cmd_info sc) ++ [46] ++ []) by reflexivity.
  rewrite N in *.
  rewrite (C13_section_command_path root pre sc post [] F E Hpre).
  rewrite C13_section_group_eq. cbn [own_lookup]. rewrite hd_cmd_group_refs. reflexivity.
Qed.

(* nothing matches: no group *)
Theorem C13_section_unknown : forall root name,
  name <> [] ->
  group_find root name = None ->
  (forall sc, In sc (cmd_subs root) -> sub_passes name sc) ->
  matching_groups root name = [].
Proof.
  intros root name Hn F H.
  rewrite C13_section_resolution. destruct name as [|c name]; [congruence|].
  rewrite C13_section_group_eq. unfold own_lookup. rewrite F.
  rewrite <- (app_nil_r (cmd_subs root)). rewrite subs_lookup_passes by exact H. reflexivity.
Qed.

(* ================================================================== 5. the prologue of ParseArgs *)
Lemma benign_illtyped : benign (s2l "ill-typed value").
Proof. right; right; right; right; right; left; reflexivity. Qed.
Lemma benign_nilcustom :
  benign (s2l "value method main.Custom.MarshalFlag called using nil *Custom pointer").
Proof. right; right; right; right; right; right; right; reflexivity. Qed.

(* ---- convertToString: only a nil *Custom, an ill-typed value or an oracle miss panic *)
Lemma to_string_kind_wp orc b k v : wp benign (to_string_kind orc b k v) (fun _ => True).
Proof.
  unfold to_string_kind.
  destruct k, v; try apply benign_illtyped; try exact I.
  - destruct (get_base b); [|exact I]. destruct (format_int _ _); exact I.
  - destruct (find_durfmt _ _); [exact I|apply benign_oracle].
Qed.

Lemma to_string_list_wp (f : value -> res (str * option str)) :
  (forall x, wp benign (f x) (fun _ => True)) ->
  forall l first acc, wp benign (to_string_list f l first acc) (fun _ => True).
Proof.
  intros Hf. induction l as [|x l IH]; intros first acc; cbn [to_string_list]; [exact I|].
  wp_bind_with Hf. intros [t [e|]] _; [exact I|apply IH].
Qed.

Lemma convert_to_string_wp orc b ty : forall v, wp benign (convert_to_string orc b ty v) (fun _ => True).
Proof.
  induction ty as [k|k|e IHty|k1 k2|a r0]; intros v; cbn [convert_to_string].
  - apply to_string_kind_wp.
  - destruct k; destruct v as [ | | | |[x|]| | | ]; try apply benign_illtyped; try apply to_string_kind_wp;
      try exact I; apply benign_nilcustom.
  - destruct v as [ | | | | |n l| | ]; try apply benign_illtyped.
    destruct l as [|x l]; [exact I|].
    wp_bind_with (to_string_list_wp (convert_to_string orc b e) IHty). intros [t [e0|]] _; exact I.
  - destruct v as [ | | | | | |n l| ]; try apply benign_illtyped.
    generalize (@nil str).
    induction l as [|[x y] l IH]; intros acc; [exact I|].
    wp_bind_with to_string_kind_wp. intros [ta [ea|]] _; [exact I|].
    wp_bind_with to_string_kind_wp. intros [tb [eb|]] _; [exact I|]. apply IH.
  - destruct v; exact I.
Qed.

(* ---- what the prologue may change: nothing but the clearReferenceBeforeSet mark and the
   default literal of options; values, Active pointers, logs and all other bookkeeping
   (isSet, isSetDefault, preventDefault, INI quoting / INI name) stay *)
Definition prologue_frame (r r' : rt) : Prop :=
  rt_vals r' = rt_vals r /\ rt_active r' = rt_active r /\ rt_logs r' = rt_logs r /\
  forall k, f_isset (rt_fl r' k) = f_isset (rt_fl r k) /\
            f_isdefault (rt_fl r' k) = f_isdefault (rt_fl r k) /\
            f_prevent (rt_fl r' k) = f_prevent (rt_fl r k) /\
            f_iniquote (rt_fl r' k) = f_iniquote (rt_fl r k) /\
            f_ininame (rt_fl r' k) = f_ininame (rt_fl r k).

Lemma pf_refl r : prologue_frame r r.
Proof. repeat split; reflexivity. Qed.

Lemma pf_trans r1 r2 r3 : prologue_frame r1 r2 -> prologue_frame r2 r3 -> prologue_frame r1 r3.
Proof.
  intros (A1 & B1 & C1 & D1) (A2 & B2 & C2 & D2). repeat split; try congruence;
    destruct (D1 k) as (E1 & E2 & E3 & E4 & E5); destruct (D2 k) as (G1 & G2 & G3 & G4 & G5); congruence.
Qed.

Lemma pf_set_fl r k f :
  f_isset f = f_isset (rt_fl r k) -> f_isdefault f = f_isdefault (rt_fl r k) ->
  f_prevent f = f_prevent (rt_fl r k) -> f_iniquote f = f_iniquote (rt_fl r k) ->
  f_ininame f = f_ininame (rt_fl r k) ->
  prologue_frame r (set_fl r k f).
Proof.
  intros H1 H2 H3 H4 H5. split; [reflexivity|]. split; [reflexivity|]. split; [reflexivity|].
  intros k'. cbn [set_fl rt_fl]. unfold upd.
  destruct (Nat.eqb_spec k' k) as [->|_]; repeat split; assumption.
Qed.

Lemma opt_update_default_literal_wp orc oc r :
  wp benign (opt_update_default_literal orc oc r) (prologue_frame r).
Proof.
  unfold opt_update_default_literal. cbv zeta.
  destruct (o_default (oc_opt oc)); [|apply pf_set_fl; reflexivity].
  destruct (can_argument (oc_opt oc)); [|apply pf_set_fl; reflexivity].
  match goal with |- wp _ (if ?c then _ else _) _ => destruct c end; [|apply pf_set_fl; reflexivity].
  wp_bind_with convert_to_string_wp. intros ts _. apply pf_set_fl; reflexivity.
Qed.

Lemma prologue_opts_cons orc oc ocs r :
  prologue_opts orc (oc :: ocs) r =
  bind (opt_update_default_literal orc oc
          (set_fl r (o_fid (oc_opt oc))
                  (fl_with (rt_fl r (o_fid (oc_opt oc))) (f_isset (rt_fl r (o_fid (oc_opt oc))))
                           (f_isdefault (rt_fl r (o_fid (oc_opt oc))))
                           (f_prevent (rt_fl r (o_fid (oc_opt oc)))) true)))
       (fun r' => prologue_opts orc ocs r').
Proof. reflexivity. Qed.

Lemma prologue_opts_wp orc : forall ocs r,
  wp benign (prologue_opts orc ocs r) (prologue_frame r).
Proof.
  induction ocs as [|oc ocs IH]; intros r; [apply pf_refl|].
  rewrite prologue_opts_cons.
  wp_bind_with opt_update_default_literal_wp. intros r' H.
  eapply wp_conseq; [apply IH|]. intros r'' H'.
  eapply pf_trans; [|exact H']. eapply pf_trans; [|exact H].
  apply pf_set_fl; reflexivity.
Qed.

(* every Panic outcome of ParseArgs (prologue + argument loop + defaults + epilogue) is benign:
   in the prologue only convertToString can panic (nil *Custom marshalled, ill-typed
   initial value, oracle-table miss) *)
Theorem C04_prologue_panics_benign : forall cfg orc w args t,
  parse_args cfg orc w args = Panic t -> benign_panic t.
Proof.
  intros cfg orc w args t H.
  assert (W : wp benign (parse_args cfg orc w args) (fun _ => True)).
  { unfold parse_args. destruct (w_internal w); [exact I|].
    wp_bind_with prologue_opts_wp. intros r _. cbv zeta.
    apply wp_bind.
    match goal with |- wp _ ?x _ => destruct x as [[r' pres]|e|t'] eqn:E end; cbn [wp]; try exact I.
    eapply parse_body_panics. exact E. }
  exact (wp_panic _ _ _ _ W H).
Qed.

Theorem C04_prologue_opts_panics_benign : forall orc ocs r t,
  prologue_opts orc ocs r = Panic t -> benign_panic t.
Proof. intros orc ocs r t H. exact (wp_panic _ _ _ _ (prologue_opts_wp orc ocs r) H). Qed.

Theorem C04_prologue_frame : forall orc ocs r r',
  prologue_opts orc ocs r = Ok r' -> prologue_frame r r'.
Proof. intros orc ocs r r' H. exact (wp_ok _ _ _ _ (prologue_opts_wp orc ocs r) H). Qed.

(* the same prologue in completion mode *)
Theorem C04_complete_panics_benign : forall cfg orc w args t,
  complete_args cfg orc w args = Panic t -> benign_panic t.
Proof.
  intros cfg orc w args t H.
  assert (W : wp benign (complete_args cfg orc w args) (fun _ => True)).
  { unfold complete_args. destruct (w_internal w); [exact I|].
    wp_bind_with prologue_opts_wp. intros r _. exact I. }
  exact (wp_panic _ _ _ _ W H).
Qed.

(* a parser whose construction failed returns that error from every ParseArgs, untouched *)
Theorem C04_internal_error_returned : forall cfg orc w args e,
  w_internal w = Some e ->
  parse_args cfg orc w args = Ok (w, {| pr_ret := None; pr_err := Some e |}).
Proof. intros cfg orc w args e H. unfold parse_args. rewrite H. reflexivity. Qed.

(* ================================================================== non-vacuity examples *)
Module PanicExamples.
  Import IniSpec.Examples.

  Definition o_rate := mk_opt 5 "Rate" 0 "rate" "" (TScalar (KFloat 64)) false.
  Definition o_tags := mk_opt 6 "Tags" 0 "tags" "" (TMap KString KString) false.
  Definition o_cust := mk_opt 7 "Cust" 0 "cust" "" (TSlice (TPtr KCustom)) false.
  Definition mkgi (d : string) : ginfo :=
    {| g_short := s2l d; g_long := []; g_ns := []; g_envns := []; g_hidden := false; g_builtin_help := false |}.
  Definition mkci (n : string) : cinfo :=
    {| c_name := s2l n; c_aliases := []; c_sub_optional := true; c_args_required := false;
       c_hidden := false; c_exec := ExNone; c_usage := None; c_has_help := false |}.
  (* two groups whose descriptions differ only in case *)
  Definition g_extra1 := Group (mkgi "Extra") [o_verbose] [].
  Definition g_extra2 := Group (mkgi "extra") [o_clash] [].
  Definition g_fetch := Group (mkgi "Fetch") [o_tags] [].
  Definition c_origin := Command (mkci "origin") (Group (mkgi "Origin Options") [o_rate] [g_fetch]) [] [].
  Definition c_rm := Command (mkci "rm") (Group (mkgi "Rm Options") [] []) [] [].
  Definition c_add := Command (mkci "add") (Group (mkgi "Add Options") [o_cust] []) [] [c_origin].
  Definition root2 :=
    Command (mkci "app") (Group (mkgi "Application Options") [o_port] [g_extra1; g_extra2; help_group]) []
            [c_rm; c_add].
  Definition rt2 : rt :=
    {| rt_vals := fun k => match k with
                           | 0%nat => VInt 0 | 1%nat => VBool false | 2%nat => VStr [] | 5%nat => VFloat [48]
                           | 6%nat => VMap true [] | 7%nat => VSlice true [] | _ => VFunc false false
                           end;
       rt_fl := fun _ => oflags0; rt_active := []; rt_logs := logs0 |}.

  Definition f2 : ini_file :=
    [([], [ent "listen-port" "80" 1; ent "nosuch" "1" 2]);
     (s2l "nope", [ent "x" "y" 4]);
     (s2l "add.origin", [ent "rate" "1.5" 6])].

  Definition outcome (x : res (rt * option err)) : option err + str :=
    match x with Ok (_, e) => inl e | Err e => inl (Some e) | Panic t => inr t end.

  (* 2: all kinds of outcome occur: a benign panic (oracle miss), each kind of error *)
  Example apply_outcomes :
    outcome (ini_apply orc0 dot ht0 true false root2 f2 rt2) = inr (oracle_miss (s2l "float64:312e35")) /\
    outcome (ini_apply orc0 dot ht0 false false root2 f2 rt2)
      = inl (Some (EIni 2 (s2l "unknown option: nosuch"))) /\
    outcome (ini_apply orc0 dot ht0 false false root2 [(s2l "nope", [])] rt2)
      = inl (Some (EFlags ErrUnknownGroup (s2l "could not find option group `nope'"))) /\
    outcome (ini_apply orc0 dot ht0 false false root2 [([], [ent "listen-port" "80x" 3])] rt2)
      = inl (Some (EIni 3 (s2l "strconv.ParseInt: parsing ""80x"": invalid syntax"))) /\
    outcome (ini_apply orc0 dot ht0 true false root2 [(s2l "add.origin.fetch", [ent "tags" "a:""b" 3])] rt2)
      = inl (Some (EIni 3 (s2l "invalid syntax"))) /\
    outcome (ini_apply orc0 dot ht0 true true root2 [([], [ent "listen-port" "80" 1])] rt2) = inl None.
  Proof. vm_compute. repeat split. Qed.

  (* 3: pruning; and why "the message is never of the form `unknown option: ...'" cannot be
     stated for an arbitrary help text: the built-in help option, named in an INI file, makes
     Option.Set fail with ErrHelp whose message IS the help text *)
  Example prune_ex :
    prune_file dot root2 f2 =
      [([], [ent "listen-port" "80" 1]); (s2l "add.origin", [ent "rate" "1.5" 6])] /\
    ~ all_resolve dot root2 f2 /\
    outcome (ini_apply orc0 dot (fun _ => s2l "unknown option: x") true false root2 [([], [ent "help" "" 9])] rt2)
      = inl (Some (EIni 9 (s2l "unknown option: x"))).
  Proof.
    split; [vm_compute; reflexivity|]. split; [|vm_compute; reflexivity].
    intros H. destruct (H (s2l "nope") [ent "x" "y" 4]) as [M _].
    - right; left; reflexivity.
    - apply M. vm_compute. reflexivity.
  Qed.

  (* 4: the hypotheses of the C13 lemmas are satisfiable *)
  Definition gr (g : group) : gref := {| gr_group := g; gr_ns := [[]]; gr_envns := [[]] |}.

  Example section_by_description_hyp :
    tl (cmd_group_refs root2) = [gr g_extra1] ++ gr g_extra2 :: [gr help_group] /\
    desc_matches (s2l "EXTRA") (gr g_extra1) = true /\
    desc_matches (s2l "EXTRA") (gr g_extra2) = true /\
    desc_matches (s2l "EXTRA") (gr help_group) = false /\
    matching_groups root2 (s2l "EXTRA") = [gr g_extra2].
  Proof. vm_compute. repeat split. Qed.

  Example section_command_hyp :
    group_find root2 (s2l "add") = None /\
    cmd_subs root2 = [c_rm] ++ c_add :: [] /\
    sub_passes (s2l "add") c_rm /\
    s2l "add" = c_name (cmd_info c_add) /\
    matching_groups root2 (s2l "add") = [own_gref c_add] /\
    matching_groups root2 (s2l "add.") = [own_gref c_add].
  Proof. vm_compute. repeat split. discriminate. Qed.

  Example section_command_path_hyp :
    let name := c_name (cmd_info c_add) ++ [46] ++ s2l "origin.fetch" in
    group_find root2 name = None /\
    sub_passes name c_rm /\
    section_group c_add (s2l "origin.fetch")
      = Some {| gr_group := g_fetch; gr_ns := [[]]; gr_envns := [[]] |} /\
    matching_groups root2 name = [{| gr_group := g_fetch; gr_ns := [[]]; gr_envns := [[]] |}] /\
    (* a group of a sub-command is not found by its description from the root *)
    matching_groups root2 (s2l "Fetch") = [] /\
    sub_passes (s2l "Fetch") c_rm /\ sub_passes (s2l "Fetch") c_add.
  Proof. vm_compute. repeat split; discriminate. Qed.

  (* 5: the prologue can indeed panic (nil *Custom inside a slice: MarshalFlag on a nil pointer) *)
  Definition cfg0 : pconfig :=
    {| pc_name := s2l "app";
       pc_opts := {| po_help := true; po_passdd := false; po_ignore := false; po_print := false; po_passafter := false |};
       pc_nsdelim := dot; pc_envdelim := s2l "_"; pc_handler := HNone; pc_cmdhandler := false; pc_usage := [];
       pc_env := []; pc_cols := 80; pc_shortdesc := []; pc_longdesc := [] |}.
  Definition rt3 : rt := set_val rt2 7 (VSlice false [VPtr None]).
  Definition w3 (ie : option err) : world :=
    {| w_tree := root2; w_rt := rt3; w_internal := ie; w_attached := [] |}.

  Example prologue_panic_ex :
    parse_args cfg0 orc0 (w3 None) [] =
      Panic (s2l "value method main.Custom.MarshalFlag called using nil *Custom pointer") /\
    w_internal (w3 (Some (EFlags ErrDuplicatedFlag (s2l "dup")))) = Some (EFlags ErrDuplicatedFlag (s2l "dup")) /\
    match prologue_opts orc0 (tree_octxs root2) rt2 with
    | Ok r' => f_clearref (rt_fl r' 0%nat) = true /\ f_clearref (rt_fl rt2 0%nat) = false
    | _ => False
    end.
  Proof. vm_compute. repeat split. Qed.
End PanicExamples.

(* ================================================================== assumptions *)
Print Assumptions C14_read_never_panics.
Print Assumptions C14_read_never_panics_weak.
Print Assumptions C14_read_no_panic.
Print Assumptions C14_apply_panics_benign.
Print Assumptions C14_apply_never_err.
Print Assumptions C14_apply_error_origin.
Print Assumptions C14_apply_errors_located.
Print Assumptions C14_ignore_unknown_applies_rest.
Print Assumptions C14_ignore_unknown_applies_rest_ini.
Print Assumptions C14_ignore_unknown_as_strict.
Print Assumptions C14_ignore_irrelevant_when_all_resolve.
Print Assumptions C14_ignore_unknown_errors.
Print Assumptions C14_ignore_unknown_no_flags_error.
Print Assumptions C13_group_find_last.
Print Assumptions C13_section_group_eq.
Print Assumptions C13_section_resolution.
Print Assumptions C13_section_global.
Print Assumptions C13_section_by_description.
Print Assumptions C13_section_command.
Print Assumptions C13_section_command_path.
Print Assumptions C13_section_command_trailing_dot.
Print Assumptions C13_section_unknown.
Print Assumptions C04_prologue_panics_benign.
Print Assumptions C04_prologue_opts_panics_benign.
Print Assumptions C04_prologue_frame.
Print Assumptions C04_complete_panics_benign.
Print Assumptions C04_internal_error_returned.
