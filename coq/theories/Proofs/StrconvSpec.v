(* Specification of integer parsing/formatting, independent of the strconv model,
   and proofs that the model (Golib/Strconv.v: parse_uint, parse_int, format_int,
   format_uint) meets it.  This supports property C11 ("values are converted
   exactly or rejected") and C12 (numeric round trip). *)
From GoFlags Require Import Base.Str Base.Utf8 Golib.Strings Golib.Strconv.
From Coq Require Import Lia ZArith NArith.
Open Scope N_scope.

(* ---- independent specification ------------------------------------------- *)
(* value of one digit character: '0'..'9' -> 0..9, letters (either case) -> 10..35 *)
Definition digit_of (c : N) : option N :=
  if N.leb 48 c && N.leb c 57 then Some (c - 48)
  else if N.leb 97 c && N.leb c 122 then Some (c - 87)
  else if N.leb 65 c && N.leb c 90 then Some (c - 55)
  else None.

(* positional value of a digit string in [base]; None if some character is not a
   digit of that base.  (most significant digit first) *)
Fixpoint digits_value (base : N) (ds : str) (acc : N) : option N :=
  match ds with
  | [] => Some acc
  | c :: r => match digit_of c with
              | Some d => if N.ltb d base then digits_value base r (acc * base + d) else None
              | None => None
              end
  end.
Definition uint_denotes (base : N) (s : str) (n : N) : Prop :=
  s <> [] /\ digits_value base s 0 = Some n.

(* a signed numeral: optional single '+' or '-' then an unsigned numeral *)
Definition int_denotes (base : N) (s : str) (z : Z) : Prop :=
  (exists n, uint_denotes base s n /\ z = Z.of_N n) \/
  (exists body n, s = 43 :: body /\ uint_denotes base body n /\ z = Z.of_N n) \/
  (exists body n, s = 45 :: body /\ uint_denotes base body n /\ z = (- Z.of_N n)%Z).

Definition good_base (b : Z) : Prop := (2 <= b <= 36)%Z.
Definition good_bits (bits : N) : Prop := bits = 8 \/ bits = 16 \/ bits = 32 \/ bits = 64.

(* ---- auxiliary lemmas ---------------------------------------------------- *)
From Coq Require Import ZifyN ZifyBool List Bool.
Import ListNotations.

Ltac breakb :=
  repeat match goal with
         | |- context [N.leb ?a ?b] => destruct (N.leb_spec a b)
         | |- context [N.ltb ?a ?b] => destruct (N.ltb_spec a b)
         end.

Definition model_digit (c : N) : option N :=
  if N.leb 48 c && N.leb c 57 then Some (c - 48)
  else if is_letter c then Some (lower c - 97 + 10) else None.

Lemma model_digit_eq : forall c, model_digit c = digit_of c.
Proof.
  intros c. unfold model_digit, digit_of, is_letter, lower.
  breakb; cbn [andb orb]; try reflexivity; try (f_equal; lia); try lia.
Qed.

Lemma uint_loop_cons : forall c s b cutoff maxval n,
  uint_loop (c :: s) b false cutoff maxval n =
  match digit_of c with
  | None => inr NESyntax
  | Some d => if N.leb b d then inr NESyntax
              else if N.leb cutoff n then inr NERange
              else if N.ltb maxval (n * b + d) then inr NERange
              else uint_loop s b false cutoff maxval (n * b + d)
  end.
Proof.
  intros. rewrite <- model_digit_eq. unfold model_digit.
  cbn [uint_loop]. rewrite andb_false_r. reflexivity.
Qed.

Lemma digits_value_ge : forall b, 1 <= b -> forall s acc n,
  digits_value b s acc = Some n -> acc <= n.
Proof.
  intros b Hb s. induction s as [|c s IH]; intros acc n H; cbn [digits_value] in H.
  - injection H as <-. lia.
  - destruct (digit_of c) as [d|]; [|discriminate].
    destruct (N.ltb d b); [|discriminate].
    apply IH in H. nia.
Qed.

Lemma digits_value_app : forall b s1 s2 acc,
  digits_value b (s1 ++ s2) acc =
  match digits_value b s1 acc with Some y => digits_value b s2 y | None => None end.
Proof.
  intros b s1. induction s1 as [|c s1 IH]; intros s2 acc; cbn [app digits_value].
  - reflexivity.
  - destruct (digit_of c) as [d|]; [|reflexivity].
    destruct (N.ltb d b); [apply IH|reflexivity].
Qed.

Lemma uint_loop_spec : forall b cutoff maxval,
  1 <= b ->
  (forall a, cutoff <= a -> maxval < a * b) ->
  forall s acc, acc <= maxval ->
  match digits_value b s acc with
  | Some n => if N.leb n maxval
              then uint_loop s b false cutoff maxval acc = inl n
              else uint_loop s b false cutoff maxval acc = inr NERange
  | None => uint_loop s b false cutoff maxval acc = inr NESyntax \/
            uint_loop s b false cutoff maxval acc = inr NERange
  end.
Proof.
  intros b cutoff maxval Hb Hcut s.
  induction s as [|c s IH]; intros acc Hacc.
  - cbn [digits_value uint_loop]. destruct (N.leb_spec acc maxval); [reflexivity|lia].
  - rewrite uint_loop_cons. cbn [digits_value].
    destruct (digit_of c) as [d|]; [|left; reflexivity].
    destruct (N.ltb_spec d b); destruct (N.leb_spec b d); try lia; [|left; reflexivity].
    destruct (N.leb_spec cutoff acc) as [Hc|Hc].
    + destruct (digits_value b s (acc * b + d)) as [n|] eqn:E; [|right; reflexivity].
      apply digits_value_ge in E; [|assumption].
      specialize (Hcut acc Hc).
      destruct (N.leb_spec n maxval); [lia|reflexivity].
    + destruct (N.ltb_spec maxval (acc * b + d)) as [Ho|Ho].
      * destruct (digits_value b s (acc * b + d)) as [n|] eqn:E; [|right; reflexivity].
        apply digits_value_ge in E; [|assumption].
        destruct (N.leb_spec n maxval); [lia|reflexivity].
      * apply IH. assumption.
Qed.

Lemma cutoff_ok : forall b maxval, 1 <= b -> maxval <= max_uint64 ->
  forall a, max_uint64 / b + 1 <= a -> maxval < a * b.
Proof.
  intros b maxval Hb Hm a Ha.
  pose proof (N.div_mod max_uint64 b ltac:(lia)) as E.
  pose proof (N.mod_lt max_uint64 b ltac:(lia)) as L.
  assert ((max_uint64 / b + 1) * b <= a * b) by (apply N.mul_le_mono_r; assumption).
  nia.
Qed.

Lemma pow2_bounds : forall bits, good_bits bits ->
  1 <= 2 ^ bits /\ 2 ^ bits - 1 <= max_uint64.
Proof.
  intros bits [->|[->|[->| ->]]]; vm_compute; split; discriminate.
Qed.

Lemma pow2_half : forall bits, good_bits bits ->
  2 ^ bits = 2 * pow2 (bits - 1) /\
  Z.of_N (pow2 (bits - 1)) = (2 ^ (Z.of_N bits - 1))%Z.
Proof.
  intros bits [->|[->|[->| ->]]]; vm_compute; split; reflexivity.
Qed.

Lemma good_base_N : forall base, good_base base -> 2 <= Z.to_N base <= 36.
Proof. unfold good_base. intros. lia. Qed.

Lemma parse_uint_good : forall c s base bits, good_base base ->
  parse_uint (c :: s) base bits =
  uint_loop (c :: s) (Z.to_N base) false (max_uint64 / Z.to_N base + 1) (pow2 bits - 1) 0.
Proof.
  intros c s base bits Hb. unfold parse_uint. cbv zeta.
  assert (E1 : ((2 <=? base)%Z && (base <=? 36)%Z) = true) by (unfold good_base in Hb; lia).
  assert (E2 : (base =? 0)%Z = false) by (unfold good_base in Hb; lia).
  rewrite E1, E2. cbn [andb].
  destruct (uint_loop (c :: s) (Z.to_N base) false (max_uint64 / Z.to_N base + 1) (pow2 bits - 1) 0);
    reflexivity.
Qed.

(* complete characterisation of parse_uint on a legal base *)
Lemma parse_uint_char : forall s base bits,
  good_base base -> good_bits bits -> s <> [] ->
  match digits_value (Z.to_N base) s 0 with
  | Some n => if N.ltb n (2 ^ bits)
              then parse_uint s base bits = inl n
              else parse_uint s base bits = inr NERange
  | None => parse_uint s base bits = inr NESyntax \/ parse_uint s base bits = inr NERange
  end.
Proof.
  intros s base bits Hb Hbits Hs.
  destruct s as [|c s]; [congruence|].
  rewrite parse_uint_good by assumption.
  pose proof (good_base_N base Hb) as HbN.
  pose proof (pow2_bounds bits Hbits) as [Hp1 Hp2].
  unfold pow2.
  assert (Hcut : forall a, max_uint64 / Z.to_N base + 1 <= a -> 2 ^ bits - 1 < a * Z.to_N base)
    by (apply cutoff_ok; lia).
  pose proof (uint_loop_spec (Z.to_N base) (max_uint64 / Z.to_N base + 1) (2 ^ bits - 1)
                ltac:(lia) Hcut (c :: s) 0 ltac:(lia)) as H.
  destruct (digits_value (Z.to_N base) (c :: s) 0) as [n|]; [|assumption].
  destruct (N.leb_spec n (2 ^ bits - 1)); destruct (N.ltb_spec n (2 ^ bits)); try lia; assumption.
Qed.

(* signed wrapper *)
Definition int_wrap (neg : bool) (body : str) (base : Z) (bits : N) : Z + num_err :=
  match parse_uint body base bits with
  | inr NERange => inr NERange
  | inr e => inr e
  | inl un =>
    if negb neg && N.leb (pow2 (bits - 1)) un then inr NERange
    else if neg && N.ltb (pow2 (bits - 1)) un then inr NERange
    else inl (if neg then (- Z.of_N un)%Z else Z.of_N un)
  end.

Lemma parse_int_plus : forall r base bits, parse_int (43 :: r) base bits = int_wrap false r base bits.
Proof. reflexivity. Qed.
Lemma parse_int_minus : forall r base bits, parse_int (45 :: r) base bits = int_wrap true r base bits.
Proof. reflexivity. Qed.
Lemma parse_int_other : forall c r base bits, c <> 43 -> c <> 45 ->
  parse_int (c :: r) base bits = int_wrap false (c :: r) base bits.
Proof.
  intros c r base bits H1 H2. unfold parse_int, int_wrap.
  destruct (N.eqb_spec c 43); [contradiction|].
  destruct (N.eqb_spec c 45); [contradiction|]. reflexivity.
Qed.

Lemma digits_value_plus : forall b r acc, digits_value b (43 :: r) acc = None.
Proof. reflexivity. Qed.
Lemma digits_value_minus : forall b r acc, digits_value b (45 :: r) acc = None.
Proof. reflexivity. Qed.

Lemma fmt_digit_of : forall d, d < 36 -> digit_of (fmt_digit d) = Some d.
Proof.
  intros d Hd. unfold digit_of, fmt_digit.
  breakb; cbn [andb]; try lia; f_equal; lia.
Qed.

Lemma fmt_base_fuel_spec : forall b, 2 <= b <= 36 ->
  forall fuel n acc, n < 2 ^ N.of_nat fuel -> fuel <> O ->
  exists ds, fmt_base_fuel fuel n b acc = ds ++ acc /\ ds <> [] /\
             digits_value b ds 0 = Some n.
Proof.
  intros b Hb fuel. induction fuel as [|f IH]; intros n acc Hn Hf; [congruence|].
  cbn [fmt_base_fuel].
  pose proof (N.mod_lt n b ltac:(lia)) as Hm.
  assert (Hdig : digits_value b [fmt_digit (n mod b)] (n / b) = Some n).
  { cbn [digits_value]. rewrite fmt_digit_of by lia.
    destruct (N.ltb_spec (n mod b) b); [|lia].
    f_equal. pose proof (N.div_mod n b ltac:(lia)). lia. }
  destruct (N.ltb_spec n b) as [Hlt|Hge].
  - exists [fmt_digit (n mod b)]. split; [reflexivity|]. split; [discriminate|].
    rewrite (N.div_small n b) in Hdig by assumption. exact Hdig.
  - rewrite Nat2N.inj_succ, N.pow_succ_r' in Hn.
    assert (Hq : n / b < 2 ^ N.of_nat f).
    { apply N.div_lt_upper_bound; [lia|]. nia. }
    assert (Hf0 : f <> O).
    { intros ->. change (2 ^ N.of_nat 0) with 1 in Hn. lia. }
    destruct (IH (n / b) (fmt_digit (n mod b) :: acc) Hq Hf0) as (ds & E & Hne & Hv).
    exists (ds ++ [fmt_digit (n mod b)]). split; [|split].
    + rewrite E, <- app_assoc. reflexivity.
    + destruct ds; discriminate.
    + rewrite digits_value_app, Hv. exact Hdig.
Qed.

Lemma format_uint_denotes : forall n base t, good_base base ->
  format_uint n base = Some t -> uint_denotes (Z.to_N base) t n.
Proof.
  intros n base t Hb H. unfold format_uint in H.
  assert (E1 : ((2 <=? base)%Z && (base <=? 36)%Z) = true) by (unfold good_base in Hb; lia).
  rewrite E1 in H.
  assert (Ht : t = fmt_base_fuel (S (N.to_nat (N.log2 n))) n (Z.to_N base) []) by congruence.
  clear H.
  assert (Hn : n < 2 ^ N.of_nat (S (N.to_nat (N.log2 n)))).
  { rewrite Nat2N.inj_succ, N2Nat.id.
    destruct (N.eq_dec n 0) as [->|Hnz]; [vm_compute; reflexivity|].
    apply N.log2_spec. lia. }
  destruct (fmt_base_fuel_spec (Z.to_N base) (good_base_N base Hb) _ n [] Hn ltac:(discriminate))
    as (ds & E & Hne & Hv).
  rewrite app_nil_r in E. rewrite Ht, E. split; assumption.
Qed.

Lemma uint_denotes_fun : forall b s n m, uint_denotes b s n -> uint_denotes b s m -> n = m.
Proof. intros b s n m [_ H1] [_ H2]. congruence. Qed.

(* ---- MAIN THEOREMS (statements unchanged from the original task file) --- *)

(* exactness for unsigned kinds: accepted iff the text denotes a number that fits *)
Theorem parse_uint_spec : forall s base bits n,
  good_base base -> good_bits bits ->
  (parse_uint s base bits = inl n <-> uint_denotes (Z.to_N base) s n /\ n < 2 ^ bits).
Proof.
  intros s base bits n Hb Hbits. split.
  - intros H. destruct s as [|c s]; [discriminate H|].
    pose proof (parse_uint_char (c :: s) base bits Hb Hbits ltac:(discriminate)) as C.
    destruct (digits_value (Z.to_N base) (c :: s) 0) as [m|] eqn:E.
    + destruct (N.ltb_spec m (2 ^ bits)); [|congruence].
      assert (m = n) by congruence. subst m.
      split; [split; [discriminate|assumption]|assumption].
    + destruct C; congruence.
  - intros [[Hne Hd] Hlt].
    pose proof (parse_uint_char s base bits Hb Hbits Hne) as C.
    rewrite Hd in C. destruct (N.ltb_spec n (2 ^ bits)); [assumption|lia].
Qed.

(* the rejection causes: a well-formed numeral that does not fit is a range error;
   a syntax error is only ever reported for text that denotes no number.
   (The converse of the latter fails by design of strconv: "999z" with 8 bits
   overflows before the bad digit is seen and is reported as a range error.) *)
Theorem parse_uint_range : forall s base bits n,
  good_base base -> good_bits bits ->
  uint_denotes (Z.to_N base) s n -> 2 ^ bits <= n -> parse_uint s base bits = inr NERange.
Proof.
  intros s base bits n Hb Hbits [Hne Hd] Hge.
  pose proof (parse_uint_char s base bits Hb Hbits Hne) as C.
  rewrite Hd in C. destruct (N.ltb_spec n (2 ^ bits)); [lia|assumption].
Qed.

Theorem parse_uint_syntax : forall s base bits,
  good_base base -> good_bits bits ->
  parse_uint s base bits = inr NESyntax -> ~ exists n, uint_denotes (Z.to_N base) s n.
Proof.
  intros s base bits Hb Hbits H [n [Hne Hd]].
  pose proof (parse_uint_char s base bits Hb Hbits Hne) as C.
  rewrite Hd in C. destruct (N.ltb n (2 ^ bits)); congruence.
Qed.

Theorem parse_uint_total : forall s base bits,
  good_base base -> good_bits bits ->
  (exists n, parse_uint s base bits = inl n) \/ parse_uint s base bits = inr NERange \/ parse_uint s base bits = inr NESyntax.
Proof.
  intros s base bits Hb Hbits.
  destruct s as [|c s]; [right; right; reflexivity|].
  pose proof (parse_uint_char (c :: s) base bits Hb Hbits ltac:(discriminate)) as C.
  destruct (digits_value (Z.to_N base) (c :: s) 0) as [m|].
  - destruct (N.ltb m (2 ^ bits)); [left; exists m; assumption|right; left; assumption].
  - destruct C; [right; right|right; left]; assumption.
Qed.

Lemma int_wrap_spec : forall neg body base bits z,
  good_base base -> good_bits bits ->
  (int_wrap neg body base bits = inl z <->
   exists n, uint_denotes (Z.to_N base) body n /\
             z = (if neg then (- Z.of_N n)%Z else Z.of_N n) /\
             (- 2 ^ (Z.of_N bits - 1) <= z < 2 ^ (Z.of_N bits - 1))%Z).
Proof.
  intros neg body base bits z Hb Hbits.
  destruct (pow2_half bits Hbits) as [Hh Hz]. rewrite <- Hz.
  unfold int_wrap.
  destruct (parse_uint body base bits) as [un|e] eqn:E.
  - apply parse_uint_spec in E; [|assumption|assumption]. destruct E as [Hd Hlt].
    rewrite Hh in Hlt.
    generalize dependent (pow2 (bits - 1)). intros P Hh Hz Hlt.
    split.
    + intros H. exists un. split; [assumption|].
      destruct neg; cbn [negb andb] in H;
        destruct (N.leb_spec P un); destruct (N.ltb_spec P un); try discriminate H;
        injection H as <-; (split; [reflexivity|lia]).
    + intros (n & Hd' & Hzz & Hr).
      assert (n = un) by (eapply uint_denotes_fun; eassumption). subst n.
      destruct neg; cbn [negb andb];
        destruct (N.leb_spec P un); destruct (N.ltb_spec P un); try lia; subst z; reflexivity.
  - split.
    + destruct e; discriminate.
    + intros (n & Hd' & Hzz & Hr). exfalso.
      assert (Hlt : n < 2 ^ bits).
      { rewrite Hh. destruct neg; lia. }
      assert (E' : parse_uint body base bits = inl n)
        by (apply parse_uint_spec; [assumption|assumption|split; assumption]).
      congruence.
Qed.

(* exactness for signed kinds: never wrapped, truncated or clamped *)
Theorem parse_int_spec : forall s base bits z,
  good_base base -> good_bits bits ->
  (parse_int s base bits = inl z <->
   int_denotes (Z.to_N base) s z /\ (- 2 ^ (Z.of_N bits - 1) <= z < 2 ^ (Z.of_N bits - 1))%Z).
Proof.
  intros s base bits z Hb Hbits. split.
  - intros H. destruct s as [|c r]; [discriminate H|].
    destruct (N.eq_dec c 43) as [->|H43]; [|destruct (N.eq_dec c 45) as [->|H45]].
    + rewrite parse_int_plus in H. apply int_wrap_spec in H; [|assumption|assumption].
      destruct H as (n & Hd & Hz & Hr). split; [|assumption].
      right; left. exists r, n. auto.
    + rewrite parse_int_minus in H. apply int_wrap_spec in H; [|assumption|assumption].
      destruct H as (n & Hd & Hz & Hr). split; [|assumption].
      right; right. exists r, n. auto.
    + rewrite parse_int_other in H by assumption.
      apply int_wrap_spec in H; [|assumption|assumption].
      destruct H as (n & Hd & Hz & Hr). split; [|assumption].
      left. exists n. auto.
  - intros [[(n & Hd & Hz)|[(body & n & Hs & Hd & Hz)|(body & n & Hs & Hd & Hz)]] Hr].
    + destruct s as [|c r]; [destruct Hd as [Hne _]; congruence|].
      assert (H43 : c <> 43).
      { intros ->. destruct Hd as [_ Hd]. rewrite digits_value_plus in Hd. discriminate. }
      assert (H45 : c <> 45).
      { intros ->. destruct Hd as [_ Hd]. rewrite digits_value_minus in Hd. discriminate. }
      rewrite parse_int_other by assumption.
      apply int_wrap_spec; [assumption|assumption|]. exists n. auto.
    + subst s. rewrite parse_int_plus.
      apply int_wrap_spec; [assumption|assumption|]. exists n. auto.
    + subst s. rewrite parse_int_minus.
      apply int_wrap_spec; [assumption|assumption|]. exists n. auto.
Qed.

(* formatting is a right inverse of parsing (used by the INI round trip) *)
Theorem format_uint_parse : forall n base bits t,
  good_base base -> good_bits bits -> n < 2 ^ bits ->
  format_uint n base = Some t -> parse_uint t base bits = inl n.
Proof.
  intros n base bits t Hb Hbits Hn H.
  apply parse_uint_spec; [assumption|assumption|].
  split; [|assumption]. apply format_uint_denotes; assumption.
Qed.

Theorem format_int_parse : forall z base bits t,
  good_base base -> good_bits bits ->
  (- 2 ^ (Z.of_N bits - 1) <= z < 2 ^ (Z.of_N bits - 1))%Z ->
  format_int z base = Some t -> parse_int t base bits = inl z.
Proof.
  intros z base bits t Hb Hbits Hr H.
  apply parse_int_spec; [assumption|assumption|]. split; [|assumption].
  destruct z as [|p|p]; cbn [format_int] in H.
  - left. exists (Z.to_N 0). split; [apply format_uint_denotes; assumption|reflexivity].
  - left. exists (Z.to_N (Z.pos p)). split; [apply format_uint_denotes; assumption|].
    rewrite Z2N.id; [reflexivity|lia].
  - destruct (format_uint (N.pos p) base) as [t'|] eqn:E; [|discriminate H].
    cbn [option_map] in H. injection H as <-.
    right; right. exists t', (N.pos p).
    split; [reflexivity|]. split; [apply format_uint_denotes; assumption|reflexivity].
Qed.

Theorem format_int_total : forall z base, good_base base -> exists t, format_int z base = Some t.
Proof.
  intros z base Hb.
  assert (E1 : ((2 <=? base)%Z && (base <=? 36)%Z) = true) by (unfold good_base in Hb; lia).
  destruct z; unfold format_int, format_uint; rewrite E1; cbn [option_map]; eexists; reflexivity.
Qed.

(* illegal bases (other than the auto-detect base 0) are always rejected *)
Theorem parse_uint_bad_base : forall s base bits,
  s <> [] -> ~ good_base base -> base <> 0%Z -> parse_uint s base bits = inr (NEBase base).
Proof.
  intros s base bits Hs Hb H0.
  destruct s as [|c s]; [congruence|].
  unfold parse_uint. cbv zeta.
  assert (E1 : ((2 <=? base)%Z && (base <=? 36)%Z) = false) by (unfold good_base in Hb; lia).
  assert (E2 : (base =? 0)%Z = false) by lia.
  rewrite E1, E2. reflexivity.
Qed.

Print Assumptions parse_uint_spec.
Print Assumptions parse_uint_range.
Print Assumptions parse_uint_syntax.
Print Assumptions parse_uint_total.
Print Assumptions parse_int_spec.
Print Assumptions format_uint_parse.
Print Assumptions format_int_parse.
Print Assumptions format_int_total.
Print Assumptions parse_uint_bad_base.
