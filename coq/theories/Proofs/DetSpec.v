(* C15 (outcomes are deterministic): the outputs of the model do not depend on the
   incidental orders which the Go runtime randomises and which the model represents
   by an arbitrary list order:
     (i)   the order of the entries of a Go map VALUE  (VMap isnil l),
     (ii)  the iteration order of the lookup maps (association lists, dedupe_last),
     (iii) the order in which the sub-commands are visited when their names are
           collected for the "unknown command" message.
   Every theorem says: replace the list by a Permutation of it, the output is the
   same byte string / value. *)
From GoFlags Require Import Base.Str Base.Utf8 Golib.Strings Golib.Strconv
     Model.Types Model.Tag Model.Scan Model.Lookup Model.Convert Model.State Model.Help Model.Parse
     Model.Closest Model.Ini Model.Complete Proofs.LookupSpec Proofs.CompleteSpec.
From Coq Require Import Lia Permutation Sorted ZifyN ZifyNat ZifyBool.
Open Scope N_scope.

(* ================================================================== *)
(* 0. permutation lemmas on boolean folds, filter, flat_map            *)
(* ================================================================== *)

Lemma forallb_perm {A} (f : A -> bool) : forall l l', Permutation l l' -> forallb f l = forallb f l'.
Proof.
  induction 1 as [|x l l' _ IH|x y l|l1 l2 l3 _ IH1 _ IH2]; cbn [forallb].
  - reflexivity.
  - rewrite IH. reflexivity.
  - destruct (f x), (f y); reflexivity.
  - congruence.
Qed.

Lemma existsb_perm {A} (f : A -> bool) : forall l l', Permutation l l' -> existsb f l = existsb f l'.
Proof.
  induction 1 as [|x l l' _ IH|x y l|l1 l2 l3 _ IH1 _ IH2]; cbn [existsb].
  - reflexivity.
  - rewrite IH. reflexivity.
  - destruct (f x), (f y); reflexivity.
  - congruence.
Qed.

Lemma forallb_pointwise {A} (f g : A -> bool) : forall l, (forall x, In x l -> f x = g x) -> forallb f l = forallb g l.
Proof.
  induction l as [|x l IH]; intros H; [reflexivity|]. cbn [forallb].
  rewrite (H x (or_introl eq_refl)), IH; [reflexivity|]. intros y Hy. apply H. right. exact Hy.
Qed.

Lemma filter_perm {A} (f : A -> bool) : forall l l', Permutation l l' -> Permutation (filter f l) (filter f l').
Proof.
  induction 1 as [|x l l' _ IH|x y l|l1 l2 l3 _ IH1 _ IH2]; cbn [filter].
  - apply perm_nil.
  - destruct (f x); [apply perm_skip|]; exact IH.
  - destruct (f x), (f y); try apply Permutation_refl. apply perm_swap.
  - eapply perm_trans; eassumption.
Qed.

Lemma flat_map_pointwise {A B} (f g : A -> list B) : forall l, (forall x, In x l -> f x = g x) -> flat_map f l = flat_map g l.
Proof.
  induction l as [|x l IH]; intros H; [reflexivity|]. cbn [flat_map].
  rewrite (H x (or_introl eq_refl)), IH; [reflexivity|]. intros y Hy. apply H. right. exact Hy.
Qed.

Lemma flat_map_perm {A B} (f : A -> list B) : forall l l', Permutation l l' -> Permutation (flat_map f l) (flat_map f l').
Proof.
  induction 1 as [|x l l' _ IH|x y l|l1 l2 l3 _ IH1 _ IH2]; cbn [flat_map].
  - apply perm_nil.
  - apply Permutation_app_head. exact IH.
  - rewrite !app_assoc. apply Permutation_app_tail. apply Permutation_app_comm.
  - eapply perm_trans; eassumption.
Qed.

Lemma forall_perm {A} (P : A -> Prop) l l' : Permutation l l' -> Forall P l -> Forall P l'.
Proof.
  intros HP H. rewrite Forall_forall in *. intros x Hx. apply H.
  apply (Permutation_in _ (Permutation_sym HP)). exact Hx.
Qed.

Lemma sort_strs_perm : forall l1 l2 : list str, Permutation l1 l2 -> sort_strs l1 = sort_strs l2.
Proof. exact (proj2 C15_sort_permutation_invariant). Qed.

Lemma sort_by_perm_nodup {A} (key : A -> str) (l1 l2 : list A) :
  Permutation l1 l2 -> NoDup (map key l1) -> sort_by key l1 = sort_by key l2.
Proof. exact (proj1 C15_sort_permutation_invariant A key l1 l2). Qed.

(* ================================================================== *)
(* 1. the text of a map value (convertToString)                        *)
(* ================================================================== *)

(* rendered text of one key / one value (the error component is kept apart) *)
Definition kind_txt (orc : oracles) (base : str) (k : kind) (v : value) : str :=
  match to_string_kind orc base k v with Ok (t, _) => t | _ => [] end.
Definition kind_err (orc : oracles) (base : str) (k : kind) (v : value) : bool :=
  match to_string_kind orc base k v with Ok (_, Some _) => true | _ => false end.

(* key and value of the entry can be rendered: to_string_kind does not panic
   (ill-typed value, missing duration oracle entry) *)
Definition entry_renders (orc : oracles) (base : str) (k vk : kind) (kv : value * value) : Prop :=
  (exists r, to_string_kind orc base k (fst kv) = Ok r) /\
  (exists r, to_string_kind orc base vk (snd kv) = Ok r).
Definition entries_render (orc : oracles) (base : str) (k vk : kind) (l : list (value * value)) : Prop :=
  Forall (entry_renders orc base k vk) l.

Definition entry_err (orc : oracles) (base : str) (k vk : kind) (kv : value * value) : bool :=
  kind_err orc base k (fst kv) || kind_err orc base vk (snd kv).
Definition entry_str (orc : oracles) (base : str) (k vk : kind) (kv : value * value) : str :=
  kind_txt orc base k (fst kv) ++ [58] ++ kind_txt orc base vk (snd kv).

(* the only error to_string_kind reports: an unusable `base` tag; it does not
   depend on the value *)
Definition base_err (base : str) : str :=
  match get_base base with
  | inr e => e
  | inl b => s2l "invalid base " ++ dec_of_Z (if Z.eqb b 0 then 10%Z else b)
  end.

Lemma to_string_kind_err orc base k v t e :
  to_string_kind orc base k v = Ok (t, Some e) -> e = base_err base.
Proof.
  unfold to_string_kind, base_err. destruct k, v; try discriminate.
  - destruct (get_base base) as [b|e']; [|congruence].
    destruct (format_int _ _); [discriminate|congruence].
  - destruct (find_durfmt _ _); discriminate.
Qed.

(* the local loop of convert_to_string on maps *)
Definition map_items (orc : oracles) (base : str) (k vk : kind) :=
  fix items (l : list (value * value)) (acc : list str) : res (str * option str) :=
    match l with
    | [] => Ok (s2l "{" ++ join (sort_strs acc) (s2l ", ") ++ s2l "}", None)
    | (a, b) :: l' =>
      bind (to_string_kind orc base k a) (fun ra =>
        match ra with
        | (_, Some e) => Ok ([], Some e)
        | (ta, None) =>
          bind (to_string_kind orc base vk b) (fun rb =>
            match rb with
            | (_, Some e) => Ok ([], Some e)
            | (tb, None) => items l' (acc ++ [ta ++ [58] ++ tb])
            end)
        end)
    end.

Lemma convert_to_string_map orc base k vk n l :
  convert_to_string orc base (TMap k vk) (VMap n l) = map_items orc base k vk l [].
Proof. reflexivity. Qed.

Lemma map_items_cons orc base k vk a b l acc :
  map_items orc base k vk ((a, b) :: l) acc =
  bind (to_string_kind orc base k a) (fun ra =>
    match ra with
    | (_, Some e) => Ok ([], Some e)
    | (ta, None) =>
      bind (to_string_kind orc base vk b) (fun rb =>
        match rb with
        | (_, Some e) => Ok ([], Some e)
        | (tb, None) => map_items orc base k vk l (acc ++ [ta ++ [58] ++ tb])
        end)
    end).
Proof. reflexivity. Qed.

(* closed form of the loop when no entry panics *)
Lemma map_items_spec orc base k vk : forall l acc,
  entries_render orc base k vk l ->
  map_items orc base k vk l acc =
  if existsb (entry_err orc base k vk) l then Ok ([], Some (base_err base))
  else Ok (s2l "{" ++ join (sort_strs (acc ++ map (entry_str orc base k vk) l)) (s2l ", ") ++ s2l "}", None).
Proof.
  induction l as [|[a b] l IH]; intros acc Hr.
  - cbn [existsb map]. rewrite app_nil_r. reflexivity.
  - inversion Hr as [|? ? [[ra Ha] [rb Hb]] Hr']; subst. cbn [fst snd] in Ha, Hb.
    rewrite map_items_cons. cbn [existsb map].
    unfold entry_err at 1, entry_str at 1, kind_err, kind_txt. cbn [fst snd].
    rewrite Ha. unfold bind at 1. destruct ra as [ta [ea|]].
    + cbn [orb]. rewrite (to_string_kind_err _ _ _ _ _ _ Ha). reflexivity.
    + rewrite Hb. unfold bind at 1. destruct rb as [tb [eb|]].
      * cbn [orb]. rewrite (to_string_kind_err _ _ _ _ _ _ Hb). reflexivity.
      * cbn [orb]. rewrite (IH _ Hr'). rewrite <- app_assoc. reflexivity.
Qed.

(* TARGET 1.  The model renders every entry as "key:value" and sorts the rendered
   strings with sort.Strings (sort_strs), i.e. by the WHOLE entry text, not by the
   key alone: entries that tie are equal strings, so no distinctness hypothesis is
   needed.  The nil flag is not looked at either.  What IS needed is that no entry
   panics (see C15_map_text_needs_render below). *)
Theorem C15_map_text_order_independent : forall orc base k vk n n' l l',
  Permutation l l' ->
  entries_render orc base k vk l ->
  convert_to_string orc base (TMap k vk) (VMap n l) = convert_to_string orc base (TMap k vk) (VMap n' l').
Proof.
  intros orc base k vk n n' l l' HP Hr.
  rewrite !convert_to_string_map.
  rewrite (map_items_spec _ _ _ _ l [] Hr).
  rewrite (map_items_spec _ _ _ _ l' [] (forall_perm _ _ _ HP Hr)).
  rewrite (existsb_perm _ _ _ HP). cbn [app].
  rewrite (sort_strs_perm _ _ (Permutation_map (entry_str orc base k vk) HP)). reflexivity.
Qed.

(* the conversion of a map whose entries render never fails with a panic *)
Lemma convert_to_string_map_ok orc base k vk n l :
  entries_render orc base k vk l ->
  exists t e, convert_to_string orc base (TMap k vk) (VMap n l) = Ok (t, e).
Proof.
  intros Hr. rewrite convert_to_string_map, (map_items_spec _ _ _ _ l [] Hr).
  destruct (existsb _ l); eexists; eexists; reflexivity.
Qed.

(* the hypothesis is satisfiable and the conclusion observable: three entries in
   two different orders, same text *)
Definition ex_orc0 : oracles := {| or_float := []; or_dur := []; or_durfmt := [] |}.
Definition ex_map_l : list (value * value) :=
  [(VStr (s2l "b"), VInt 2); (VStr (s2l "a"), VInt 1); (VStr (s2l "c"), VInt 3)].
Definition ex_map_l' : list (value * value) :=
  [(VStr (s2l "c"), VInt 3); (VStr (s2l "b"), VInt 2); (VStr (s2l "a"), VInt 1)].

Lemma ex_map_perm : Permutation ex_map_l ex_map_l'.
Proof.
  unfold ex_map_l, ex_map_l'.
  eapply perm_trans; [apply perm_skip; apply perm_swap|]. apply perm_swap.
Qed.
Lemma ex_map_renders : entries_render ex_orc0 [] KString (KInt I0) ex_map_l.
Proof. repeat constructor; cbn [fst snd]; eexists; vm_compute; reflexivity. Qed.

Example C15_map_text_instance :
  Permutation ex_map_l ex_map_l' /\ entries_render ex_orc0 [] KString (KInt I0) ex_map_l /\
  convert_to_string ex_orc0 [] (TMap KString (KInt I0)) (VMap false ex_map_l) = Ok (s2l "{a:1, b:2, c:3}", None) /\
  convert_to_string ex_orc0 [] (TMap KString (KInt I0)) (VMap false ex_map_l') = Ok (s2l "{a:1, b:2, c:3}", None).
Proof.
  split; [exact ex_map_perm|]. split; [exact ex_map_renders|]. split; vm_compute; reflexivity.
Qed.

(* ties between rendered KEYS are harmless for convert_to_string (the whole entry
   text is the sort key): two NaN keys (distinct keys of a Go map) *)
Example C15_map_text_key_ties_harmless :
  let l1 := [(VFloat (s2l "NaN"), VStr (s2l "x")); (VFloat (s2l "NaN"), VStr (s2l "y"))] in
  let l2 := [(VFloat (s2l "NaN"), VStr (s2l "y")); (VFloat (s2l "NaN"), VStr (s2l "x"))] in
  convert_to_string ex_orc0 [] (TMap (KFloat 64) KString) (VMap false l1) = Ok (s2l "{NaN:x, NaN:y}", None) /\
  convert_to_string ex_orc0 [] (TMap (KFloat 64) KString) (VMap false l2) = Ok (s2l "{NaN:x, NaN:y}", None).
Proof. split; vm_compute; reflexivity. Qed.

(* the rendering hypothesis cannot be dropped: the model reports the FIRST panic in
   list order (here two duration keys missing from the formatting oracle) *)
Example C15_map_text_needs_render :
  let l1 := [(VInt 5, VStr (s2l "x")); (VInt 7, VStr (s2l "y"))] in
  let l2 := [(VInt 7, VStr (s2l "y")); (VInt 5, VStr (s2l "x"))] in
  Permutation l1 l2 /\
  convert_to_string ex_orc0 [] (TMap KDuration KString) (VMap false l1) = Panic (oracle_miss (s2l "durfmt:5")) /\
  convert_to_string ex_orc0 [] (TMap KDuration KString) (VMap false l2) = Panic (oracle_miss (s2l "durfmt:7")) /\
  convert_to_string ex_orc0 [] (TMap KDuration KString) (VMap false l1) <>
  convert_to_string ex_orc0 [] (TMap KDuration KString) (VMap false l2).
Proof.
  split; [apply perm_swap|]. split; [vm_compute; reflexivity|]. split; [vm_compute; reflexivity|].
  vm_compute. discriminate.
Qed.
(* ... nor can it be weakened to "the conversion of l does not panic": an error
   (bad base tag) reported for the first entry hides a later panic *)
Example C15_map_text_needs_render_all :
  let l1 := [(VInt 5, VStr (s2l "x")); (VBool true, VStr (s2l "y"))] in
  let l2 := [(VBool true, VStr (s2l "y")); (VInt 5, VStr (s2l "x"))] in
  Permutation l1 l2 /\
  convert_to_string ex_orc0 (s2l "zz") (TMap (KInt I0) KString) (VMap false l1) =
    Ok ([], Some (base_err (s2l "zz"))) /\
  convert_to_string ex_orc0 (s2l "zz") (TMap (KInt I0) KString) (VMap false l2) = Panic (s2l "ill-typed value").
Proof. split; [apply perm_swap|]. split; vm_compute; reflexivity. Qed.

(* ---- the default literal shown in the help (Option.updateDefaultLiteral) *)
Definition with_deflit (f : oflags) (d : str) : oflags :=
  {| f_isset := f_isset f; f_isdefault := f_isdefault f; f_prevent := f_prevent f;
     f_clearref := f_clearref f; f_iniquote := f_iniquote f; f_ininame := f_ininame f;
     f_deflit := d |}.

Lemma nonempty_map_perm {A B} (g : A -> B) (l l' : list A) :
  Permutation l l' -> match map g l with [] => false | _ => true end = match map g l' with [] => false | _ => true end.
Proof.
  intros HP. apply Permutation_length in HP. destruct l, l'; try discriminate; reflexivity.
Qed.

(* Both runs succeed and store the SAME literal; everything else of the state is
   left as it was (the result is the input state with f_deflit replaced). *)
Theorem C15_default_literal_order_independent : forall orc oc r r' k vk n l l',
  o_ty (oc_opt oc) = TMap k vk ->
  rt_vals r (o_fid (oc_opt oc)) = VMap n l ->
  rt_vals r' (o_fid (oc_opt oc)) = VMap n l' ->
  Permutation l l' ->
  entries_render orc (o_base (oc_opt oc)) k vk l ->
  exists d,
    opt_update_default_literal orc oc r =
      Ok (set_fl r (o_fid (oc_opt oc)) (with_deflit (rt_fl r (o_fid (oc_opt oc))) d)) /\
    opt_update_default_literal orc oc r' =
      Ok (set_fl r' (o_fid (oc_opt oc)) (with_deflit (rt_fl r' (o_fid (oc_opt oc))) d)).
Proof.
  intros orc oc r r' k vk n l l' Hty Hv Hv' HP Hr.
  unfold opt_update_default_literal. cbv zeta. fold (with_deflit (rt_fl r (o_fid (oc_opt oc)))).
  fold (with_deflit (rt_fl r' (o_fid (oc_opt oc)))).
  destruct (o_default (oc_opt oc)) as [|d0 ds].
  2:{ eexists. split; reflexivity. }
  destruct (can_argument (oc_opt oc)).
  2:{ exists []. split; reflexivity. }
  rewrite Hty, Hv, Hv'. unfold nonempty.
  rewrite <- (nonempty_map_perm (fun _ : value * value => 0) l l' HP).
  destruct (negb n && _).
  2:{ exists []. split; reflexivity. }
  rewrite <- (C15_map_text_order_independent orc _ k vk n n l l' HP Hr).
  destruct (convert_to_string_map_ok orc (o_base (oc_opt oc)) k vk n l Hr) as (t & e & ->).
  exists t. split; reflexivity.
Qed.

(* ================================================================== *)
(* 2. (target 3) value equality (reflect.DeepEqual) on maps            *)
(* ================================================================== *)

(* The model does NOT compare the entry lists position by position: it checks the
   nil flags, the lengths, and that every entry of the left map has an equal entry
   in the right map (existsb).  All three ingredients are permutation invariant,
   in both arguments and at every fuel. *)
Lemma value_eqb_map_S f na la nb lb :
  value_eqb (S f) (VMap na la) (VMap nb lb) =
  Bool.eqb na nb && Nat.eqb (length la) (length lb) &&
  forallb (fun p : value * value =>
             existsb (fun q : value * value => value_eqb f (fst p) (fst q) && value_eqb f (snd p) (snd q)) lb) la.
Proof. reflexivity. Qed.

Theorem C15_value_eqb_map_order_independent : forall fuel na nb la la' lb lb',
  Permutation la la' -> Permutation lb lb' ->
  value_eqb fuel (VMap na la) (VMap nb lb) = value_eqb fuel (VMap na la') (VMap nb lb').
Proof.
  intros [|f] na nb la la' lb lb' Ha Hb; [reflexivity|].
  rewrite !value_eqb_map_S.
  rewrite (Permutation_length Ha), (Permutation_length Hb). f_equal.
  rewrite (forallb_perm _ _ _ Ha).
  apply forallb_pointwise. intros p _. apply existsb_perm. exact Hb.
Qed.

(* TARGET 3 *)
Theorem C15_value_equality_order_independent : forall na nb la la' lb lb',
  Permutation la la' -> Permutation lb lb' ->
  veq (VMap na la) (VMap nb lb) = veq (VMap na la') (VMap nb lb').
Proof. intros. unfold veq. apply C15_value_eqb_map_order_independent; assumption. Qed.

(* a map compared with an arbitrary value *)
Lemma veq_map_left_perm n l l' x : Permutation l l' -> veq (VMap n l) x = veq (VMap n l') x.
Proof.
  intros HP. destruct x; try reflexivity.
  apply C15_value_equality_order_independent; [exact HP|apply Permutation_refl].
Qed.
Lemma veq_map_right_perm n l l' x : Permutation l l' -> veq x (VMap n l) = veq x (VMap n l').
Proof.
  intros HP. destruct x; try reflexivity.
  apply C15_value_equality_order_independent; [apply Permutation_refl|exact HP].
Qed.

(* exact characterisation of veq on two maps (entries are compared with fuel 7,
   enough for every scalar key / value) *)
Theorem veq_map_spec : forall na nb la lb,
  veq (VMap na la) (VMap nb lb) = true <->
  na = nb /\ length la = length lb /\
  forall ka va, In (ka, va) la ->
    exists kb vb, In (kb, vb) lb /\ value_eqb 7 ka kb = true /\ value_eqb 7 va vb = true.
Proof.
  intros na nb la lb. unfold veq. rewrite value_eqb_map_S.
  rewrite !andb_true_iff, Bool.eqb_true_iff, Nat.eqb_eq, forallb_forall.
  split.
  - intros [[H1 H2] H3]. split; [exact H1|]. split; [exact H2|].
    intros ka va Hin. specialize (H3 _ Hin). apply existsb_exists in H3.
    destruct H3 as [[kb vb] [Hq Hb]]. cbn [fst snd] in Hb. apply andb_true_iff in Hb.
    exists kb, vb. tauto.
  - intros [H1 [H2 H3]]. split; [split; assumption|].
    intros [ka va] Hin. destruct (H3 ka va Hin) as (kb & vb & Hq & E1 & E2).
    apply existsb_exists. exists (kb, vb). cbn [fst snd]. rewrite E1, E2. split; [exact Hq|reflexivity].
Qed.

(* Option.valueIsDefault: the stored map may be held in any entry order *)
Theorem C15_value_is_default_order_independent : forall orc o r r' n l l',
  rt_vals r (o_fid o) = VMap n l ->
  rt_vals r' (o_fid o) = VMap n l' ->
  Permutation l l' ->
  opt_value_is_default orc o r = opt_value_is_default orc o r'.
Proof.
  intros orc o r r' n l l' Hv Hv' HP. unfold opt_value_is_default. rewrite Hv, Hv'.
  destruct (apply_defaults_ignoring_errors orc o (o_default o) (empty_value (o_ty o))) as [chk|e|w];
    try reflexivity.
  unfold bind. rewrite (veq_map_left_perm n l l' chk HP). reflexivity.
Qed.

Example C15_value_equality_instance :
  veq (VMap false ex_map_l) (VMap false ex_map_l') = true /\
  veq (VMap false ex_map_l') (VMap false ex_map_l) = true /\
  veq (VMap false ex_map_l) (VMap false (tl ex_map_l')) = false.
Proof. vm_compute. repeat split. Qed.

(* Limit of the model's comparison: it is an inclusion test plus a length test, so
   it agrees with DeepEqual only when the keys of each map are pairwise different
   (the invariant of VMap); with a repeated key it is not even symmetric. *)
Example veq_map_not_symmetric_with_duplicate_keys :
  let la := [(VInt 1, VInt 1); (VInt 1, VInt 1)] in
  let lb := [(VInt 1, VInt 1); (VInt 2, VInt 2)] in
  veq (VMap false la) (VMap false lb) = true /\ veq (VMap false lb) (VMap false la) = false.
Proof. vm_compute. split; reflexivity. Qed.

(* ================================================================== *)
(* 3. (target 2) the INI writer on map options; uses section 2         *)
(* ================================================================== *)

(* ---- splitting at a one-byte separator *)
Fixpoint splitc (c : N) (s cur : str) : list str :=
  match s with
  | [] => [rev cur]
  | x :: s' => if N.eqb x c then rev cur :: splitc c s' [] else splitc c s' (x :: cur)
  end.

Lemma split_fuel_splitc c : forall f s cur, (length s < f)%nat -> split_fuel f s [c] cur = splitc c s cur.
Proof.
  induction f as [|f IH]; intros s cur Hf; [lia|].
  destruct s as [|x s]; [reflexivity|].
  cbn [length] in Hf.
  change (split_fuel (S f) (x :: s) [c] cur) with
    (if has_prefix (x :: s) [c] then rev cur :: split_fuel f (skipn (length [c]) (x :: s)) [c] []
     else split_fuel f s [c] (x :: cur)).
  assert (Hp : has_prefix (x :: s) [c] = N.eqb x c).
  { cbn [has_prefix]. destruct s; apply andb_true_r. }
  rewrite Hp. cbn [length skipn splitc].
  destruct (N.eqb x c); rewrite IH by lia; reflexivity.
Qed.

Lemma split_splitc c s : Str.split s [c] = splitc c s [].
Proof. unfold Str.split. apply split_fuel_splitc. lia. Qed.

Lemma splitc_seg c : forall w rest cur, ~ In c w ->
  splitc c (w ++ c :: rest) cur = (rev cur ++ w) :: splitc c rest [].
Proof.
  induction w as [|x w IH]; intros rest cur Hn.
  - cbn [app splitc]. rewrite N.eqb_refl, app_nil_r. reflexivity.
  - cbn [app splitc]. destruct (N.eqb_spec x c) as [->|Hne]; [exfalso; apply Hn; left; reflexivity|].
    rewrite IH by (intros H; apply Hn; right; exact H).
    cbn [rev]. rewrite <- app_assoc. reflexivity.
Qed.

Lemma splitc_concat {A} c (h : A -> str) : forall l, (forall x, In x l -> ~ In c (h x)) ->
  splitc c (concat (map (fun x => h x ++ [c]) l)) [] = map h l ++ [[]].
Proof.
  induction l as [|x l IH]; intros Hn; [reflexivity|].
  cbn [map concat]. rewrite <- app_assoc. cbn [app].
  rewrite splitc_seg by (apply Hn; left; reflexivity). cbn [rev app].
  rewrite IH by (intros y Hy; apply Hn; right; exact Hy). reflexivity.
Qed.

Lemma cut_byte_app c : forall a b, ~ In c a -> cut_byte (a ++ c :: b) c = (a, Some b).
Proof.
  induction a as [|x a IH]; intros b Hn.
  - cbn [app cut_byte]. rewrite N.eqb_refl. reflexivity.
  - cbn [app cut_byte]. destruct (N.eqb_spec x c) as [->|Hne]; [exfalso; apply Hn; left; reflexivity|].
    rewrite IH by (intros H; apply Hn; right; exact H). reflexivity.
Qed.

(* ---- the hex packing used by the writer *)
Lemma hexdig_range n : hexdig n <> 58 /\ hexdig n <> 59.
Proof. unfold hexdig. destruct (N.ltb_spec n 10); lia. Qed.

Lemma hex_of_str_no_sep : forall s c, In c (hex_of_str s) -> c <> 58 /\ c <> 59.
Proof.
  induction s as [|x s IH]; intros c Hin; [destruct Hin|].
  cbn [hex_of_str In] in Hin. destruct Hin as [<-|[<-|Hin]]; [apply hexdig_range|apply hexdig_range|exact (IH c Hin)].
Qed.

(* what the writer reads back from its own hex packing; the identity on byte strings *)
Definition unhex_hex (s : str) : str := str_of_hex (hex_of_str s).

Lemma unhexdig_hexdig n : n < 16 -> unhexdig (hexdig n) = n.
Proof.
  intros Hn. unfold unhexdig, hexdig. destruct (N.ltb_spec n 10).
  - destruct (N.leb_spec 48 (48 + n)); [|lia]. destruct (N.leb_spec (48 + n) 57); [|lia]. cbn [andb]. lia.
  - destruct (N.leb_spec 48 (87 + n)); [|lia]. destruct (N.leb_spec (87 + n) 57); [lia|]. cbn [andb].
    destruct (N.leb_spec 97 (87 + n)); [|lia]. destruct (N.leb_spec (87 + n) 102); [|lia]. cbn [andb]. lia.
Qed.

Lemma unhex_hex_bytes : forall s, Forall (fun c => c < 256) s -> unhex_hex s = s.
Proof.
  unfold unhex_hex. induction s as [|c s IH]; intros H; [reflexivity|].
  inversion H as [|? ? Hc Hs]; subst. cbn [hex_of_str str_of_hex]. rewrite (IH Hs). f_equal.
  assert (H16 : c / 16 < 16) by (apply N.div_lt_upper_bound; lia).
  assert (Hm : c mod 16 < 16) by (apply N.mod_lt; lia).
  rewrite !unhexdig_hexdig by assumption.
  rewrite (N.div_mod' c 16) at 3. reflexivity.
Qed.

Section WriteDet.
  Variable orc : oracles.
  Variable include_defaults comment_defaults include_comments : bool.

  Notation write_opt := (write_opt orc include_defaults comment_defaults include_comments).
  Notation write_opts := (write_opts orc include_defaults comment_defaults include_comments).
  Notation write_group := (write_group orc include_defaults comment_defaults include_comments).
  Notation write_command := (write_command orc include_defaults comment_defaults include_comments).
  Notation write_ini := (write_ini orc include_defaults comment_defaults include_comments).

  (* the per-entry packer of the map branch of write_opt *)
  Definition pack_entry (o : opt) (k vk : kind) (kv : value) : res str :=
    match kv with
    | VSlice _ [a; b] =>
      bind (cts orc o (TScalar k) a) (fun ka =>
      bind (cts orc o (TScalar vk) b) (fun vb =>
        Ok (hex_of_str ka ++ [58] ++ hex_of_str vb ++ [59])))
    | _ => Ok []
    end.

  Definition unpack_pairs (packed : str) : list (str * str) :=
    map (fun p => match cut_byte p 58 with
                  | (a, Some b) => (str_of_hex a, str_of_hex b)
                  | (a, None) => (str_of_hex a, [])
                  end)
        (removelast (Str.split packed [59])).

  (* the lines written for a non-empty map *)
  Definition map_lines (o : opt) (fl : oflags) (comment : bool) (k vk : kind) (l : list (value * value)) : res str :=
    bind (write_list (pack_entry o k vk) (map (fun kv : value * value => VSlice false [fst kv; snd kv]) l))
         (fun packed =>
            Ok (concat (map (fun kv : str * str =>
                               write_option (option_ini_name o fl) (write_kind_is_string (o_ty o)) (fst kv) (snd kv)
                                            comment (f_iniquote fl))
                            (sort_by (fun kv : str * str => fst kv) (unpack_pairs packed))))).

  (* write_opt only looks at the option's own flags and value *)
  Definition write_opt_core (o : opt) (fl : oflags) (v : value) : res str :=
    if is_func (o_ty o) || o_hidden o || o_noini o then Ok []
    else
      bind (bind (apply_defaults_ignoring_errors orc o (o_default o) (empty_value (o_ty o)))
                 (fun chk => Ok (veq v chk))) (fun isdef =>
        if negb include_defaults && isdef then Ok []
        else
          let oname := option_ini_name o fl in
          let comment := include_defaults && comment_defaults && isdef in
          let iss := write_kind_is_string (o_ty o) in
          let head := if include_comments && nonempty (o_desc o) then s2l "; " ++ o_desc o ++ [10] else [] in
          let tail := if include_comments then [10] else [] in
          bind (match o_ty o, v with
                | TSlice e, VSlice _ l =>
                  match l with
                  | [] => Ok (write_option oname iss [] [] true (f_iniquote fl))
                  | _ => write_list (fun x => bind (cts orc o e x) (fun t => Ok (write_option oname iss [] t comment (f_iniquote fl)))) l
                  end
                | TMap k vk, VMap _ l =>
                  match l with
                  | [] => Ok (write_option oname iss [] [] true (f_iniquote fl))
                  | _ => map_lines o fl comment k vk l
                  end
                | TPtr _, VPtr None => Ok (write_option oname iss [] [] true (f_iniquote fl))
                | t, _ => bind (cts orc o t v) (fun tx => Ok (write_option oname iss [] tx comment (f_iniquote fl)))
                end)
               (fun body => Ok (head ++ body ++ tail))).

  Lemma write_opt_eq o r : write_opt o r = write_opt_core o (rt_fl r (o_fid o)) (rt_vals r (o_fid o)).
  Proof. reflexivity. Qed.

  (* ---- rendered (key, value) pair of one entry, as the writer sees it *)
  Definition ini_pair (base : str) (k vk : kind) (kv : value * value) : str * str :=
    (unhex_hex (kind_txt orc base k (fst kv)), unhex_hex (kind_txt orc base vk (snd kv))).
  (* the sort key of the entry *)
  Definition ini_key (base : str) (k : kind) (kv : value * value) : str :=
    unhex_hex (kind_txt orc base k (fst kv)).

  Definition packed_entry (base : str) (k vk : kind) (kv : value * value) : str :=
    hex_of_str (kind_txt orc base k (fst kv)) ++ [58] ++ hex_of_str (kind_txt orc base vk (snd kv)).

  Lemma cts_scalar o k a r : to_string_kind orc (o_base o) k a = Ok r ->
    cts orc o (TScalar k) a = Ok (kind_txt orc (o_base o) k a).
  Proof.
    intros H. unfold cts, kind_txt.
    change (convert_to_string orc (o_base o) (TScalar k) a) with (to_string_kind orc (o_base o) k a).
    rewrite H. destruct r as [t e]. reflexivity.
  Qed.

  Lemma write_list_pack o k vk : forall l,
    entries_render orc (o_base o) k vk l ->
    write_list (pack_entry o k vk) (map (fun kv : value * value => VSlice false [fst kv; snd kv]) l) =
    Ok (concat (map (fun kv => packed_entry (o_base o) k vk kv ++ [59]) l)).
  Proof.
    induction l as [|[a b] l IH]; intros Hr; [reflexivity|].
    inversion Hr as [|? ? [[ra Ha] [rb Hb]] Hr']; subst. cbn [fst snd] in Ha, Hb.
    cbn [map write_list concat fst snd]. unfold pack_entry at 1.
    rewrite (cts_scalar _ _ _ _ Ha), (cts_scalar _ _ _ _ Hb). unfold bind at 1 2 3.
    rewrite (IH Hr'). unfold bind. f_equal.
    change (packed_entry (o_base o) k vk (a, b)) with
      (hex_of_str (kind_txt orc (o_base o) k a) ++ [58] ++ hex_of_str (kind_txt orc (o_base o) vk b)).
    rewrite <- !app_assoc. reflexivity.
  Qed.

  Lemma packed_entry_no_sep base k vk kv : ~ In 59 (packed_entry base k vk kv).
  Proof.
    unfold packed_entry. intros H. apply in_app_or in H. destruct H as [H|H].
    - apply hex_of_str_no_sep in H. lia.
    - cbn [app In] in H. destruct H as [H|H]; [discriminate|].
      apply hex_of_str_no_sep in H. lia.
  Qed.

  Lemma unpack_packed base k vk l :
    unpack_pairs (concat (map (fun kv => packed_entry base k vk kv ++ [59]) l)) = map (ini_pair base k vk) l.
  Proof.
    unfold unpack_pairs. rewrite split_splitc.
    rewrite (splitc_concat 59 (packed_entry base k vk) l) by (intros x _; apply packed_entry_no_sep).
    rewrite removelast_last, map_map. apply map_ext. intros kv.
    unfold packed_entry. cbn [app].
    rewrite cut_byte_app; [reflexivity|].
    intros H. apply hex_of_str_no_sep in H. lia.
  Qed.

  (* closed form of the lines written for a map whose entries render *)
  Lemma map_lines_spec o fl comment k vk l :
    entries_render orc (o_base o) k vk l ->
    map_lines o fl comment k vk l =
    Ok (concat (map (fun kv : str * str =>
                       write_option (option_ini_name o fl) (write_kind_is_string (o_ty o)) (fst kv) (snd kv)
                                    comment (f_iniquote fl))
                    (sort_by (fun kv : str * str => fst kv) (map (ini_pair (o_base o) k vk) l)))).
  Proof.
    intros Hr. unfold map_lines. rewrite (write_list_pack o k vk l Hr). unfold bind.
    rewrite unpack_packed. reflexivity.
  Qed.

  (* the rendered keys the writer sorts by are pairwise distinct *)
  Definition distinct_ini_keys (base : str) (k : kind) (l : list (value * value)) : Prop :=
    NoDup (map (ini_key base k) l).

  Lemma map_lines_perm o fl comment k vk l l' :
    Permutation l l' ->
    entries_render orc (o_base o) k vk l ->
    distinct_ini_keys (o_base o) k l ->
    map_lines o fl comment k vk l = map_lines o fl comment k vk l'.
  Proof.
    intros HP Hr Hd.
    rewrite (map_lines_spec o fl comment k vk l Hr).
    rewrite (map_lines_spec o fl comment k vk l' (forall_perm _ _ _ HP Hr)).
    rewrite (sort_by_perm_nodup (fun kv : str * str => fst kv) _ _
               (Permutation_map (ini_pair (o_base o) k vk) HP)); [reflexivity|].
    rewrite map_map. exact Hd.
  Qed.

  Theorem write_opt_core_map_perm : forall o fl k vk n l l',
    o_ty o = TMap k vk ->
    Permutation l l' ->
    entries_render orc (o_base o) k vk l ->
    distinct_ini_keys (o_base o) k l ->
    write_opt_core o fl (VMap n l) = write_opt_core o fl (VMap n l').
  Proof.
    intros o fl k vk n l l' Hty HP Hr Hd. unfold write_opt_core.
    destruct (is_func (o_ty o) || o_hidden o || o_noini o); [reflexivity|].
    destruct (apply_defaults_ignoring_errors orc o (o_default o) (empty_value (o_ty o))) as [chk|e|w];
      try reflexivity.
    cbn [bind]. rewrite (veq_map_left_perm n l l' chk HP).
    destruct (negb include_defaults && veq (VMap n l') chk); [reflexivity|].
    rewrite Hty.
    destruct l as [|x l].
    - apply Permutation_nil in HP. subst l'. reflexivity.
    - destruct l' as [|x' l'']; [apply Permutation_sym, Permutation_nil in HP; discriminate|].
      rewrite (map_lines_perm o fl _ k vk _ _ HP Hr Hd). reflexivity.
  Qed.

  (* TARGET 2, one option *)
  Theorem C15_write_opt_map_order_independent : forall o r r' k vk n l l',
    o_ty o = TMap k vk ->
    rt_fl r (o_fid o) = rt_fl r' (o_fid o) ->
    rt_vals r (o_fid o) = VMap n l ->
    rt_vals r' (o_fid o) = VMap n l' ->
    Permutation l l' ->
    entries_render orc (o_base o) k vk l ->
    distinct_ini_keys (o_base o) k l ->
    write_opt o r = write_opt o r'.
  Proof.
    intros o r r' k vk n l l' Hty Hfl Hv Hv' HP Hr Hd.
    rewrite !write_opt_eq, Hfl, Hv, Hv'. exact (write_opt_core_map_perm o _ k vk n l l' Hty HP Hr Hd).
  Qed.

  (* the value of option o in the two states: identical, or the same map held in a
     different entry order *)
  Definition opt_vals_perm (o : opt) (v v' : value) : Prop :=
    v = v' \/
    exists k vk n l l',
      o_ty o = TMap k vk /\ v = VMap n l /\ v' = VMap n l' /\ Permutation l l' /\
      entries_render orc (o_base o) k vk l /\ distinct_ini_keys (o_base o) k l.

  Lemma write_opt_vals_perm o r r' :
    rt_fl r (o_fid o) = rt_fl r' (o_fid o) ->
    opt_vals_perm o (rt_vals r (o_fid o)) (rt_vals r' (o_fid o)) ->
    write_opt o r = write_opt o r'.
  Proof.
    intros Hfl [Hv|(k & vk & n & l & l' & Hty & Hv & Hv' & HP & Hr & Hd)].
    - rewrite !write_opt_eq, Hfl, Hv. reflexivity.
    - exact (C15_write_opt_map_order_independent o r r' k vk n l l' Hty Hfl Hv Hv' HP Hr Hd).
  Qed.

  Lemma write_opts_ext r r' : forall os,
    (forall o, In o os -> write_opt o r = write_opt o r') ->
    write_opts os r = write_opts os r'.
  Proof.
    induction os as [|o os IH]; intros H; [reflexivity|].
    cbn [Ini.write_opts]. rewrite (H o (or_introl eq_refl)), IH; [reflexivity|].
    intros o' Ho'. apply H. right. exact Ho'.
  Qed.

  (* TARGET 2, a list of options (one group) *)
  Theorem C15_write_opts_map_order_independent : forall os r r',
    (forall o, In o os ->
       rt_fl r (o_fid o) = rt_fl r' (o_fid o) /\
       opt_vals_perm o (rt_vals r (o_fid o)) (rt_vals r' (o_fid o))) ->
    write_opts os r = write_opts os r'.
  Proof.
    intros os r r' H. apply write_opts_ext. intros o Ho.
    destruct (H o Ho) as [Hfl Hv]. exact (write_opt_vals_perm o r r' Hfl Hv).
  Qed.

  Lemma write_group_ext r r' first g ns :
    (forall o, In o (grp_opts g) -> write_opt o r = write_opt o r') ->
    write_group first g ns r = write_group first g ns r'.
  Proof. intros H. unfold Ini.write_group. rewrite (write_opts_ext r r' _ H). reflexivity. Qed.

  (* the two local loops of write_command *)
  Definition wgroups (r : rt) (ns : str) :=
    fix go (gs : list group) (first : bool) : res str :=
      match gs with
      | [] => Ok []
      | g :: rest =>
        bind (if g_hidden (grp_info g) then Ok [] else write_group first g ns r) (fun a =>
        bind (go rest false) (fun b => Ok (a ++ b)))
      end.
  Definition wsubs (f : nat) (r : rt) (ns : str) :=
    fix subs (l : list command) : res str :=
      match l with
      | [] => Ok []
      | sc :: rest =>
        let ci := cmd_info sc in
        bind (if c_hidden ci then Ok []
              else write_command f sc (if nonempty ns then ns ++ [46] ++ c_name ci else c_name ci) r) (fun a =>
        bind (subs rest) (fun b => Ok (a ++ b)))
      end.

  Lemma write_command_S f c ns r :
    write_command (S f) c ns r =
    bind (wgroups r ns (cmd_groups c) true) (fun own =>
    bind (wsubs f r ns (cmd_subs c)) (fun sub => Ok (own ++ sub))).
  Proof. reflexivity. Qed.

  Lemma wgroups_ext r r' ns : forall gs first,
    (forall g o, In g gs -> In o (grp_opts g) -> write_opt o r = write_opt o r') ->
    wgroups r ns gs first = wgroups r' ns gs first.
  Proof.
    induction gs as [|g gs IH]; intros first H; [reflexivity|].
    cbn [wgroups]. rewrite (write_group_ext r r' first g ns (fun o Ho => H g o (or_introl eq_refl) Ho)).
    rewrite (IH false); [reflexivity|]. intros g' o Hg Ho. exact (H g' o (or_intror Hg) Ho).
  Qed.

  (* options reached from a group tree / command tree, exactly as eachGroup /
     eachCommand enumerate them (Model/Lookup.v) *)
  Lemma group_list_octxs : forall f ns envns g0 g o,
    In g (group_list f g0) -> In o (grp_opts g) ->
    exists oc, In oc (group_octxs f ns envns g0) /\ oc_opt oc = o.
  Proof.
    induction f as [|f IH]; intros ns envns g0 g o Hg Ho; [destruct Hg|].
    destruct g0 as [gi os subs]. cbn [group_list group_octxs grp_subs] in *.
    destruct Hg as [<-|Hg].
    - cbn [grp_opts] in Ho. eexists. split; [apply in_or_app; left; apply in_map; exact Ho|reflexivity].
    - apply in_flat_map in Hg. destruct Hg as [sg [Hsg Hg]].
      destruct (IH (ns ++ [g_ns gi]) (envns ++ [g_envns gi]) sg g o Hg Ho) as [oc [Hoc Eo]].
      exists oc. split; [|exact Eo]. apply in_or_app. right. apply in_flat_map. exists sg. split; assumption.
  Qed.

  Lemma cmd_groups_octxs c g o :
    In g (cmd_groups c) -> In o (grp_opts g) -> exists oc, In oc (cmd_octxs c) /\ oc_opt oc = o.
  Proof. unfold cmd_groups, cmd_octxs. apply group_list_octxs. Qed.

  Lemma in_combine_seq {A} : forall (l : list A) s x, In x l -> exists i, In (i, x) (combine (seq s (length l)) l).
  Proof.
    induction l as [|y l IH]; intros s x Hx; [destruct Hx|].
    cbn [length seq combine]. destruct Hx as [<-|Hx].
    - exists s. left. reflexivity.
    - destruct (IH (S s) x Hx) as [i Hi]. exists i. right. exact Hi.
  Qed.

  Lemma all_cmds_step : forall f c path,
    all_cmds (S f) c path =
    (path, c) :: flat_map (fun ic : nat * command => all_cmds f (snd ic) (path ++ [fst ic]))
                          (combine (seq 0 (length (cmd_subs c))) (cmd_subs c)).
  Proof. reflexivity. Qed.

  Definition all_octxs (f : nat) (c : command) (path : list nat) : list octx :=
    flat_map (fun pc : list nat * command => cmd_octxs (snd pc)) (all_cmds f c path).

  Lemma write_command_ext r r' : forall f c path ns,
    (forall oc, In oc (all_octxs f c path) -> write_opt (oc_opt oc) r = write_opt (oc_opt oc) r') ->
    write_command f c ns r = write_command f c ns r'.
  Proof.
    induction f as [|f IH]; intros c path ns H; [reflexivity|].
    rewrite !write_command_S.
    unfold all_octxs in H. rewrite all_cmds_step in H. cbn [flat_map snd] in H.
    rewrite (wgroups_ext r r' ns (cmd_groups c) true).
    2:{ intros g o Hg Ho. destruct (cmd_groups_octxs c g o Hg Ho) as [oc [Hoc <-]].
        apply H. apply in_or_app. left. exact Hoc. }
    assert (Hs : forall l, (forall sc, In sc l -> In sc (cmd_subs c)) ->
                 wsubs f r ns l = wsubs f r' ns l).
    { induction l as [|sc l IHl]; intros Hin; [reflexivity|].
      cbn [wsubs]. cbv zeta.
      destruct (in_combine_seq (cmd_subs c) 0%nat sc (Hin sc (or_introl eq_refl))) as [i Hi].
      rewrite (IH sc (path ++ [i])).
      - rewrite IHl; [reflexivity|]. intros sc' Hsc'. apply Hin. right. exact Hsc'.
      - intros oc Hoc. apply H. apply in_or_app. right.
        apply in_flat_map. unfold all_octxs in Hoc. apply in_flat_map in Hoc. destruct Hoc as [pc [Hpc Hoc]].
        exists pc. split; [|exact Hoc]. apply in_flat_map. exists (i, sc). split; [exact Hi|exact Hpc]. }
    rewrite (Hs (cmd_subs c)); [reflexivity|]. intros sc Hsc. exact Hsc.
  Qed.

  (* r and r' are the same state, except that map values may be held in a different
     entry order.  The side conditions on a permuted map concern the options of the
     tree that are bound to that field: the field is declared as a map, its entries
     render, and the rendered keys (the writer's sort keys) are pairwise distinct. *)
  Definition rt_perm_eq (root : command) (r r' : rt) : Prop :=
    (forall fid, rt_fl r fid = rt_fl r' fid) /\
    rt_logs r = rt_logs r' /\
    rt_active r = rt_active r' /\
    (forall fid,
       rt_vals r fid = rt_vals r' fid \/
       exists n l l',
         rt_vals r fid = VMap n l /\ rt_vals r' fid = VMap n l' /\ Permutation l l' /\
         forall oc, In oc (tree_octxs root) -> o_fid (oc_opt oc) = fid ->
           exists k vk, o_ty (oc_opt oc) = TMap k vk /\
                        entries_render orc (o_base (oc_opt oc)) k vk l /\
                        distinct_ini_keys (o_base (oc_opt oc)) k l).

  Lemma rt_perm_eq_refl root r : rt_perm_eq root r r.
  Proof. repeat split; try reflexivity. intros fid. left. reflexivity. Qed.

  Lemma rt_perm_eq_opt root r r' oc :
    rt_perm_eq root r r' -> In oc (tree_octxs root) ->
    opt_vals_perm (oc_opt oc) (rt_vals r (o_fid (oc_opt oc))) (rt_vals r' (o_fid (oc_opt oc))).
  Proof.
    intros (_ & _ & _ & Hv) Hoc. destruct (Hv (o_fid (oc_opt oc))) as [E|(n & l & l' & E & E' & HP & Ho)].
    - left. exact E.
    - destruct (Ho oc Hoc eq_refl) as (k & vk & Hty & Hr & Hd).
      right. exists k, vk, n, l, l'. tauto.
  Qed.

  (* TARGET 2, the whole file *)
  Theorem C15_write_ini_map_order_independent : forall root r r',
    rt_perm_eq root r r' ->
    write_ini root r = write_ini root r'.
  Proof.
    intros root r r' H. unfold Ini.write_ini.
    apply (write_command_ext r r' (cmd_depth root) root [] []).
    intros oc Hoc. apply write_opt_vals_perm.
    - destruct H as [Hfl _]. apply Hfl.
    - exact (rt_perm_eq_opt root r r' oc H Hoc).
  Qed.
End WriteDet.

(* ---- non-vacuity of TARGET 2: a declared map option, two states holding the same
   map in two entry orders, same INI text *)
Definition det_opt (fid : nat) (field lg : str) (ty : vtype) : opt :=
  {| o_fid := fid; o_field := field; o_short := 0; o_long := lg; o_desc := [];
     o_default := []; o_envkey := []; o_envdelim := []; o_optional := false; o_optval := [];
     o_required := false; o_valname := []; o_mask := []; o_choices := []; o_hidden := false;
     o_ininame := []; o_noini := false; o_unquote := false; o_base := []; o_ty := ty;
     o_is_help := false |}.
Definition det_root : command :=
  Command (ex_cinfo (s2l "app"))
          (Group (ex_ginfo [] false) []
                 [Group (ex_ginfo (s2l "Application Options") false)
                        [det_opt 1 (s2l "Verbose") (s2l "verbose") (TScalar KBool);
                         det_opt 3 (s2l "Limits") (s2l "limit") (TMap KString (KInt I0))] []])
          [] [].
Definition det_rt (l : list (value * value)) : rt :=
  {| rt_vals := fun i => if Nat.eqb i 3 then VMap false l else VBool true;
     rt_fl := fun _ => oflags0; rt_active := []; rt_logs := logs0 |}.

Lemma det_rt_perm_eq : rt_perm_eq ex_orc0 det_root (det_rt ex_map_l) (det_rt ex_map_l').
Proof.
  split; [reflexivity|]. split; [reflexivity|]. split; [reflexivity|].
  intros fid. cbn [rt_vals det_rt]. destruct (Nat.eqb_spec fid 3) as [->|Hne]; [|left; reflexivity].
  right. exists false, ex_map_l, ex_map_l'. split; [reflexivity|]. split; [reflexivity|].
  split; [exact ex_map_perm|].
  intros oc Hoc Hfid. vm_compute in Hoc. destruct Hoc as [<-|[<-|[]]]; [discriminate Hfid|].
  exists KString, (KInt I0). split; [reflexivity|]. split; [exact ex_map_renders|].
  unfold distinct_ini_keys. vm_compute.
  repeat constructor; cbn [In]; intuition discriminate.
Qed.

Example C15_write_ini_instance :
  write_ini ex_orc0 false false false det_root (det_rt ex_map_l) =
    Ok (s2l "[Application Options]" ++ [10] ++ s2l "Verbose = true" ++ [10] ++
        s2l "Limits = a:1" ++ [10] ++ s2l "Limits = b:2" ++ [10] ++ s2l "Limits = c:3" ++ [10] ++ [10]) /\
  write_ini ex_orc0 false false false det_root (det_rt ex_map_l') =
  write_ini ex_orc0 false false false det_root (det_rt ex_map_l).
Proof. split; vm_compute; reflexivity. Qed.

(* distinct rendered keys cannot be dropped for the writer: it sorts the entries by
   the rendered KEY only (sort_by is an insertion sort that places an item after the
   items with an equal key already inserted, and inserts from the back: ties come out
   in REVERSE delivery order), so two entries whose keys render alike (two NaN keys
   of a Go map) come out in an order that depends on the delivery order *)
Example C15_write_opt_needs_distinct_keys :
  let o := det_opt 3 (s2l "M") (s2l "m") (TMap (KFloat 64) KString) in
  let l1 := [(VFloat (s2l "NaN"), VStr (s2l "x")); (VFloat (s2l "NaN"), VStr (s2l "y"))] in
  let l2 := [(VFloat (s2l "NaN"), VStr (s2l "y")); (VFloat (s2l "NaN"), VStr (s2l "x"))] in
  Permutation l1 l2 /\
  entries_render ex_orc0 [] (KFloat 64) KString l1 /\
  write_opt ex_orc0 false false false o (det_rt l1) = Ok (s2l "M = NaN:y" ++ [10] ++ s2l "M = NaN:x" ++ [10]) /\
  write_opt ex_orc0 false false false o (det_rt l2) = Ok (s2l "M = NaN:x" ++ [10] ++ s2l "M = NaN:y" ++ [10]).
Proof.
  split; [apply perm_swap|]. split.
  - repeat constructor; cbn [fst snd]; eexists; vm_compute; reflexivity.
  - split; vm_compute; reflexivity.
Qed.

(* ================================================================== *)
(* 4. completion: the iteration order of the lookup maps               *)
(* ================================================================== *)

(* two association lists denote the same Go map iterated in different orders *)
Definition same_map {A} (l l' : list (str * A)) : Prop := Permutation (dedupe_last l) (dedupe_last l').

(* lookups (find_last) only depend on the map, not on the iteration order *)
Theorem C15_find_last_order_independent : forall {A} (l l' : list (str * A)) k,
  same_map l l' -> find_last l k = find_last l' k.
Proof.
  intros A l l' k HP.
  assert (H : forall v, find_last l k = Some v <-> find_last l' k = Some v).
  { intros v. rewrite <- !in_dedupe_last. split; apply Permutation_in; [exact HP|apply Permutation_sym; exact HP]. }
  destruct (find_last l k) as [v|].
  - symmetry. apply H. reflexivity.
  - destruct (find_last l' k) as [v'|]; [|reflexivity].
    apply H. reflexivity.
Qed.

Lemma complete_option_names_perm lk lk' prefix m short :
  same_map (lk_long lk) (lk_long lk') ->
  same_map (lk_short lk) (lk_short lk') ->
  Permutation (complete_option_names lk prefix m short) (complete_option_names lk' prefix m short).
Proof.
  unfold same_map. intros HL HS. unfold complete_option_names.
  destruct (short && nonempty m); [apply Permutation_refl|]. cbv zeta.
  set (flt := fun p : str * octx => has_prefix (fst p) m && negb (o_hidden (oc_opt (snd p)))).
  assert (HF : Permutation (filter flt (dedupe_last (lk_long lk))) (filter flt (dedupe_last (lk_long lk'))))
    by (apply filter_perm; exact HL).
  apply Permutation_app; [apply Permutation_map; exact HF|].
  destruct short; [|apply Permutation_refl].
  eapply perm_trans; [apply flat_map_perm; exact HS|].
  rewrite (flat_map_pointwise
    (fun p : str * octx =>
       if negb (existsb (str_eqb (fst p))
                  (map (fun p0 : str * octx => encode_rune (o_short (oc_opt (snd p0))))
                       (filter flt (dedupe_last (lk_long lk))))) &&
          has_prefix (fst p) m && negb (o_hidden (oc_opt (snd p)))
       then [(45 :: fst p, o_desc (oc_opt (snd p)))] else [])
    (fun p : str * octx =>
       if negb (existsb (str_eqb (fst p))
                  (map (fun p0 : str * octx => encode_rune (o_short (oc_opt (snd p0))))
                       (filter flt (dedupe_last (lk_long lk'))))) &&
          has_prefix (fst p) m && negb (o_hidden (oc_opt (snd p)))
       then [(45 :: fst p, o_desc (oc_opt (snd p)))] else [])); [apply Permutation_refl|].
  intros p _.
  rewrite (existsb_perm (str_eqb (fst p)) _ _
             (Permutation_map (fun p0 : str * octx => encode_rune (o_short (oc_opt (snd p0)))) HF)).
  reflexivity.
Qed.

(* TARGET 4: the sorted list of option names offered by completion (the final
   sort_by of [complete]) is the same whatever the iteration order of the two lookup
   maps, provided the offered texts (the sort keys) are pairwise distinct. *)
Theorem C15_completion_lookup_order_independent : forall lk lk' prefix m short,
  same_map (lk_long lk) (lk_long lk') ->
  same_map (lk_short lk) (lk_short lk') ->
  NoDup (map fst (complete_option_names lk prefix m short)) ->
  sort_by (fun it : str * str => fst it) (complete_option_names lk prefix m short) =
  sort_by (fun it : str * str => fst it) (complete_option_names lk' prefix m short).
Proof.
  intros lk lk' prefix m short HL HS Hnd.
  apply sort_by_perm_nodup; [|exact Hnd]. apply complete_option_names_perm; assumption.
Qed.

(* long names only ("--..."): the texts are always distinct *)
Theorem C15_completion_long_order_independent : forall lk lk' prefix m,
  same_map (lk_long lk) (lk_long lk') ->
  sort_by (fun it : str * str => fst it) (complete_option_names lk prefix m false) =
  sort_by (fun it : str * str => fst it) (complete_option_names lk' prefix m false).
Proof.
  intros lk lk' prefix m HL.
  apply sort_by_perm_nodup; [|apply C18_option_names_nodup].
  rewrite !complete_option_names_long. apply Permutation_map, filter_perm. exact HL.
Qed.

(* ---- the mixture of long and short names offered for a bare "-" *)
Lemma nodup_app_intro {A} : forall l1 l2 : list A,
  NoDup l1 -> NoDup l2 -> (forall x, In x l1 -> ~ In x l2) -> NoDup (l1 ++ l2).
Proof.
  induction l1 as [|a l1 IH]; intros l2 H1 H2 Hd; [exact H2|].
  inversion H1 as [|? ? Hn H1']; subst. cbn [app]. constructor.
  - intros Hin. apply in_app_or in Hin. destruct Hin as [Hin|Hin]; [exact (Hn Hin)|].
    exact (Hd a (or_introl eq_refl) Hin).
  - apply IH; [exact H1'|exact H2|]. intros x Hx. apply Hd. right. exact Hx.
Qed.

Lemma nodup_dash_items {A} (c : str * A -> bool) (g : str * A -> str) : forall l : list (str * A),
  NoDup (map fst l) ->
  NoDup (map fst (flat_map (fun p => if c p then [(45 :: fst p, g p)] else []) l)).
Proof.
  induction l as [|p l IH]; intros Hnd; [constructor|].
  cbn [map] in Hnd. inversion Hnd as [|? ? Hn Hnd']; subst.
  cbn [flat_map]. destruct (c p); [|exact (IH Hnd')].
  cbn [app map fst]. constructor; [|exact (IH Hnd')].
  intros Hin. apply Hn. apply in_map_iff in Hin. destruct Hin as [[t d] [Ht Hin]]. cbn [fst] in Ht. subst t.
  apply in_flat_map in Hin. destruct Hin as [q [Hq Hin]].
  destruct (c q); [|destruct Hin]. destruct Hin as [Hin|[]].
  injection Hin as Hin _. rewrite <- Hin. apply in_map. exact Hq.
Qed.

(* a one-rune name that begins with '-' is "-" itself *)
Lemma cons_eq_inv {A} (a b : A) l l' : a :: l = b :: l' -> a = b /\ l = l'.
Proof. intros H. injection H. auto. Qed.

Lemma encode_rune_dash r n : encode_rune r = 45 :: n -> n = [].
Proof.
  unfold encode_rune.
  pose proof (N.le_0_l (r / 64)). pose proof (N.le_0_l (r / 4096)). pose proof (N.le_0_l (r / 262144)).
  destruct (N.ltb r 128); [intros E; apply cons_eq_inv in E; symmetry; apply E|].
  destruct (N.ltb r 2048); [intros E; apply cons_eq_inv in E; destruct E; exfalso; lia|].
  destruct (is_surrogate r || N.ltb 1114111 r); [discriminate|].
  destruct (N.ltb r 65536); intros E; apply cons_eq_inv in E; destruct E; exfalso; lia.
Qed.

(* Long items are "--" ++ n, short items are "-" ++ s: they collide exactly when
   s = "-" ++ n.  With the keys of real lookup tables (short keys are the encoding of
   ONE rune, long keys are non-empty) this cannot happen. *)
Definition short_keys_one_rune (lk : lookup) : Prop :=
  forall s, In s (map fst (lk_short lk)) -> exists r, s = encode_rune r.
Definition long_keys_nonempty (lk : lookup) : Prop := ~ In [] (map fst (lk_long lk)).

Lemma in_dedupe_last_in {A} (l : list (str * A)) p : In p (dedupe_last l) -> In p l.
Proof. destruct p as [k v]. intros H. apply in_dedupe_last in H. apply find_last_in. exact H. Qed.

Theorem C15_completion_texts_distinct : forall lk prefix m short,
  short_keys_one_rune lk -> long_keys_nonempty lk ->
  NoDup (map fst (complete_option_names lk prefix m short)).
Proof.
  intros lk prefix m short Hs Hl. destruct short; [|apply C18_option_names_nodup].
  destruct m as [|c m].
  2:{ rewrite complete_option_names_short_nonempty by discriminate.
      cbn [map]. constructor; [intros []|constructor]. }
  rewrite complete_option_names_short_nil, map_app.
  apply nodup_app_intro.
  - apply C18_option_names_nodup.
  - unfold short_items. cbv zeta. apply nodup_dash_items. apply dedupe_last_nodup.
  - intros t Hlong Hshort.
    apply in_map_iff in Hlong. destruct Hlong as [[t1 d1] [E1 Hlong]]. cbn [fst] in E1. subst t1.
    apply C18_option_names_exact in Hlong. destruct Hlong as (n & oc & Eit & Hf & _ & _).
    injection Eit as Et _.
    apply in_map_iff in Hshort. destruct Hshort as [[t2 d2] [E2 Hshort]]. cbn [fst] in E2. subst t2.
    apply in_short_items in Hshort. destruct Hshort as (s & oc' & Eit' & Hf' & _ & _).
    injection Eit' as Et' _.
    assert (Es : s = 45 :: n).
    { rewrite Et in Et'. change (s2l "--" ++ n) with (45 :: 45 :: n) in Et'. injection Et' as Et'. symmetry; exact Et'. }
    destruct (Hs s) as [r Er].
    { apply in_map_iff. exists (s, oc'). split; [reflexivity|apply find_last_in; exact Hf']. }
    rewrite Es in Er. symmetry in Er. apply encode_rune_dash in Er. subst n.
    apply Hl. apply in_map_iff. exists ([], oc). split; [reflexivity|apply find_last_in; exact Hf].
Qed.

Corollary C15_completion_lookup_order_independent_keys : forall lk lk' prefix m short,
  same_map (lk_long lk) (lk_long lk') ->
  same_map (lk_short lk) (lk_short lk') ->
  short_keys_one_rune lk -> long_keys_nonempty lk ->
  sort_by (fun it : str * str => fst it) (complete_option_names lk prefix m short) =
  sort_by (fun it : str * str => fst it) (complete_option_names lk' prefix m short).
Proof.
  intros. apply C15_completion_lookup_order_independent; try assumption.
  apply C15_completion_texts_distinct; assumption.
Qed.

(* the tables built by makeLookup satisfy both conditions *)
Lemma long_with_ns_nonempty delim ns long : long <> [] -> long_with_ns delim ns long <> [].
Proof.
  intros Hl. unfold long_with_ns. destruct long as [|c long]; [congruence|].
  induction (filter nonempty ns) as [|n l IH]; cbn [fold_right]; [discriminate|].
  intros H. apply app_eq_nil in H. destruct H as [_ H]. apply app_eq_nil in H. destruct H as [_ H]. exact (IH H).
Qed.

Theorem make_lookup_keys : forall delim root path,
  short_keys_one_rune (make_lookup delim root path) /\ long_keys_nonempty (make_lookup delim root path).
Proof.
  intros delim root path. unfold short_keys_one_rune, long_keys_nonempty, make_lookup. cbn [lk_short lk_long].
  split.
  - intros s Hin. apply in_map_iff in Hin. destruct Hin as [[s' oc] [E Hin]]. cbn [fst] in E. subst s'.
    apply in_flat_map in Hin. destruct Hin as [c [_ Hin]]. unfold fill_opts in Hin. cbn [fst] in Hin.
    apply in_flat_map in Hin. destruct Hin as [oc' [_ Hin]].
    destruct (negb (N.eqb (o_short (oc_opt oc')) 0)); [|destruct Hin].
    destruct Hin as [Hin|[]]. injection Hin as Hs _. eexists. symmetry. exact Hs.
  - intros Hin. apply in_map_iff in Hin. destruct Hin as [[s' oc] [E Hin]]. cbn [fst] in E. subst s'.
    apply in_flat_map in Hin. destruct Hin as [c [_ Hin]]. unfold fill_opts in Hin. cbn [snd] in Hin.
    apply in_flat_map in Hin. destruct Hin as [oc' [_ Hin]].
    destruct (o_long (oc_opt oc')) as [|ch lg] eqn:El; cbn [nonempty] in Hin; [destruct Hin|].
    destruct Hin as [Hin|[]]. injection Hin as Hs _.
    unfold long_name in Hs. rewrite El in Hs. revert Hs. apply long_with_ns_nonempty. discriminate.
Qed.

Corollary C15_completion_make_lookup_texts_distinct : forall delim root path prefix m short,
  NoDup (map fst (complete_option_names (make_lookup delim root path) prefix m short)).
Proof.
  intros. destruct (make_lookup_keys delim root path). apply C15_completion_texts_distinct; assumption.
Qed.

(* sub-command names: Go keeps them in a slice (declaration order); still, the sorted
   result does not depend on that order as long as the visible names are distinct *)
Theorem C15_completion_commands_order_independent : forall c c' m,
  Permutation (cmd_subs c) (cmd_subs c') ->
  NoDup (map fst (complete_commands c m)) ->
  sort_by (fun it : str * str => fst it) (complete_commands c m) =
  sort_by (fun it : str * str => fst it) (complete_commands c' m).
Proof.
  intros c c' m HP Hnd. apply sort_by_perm_nodup; [|exact Hnd].
  unfold complete_commands. apply flat_map_perm. exact HP.
Qed.

(* non-vacuity: the example lookup of CompleteSpec, with both maps iterated backwards *)
Definition ex_lk_rev : lookup :=
  {| lk_short := rev (lk_short ex_lk); lk_long := rev (lk_long ex_lk); lk_cmds := lk_cmds ex_lk |}.

Lemma ex_lk_rev_same :
  same_map (lk_long ex_lk) (lk_long ex_lk_rev) /\ same_map (lk_short ex_lk) (lk_short ex_lk_rev).
Proof.
  unfold same_map. split.
  - replace (dedupe_last (lk_long ex_lk_rev)) with (rev (dedupe_last (lk_long ex_lk))) by (vm_compute; reflexivity).
    apply Permutation_rev.
  - replace (dedupe_last (lk_short ex_lk_rev)) with (rev (dedupe_last (lk_short ex_lk))) by (vm_compute; reflexivity).
    apply Permutation_rev.
Qed.

Example C15_completion_instance :
  complete_option_names ex_lk (s2l "-") [] true <> complete_option_names ex_lk_rev (s2l "-") [] true /\
  sort_by (fun it : str * str => fst it) (complete_option_names ex_lk (s2l "-") [] true) =
  sort_by (fun it : str * str => fst it) (complete_option_names ex_lk_rev (s2l "-") [] true) /\
  map fst (sort_by (fun it : str * str => fst it) (complete_option_names ex_lk_rev (s2l "-") [] true)) =
  [s2l "--color"; s2l "--verbose"; s2l "--version"; s2l "-q"].
Proof.
  split; [vm_compute; discriminate|]. split; vm_compute; reflexivity.
Qed.

(* ================================================================== *)
(* 5. the "unknown command" / "please specify a command" message       *)
(* ================================================================== *)

(* The help text walks groups, options and commands in declaration order (lists);
   the only place where names are collected and sorted is estimateCommand. *)

(* the names are sorted with sort.Strings: ties are equal strings, so no
   distinctness is needed *)
Theorem C15_visible_sorted_names_order_independent : forall c c',
  Permutation (cmd_subs c) (cmd_subs c') -> visible_sorted_names c = visible_sorted_names c'.
Proof.
  intros c c' HP. unfold visible_sorted_names.
  apply sort_strs_perm, Permutation_map, filter_perm. exact HP.
Qed.

(* the message is a function of the sorted names and of the unknown word; in
   particular the suggested name is closest_choice over the SORTED list (first
   minimum in sorted order), whatever the order of the sub-commands *)
Lemma estimate_command_names root s root' s' :
  visible_sorted_names (cur_cmd root s) = visible_sorted_names (cur_cmd root' s') ->
  ps_ret s = ps_ret s' ->
  estimate_command root s = estimate_command root' s'.
Proof. intros Hn Hr. unfold estimate_command. rewrite Hn, Hr. reflexivity. Qed.

(* TARGET 5 *)
Theorem C15_unknown_command_message_order_independent : forall root s root' s',
  Permutation (cmd_subs (cur_cmd root s)) (cmd_subs (cur_cmd root' s')) ->
  ps_ret s = ps_ret s' ->
  estimate_command root s = estimate_command root' s'.
Proof.
  intros root s root' s' HP Hr. apply estimate_command_names; [|exact Hr].
  apply C15_visible_sorted_names_order_independent. exact HP.
Qed.

(* the suggestion itself *)
Corollary C15_suggestion_order_independent : forall c c' w,
  Permutation (cmd_subs c) (cmd_subs c') ->
  closest_choice w (visible_sorted_names c) = closest_choice w (visible_sorted_names c').
Proof. intros c c' w HP. rewrite (C15_visible_sorted_names_order_independent c c' HP). reflexivity. Qed.

(* non-vacuity: the sub-commands add / admin / rm of the example tree in two orders;
   "ad" is at distance 1 from "add" and 3 from "admin" *)
Definition det_cmds (subs : list command) : command :=
  Command (ex_cinfo (s2l "app")) (Group (ex_ginfo [] false) [] []) [] subs.
Definition det_sub (name : str) : command :=
  Command (ex_cinfo name) (Group (ex_ginfo name false) [] []) [] [].
Definition det_pst (ret : list str) : pst :=
  {| ps_arg := []; ps_args := []; ps_ret := ret; ps_pos := []; ps_err := None; ps_cmd := [];
     ps_lk := {| lk_short := []; lk_long := []; lk_cmds := [] |} |}.

Example C15_unknown_command_instance :
  let r1 := det_cmds [det_sub (s2l "rm"); det_sub (s2l "admin"); det_sub (s2l "add")] in
  let r2 := det_cmds [det_sub (s2l "add"); det_sub (s2l "rm"); det_sub (s2l "admin")] in
  Permutation (cmd_subs (cur_cmd r1 (det_pst [s2l "ad"]))) (cmd_subs (cur_cmd r2 (det_pst [s2l "ad"]))) /\
  estimate_command r1 (det_pst [s2l "ad"]) = EFlags ErrUnknownCommand (s2l "Unknown command `ad', did you mean `add'?") /\
  estimate_command r2 (det_pst [s2l "ad"]) = EFlags ErrUnknownCommand (s2l "Unknown command `ad', did you mean `add'?") /\
  estimate_command r1 (det_pst []) = EFlags ErrCommandRequired (s2l "Please specify one command of: add, admin or rm") /\
  estimate_command r2 (det_pst []) = EFlags ErrCommandRequired (s2l "Please specify one command of: add, admin or rm").
Proof.
  split.
  - vm_compute. eapply perm_trans; [apply perm_skip, perm_swap|]. apply perm_swap.
  - repeat split; vm_compute; reflexivity.
Qed.

(* ================================================================== *)
(* 6. the side conditions, in elementary terms                         *)
(* ================================================================== *)

(* "renders" = the value has the shape of its kind and, for a duration, the
   formatting oracle knows it *)
Definition kind_renders (orc : oracles) (k : kind) (v : value) : bool :=
  match k, v with
  | (KCustom | KString | KComp), VStr _ => true
  | KBool, VBool _ => true
  | KInt _, VInt _ => true
  | KFloat _, VFloat _ => true
  | KDuration, VInt z => match find_durfmt (or_durfmt orc) z with Some _ => true | None => false end
  | _, _ => false
  end.

Lemma kind_renders_spec orc base k v :
  (exists r, to_string_kind orc base k v = Ok r) <-> kind_renders orc k v = true.
Proof.
  unfold to_string_kind, kind_renders.
  destruct k, v; try (split; [intros [r Hr]; discriminate Hr|discriminate]);
    try (split; [reflexivity|intros _; eexists; reflexivity]).
  - split; [reflexivity|intros _].
    destruct (get_base base); [|eexists; reflexivity].
    destruct (format_int _ _); eexists; reflexivity.
  - destruct (find_durfmt (or_durfmt orc) z).
    + split; [reflexivity|intros _; eexists; reflexivity].
    + split; [intros [r Hr]; discriminate Hr|discriminate].
Qed.

Theorem entries_render_spec : forall orc base k vk l,
  entries_render orc base k vk l <->
  forall a b, In (a, b) l -> kind_renders orc k a = true /\ kind_renders orc vk b = true.
Proof.
  intros orc base k vk l. unfold entries_render, entry_renders. rewrite Forall_forall. split.
  - intros H a b Hin. specialize (H (a, b) Hin). cbn [fst snd] in H.
    rewrite !kind_renders_spec in H. exact H.
  - intros H [a b] Hin. cbn [fst snd]. rewrite !kind_renders_spec. exact (H a b Hin).
Qed.

(* On byte strings (every Go string) the writer's sort key IS the rendered key, so
   distinct_ini_keys is "the rendered key texts are pairwise distinct" *)
Theorem distinct_ini_keys_bytes : forall orc base k l,
  (forall kv, In kv l -> Forall (fun c => c < 256) (kind_txt orc base k (fst kv))) ->
  NoDup (map (fun kv : value * value => kind_txt orc base k (fst kv)) l) ->
  distinct_ini_keys orc base k l.
Proof.
  intros orc base k l Hb Hnd. unfold distinct_ini_keys.
  rewrite (map_ext_in (ini_key orc base k) (fun kv : value * value => kind_txt orc base k (fst kv))); [exact Hnd|].
  intros kv Hin. unfold ini_key. apply unhex_hex_bytes. exact (Hb kv Hin).
Qed.

(* ================================================================== *)
Print Assumptions C15_map_text_order_independent.
Print Assumptions C15_default_literal_order_independent.
Print Assumptions C15_write_opt_map_order_independent.
Print Assumptions C15_write_opts_map_order_independent.
Print Assumptions C15_write_ini_map_order_independent.
Print Assumptions C15_value_eqb_map_order_independent.
Print Assumptions C15_value_equality_order_independent.
Print Assumptions veq_map_spec.
Print Assumptions C15_value_is_default_order_independent.
Print Assumptions C15_find_last_order_independent.
Print Assumptions C15_completion_lookup_order_independent.
Print Assumptions C15_completion_long_order_independent.
Print Assumptions C15_completion_texts_distinct.
Print Assumptions C15_completion_lookup_order_independent_keys.
Print Assumptions make_lookup_keys.
Print Assumptions C15_completion_make_lookup_texts_distinct.
Print Assumptions C15_completion_commands_order_independent.
Print Assumptions C15_visible_sorted_names_order_independent.
Print Assumptions C15_unknown_command_message_order_independent.
Print Assumptions C15_suggestion_order_independent.
Print Assumptions entries_render_spec.
Print Assumptions distinct_ini_keys_bytes.
