(* Specification of the Levenshtein distance and proof that the model of the Go
   dynamic programme (Model/Closest.v, lev_runes) computes it. *)
From GoFlags Require Import Base.Str Base.Utf8 Model.Closest.
From Coq Require Import Lia Arith.
Open Scope nat_scope.

Definition min3 (a b c : nat) : nat := Nat.min a (Nat.min b c).

(* Textbook recurrence (Wagner-Fischer / Wikipedia), stated on lists whose HEAD is
   the LAST character, i.e. on prefixes of the original strings:
     lev(s.a, t.b) = min (lev(s, t.b)+1) (lev(s.a, t)+1) (lev(s,t) + [a<>b]) *)
Fixpoint levr (s t : list N) : nat :=
  match s with
  | [] => length t
  | a :: s' =>
    (fix inner (t : list N) : nat :=
       match t with
       | [] => length s
       | b :: t' => min3 (levr s' t + 1) (inner t' + 1) (levr s' t' + (if N.eqb a b then 0 else 1))
       end) t
  end.

Definition lev_spec (s t : list N) : nat := levr (rev s) (rev t).

(* ---------- unfolding equations ---------- *)
Definition neq_cost (a b : N) : nat := if N.eqb a b then 0 else 1.

Lemma levr_nil_l : forall t, levr [] t = length t.
Proof. reflexivity. Qed.

Lemma levr_nil_r : forall s, levr s [] = length s.
Proof. intros s. destruct s; reflexivity. Qed.

Lemma levr_cons_cons : forall a s b t,
  levr (a :: s) (b :: t) =
  Nat.min (levr s (b :: t) + 1) (Nat.min (levr (a :: s) t + 1) (levr s t + neq_cost a b)).
Proof. reflexivity. Qed.

Arguments levr : simpl never.

Lemma neq_cost_refl : forall a, neq_cost a a = 0.
Proof. intros a. unfold neq_cost. rewrite N.eqb_refl. reflexivity. Qed.

Lemma neq_cost_sym : forall a b, neq_cost a b = neq_cost b a.
Proof. intros a b. unfold neq_cost. rewrite N.eqb_sym. reflexivity. Qed.

Lemma neq_cost_le1 : forall a b, neq_cost a b <= 1.
Proof. intros a b. unfold neq_cost. destruct (N.eqb a b); lia. Qed.

Lemma neq_cost_zero : forall a b, neq_cost a b = 0 <-> a = b.
Proof.
  intros a b. unfold neq_cost. destruct (N.eqb a b) eqn:E.
  - apply N.eqb_eq in E. split; auto.
  - apply N.eqb_neq in E. split; intros H; [discriminate | contradiction].
Qed.

Lemma neq_cost_triangle : forall a b c, neq_cost a c <= neq_cost a b + neq_cost b c.
Proof.
  intros a b c.
  destruct (N.eq_dec a b) as [Hab | Hab].
  - subst b. rewrite neq_cost_refl. lia.
  - assert (H1 : neq_cost a b <> 0) by (rewrite neq_cost_zero; exact Hab).
    pose proof (neq_cost_le1 a c) as H2. lia.
Qed.

(* ---------- basic properties ---------- *)
Lemma levr_sym : forall s t, levr s t = levr t s.
Proof.
  induction s as [| a s IHs]; intros t.
  - rewrite levr_nil_l, levr_nil_r. reflexivity.
  - induction t as [| b t IHt].
    + rewrite levr_nil_l, levr_nil_r. reflexivity.
    + rewrite !levr_cons_cons.
      rewrite (IHs (b :: t)), IHt, (IHs t), (neq_cost_sym a b). lia.
Qed.

Lemma levr_refl : forall s, levr s s = 0.
Proof.
  induction s as [| a s IHs].
  - reflexivity.
  - rewrite levr_cons_cons, IHs, neq_cost_refl. lia.
Qed.

Lemma levr_zero_iff : forall s t, levr s t = 0 <-> s = t.
Proof.
  intros s t. split.
  - revert t. induction s as [| a s IHs]; intros t H.
    + rewrite levr_nil_l in H. destruct t; [reflexivity | discriminate].
    + destruct t as [| b t].
      * rewrite levr_nil_r in H. discriminate.
      * rewrite levr_cons_cons in H.
        assert (H1 : levr s t = 0) by lia.
        assert (H2 : neq_cost a b = 0) by lia.
        apply IHs in H1. apply neq_cost_zero in H2. subst. reflexivity.
  - intros H. subst t. apply levr_refl.
Qed.

Lemma levr_le_max : forall s t, levr s t <= Nat.max (length s) (length t).
Proof.
  induction s as [| a s IHs]; intros t.
  - rewrite levr_nil_l. simpl. lia.
  - destruct t as [| b t].
    + rewrite levr_nil_r. lia.
    + rewrite levr_cons_cons. pose proof (IHs t) as H.
      pose proof (neq_cost_le1 a b) as H1. simpl length. lia.
Qed.

Lemma levr_ge_diff : forall s t, length s - length t <= levr s t /\ length t - length s <= levr s t.
Proof.
  induction s as [| a s IHs]; intros t.
  - rewrite levr_nil_l. simpl. lia.
  - induction t as [| b t IHt].
    + rewrite levr_nil_r. simpl. lia.
    + rewrite levr_cons_cons.
      pose proof (IHs (b :: t)) as H1. pose proof (IHs t) as H2.
      simpl length in *. lia.
Qed.

(* adding one character changes the distance by at most one *)
Lemma levr_cons_r_le : forall s b t, levr s (b :: t) <= levr s t + 1.
Proof.
  intros s b t. destruct s as [| a s].
  - rewrite !levr_nil_l. simpl. lia.
  - rewrite levr_cons_cons. lia.
Qed.

Lemma levr_cons_l_le : forall a s t, levr (a :: s) t <= levr s t + 1.
Proof.
  intros a s t. rewrite (levr_sym (a :: s) t), (levr_sym s t). apply levr_cons_r_le.
Qed.

Lemma levr_cons_l_ge : forall a s t, levr s t <= levr (a :: s) t + 1.
Proof.
  intros a s t. induction t as [| b t IHt].
  - rewrite !levr_nil_r. simpl. lia.
  - rewrite levr_cons_cons.
    pose proof (levr_cons_r_le s b t) as H. lia.
Qed.

Lemma levr_cons_r_ge : forall s b t, levr s t <= levr s (b :: t) + 1.
Proof.
  intros s b t. rewrite (levr_sym s t), (levr_sym s (b :: t)). apply levr_cons_l_ge.
Qed.

Lemma levr_triangle : forall s t u, levr s u <= levr s t + levr t u.
Proof.
  induction s as [| a s IHs].
  - intros t u. rewrite !levr_nil_l. pose proof (levr_ge_diff t u) as H. lia.
  - induction t as [| b t IHt].
    + intros u. rewrite levr_nil_l, levr_nil_r.
      pose proof (levr_le_max (a :: s) u) as H. lia.
    + induction u as [| c u IHu].
      * rewrite !levr_nil_r. pose proof (levr_ge_diff (a :: s) (b :: t)) as H. lia.
      * pose proof (levr_cons_cons a s b t) as E1.
        pose proof (levr_cons_cons b t c u) as E2.
        pose proof (levr_cons_cons a s c u) as E3.
        pose proof (IHs (b :: t) (c :: u)) as T1.
        pose proof (IHs t (c :: u)) as T2.
        pose proof (IHs t u) as T3.
        pose proof (IHt (c :: u)) as T4.
        pose proof (IHt u) as T5.
        pose proof (neq_cost_triangle a b c) as T6.
        lia.
Qed.

(* ---------- the Go dynamic programme ---------- *)
Lemma lev_cell_spec : forall sc b r q,
  lev_cell (N.eqb sc b) (levr r q) (levr (sc :: r) q) (levr r (b :: q)) = levr (sc :: r) (b :: q).
Proof.
  intros sc b r q. rewrite levr_cons_cons. unfold lev_cell, neq_cost.
  destruct (N.eqb sc b).
  - pose proof (levr_cons_l_ge sc r q) as H1.
    pose proof (levr_cons_r_ge r b q) as H2. lia.
  - destruct (Nat.ltb_spec (levr (sc :: r) q) (levr r q + 1)) as [H1 | H1];
    match goal with |- context [Nat.ltb ?x ?y] => destruct (Nat.ltb_spec x y) as [H2 | H2] end;
    lia.
Qed.

(* row of the table for the (reversed) prefix r of s; q is the reversed prefix of t
   already consumed *)
Fixpoint rowtail (r q t : list N) : list nat :=
  match t with
  | [] => []
  | b :: t' => levr r (b :: q) :: rowtail r (b :: q) t'
  end.
Definition rowfrom (r q t : list N) : list nat := levr r q :: rowtail r q t.

Lemma lev_row_aux_spec : forall sc r t q,
  lev_row_aux sc t (levr r q :: rowtail r q t) (levr (sc :: r) q) = rowtail (sc :: r) q t.
Proof.
  intros sc r t. induction t as [| b t IHt]; intros q.
  - reflexivity.
  - cbn [rowtail lev_row_aux]. rewrite lev_cell_spec. rewrite IHt. reflexivity.
Qed.

Lemma lev_row_spec : forall sc r t,
  lev_row sc t (rowfrom r [] t) = rowfrom (sc :: r) [] t.
Proof.
  intros sc r t. unfold rowfrom, lev_row.
  assert (E : levr r [] + 1 = levr (sc :: r) []).
  { rewrite !levr_nil_r. simpl. lia. }
  rewrite E. rewrite lev_row_aux_spec. reflexivity.
Qed.

Lemma rowtail_nil : forall t q, rowtail [] q t = seq (S (length q)) (length t).
Proof.
  induction t as [| b t IHt]; intros q.
  - reflexivity.
  - cbn [rowtail length seq]. rewrite levr_nil_l. rewrite IHt. reflexivity.
Qed.

Lemma lev_row0_spec : forall t, lev_row0 t = rowfrom [] [] t.
Proof.
  intros t. unfold lev_row0, rowfrom. rewrite rowtail_nil, levr_nil_l. reflexivity.
Qed.

Lemma lev_fold_spec : forall t s r,
  fold_left (fun row sc => lev_row sc t row) s (rowfrom r [] t) = rowfrom (rev s ++ r) [] t.
Proof.
  intros t s. induction s as [| a s IHs]; intros r.
  - reflexivity.
  - cbn [fold_left rev]. rewrite lev_row_spec, IHs, <- app_assoc. reflexivity.
Qed.

Lemma lev_rows_spec : forall s t, lev_rows s t = rowfrom (rev s) [] t.
Proof.
  intros s t. unfold lev_rows. rewrite lev_row0_spec, lev_fold_spec, app_nil_r. reflexivity.
Qed.

Lemma last_rowtail : forall r t q x d,
  x = levr r q -> last (x :: rowtail r q t) d = levr r (rev t ++ q).
Proof.
  intros r t. induction t as [| b t IHt]; intros q x d Hx.
  - simpl. exact Hx.
  - cbn [rowtail rev].
    change (last (x :: levr r (b :: q) :: rowtail r (b :: q) t) d)
      with (last (levr r (b :: q) :: rowtail r (b :: q) t) d).
    rewrite (IHt (b :: q) _ d eq_refl). rewrite <- app_assoc. reflexivity.
Qed.

(* main: the Go dynamic programme computes the specification *)
Theorem lev_runes_spec : forall s t, lev_runes s t = lev_spec s t.
Proof.
  intros s t. unfold lev_spec.
  assert (G : last (lev_rows s t) 0 = levr (rev s) (rev t)).
  { rewrite lev_rows_spec. unfold rowfrom.
    rewrite (last_rowtail (rev s) t [] _ 0 eq_refl), app_nil_r. reflexivity. }
  unfold lev_runes. destruct s as [| a s].
  - simpl rev. rewrite levr_nil_l, rev_length. reflexivity.
  - destruct t as [| b t].
    + simpl (rev []). rewrite levr_nil_r, rev_length. reflexivity.
    + exact G.
Qed.

Print Assumptions lev_runes_spec.
