(* C12, line level: what the INI writer (Model/Ini.v write_option) emits for one
   option is read back by the INI reader (classify_line) as the same name/value,
   with the quoted flag telling whether the writer quoted.  Also the facts about
   strings.TrimSpace (Golib/Strings.v trim_space) and utf8.DecodeLastRuneInString
   (decode_last) that this needs.  All statements hold for arbitrary byte strings
   (valid UTF-8 or not) unless a hypothesis says otherwise. *)
From GoFlags Require Import Base.Str Base.Utf8 Golib.Tables Golib.Strings Golib.Strconv
     Model.Types Model.Scan Model.Ini.
From GoFlags Require Import Proofs.QuoteUtf8 Proofs.QuoteEsc Proofs.QuoteSpec.
From Coq Require Import Lia ZifyN ZifyBool ZifyNat.
Open Scope N_scope.
Ltac Zify.zify_post_hook ::= Z.div_mod_to_equations.

(* ====================== decode_last, structurally ====================== *)
Section Back.
  Variable s : str.
  Variable lim : nat.
  Fixpoint back (k : nat) (cnt : nat) : option nat :=
    match cnt with
    | O => None
    | S c => if rune_start (nth k s 0) then Some k
             else match k with O => None | S k' => if Nat.ltb k' lim then None else back k' c end
    end.
End Back.

Lemma decode_last_unfold s m : length s = S m ->
  decode_last s =
  let last_b := nth m s 0 in
  if N.ltb last_b 128 then (last_b, 1%nat)
  else
    let lim := (S m - 4)%nat in
    let start :=
        match m with
        | O => O
        | S m' => if Nat.ltb m' lim then (lim - 1)%nat
                  else match back s lim m' 4%nat with
                       | Some k => k
                       | None => (lim - 1)%nat
                       end
        end in
    let '(r, size) := decode_rune (skipn start s) in
    if Nat.eqb (start + size) (S m) then (r, size) else (rune_error, 1%nat).
Proof. intros H. unfold decode_last. rewrite H. reflexivity. Qed.

Lemma back_S s lim k c : back s lim k (S c) =
  if rune_start (nth k s 0) then Some k
  else match k with O => None | S k' => if Nat.ltb k' lim then None else back s lim k' c end.
Proof. destruct k; reflexivity. Qed.

(* check a candidate start: the rune decoded there must end exactly at the end *)
Definition chk (l : str) : N * nat :=
  let '(r, size) := decode_rune l in
  if Nat.eqb size (length l) then (r, size) else (rune_error, 1%nat).

(* decode_last as a function of the reversed string *)
Definition dl_rev (t : str) : N * nat :=
  match t with
  | [] => (rune_error, O)
  | b0 :: t1 =>
    if N.ltb b0 128 then (b0, 1%nat) else
    match t1 with
    | [] => (rune_error, 1%nat)
    | b1 :: t2 =>
      if rune_start b1 then chk [b1; b0] else
      match t2 with
      | [] => (rune_error, 1%nat)
      | b2 :: t3 =>
        if rune_start b2 then chk [b2; b1; b0] else
        match t3 with
        | [] => (rune_error, 1%nat)
        | b3 :: _ => if rune_start b3 then chk [b3; b2; b1; b0] else (rune_error, 1%nat)
        end
      end
    end
  end.

Lemma not_start_decode b t : rune_start b = false -> decode_rune (b :: t) = (rune_error, 1%nat).
Proof.
  unfold rune_start. intros H.
  assert (128 <= b < 192) by lia.
  unfold decode_rune, in_range. split_ifs; first [reflexivity | exfalso; lia].
Qed.

Lemma decode_size_le4 s : (snd (decode_rune s) <= 4)%nat.
Proof.
  destruct (decode_rune s) as [r w] eqn:E. apply decode_dec in E.
  destruct E; cbn [snd]; lia.
Qed.

Lemma nth_app_len {A} (p l : list A) j d : nth (length p + j) (p ++ l) d = nth j l d.
Proof. rewrite app_nth2 by lia. f_equal. lia. Qed.

Lemma skipn_app_len {A} (p l : list A) j : skipn (length p + j) (p ++ l) = skipn j l.
Proof.
  rewrite skipn_app. rewrite skipn_all2 by lia. cbn [app]. f_equal. lia.
Qed.

Lemma shape4 (s : str) :
  s = [] \/ (exists b0, s = [b0]) \/ (exists b1 b0, s = [b1; b0]) \/ (exists b2 b1 b0, s = [b2; b1; b0])
  \/ exists p b3 b2 b1 b0, s = p ++ [b3; b2; b1; b0].
Proof.
  rewrite <- (rev_involutive s).
  destruct (rev s) as [|b0 [|b1 [|b2 [|b3 t]]]]; cbn [rev app]; eauto 10.
  do 4 right. exists (rev t), b3, b2, b1, b0. rewrite <- !app_assoc. reflexivity.
Qed.

Lemma decode_last_small1 b0 : decode_last [b0] = dl_rev [b0].
Proof.
  rewrite (decode_last_unfold [b0] O eq_refl). cbn [nth dl_rev skipn Nat.add].
  destruct (N.ltb b0 128) eqn:E; [reflexivity|].
  assert (128 <= b0) by lia.
  unfold decode_rune, in_range. rewrite E. split_ifs; reflexivity.
Qed.

Lemma chk_at k n l : n = (k + length l)%nat ->
  (let '(r, size) := decode_rune l in
   if Nat.eqb (k + size) n then (r, size) else (rune_error, 1%nat)) = chk l.
Proof.
  intros Hj. unfold chk. destruct (decode_rune l) as [r w].
  destruct (Nat.eqb_spec w (length l)), (Nat.eqb_spec (k + w) n); try reflexivity; exfalso; lia.
Qed.

Lemma decode_last_big p b3 b2 b1 b0 :
  decode_last (p ++ [b3; b2; b1; b0]) = dl_rev (rev (p ++ [b3; b2; b1; b0])).
Proof.
  rewrite rev_app_distr. cbn [rev app dl_rev].
  set (s := p ++ [b3; b2; b1; b0]). set (L := length p).
  assert (Hlen : length s = S (S (S (S L)))).
  { unfold s, L. rewrite app_length. cbn [length]. lia. }
  assert (N0 : nth (S (S (S L))) s 0 = b0).
  { replace (S (S (S L))) with (length p + 3)%nat by (unfold L; lia). unfold s. rewrite nth_app_len. reflexivity. }
  assert (N1 : nth (S (S L)) s 0 = b1).
  { replace (S (S L)) with (length p + 2)%nat by (unfold L; lia). unfold s. rewrite nth_app_len. reflexivity. }
  assert (N2 : nth (S L) s 0 = b2).
  { replace (S L) with (length p + 1)%nat by (unfold L; lia). unfold s. rewrite nth_app_len. reflexivity. }
  assert (N3 : nth L s 0 = b3).
  { replace L with (length p + 0)%nat by (unfold L; lia). unfold s. rewrite nth_app_len. reflexivity. }
  assert (K1 : skipn (S (S L)) s = [b1; b0]).
  { replace (S (S L)) with (length p + 2)%nat by (unfold L; lia). unfold s; rewrite skipn_app_len; reflexivity. }
  assert (K2 : skipn (S L) s = [b2; b1; b0]).
  { replace (S L) with (length p + 1)%nat by (unfold L; lia). unfold s; rewrite skipn_app_len; reflexivity. }
  assert (K3 : skipn L s = [b3; b2; b1; b0]).
  { replace L with (length p + 0)%nat by (unfold L; lia). unfold s; rewrite skipn_app_len; reflexivity. }
  clearbody s L.
  rewrite (decode_last_unfold s _ Hlen). cbv zeta. rewrite N0.
  destruct (N.ltb b0 128); [reflexivity|].
  replace (S (S (S (S L))) - 4)%nat with L by lia.
  replace (Nat.ltb (S (S L)) L) with false by (symmetry; apply Nat.ltb_ge; lia).
  rewrite back_S, N1.
  destruct (rune_start b1).
  { rewrite K1. apply chk_at. cbn [length]. lia. }
  replace (Nat.ltb (S L) L) with false by (symmetry; apply Nat.ltb_ge; lia).
  rewrite back_S, N2.
  destruct (rune_start b2).
  { rewrite K2. apply chk_at. cbn [length]. lia. }
  replace (Nat.ltb L L) with false by (symmetry; apply Nat.ltb_ge; lia).
  rewrite back_S, N3.
  destruct (rune_start b3) eqn:R3.
  { rewrite K3. apply chk_at. cbn [length]. lia. }
  assert (Hnone : match L with O => None | S k' => if Nat.ltb k' L then None else back s L k' 1 end = None).
  { destruct L as [|k']; [reflexivity|]. replace (Nat.ltb k' (S k')) with true; [reflexivity|]. symmetry. apply Nat.ltb_lt. lia. }
  rewrite Hnone.
  destruct L as [|L'].
  { cbn [Nat.sub]. rewrite K3. rewrite (not_start_decode _ _ R3). reflexivity. }
  pose proof (decode_size_le4 (skipn (S L' - 1) s)) as H4.
  destruct (decode_rune (skipn (S L' - 1) s)) as [r w]. cbn [snd] in H4.
  replace (Nat.eqb (S L' - 1 + w) (S (S (S (S (S L')))))) with false; [reflexivity|].
  symmetry. apply Nat.eqb_neq. lia.
Qed.

Lemma decode_last_small2 b1 b0 : decode_last [b1; b0] = dl_rev [b0; b1].
Proof.
  rewrite (decode_last_unfold [b1; b0] 1%nat eq_refl). cbv zeta. cbn [nth dl_rev Nat.sub Nat.ltb Nat.leb].
  destruct (N.ltb b0 128); [reflexivity|].
  rewrite back_S. cbn [nth].
  destruct (rune_start b1) eqn:R1.
  - cbn [skipn]. apply chk_at. reflexivity.
  - cbn [skipn]. rewrite (not_start_decode _ _ R1). reflexivity.
Qed.

Lemma decode_last_small3 b2 b1 b0 : decode_last [b2; b1; b0] = dl_rev [b0; b1; b2].
Proof.
  rewrite (decode_last_unfold [b2; b1; b0] 2%nat eq_refl). cbv zeta. cbn [nth dl_rev Nat.sub Nat.ltb Nat.leb].
  destruct (N.ltb b0 128); [reflexivity|].
  rewrite back_S. cbn [nth].
  destruct (rune_start b1) eqn:R1.
  { cbn [skipn]. apply chk_at. reflexivity. }
  cbn [Nat.ltb Nat.leb]. rewrite back_S. cbn [nth].
  destruct (rune_start b2) eqn:R2.
  { cbn [skipn]. apply chk_at. reflexivity. }
  cbn [skipn]. rewrite (not_start_decode _ _ R2). reflexivity.
Qed.

Theorem decode_last_rev s : decode_last s = dl_rev (rev s).
Proof.
  destruct (shape4 s) as [->|[[b0 ->]|[(b1 & b0 & ->)|[(b2 & b1 & b0 & ->)|(p & b3 & b2 & b1 & b0 & ->)]]]].
  - reflexivity.
  - apply decode_last_small1.
  - apply decode_last_small2.
  - apply decode_last_small3.
  - apply decode_last_big.
Qed.

(* ---------- consequences for decode_last *)
Lemma decode_ascii c t : c < 128 -> decode_rune (c :: t) = (c, 1%nat).
Proof. intros H. unfold decode_rune. replace (N.ltb c 128) with true by lia. reflexivity. Qed.

Lemma rune_start_ascii c : c < 128 -> rune_start c = true.
Proof. unfold rune_start. intros H. lia. Qed.

Lemma chk_ascii_long c x t : c < 128 -> chk (c :: x :: t) = (rune_error, 1%nat).
Proof. intros H. unfold chk. rewrite decode_ascii by exact H. reflexivity. Qed.

Lemma decode_last_ascii s b : b < 128 -> decode_last (s ++ [b]) = (b, 1%nat).
Proof.
  intros H. rewrite decode_last_rev, rev_app_distr. cbn [rev app dl_rev].
  replace (N.ltb b 128) with true by lia. reflexivity.
Qed.

Lemma decode_last_after_ascii pre c v : v <> [] -> c < 128 ->
  decode_last (pre ++ c :: v) = decode_last v.
Proof.
  intros Hv Hc. rewrite !decode_last_rev, rev_app_distr. cbn [rev]. rewrite <- app_assoc. cbn [app].
  assert (Hr : rev v <> []).
  { intros E. apply Hv. rewrite <- (rev_involutive v), E. reflexivity. }
  destruct (rev v) as [|b0 [|b1 [|b2 [|b3 t]]]]; [congruence| | | |]; cbn [app dl_rev];
    repeat (rewrite (rune_start_ascii c Hc) || rewrite (chk_ascii_long c _ _ Hc)); reflexivity.
Qed.

Lemma chk_size l : l <> [] -> (1 <= snd (chk l) <= length l)%nat.
Proof.
  intros Hl. unfold chk. destruct (decode_rune l) as [r w] eqn:E.
  destruct (decode_width l r w Hl E) as [H1 H2].
  destruct (Nat.eqb_spec w (length l)); cbn [snd]; [lia|].
  destruct l; [congruence|cbn [length]; lia].
Qed.

Lemma decode_last_size s : s <> [] -> (1 <= snd (decode_last s) <= length s)%nat.
Proof.
  intros Hs. rewrite decode_last_rev. rewrite <- (rev_length s).
  assert (Hr : rev s <> []).
  { intros E. apply Hs. rewrite <- (rev_involutive s), E. reflexivity. }
  destruct (rev s) as [|b0 [|b1 [|b2 [|b3 t]]]]; [congruence| | | |]; cbn [dl_rev length];
  repeat match goal with
  | |- context [if ?c then _ else _] => destruct c
  | |- context [chk ?l] => let H := fresh in assert (H : l <> []) by discriminate; apply chk_size in H; cbn [length] in H; revert H; generalize (chk l); intros
  end; cbn [snd]; lia.
Qed.

(* ---------- trim_left / trim_right without fuel *)
Lemma len_ind (P : str -> Prop) :
  (forall s, (forall t, (length t < length s)%nat -> P t) -> P s) -> forall s, P s.
Proof.
  intros H s. remember (length s) as n eqn:E. revert s E.
  induction n as [n IH] using lt_wf_ind. intros s E. apply H. intros t Ht.
  apply (IH (length t)); [lia|reflexivity].
Qed.

Lemma is_space_rune_error : is_space rune_error = false.
Proof. reflexivity. Qed.

Lemma tlf_S f b t : trim_left_fuel (S f) (b :: t) =
  let '(r, w) := decode_rune (b :: t) in
  if is_space r then trim_left_fuel f (skipn w (b :: t)) else b :: t.
Proof. reflexivity. Qed.

Lemma tlf_nil f : trim_left_fuel f [] = [].
Proof. destruct f; reflexivity. Qed.

Lemma tlf_enough f1 : forall f2 s, (length s <= f1)%nat -> (length s <= f2)%nat ->
  trim_left_fuel f1 s = trim_left_fuel f2 s.
Proof.
  induction f1 as [|f1 IH]; intros f2 s H1 H2.
  - destruct s; [rewrite !tlf_nil; reflexivity|cbn [length] in H1; lia].
  - destruct s as [|b t]; [rewrite !tlf_nil; reflexivity|].
    destruct f2 as [|f2]; [cbn [length] in H2; lia|].
    rewrite !tlf_S. destruct (decode_rune (b :: t)) as [r w] eqn:E.
    destruct (is_space r); [|reflexivity].
    destruct (decode_width (b :: t) r w ltac:(discriminate) E) as [Hw1 Hw2].
    apply IH; rewrite skipn_length; lia.
Qed.

Lemma trim_left_step s : trim_left s =
  if is_space (fst (decode_rune s)) then trim_left (skipn (snd (decode_rune s)) s) else s.
Proof.
  destruct s as [|b t]; [reflexivity|].
  unfold trim_left at 1. cbn [length]. rewrite tlf_S.
  destruct (decode_rune (b :: t)) as [r w] eqn:E. cbn [fst snd].
  destruct (is_space r); [|reflexivity].
  destruct (decode_width (b :: t) r w ltac:(discriminate) E) as [Hw1 Hw2].
  apply tlf_enough; rewrite skipn_length; cbn [length] in *; lia.
Qed.

Lemma trf_S f b t : trim_right_fuel (S f) (b :: t) =
  let '(r, w) := decode_last (b :: t) in
  if is_space r then trim_right_fuel f (firstn (length (b :: t) - w) (b :: t)) else b :: t.
Proof. reflexivity. Qed.

Lemma trf_nil f : trim_right_fuel f [] = [].
Proof. destruct f; reflexivity. Qed.

Lemma trf_enough f1 : forall f2 s, (length s <= f1)%nat -> (length s <= f2)%nat ->
  trim_right_fuel f1 s = trim_right_fuel f2 s.
Proof.
  induction f1 as [|f1 IH]; intros f2 s H1 H2.
  - destruct s; [rewrite !trf_nil; reflexivity|cbn [length] in H1; lia].
  - destruct s as [|b t]; [rewrite !trf_nil; reflexivity|].
    destruct f2 as [|f2]; [cbn [length] in H2; lia|].
    rewrite !trf_S. pose proof (decode_last_size (b :: t) ltac:(discriminate)) as Hw.
    destruct (decode_last (b :: t)) as [r w]. cbn [snd] in Hw.
    destruct (is_space r); [|reflexivity].
    apply IH; rewrite firstn_length; lia.
Qed.

Lemma trim_right_step s : trim_right s =
  if is_space (fst (decode_last s))
  then trim_right (firstn (length s - snd (decode_last s)) s) else s.
Proof.
  destruct s as [|b t]; [reflexivity|].
  unfold trim_right at 1. cbn [length]. rewrite trf_S.
  pose proof (decode_last_size (b :: t) ltac:(discriminate)) as Hw.
  destruct (decode_last (b :: t)) as [r w]. cbn [fst snd] in *.
  destruct (is_space r); [|reflexivity].
  apply trf_enough; rewrite firstn_length; cbn [length] in *; lia.
Qed.

Definition lead_ok (s : str) : Prop := is_space (fst (decode_rune s)) = false.
Definition trail_ok (s : str) : Prop := is_space (fst (decode_last s)) = false.

Lemma trim_left_id s : lead_ok s -> trim_left s = s.
Proof. intros H. rewrite trim_left_step, H. reflexivity. Qed.
Lemma trim_right_id s : trail_ok s -> trim_right s = s.
Proof. intros H. rewrite trim_right_step, H. reflexivity. Qed.

Lemma decode_size s : s <> [] -> (1 <= snd (decode_rune s) <= length s)%nat.
Proof.
  intros Hs. destruct (decode_rune s) as [r w] eqn:E.
  destruct (decode_width s r w Hs E). cbn [snd]. lia.
Qed.

Lemma trim_left_len : forall s, (length (trim_left s) <= length s)%nat /\
  (is_space (fst (decode_rune s)) = true -> (length (trim_left s) < length s)%nat).
Proof.
  induction s as [s IH] using len_ind. rewrite trim_left_step.
  destruct (is_space (fst (decode_rune s))) eqn:E; [|split; [lia|discriminate]].
  assert (Hs : s <> []) by (intros ->; discriminate E).
  pose proof (decode_size s Hs) as Hw.
  destruct (IH (skipn (snd (decode_rune s)) s)) as [H1 _]; rewrite skipn_length in *; lia.
Qed.

Lemma trim_right_len : forall s, (length (trim_right s) <= length s)%nat /\
  (is_space (fst (decode_last s)) = true -> (length (trim_right s) < length s)%nat).
Proof.
  induction s as [s IH] using len_ind. rewrite trim_right_step.
  destruct (is_space (fst (decode_last s))) eqn:E; [|split; [lia|discriminate]].
  assert (Hs : s <> []) by (intros ->; discriminate E).
  pose proof (decode_last_size s Hs) as Hw.
  destruct (IH (firstn (length s - snd (decode_last s)) s)) as [H1 _]; rewrite firstn_length in *; lia.
Qed.

Lemma trim_left_lead : forall s, lead_ok (trim_left s).
Proof.
  induction s as [s IH] using len_ind. rewrite trim_left_step.
  destruct (is_space (fst (decode_rune s))) eqn:E; [|exact E].
  assert (Hs : s <> []) by (intros ->; discriminate E).
  pose proof (decode_size s Hs) as Hw.
  apply IH. rewrite skipn_length; lia.
Qed.

Lemma trim_right_trail : forall s, trail_ok (trim_right s).
Proof.
  induction s as [s IH] using len_ind. rewrite trim_right_step.
  destruct (is_space (fst (decode_last s))) eqn:E; [|exact E].
  assert (Hs : s <> []) by (intros ->; discriminate E).
  pose proof (decode_last_size s Hs) as Hw.
  apply IH. rewrite firstn_length; lia.
Qed.

Lemma trim_right_prefix : forall s, exists k, trim_right s = firstn k s.
Proof.
  induction s as [s IH] using len_ind. rewrite trim_right_step.
  destruct (is_space (fst (decode_last s))) eqn:E.
  - assert (Hs : s <> []) by (intros ->; discriminate E).
    pose proof (decode_last_size s Hs) as Hw.
    destruct (IH (firstn (length s - snd (decode_last s)) s)) as [k Hk]; [rewrite firstn_length; lia|].
    rewrite Hk, firstn_firstn. eauto.
  - exists (length s). rewrite firstn_all. reflexivity.
Qed.

(* fixed points of trim_space *)
Lemma trim_space_fix_iff s : trim_space s = s <-> lead_ok s /\ trail_ok s.
Proof.
  unfold trim_space. split.
  - intros H.
    destruct (trim_left_len s) as [L1 L2]. destruct (trim_right_len (trim_left s)) as [R1 R2].
    assert (Hl : lead_ok s).
    { unfold lead_ok. destruct (is_space (fst (decode_rune s))); [|reflexivity].
      specialize (L2 eq_refl). rewrite H in R1. lia. }
    rewrite (trim_left_id s Hl) in *. split; [exact Hl|].
    unfold trail_ok. destruct (is_space (fst (decode_last s))); [|reflexivity].
    specialize (R2 eq_refl). rewrite H in R2. lia.
  - intros [Hl Ht]. rewrite (trim_left_id s Hl). apply trim_right_id, Ht.
Qed.

(* ---------- decode_rune under extension / truncation *)
Lemma decode_app_ascii s c t : s <> [] -> c < 128 -> decode_rune (s ++ c :: t) = decode_rune s.
Proof.
  intros Hs Hc. destruct s as [|b0 s]; [congruence|].
  destruct s as [|b1 [|b2 [|b3 s]]]; cbn [app]; unfold decode_rune, is_cont, in_range;
    split_ifs; first [reflexivity | exfalso; lia].
Qed.

Lemma decode_firstn_fst k t : (1 <= k)%nat ->
  fst (decode_rune (firstn k t)) = fst (decode_rune t) \/ fst (decode_rune (firstn k t)) = rune_error.
Proof.
  intros Hk. destruct k as [|k]; [lia|].
  destruct t as [|b0 t]; [left; reflexivity|].
  destruct k as [|[|[|k]]]; destruct t as [|b1 [|b2 [|b3 t]]]; cbn [firstn];
    unfold decode_rune, is_cont, in_range; split_ifs; cbn [fst]; auto.
Qed.

Lemma lead_ok_firstn k t : (1 <= k)%nat -> lead_ok t -> lead_ok (firstn k t).
Proof.
  unfold lead_ok. intros Hk Ht. destruct (decode_firstn_fst k t Hk) as [->| ->]; [exact Ht|reflexivity].
Qed.


(* ====================== Target 1: trim_space facts ====================== *)

(* (a) idempotence, for every byte string (valid UTF-8 or not) *)
Theorem trim_space_idem : forall s, trim_space (trim_space s) = trim_space s.
Proof.
  intros s. apply trim_space_fix_iff. unfold trim_space. split; [|apply trim_right_trail].
  destruct (trim_right_prefix (trim_left s)) as [k Hk]. rewrite Hk.
  destruct k as [|k]; [reflexivity|].
  apply lead_ok_firstn; [lia|apply trim_left_lead].
Qed.

Definition ascii_nonspace (c : N) : Prop := c < 128 /\ is_space_ascii c = false.

Lemma ascii_nonspace_is_space c : ascii_nonspace c -> is_space c = false.
Proof.
  unfold ascii_nonspace, is_space_ascii. intros [H1 H2].
  unfold is_space, isspace_runes. cbn [existsb]. lia.
Qed.

(* (b) a string whose first and last bytes are ASCII and not white space is a fixed point *)
Theorem trim_space_ascii_ends : forall s,
  s <> [] -> ascii_nonspace (hd 0 s) -> ascii_nonspace (last s 0) -> trim_space s = s.
Proof.
  intros s Hs Hh Hl. apply trim_space_fix_iff. split.
  - destruct s as [|b t]; [congruence|]. cbn [hd] in Hh. unfold lead_ok.
    rewrite decode_ascii by apply Hh. cbn [fst]. apply ascii_nonspace_is_space, Hh.
  - destruct (exists_last Hs) as (p & b & ->). rewrite last_last in Hl. unfold trail_ok.
    rewrite decode_last_ascii by apply Hl. cbn [fst]. apply ascii_nonspace_is_space, Hl.
Qed.

(* (b'), general form: fixed points are exactly the strings whose first and last
   runes (as decoded by Go) are not white space *)
Theorem trim_space_fixed_point : forall s,
  trim_space s = s <->
  is_space (fst (decode_rune s)) = false /\ is_space (fst (decode_last s)) = false.
Proof. exact trim_space_fix_iff. Qed.

Definition ascii_space (c : N) : Prop := c < 128 /\ is_space c = true.

Lemma trim_left_cons_space c s : ascii_space c -> trim_left (c :: s) = trim_left s.
Proof.
  intros [H1 H2]. rewrite trim_left_step. rewrite decode_ascii by exact H1. cbn [fst snd].
  rewrite H2. reflexivity.
Qed.

Lemma trim_right_snoc_space c s : ascii_space c -> trim_right (s ++ [c]) = trim_right s.
Proof.
  intros [H1 H2]. rewrite trim_right_step. rewrite decode_last_ascii by exact H1. cbn [fst snd].
  rewrite H2. rewrite app_length. cbn [length].
  replace (length s + 1 - 1)%nat with (length s + 0)%nat by lia.
  rewrite firstn_app_2. cbn [firstn]. rewrite app_nil_r. reflexivity.
Qed.

Lemma trim_left_snoc c : c < 128 -> is_space c = true -> forall s : str,
  trim_left (s ++ [c]) = match trim_left s with [] => [] | _ => trim_left s ++ [c] end.
Proof.
  intros H1 H2. induction s as [s IH] using len_ind.
  destruct s as [|b t].
  - cbn [app]. rewrite (trim_left_cons_space c [] (conj H1 H2)). reflexivity.
  - rewrite (trim_left_step ((b :: t) ++ [c])), (trim_left_step (b :: t)).
    rewrite decode_app_ascii by (discriminate || exact H1).
    pose proof (decode_size (b :: t) ltac:(discriminate)) as Hw.
    destruct (is_space (fst (decode_rune (b :: t)))); [|reflexivity].
    rewrite skipn_app.
    replace (snd (decode_rune (b :: t)) - length (b :: t))%nat with O by lia. cbn [skipn].
    apply IH. rewrite skipn_length. lia.
Qed.

Lemma trim_space_cons_space c s : ascii_space c -> trim_space (c :: s) = trim_space s.
Proof. intros H. unfold trim_space. rewrite trim_left_cons_space by exact H. reflexivity. Qed.

Lemma trim_space_snoc_space c s : ascii_space c -> trim_space (s ++ [c]) = trim_space s.
Proof.
  intros H. unfold trim_space. rewrite (trim_left_snoc c (proj1 H) (proj2 H)).
  destruct (trim_left s) eqn:E; [reflexivity|].
  rewrite trim_right_snoc_space by exact H. reflexivity.
Qed.

Lemma trim_space_pad : forall l r s, Forall ascii_space l -> Forall ascii_space r ->
  trim_space (l ++ s ++ r) = trim_space s.
Proof.
  intros l r s Hl Hr. induction Hl as [|c l Hc Hl IH].
  - cbn [app]. induction r as [|c r IH] using rev_ind; [rewrite app_nil_r; reflexivity|].
    apply Forall_app in Hr. destruct Hr as [Hr Hc]. inversion Hc; subst.
    rewrite app_assoc, trim_space_snoc_space by assumption. apply IH, Hr.
  - cbn [app]. rewrite trim_space_cons_space by exact Hc. exact IH.
Qed.

(* (c) ASCII-space padding is removed *)
Theorem trim_space_padding : forall a b s,
  trim_space (repeat 32 a ++ s ++ repeat 32 b) = trim_space s.
Proof.
  intros a b s. apply trim_space_pad; apply Forall_forall; intros x Hx;
    apply repeat_spec in Hx; subst x; (split; [lia|reflexivity]).
Qed.

(* ====================== C12, line level ====================== *)

(* the writer's "needs quoting" test (the local [needs_quote] of write_option) *)
Definition ini_needs_quote (value : str) : bool :=
  negb (all_print value) || negb (str_eqb (trim_space value) value)
  || match value with 34 :: _ => true | _ => false end.

Lemma write_option_eq name is_string key value comment force :
  write_option name is_string key value comment force =
  (if comment then s2l "; " else []) ++ name ++ s2l " =" ++
  (if nonempty key
   then [32] ++ key ++ [58] ++ (if force || (is_string && ini_needs_quote value) then quote value else value)
   else if nonempty (if force || (is_string && ini_needs_quote value) then quote value else value)
        then 32 :: (if force || (is_string && ini_needs_quote value) then quote value else value) else []) ++ [10].
Proof. reflexivity. Qed.

(* option names the round trip is stated for *)
Definition ini_name_ok (name : str) : Prop :=
  name <> [] /\ ~ In 61 name /\ trim_space name = name /\
  hd 0 name <> 59 /\ hd 0 name <> 35 /\ hd 0 name <> 91.

Lemma cut_byte_app a c r : ~ In c a -> cut_byte (a ++ c :: r) c = (a, Some r).
Proof.
  induction a as [|x a IH]; intros H; cbn [app cut_byte].
  - rewrite N.eqb_refl. reflexivity.
  - destruct (N.eqb_spec x c) as [->|_]; [exfalso; apply H; left; reflexivity|].
    rewrite IH; [reflexivity|]. intros Hin. apply H. right. exact Hin.
Qed.

Lemma classify_line_entry line c rest k v :
  trim_space line = line -> line = c :: rest -> c <> 59 -> c <> 35 -> c <> 91 ->
  cut_byte line 61 = (k, Some v) ->
  classify_line line =
  match trim_space v with
  | 34 :: _ => match unquote (trim_space v) with
               | Some u => LEntry (trim_space k) u true
               | None => LBad err_syntax
               end
  | _ => LEntry (trim_space k) (trim_space v) false
  end.
Proof.
  intros Ht Hl H59 H35 H91 Hcut. unfold classify_line. rewrite Ht. cbv zeta.
  rewrite Hcut. rewrite Hl.
  apply N.eqb_neq in H59, H35, H91. rewrite H59, H35, H91. reflexivity.
Qed.

Lemma classify_kv name val : ini_name_ok name -> trim_space val = val ->
  classify_line (name ++ s2l " =" ++ (if nonempty val then 32 :: val else [])) =
  match val with
  | 34 :: _ => match unquote val with
               | Some u => LEntry name u true
               | None => LBad err_syntax
               end
  | _ => LEntry name val false
  end.
Proof.
  intros (Hne & H61 & Hname & H59 & H35 & H91) Hval.
  change (s2l " =") with [32; 61].
  set (tailv := if nonempty val then 32 :: val else []).
  apply trim_space_fix_iff in Hname. destruct Hname as [Hlead Htrail].
  assert (Hvt : trim_space tailv = val).
  { unfold tailv. destruct val as [|x val']; [reflexivity|]. cbn [nonempty].
    rewrite trim_space_cons_space by (split; [lia|reflexivity]). exact Hval. }
  assert (Htrim : trim_space (name ++ [32; 61] ++ tailv) = name ++ [32; 61] ++ tailv).
  { apply trim_space_fix_iff. split.
    - unfold lead_ok. cbn [app]. rewrite decode_app_ascii by (assumption || lia). exact Hlead.
    - unfold trail_ok, tailv. destruct val as [|x val'].
      + cbn [nonempty app]. change (name ++ [32; 61]) with (name ++ [32] ++ [61]).
        rewrite app_assoc, decode_last_ascii by lia. reflexivity.
      + cbn [nonempty]. change ([32; 61] ++ 32 :: x :: val') with ([32; 61] ++ [32] ++ x :: val').
        rewrite !app_assoc. rewrite <- app_assoc. cbn [app].
        rewrite decode_last_after_ascii by (discriminate || lia).
        apply trim_space_fix_iff in Hval. apply Hval. }
  destruct name as [|c name']; [congruence|]. cbn [hd] in *.
  rewrite (classify_line_entry _ c (name' ++ [32; 61] ++ tailv) ((c :: name') ++ [32]) tailv Htrim eq_refl H59 H35 H91).
  - rewrite Hvt. rewrite trim_space_snoc_space by (split; [lia|reflexivity]).
    rewrite (proj2 (trim_space_fix_iff (c :: name')) (conj Hlead Htrail)). reflexivity.
  - change ((c :: name') ++ [32; 61] ++ tailv) with ((c :: name') ++ [32] ++ 61 :: tailv).
    rewrite app_assoc. apply cut_byte_app.
    intros Hin. apply in_app_or in Hin. destruct Hin as [Hin|[Hin|[]]]; [exact (H61 Hin)|discriminate Hin].
Qed.

(* the final newline written by write_option is invisible to the reader *)
Lemma classify_line_newline l : classify_line (l ++ [10]) = classify_line l.
Proof.
  unfold classify_line. rewrite trim_space_snoc_space by (split; [lia|reflexivity]). reflexivity.
Qed.

Lemma write_option_snoc name is_string key value comment force :
  exists body, write_option name is_string key value comment force = body ++ [10] /\
    body = (if comment then s2l "; " else []) ++ name ++ s2l " =" ++
      (if nonempty key
       then [32] ++ key ++ [58] ++ (if force || (is_string && ini_needs_quote value) then quote value else value)
       else if nonempty (if force || (is_string && ini_needs_quote value) then quote value else value)
            then 32 :: (if force || (is_string && ini_needs_quote value) then quote value else value) else []).
Proof.
  eexists. split; [|reflexivity]. rewrite write_option_eq. rewrite !app_assoc. reflexivity.
Qed.

Lemma ascii_nonspace_34 : ascii_nonspace 34.
Proof. split; [lia|reflexivity]. Qed.

Lemma trim_space_quote v : trim_space (quote v) = quote v.
Proof.
  apply trim_space_ascii_ends.
  - discriminate.
  - exact ascii_nonspace_34.
  - unfold quote. change (dq :: quote_body v ++ [dq]) with ((dq :: quote_body v) ++ [dq]).
    rewrite last_last. exact ascii_nonspace_34.
Qed.

(* ---- Target 2 *)
Theorem C12_line_roundtrip_plain : forall name is_string v,
  ini_name_ok name ->
  v <> [] -> all_print v = true -> trim_space v = v -> hd 0 v <> 34 ->
  write_option name is_string [] v false false = name ++ s2l " = " ++ v ++ [10] /\
  classify_line (removelast (write_option name is_string [] v false false)) = LEntry name v false /\
  classify_line (write_option name is_string [] v false false) = LEntry name v false.
Proof.
  intros name is_string v Hname Hv Hp Ht H34.
  assert (Hq : ini_needs_quote v = false).
  { unfold ini_needs_quote. rewrite Hp, Ht, str_eqb_refl.
    destruct v as [|c v']; [reflexivity|]. cbn [hd] in H34.
    destruct (N.eqb_spec c 34); [contradiction|]. 
    destruct c as [|p]; [reflexivity|]. 
    repeat (destruct p as [p|p|]; try reflexivity). contradiction. }
  assert (Hw : write_option name is_string [] v false false = (name ++ s2l " =" ++ (if nonempty v then 32 :: v else [])) ++ [10]).
  { rewrite write_option_eq, Hq. rewrite andb_false_r. cbn [orb nonempty app].
    rewrite <- !app_assoc. reflexivity. }
  assert (Hc : classify_line (name ++ s2l " =" ++ (if nonempty v then 32 :: v else [])) = LEntry name v false).
  { rewrite classify_kv by assumption.
    destruct v as [|c v']; [reflexivity|]. cbn [hd] in H34.
    destruct c as [|p]; [reflexivity|].
    repeat (destruct p as [p|p|]; try reflexivity). contradiction. }
  split; [|split].
  - rewrite Hw. destruct v; [congruence|]. cbn [nonempty]. rewrite <- !app_assoc. reflexivity.
  - rewrite Hw, removelast_last. exact Hc.
  - rewrite Hw, classify_line_newline. exact Hc.
Qed.

(* ---- Target 3 *)
Theorem C12_line_roundtrip_quoted : forall name is_string force v,
  ini_name_ok name -> bytes_ok v ->
  force || (is_string && ini_needs_quote v) = true ->
  write_option name is_string [] v false force = name ++ s2l " = " ++ quote v ++ [10] /\
  classify_line (removelast (write_option name is_string [] v false force)) = LEntry name v true /\
  classify_line (write_option name is_string [] v false force) = LEntry name v true.
Proof.
  intros name is_string force v Hname Hok Hq.
  assert (Hw : write_option name is_string [] v false force =
               (name ++ s2l " =" ++ (if nonempty (quote v) then 32 :: quote v else [])) ++ [10]).
  { rewrite write_option_eq, Hq. cbn [nonempty app]. rewrite <- !app_assoc. reflexivity. }
  assert (Hc : classify_line (name ++ s2l " =" ++ (if nonempty (quote v) then 32 :: quote v else [])) = LEntry name v true).
  { rewrite classify_kv by (exact Hname || apply trim_space_quote).
    rewrite quote_unquote by exact Hok. reflexivity. }
  split; [|split].
  - rewrite Hw. unfold quote at 1. cbn [nonempty]. rewrite <- !app_assoc. reflexivity.
  - rewrite Hw, removelast_last. exact Hc.
  - rewrite Hw, classify_line_newline. exact Hc.
Qed.

(* ---- Target 4 *)
Theorem C12_line_roundtrip_empty : forall name is_string,
  ini_name_ok name ->
  write_option name is_string [] [] false false = name ++ s2l " =" ++ [10] /\
  classify_line (removelast (write_option name is_string [] [] false false)) = LEntry name [] false /\
  classify_line (write_option name is_string [] [] false false) = LEntry name [] false.
Proof.
  intros name is_string Hname.
  assert (Hw : write_option name is_string [] [] false false =
               (name ++ s2l " =" ++ (if nonempty [] then 32 :: [] else [])) ++ [10]).
  { rewrite write_option_eq. change (ini_needs_quote []) with false. rewrite andb_false_r.
    cbn [orb nonempty app]. rewrite <- !app_assoc. reflexivity. }
  assert (Hc : classify_line (name ++ s2l " =" ++ (if nonempty [] then 32 :: [] else [])) = LEntry name [] false).
  { rewrite classify_kv by (exact Hname || reflexivity). reflexivity. }
  split; [|split].
  - rewrite Hw. cbn [nonempty]. rewrite <- !app_assoc. reflexivity.
  - rewrite Hw, removelast_last. exact Hc.
  - rewrite Hw, classify_line_newline. exact Hc.
Qed.

(* ---- Target 5 *)
Lemma classify_line_comment c rest : c = 59 \/ c = 35 -> classify_line (c :: rest) = LSkip.
Proof.
  intros Hc. unfold classify_line, trim_space.
  assert (Hl : lead_ok (c :: rest)).
  { unfold lead_ok. rewrite decode_ascii by lia. cbn [fst]. destruct Hc as [-> | ->]; reflexivity. }
  rewrite (trim_left_id _ Hl).
  destruct (trim_right_prefix (c :: rest)) as [k ->].
  destruct k as [|k]; [reflexivity|]. cbn [firstn]. cbv zeta.
  destruct Hc as [-> | ->]; reflexivity.
Qed.

Theorem C12_commented_lines_are_skipped : forall name is_string key v force,
  classify_line (removelast (write_option name is_string key v true force)) = LSkip /\
  classify_line (write_option name is_string key v true force) = LSkip.
Proof.
  intros name is_string key v force.
  destruct (write_option_snoc name is_string key v true force) as (body & -> & Hb).
  rewrite removelast_last, classify_line_newline.
  assert (H : classify_line body = LSkip).
  { rewrite Hb. change (s2l "; ") with [59; 32]. cbn [app]. apply classify_line_comment. left; reflexivity. }
  split; exact H.
Qed.

(* ---- Target 6 *)
Theorem C12_section_header_roundtrip : forall sname,
  sname <> [] -> trim_space sname = sname ->
  classify_line (s2l "[" ++ sname ++ s2l "]") = LHeader sname /\
  classify_line (s2l "[" ++ sname ++ s2l "]" ++ [10]) = LHeader sname.
Proof.
  intros sname Hne Ht.
  assert (H : classify_line (s2l "[" ++ sname ++ s2l "]") = LHeader sname).
  { change (s2l "[") with [91]. change (s2l "]") with [93]. cbn [app].
    assert (Htrim : trim_space (91 :: sname ++ [93]) = 91 :: sname ++ [93]).
    { apply trim_space_ascii_ends.
      - discriminate.
      - split; [cbn [hd]; lia|reflexivity].
      - change (91 :: sname ++ [93]) with ((91 :: sname) ++ [93]). rewrite last_last.
        split; [lia|reflexivity]. }
    unfold classify_line. rewrite Htrim. cbv zeta.
    change (N.eqb 91 59 || N.eqb 91 35) with false. change (N.eqb 91 91) with true. cbv iota.
    change (91 :: sname ++ [93]) with ((91 :: sname) ++ [93]) at 1. rewrite last_last.
    change (negb (N.eqb 93 93)) with false. cbv iota.
    cbn [tl]. rewrite removelast_last, Ht.
    destruct sname; [congruence|reflexivity]. }
  split; [exact H|].
  rewrite !app_assoc. rewrite classify_line_newline. rewrite <- app_assoc. exact H.
Qed.

(* ---- supplementary: the written entry is one physical line for the reader *)
Lemma lines_aux_cons c r cur : c <> 10 -> lines_aux (c :: r) cur = lines_aux r (c :: cur).
Proof.
  intros H. destruct c as [|p]; [reflexivity|].
  repeat (destruct p as [p|p|]; try reflexivity). contradiction.
Qed.

Definition strip_cr (cur : str) : str := match cur with 13 :: c' => rev c' | _ => rev cur end.

Lemma strip_cr_other x t : x <> 13 -> strip_cr (x :: t) = rev (x :: t).
Proof.
  intros H. destruct x as [|p]; [reflexivity|].
  repeat (destruct p as [p|p|]; try reflexivity). contradiction.
Qed.

Lemma lines_strip_alt_rt (cur : str) :
  match cur with 13 :: c' => rev_append c' [] | _ => rev_append cur [] end =
  match cur with 13 :: c' => rev c' | _ => rev cur end.
Proof.
  destruct cur as [|x t]; [reflexivity|].
  destruct x as [|p]; [symmetry; apply rev_alt|].
  repeat (destruct p as [p|p|]; try (symmetry; apply rev_alt)).
Qed.

Lemma lines_aux_line l : forall cur, ~ In 10 l ->
  lines_aux (l ++ [10]) cur = [strip_cr (rev l ++ cur)].
Proof.
  induction l as [|c l IH]; intros cur H.
  - cbn [app rev lines_aux]. rewrite lines_strip_alt_rt. reflexivity.
  - cbn [app]. rewrite lines_aux_cons by (intros ->; apply H; left; reflexivity).
    rewrite IH by (intros Hin; apply H; right; exact Hin).
    cbn [rev]. rewrite <- app_assoc. reflexivity.
Qed.

Lemma ini_lines_single l : ~ In 10 l -> last l 0 <> 13 -> ini_lines (l ++ [10]) = [l].
Proof.
  intros H10 H13. unfold ini_lines. rewrite lines_aux_line by exact H10. rewrite app_nil_r.
  destruct (rev l) as [|x t] eqn:E.
  - rewrite <- (rev_involutive l), E. reflexivity.
  - assert (El : l = rev t ++ [x]) by (rewrite <- (rev_involutive l), E; reflexivity).
    assert (x <> 13) by (rewrite El, last_last in H13; exact H13).
    rewrite strip_cr_other by assumption. rewrite <- E, rev_involutive. reflexivity.
Qed.

Theorem C12_quoted_entry_is_one_line : forall name is_string force v,
  ~ In 10 name -> bytes_ok v ->
  force || (is_string && ini_needs_quote v) = true ->
  ini_lines (write_option name is_string [] v false force) = [name ++ s2l " = " ++ quote v].
Proof.
  intros name is_string force v Hn Hok Hq.
  assert (Hw : write_option name is_string [] v false force = (name ++ s2l " = " ++ quote v) ++ [10]).
  { rewrite write_option_eq, Hq. unfold quote at 1 2. cbn [nonempty app]. rewrite <- !app_assoc. reflexivity. }
  rewrite Hw. apply ini_lines_single.
  - intros Hin. apply in_app_or in Hin. destruct Hin as [Hin|Hin]; [exact (Hn Hin)|].
    change (s2l " = ") with [32; 61; 32] in Hin. cbn [app] in Hin.
    destruct Hin as [Hin|[Hin|[Hin|Hin]]]; try discriminate Hin.
    unfold quote in Hin. destruct Hin as [Hin|Hin]; [discriminate Hin|].
    apply in_app_or in Hin. destruct Hin as [Hin|[Hin|[]]]; [|discriminate Hin].
    exact (quote_body_no_newline v Hok Hin).
  - unfold quote. change (name ++ s2l " = " ++ dq :: quote_body v ++ [dq])
      with (name ++ s2l " = " ++ (dq :: quote_body v) ++ [dq]).
    rewrite !app_assoc, last_last. discriminate.
Qed.


(* ====================== the hypotheses are satisfiable ====================== *)
Ltac not_in := let H := fresh in intros H; cbv in H; repeat (destruct H as [H|H]; [discriminate H|]); exact H.
Ltac closed_check := first [ vm_compute; reflexivity | cbv; discriminate | not_in ].

Example ex_name_ok : ini_name_ok (s2l "int-map").
Proof. unfold ini_name_ok. repeat apply conj; closed_check. Qed.

(* a name ending in a multi-byte rune is fine too: "caf\u00e9" *)
Example ex_name_ok_utf8 : ini_name_ok [99; 97; 102; 195; 169].
Proof. unfold ini_name_ok. repeat apply conj; closed_check. Qed.

(* 1(b): "a b" *)
Example ex_ascii_ends : [97; 32; 98] <> [] /\ ascii_nonspace (hd 0 [97; 32; 98]) /\ ascii_nonspace (last [97; 32; 98] 0).
Proof. repeat split; try discriminate; cbn; lia. Qed.

(* plain value "h\u00e9 llo \u00e9" (ends in a two-byte rune, contains a space and '=') *)
Definition ex_plain_v : str := [104; 195; 169; 32; 61; 108; 195; 169].
Example ex_plain_hyps :
  ex_plain_v <> [] /\ all_print ex_plain_v = true /\ trim_space ex_plain_v = ex_plain_v /\ hd 0 ex_plain_v <> 34.
Proof. repeat apply conj; closed_check. Qed.
Example ex_plain_run :
  classify_line (removelast (write_option (s2l "int-map") true [] ex_plain_v false false))
  = LEntry (s2l "int-map") ex_plain_v false.
Proof. vm_compute. reflexivity. Qed.

(* quoted value: leading space, a newline, a double quote and an invalid UTF-8 byte *)
Definition ex_quoted_v : str := [32; 97; 10; 34; 255].
Example ex_quoted_hyps :
  bytes_ok ex_quoted_v /\ (false || (true && ini_needs_quote ex_quoted_v)) = true.
Proof.
  split; [|vm_compute; reflexivity].
  intros c H. cbv in H. repeat (destruct H as [<-|H]; [lia|]). destruct H.
Qed.
Example ex_quoted_run :
  classify_line (removelast (write_option (s2l "int-map") true [] ex_quoted_v false false))
  = LEntry (s2l "int-map") ex_quoted_v true.
Proof. vm_compute. reflexivity. Qed.
(* a value that needs no quoting, written quoted because force_quote is set *)
Example ex_forced_run :
  classify_line (removelast (write_option (s2l "int-map") false [] (s2l "12") false true))
  = LEntry (s2l "int-map") (s2l "12") true.
Proof. vm_compute. reflexivity. Qed.

Example ex_header_hyps : s2l "Application Options" <> [] /\
  trim_space (s2l "Application Options") = s2l "Application Options".
Proof. split; closed_check. Qed.

(* the name hypotheses are needed: '=' in the name, a leading ';', a leading '[' *)
Example ex_name_with_eq :
  classify_line (removelast (write_option (s2l "a=b") true [] (s2l "v") false false))
  = LEntry (s2l "a") (s2l "b = v") false.
Proof. vm_compute. reflexivity. Qed.
Example ex_name_semicolon :
  classify_line (removelast (write_option (s2l ";a") true [] (s2l "v") false false)) = LSkip.
Proof. vm_compute. reflexivity. Qed.
Example ex_name_bracket :
  classify_line (removelast (write_option (s2l "[a") true [] (s2l "v") false false))
  = LBad (s2l "malformed section header").
Proof. vm_compute. reflexivity. Qed.
(* a value that is not quoted although it would need it (is_string = false, no force) is not
   read back identically: the quoting condition of C12_line_roundtrip_quoted is needed *)
Example ex_unquoted_padded :
  classify_line (removelast (write_option (s2l "a") false [] (s2l " v ") false false))
  = LEntry (s2l "a") (s2l "v") false.
Proof. vm_compute. reflexivity. Qed.

Print Assumptions decode_last_rev.
Print Assumptions trim_space_idem.
Print Assumptions trim_space_ascii_ends.
Print Assumptions trim_space_fixed_point.
Print Assumptions trim_space_padding.
Print Assumptions C12_line_roundtrip_plain.
Print Assumptions C12_line_roundtrip_quoted.
Print Assumptions C12_line_roundtrip_empty.
Print Assumptions C12_commented_lines_are_skipped.
Print Assumptions C12_section_header_roundtrip.
Print Assumptions C12_quoted_entry_is_one_line.
