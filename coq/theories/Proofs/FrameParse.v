(* Auxiliary lemmas for ParseFrame.v, part 2: specifications of the functions of
   Model/Parse.v up to parse_core: on Ok the exec/out logs are unchanged and the
   pending argument list did not grow; a Panic carries a benign tag. *)
From GoFlags Require Import Base.Str Base.Utf8 Golib.Strings Golib.Strconv
     Model.Types Model.Tag Model.Scan Model.Lookup Model.Convert Model.State Model.Closest Model.Parse.
From GoFlags Require Import Proofs.FrameBase.
From Coq Require Import Lia.
Open Scope N_scope.

Lemma ps_args_with_err s e : ps_args (ps_with_err s e) = ps_args s.
Proof. reflexivity. Qed.
Lemma ps_args_with_retpos s a b : ps_args (ps_with_retpos s a b) = ps_args s.
Proof. reflexivity. Qed.
Lemma ps_args_with_args s a b : ps_args (ps_with_args s a b) = b.
Proof. reflexivity. Qed.

Section Frame.
  Variable cfg : pconfig.
  Variable orc : oracles.
  Variable root : command.
  Variable help_text : rt -> str.

  Lemma ps_args_fill s p : ps_args (fill_parse_state cfg root s p) = ps_args s.
  Proof. reflexivity. Qed.

  (* postcondition shape shared by the option handlers *)
  Definition post_eq (s : pst) (r : rt) (x : pst * rt * option err) : Prop :=
    same_logs r (snd (fst x)) /\ ps_args (fst (fst x)) = ps_args s.
  Definition post_le (s : pst) (r : rt) (x : pst * rt * option err) : Prop :=
    same_logs r (snd (fst x)) /\ (length (ps_args (fst (fst x))) <= length (ps_args s))%nat.

  Lemma post_eq_le s r x : post_eq s r x -> post_le s r x.
  Proof. intros [A B]; split; [exact A|rewrite B; lia]. Qed.

  Lemma add_args_wp args : forall s r,
    wp benign (add_args orc args s r) (post_eq s r).
  Proof.
    induction args as [|a rest IH]; intros s r; cbn [add_args].
    - split; [apply same_logs_refl|reflexivity].
    - destruct (ps_pos s) as [|p ps'].
      + split; [apply same_logs_refl|reflexivity].
      + wp_bind_with convert_wp. intros [v [m|]] _.
        * split; [apply sl_set_val|reflexivity].
        * eapply wp_conseq; [apply IH|]. intros x [A B]. split.
          -- eapply same_logs_trans; [apply sl_set_val|exact A].
          -- rewrite B. destruct (is_slice _); reflexivity.
  Qed.

  Lemma parse_option_wp oc canarg argument s r :
    wp benign (parse_option cfg orc help_text oc canarg argument s r) (post_le s r).
  Proof.
    unfold parse_option. cbv zeta.
    (* setting the option and finishing, for any state whose args are no longer than s's *)
    assert (FIN : forall s0 a r0, same_logs r r0 ->
      (length (ps_args s0) <= length (ps_args s))%nat ->
      wp benign
        (bind (opt_set orc (pc_nsdelim cfg) help_text oc a r0)
              (fun rr => Ok (s0, fst rr, option_map (wrap_marshal cfg oc) (snd rr))))
        (post_le s r)).
    { intros s0 a r0 H0 L. wp_bind_with opt_set_wp. intros [r' e] H. split; cbn [fst snd] in *.
      - eapply same_logs_trans; eauto.
      - exact L. }
    assert (WA : forall s0 a, (length (ps_args s0) <= length (ps_args s))%nat ->
      wp benign
        (match (if o_unquote (oc_opt oc) then match a with 34 :: _ => unquote a | _ => Some a end else Some a) with
         | None => Ok (s0, r, Some (marshal_error cfg oc err_syntax))
         | Some a' => bind (opt_set orc (pc_nsdelim cfg) help_text oc (Some a') r)
                           (fun rr => Ok (s0, fst rr, option_map (wrap_marshal cfg oc) (snd rr)))
         end) (post_le s r)).
    { intros s0 a L.
      destruct (if o_unquote (oc_opt oc) then _ else _).
      - apply FIN; [apply same_logs_refl|exact L].
      - split; [apply same_logs_refl|exact L]. }
    destruct (negb (can_argument (oc_opt oc))).
    - destruct argument.
      + split; [apply same_logs_refl|cbn [fst snd]; lia].
      + apply FIN; [apply same_logs_refl|lia].
    - destruct argument as [a|].
      + apply WA. lia.
      + destruct (if canarg then ps_args s else []) as [|a rest] eqn:E.
        * destruct (o_optional (oc_opt oc)).
          -- generalize (opt_empty (oc_opt oc) r) (sl_opt_empty (oc_opt oc) r).
             induction (o_optval (oc_opt oc)) as [|v vs IH]; intros r0 H0.
             ++ split; [exact H0|cbn [fst snd]; lia].
             ++ wp_bind_with opt_set_wp. intros [r' [e|]] H; cbn [fst snd] in *.
                ** split; cbn [fst snd]; [eapply same_logs_trans; eauto|lia].
                ** apply IH. eapply same_logs_trans; eauto.
          -- split; [apply same_logs_refl|cbn [fst snd]; lia].
        * assert (L : (length (ps_args (ps_with_args s a rest)) <= length (ps_args s))%nat).
          { rewrite ps_args_with_args. destruct canarg; [|discriminate E]. rewrite E. cbn [length]. lia. }
          destruct (negb (is_valid_value _ _)).
          -- destruct (has_percent _); [apply benign_unmodelled|].
             split; [apply same_logs_refl|exact L].
          -- destruct (_ && _).
             ++ split; [apply same_logs_refl|exact L].
             ++ apply WA. exact L.
  Qed.

  Lemma parse_long_wp name argument s r :
    wp benign (parse_long cfg orc help_text name argument s r) (post_le s r).
  Proof.
    unfold parse_long. destruct (find_last _ _).
    - apply parse_option_wp.
    - split; [apply same_logs_refl|cbn [fst snd]; lia].
  Qed.

  Lemma short_loop_wp total rs : forall argument s r,
    wp benign (short_loop cfg orc help_text total rs argument s r) (post_le s r).
  Proof.
    induction rs as [|[[i c] n] rs IH]; intros argument s r; cbn [short_loop].
    - split; [apply same_logs_refl|cbn [fst snd]; lia].
    - destruct (find_last _ _) as [oc|].
      + wp_bind_with parse_option_wp. intros [[s' r'] [e|]] [A B]; cbn [fst snd] in *.
        * split; [exact A|exact B].
        * eapply wp_conseq; [apply IH|]. intros x [C D]. split.
          -- eapply same_logs_trans; eauto.
          -- lia.
      + split; [apply same_logs_refl|cbn [fst snd]; lia].
  Qed.

  Lemma parse_short_wp optname argument s r :
    wp benign (parse_short cfg orc help_text optname argument s r) (post_le s r).
  Proof.
    unfold parse_short.
    destruct (match argument with None => _ | Some _ => _ end) as [o a].
    apply short_loop_wp.
  Qed.

  Lemma parse_non_option_wp s r :
    wp benign (parse_non_option cfg orc root s r) (post_eq s r).
  Proof.
    unfold parse_non_option.
    destruct (ps_pos s); [|apply add_args_wp].
    cbv zeta.
    destruct (_ && _); [|apply add_args_wp].
    destruct (find_last _ _).
    - split; [apply sl_set_active|reflexivity].
    - destruct (negb _); [|apply add_args_wp].
      wp_bind_with add_args_wp. intros [[s' r'] e] H. exact H.
  Qed.

  Definition step_post (s : pst) (r : rt) (sr : step_res) : Prop :=
    match sr with
    | Continue s' r' => same_logs r r' /\ (length (ps_args s') < length (ps_args s))%nat
    | Break s' r' => same_logs r r'
    end.

  Lemma step_wp s r : wp benign (step cfg orc root help_text s r) (step_post s r).
  Proof.
    unfold step.
    destruct (ps_args s) as [|a rest] eqn:E; [apply same_logs_refl|].
    cbv zeta.
    set (s0 := ps_with_args s a rest).
    assert (E0 : ps_args s0 = rest) by reflexivity.
    clearbody s0.
    destruct (_ && str_eqb a _).
    { wp_bind_with add_args_wp. intros [[s' r'] e] [A B]. exact A. }
    destruct (negb (argument_is_option a)).
    { destruct (_ && _).
      - wp_bind_with add_args_wp. intros [[s1 r1] [e1|]] [A B]; cbn [fst snd] in *.
        + exact A.
        + wp_bind_with add_args_wp. intros [[s2 r2] e2] [C D]; cbn [fst snd] in *.
          eapply same_logs_trans; eauto.
      - wp_bind_with parse_non_option_wp. intros [[s' r'] [e|]] [A B]; cbn [fst snd] in *.
        + exact A.
        + split; [exact A|]. rewrite B, E0, E. cbn [length]. lia. }
    destruct (split_option a) as [[islong optname] argument].
    apply wp_bind.
    eapply wp_conseq with (Q := post_le s0 r).
    { destruct islong; [apply parse_long_wp|apply parse_short_wp]. }
    intros [[s' r'] [er|]] [A B]; cbn [fst snd] in *; rewrite E0 in B.
    2:{ split; [exact A|rewrite E; cbn [length]; lia]. }
    destruct (_ || _); [exact A|].
    destruct (po_ignore _).
    { wp_bind_with add_args_wp. intros [[s2 r2] e2] [C D]; cbn [fst snd] in *.
      split; [eapply same_logs_trans; eauto|]. rewrite D, E. cbn [length]. lia. }
    unfold run_handler.
    assert (T : (length (tl (ps_args s')) <= length (ps_args s'))%nat).
    { destruct (ps_args s'); cbn [tl length]; lia. }
    assert (SL : same_logs r (log_unknown r' optname argument (ps_args s'))).
    { eapply same_logs_trans; [exact A|apply sl_log_unknown]. }
    destruct (pc_handler cfg); cbn [wp step_post]; try exact SL;
      (split; [exact SL|rewrite ps_args_with_args, E; cbn [length]; lia]).
  Qed.

  Lemma run_loop_wp fuel : forall s r,
    (length (ps_args s) < fuel)%nat ->
    wp benign (run_loop cfg orc root help_text fuel s r) (fun x => same_logs r (snd x)).
  Proof.
    induction fuel as [|f IH]; intros s r L; [lia|].
    cbn [run_loop].
    destruct (ps_args s) as [|a rest] eqn:E; [apply same_logs_refl|].
    wp_bind_with step_wp. intros [s' r'|s' r'] H; cbn [step_post] in H.
    - destruct H as [A B]. eapply wp_conseq; [apply IH|].
      + rewrite E in B. cbn [length] in *. lia.
      + intros x Hx. eapply same_logs_trans; eauto.
    - exact H.
  Qed.

  (* without the fuel precondition: only the Ok case is constrained *)
  Lemma run_loop_wp_weak fuel : forall s r,
    wp (fun _ => True) (run_loop cfg orc root help_text fuel s r) (fun x => same_logs r (snd x)).
  Proof.
    induction fuel as [|f IH]; intros s r; [exact I|].
    cbn [run_loop].
    destruct (ps_args s) as [|a rest] eqn:E; [apply same_logs_refl|].
    apply wp_bind.
    eapply wp_mono; [apply step_wp|exact (fun _ _ => I)|].
    intros [s' r'|s' r'] H; cbn [step_post] in H.
    - destruct H as [A B]. eapply wp_conseq; [apply IH|].
      intros x Hx. eapply same_logs_trans; eauto.
    - exact H.
  Qed.

  Lemma clear_defaults_wp ocs : forall s r,
    wp benign (clear_defaults cfg orc help_text ocs s r) (fun x => same_logs r (snd x)).
  Proof.
    induction ocs as [|oc ocs IH]; intros s r; cbn [clear_defaults]; [apply same_logs_refl|].
    wp_bind_with opt_clear_default_wp. intros [r' e] H; cbn [fst] in H.
    eapply wp_conseq; [apply IH|]. intros x Hx. eapply same_logs_trans; eauto.
  Qed.

  Lemma parse_core_wp args r :
    wp benign (parse_core cfg orc root help_text args r) (fun x => same_logs r (snd x)).
  Proof.
    unfold parse_core.
    apply wp_bind. eapply wp_conseq.
    { apply run_loop_wp. change (ps_args (initial_pst cfg root args)) with args. lia. }
    intros [s r1] H; cbn [snd] in H.
    destruct (ps_err s); [exact H|].
    wp_bind_with clear_defaults_wp. intros [s1 r2] H2; cbn [snd] in *.
    eapply same_logs_trans; eauto.
  Qed.
End Frame.
