(* Properties C13 ("an INI entry means the same as the corresponding flag") and
   C14 ("INI reading is robust and pinpoints errors") of the INI model (Model/Ini.v). *)
From GoFlags Require Import Base.Str Base.Utf8 Golib.Strings Golib.Strconv
     Model.Types Model.Tag Model.Scan Model.Lookup Model.Convert Model.State Model.Ini.
From Coq Require Import Lia ZifyN ZifyNat ZifyBool.
Open Scope N_scope.

(* ================================================================== 1. readFullLine *)
Theorem read_full_line_concat : forall chunks : list str, read_full_line chunks = concat chunks.
Proof. reflexivity. Qed.

(* in particular: however a line is cut into chunks, the line is reassembled exactly *)
Corollary read_full_line_chunking : forall (chunks : list str) (line : str),
  concat chunks = line -> read_full_line chunks = line.
Proof. intros chunks line H. rewrite read_full_line_concat. exact H. Qed.

(* ================================================================== read_lines: one step *)
Lemma read_lines_cons l rest n cur acc :
  read_lines (l :: rest) n cur acc =
  match classify_line l with
  | LSkip => read_lines rest (n + 1) cur acc
  | LHeader h => read_lines rest (n + 1) h (sec_add acc h None)
  | LEntry k v q =>
    read_lines rest (n + 1) cur
               (sec_add acc cur (Some {| ie_name := k; ie_value := v; ie_quoted := q; ie_line := n + 1 |}))
  | LBad m => Err (EIni (n + 1) m)
  end.
Proof. reflexivity. Qed.

(* a line that classifies as LSkip, LHeader or LEntry *)
Definition line_ok (l : str) : Prop :=
  match classify_line l with LBad _ => False | _ => True end.

Lemma line_ok_iff l :
  line_ok l <->
  (classify_line l = LSkip \/ (exists h, classify_line l = LHeader h) \/
   (exists k v q, classify_line l = LEntry k v q)).
Proof.
  unfold line_ok. destruct (classify_line l) as [|h|k v q|m]; split; intros H; try exact I.
  - left; reflexivity.
  - right; left; eauto.
  - right; right; eauto.
  - destruct H.
  - destruct H as [H|[[h H]|[k [v [q H]]]]]; discriminate.
Qed.

(* ================================================================== 2. first bad line *)
Theorem C14_first_bad_line : forall pre bad post m n cur acc,
  Forall line_ok pre ->
  classify_line bad = LBad m ->
  read_lines (pre ++ bad :: post) n cur acc = Err (EIni (n + N.of_nat (length pre) + 1) m).
Proof.
  induction pre as [|a pre IH]; intros bad post m n cur acc Hpre Hbad.
  - cbn [app]. rewrite read_lines_cons, Hbad. f_equal. f_equal. cbn [length]. lia.
  - inversion Hpre as [|x y Ha Hp]; subst.
    cbn [app]. rewrite read_lines_cons. unfold line_ok in Ha.
    destruct (classify_line a) as [|h|k v q|m']; try contradiction;
      rewrite (IH bad post m) by assumption; f_equal; f_equal; cbn [length]; lia.
Qed.

(* as used by read_ini: lines are numbered from 1 *)
Corollary C14_first_bad_line_read_ini : forall text pre bad post m,
  ini_lines text = pre ++ bad :: post ->
  Forall line_ok pre ->
  classify_line bad = LBad m ->
  read_ini text = Err (EIni (N.of_nat (length pre) + 1) m).
Proof.
  intros text pre bad post m Hl Hpre Hbad. unfold read_ini. rewrite Hl.
  rewrite (C14_first_bad_line pre bad post m) by assumption. f_equal.
Qed.

Example C14_first_bad_line_ex :
  let pre := [s2l "a = 1"; s2l "; comment"; s2l "[sec]"; s2l ""] in
  let bad := s2l "[broken" in
  (forallb (fun l => match classify_line l with LBad _ => false | _ => true end) pre = true
   /\ classify_line bad = LBad (s2l "malformed section header"))
  /\ read_ini (s2l "a = 1" ++ [10] ++ s2l "; comment" ++ [13; 10] ++ s2l "[sec]" ++ [10; 10] ++
               s2l "[broken" ++ [10] ++ s2l "b = 2")
     = Err (EIni 5 (s2l "malformed section header")).
Proof. vm_compute. repeat split. Qed.

(* ================================================================== 3. entry line numbers *)
(* the entries of the first section called s *)
Fixpoint sec_get (f : ini_file) (s : str) : option (list ini_entry) :=
  match f with
  | [] => None
  | (n, es) :: f' => if str_eqb n s then Some es else sec_get f' s
  end.

(* the section current after the lines pre, starting from section cur *)
Fixpoint cur_after (pre : list str) (cur : str) : str :=
  match pre with
  | [] => cur
  | l :: r => match classify_line l with
              | LHeader h => cur_after r h
              | _ => cur_after r cur
              end
  end.

Definition olist {A} (o : option A) : list A := match o with Some x => [x] | None => [] end.
Definition odflt {A} (o : option (list A)) : list A := match o with Some x => x | None => [] end.

Lemma sec_get_add : forall f nm e s,
  sec_get (sec_add f nm e) s =
  if str_eqb nm s then Some (odflt (sec_get f nm) ++ olist e) else sec_get f s.
Proof.
  induction f as [|[n es] f IH]; intros nm e s.
  - cbn [sec_add sec_get odflt]. destruct (str_eqb nm s); [|reflexivity].
    destruct e; reflexivity.
  - cbn [sec_add]. destruct (str_eqb_spec n nm) as [->|Hn].
    + cbn [sec_get]. rewrite str_eqb_refl. cbn [odflt].
      destruct (str_eqb nm s); [|reflexivity].
      destruct e; cbn [olist]; [reflexivity|]. rewrite app_nil_r. reflexivity.
    + cbn [sec_get]. rewrite IH.
      destruct (str_eqb_spec n nm) as [E|_]; [contradiction|].
      destruct (str_eqb_spec n s) as [->|Hs]; [|reflexivity].
      destruct (str_eqb_spec nm s) as [E|_]; [congruence|reflexivity].
Qed.

Lemma sec_add_extends f nm e s es :
  sec_get f s = Some es -> exists x, sec_get (sec_add f nm e) s = Some (es ++ x).
Proof.
  intros H. rewrite sec_get_add. destruct (str_eqb_spec nm s) as [->|_].
  - rewrite H. cbn [odflt]. eauto.
  - exists []. rewrite app_nil_r. exact H.
Qed.

(* reading further lines only appends to the sections that already exist *)
Lemma read_lines_extends : forall ls n cur acc f s es,
  read_lines ls n cur acc = Ok f ->
  sec_get acc s = Some es ->
  exists es', sec_get f s = Some (es ++ es').
Proof.
  induction ls as [|a ls IH]; intros n cur acc f s es H Hs.
  - cbn in H. injection H as <-. exists []. rewrite app_nil_r. exact Hs.
  - rewrite read_lines_cons in H. destruct (classify_line a) as [|h|k v q|m].
    + eapply IH; eassumption.
    + destruct (sec_add_extends acc h None s es Hs) as [x Hx].
      destruct (IH _ _ _ _ _ _ H Hx) as [y Hy]. exists (x ++ y). rewrite app_assoc. exact Hy.
    + destruct (sec_add_extends acc cur (Some {| ie_name := k; ie_value := v; ie_quoted := q; ie_line := n + 1 |})
                                s es Hs) as [x Hx].
      destruct (IH _ _ _ _ _ _ H Hx) as [y Hy]. exists (x ++ y). rewrite app_assoc. exact Hy.
    + discriminate.
Qed.

(* an entry line at (0-based) position [length pre] is recorded, in the section current
   at that point, with the 1-based physical line number n + length pre + 1 *)
Theorem C14_entry_line_numbers : forall pre l post k v q n cur acc f,
  classify_line l = LEntry k v q ->
  read_lines (pre ++ l :: post) n cur acc = Ok f ->
  exists es,
    sec_get f (cur_after pre cur) = Some es /\
    In {| ie_name := k; ie_value := v; ie_quoted := q; ie_line := n + N.of_nat (length pre) + 1 |} es.
Proof.
  induction pre as [|a pre IH]; intros l post k v q n cur acc f Hl H.
  - cbn [app] in H. rewrite read_lines_cons, Hl in H. cbn [cur_after length].
    replace (n + N.of_nat 0 + 1) with (n + 1) by lia.
    set (e := {| ie_name := k; ie_value := v; ie_quoted := q; ie_line := n + 1 |}) in *.
    assert (Hg : sec_get (sec_add acc cur (Some e)) cur = Some (odflt (sec_get acc cur) ++ [e])).
    { rewrite sec_get_add, str_eqb_refl. reflexivity. }
    destruct (read_lines_extends _ _ _ _ _ _ _ H Hg) as [y Hy].
    eexists. split; [exact Hy|]. apply in_or_app. left. apply in_or_app. right. left. reflexivity.
  - cbn [app] in H. rewrite read_lines_cons in H. cbn [cur_after].
    replace (n + N.of_nat (length (a :: pre)) + 1) with (n + 1 + N.of_nat (length pre) + 1)
      by (cbn [length]; lia).
    destruct (classify_line a) as [|h|k' v' q'|m]; try discriminate; eapply IH; eassumption.
Qed.

(* conversely: every entry of the result was either there before or comes from an entry
   line, and then carries that line's physical number and sits in the section current there *)
Theorem C14_entry_line_numbers_conv : forall ls n cur acc f s es e,
  read_lines ls n cur acc = Ok f ->
  sec_get f s = Some es ->
  In e es ->
  (exists es0, sec_get acc s = Some es0 /\ In e es0) \/
  (exists j l, nth_error ls j = Some l /\
               classify_line l = LEntry (ie_name e) (ie_value e) (ie_quoted e) /\
               ie_line e = n + N.of_nat j + 1 /\
               cur_after (firstn j ls) cur = s).
Proof.
  induction ls as [|a ls IH]; intros n cur acc f s es e H Hs Hin.
  - cbn in H. injection H as <-. left. eauto.
  - rewrite read_lines_cons in H. destruct (classify_line a) as [|h|k v q|m] eqn:Ha.
    + destruct (IH _ _ _ _ _ _ _ H Hs Hin) as [L|[j [l [Hj [Hc [Hn Hcur]]]]]]; [left; exact L|].
      right. exists (S j), l. cbn [nth_error firstn cur_after]. rewrite Ha.
      repeat split; try assumption. lia.
    + destruct (IH _ _ _ _ _ _ _ H Hs Hin) as [[es0 [H0 Hi0]]|[j [l [Hj [Hc [Hn Hcur]]]]]].
      * left. rewrite sec_get_add in H0. destruct (str_eqb_spec h s) as [->|_].
        -- injection H0 as <-. cbn [olist] in Hi0. rewrite app_nil_r in Hi0.
           destruct (sec_get acc s) as [x|]; [eauto|destruct Hi0].
        -- eauto.
      * right. exists (S j), l. cbn [nth_error firstn cur_after]. rewrite Ha.
        repeat split; try assumption. lia.
    + destruct (IH _ _ _ _ _ _ _ H Hs Hin) as [[es0 [H0 Hi0]]|[j [l [Hj [Hc [Hn Hcur]]]]]].
      * rewrite sec_get_add in H0. destruct (str_eqb_spec cur s) as [->|_].
        -- injection H0 as <-. cbn [olist] in Hi0. apply in_app_or in Hi0. destruct Hi0 as [Hi0|[<-|[]]].
           ++ left. destruct (sec_get acc s) as [x|]; [eauto|destruct Hi0].
           ++ right. exists O, a. cbn [nth_error firstn cur_after ie_name ie_value ie_quoted ie_line].
              repeat split; try assumption. lia.
        -- left. eauto.
      * right. exists (S j), l. cbn [nth_error firstn cur_after]. rewrite Ha.
        repeat split; try assumption. lia.
    + discriminate.
Qed.

Example C14_entry_line_numbers_ex :
  read_ini (s2l "; c" ++ [10] ++ s2l "a = 1" ++ [10; 10] ++ s2l "[s]" ++ [10] ++ s2l "b = ""x""" ++ [10])
  = Ok [([], [{| ie_name := s2l "a"; ie_value := s2l "1"; ie_quoted := false; ie_line := 2 |}]);
        (s2l "s", [{| ie_name := s2l "b"; ie_value := s2l "x"; ie_quoted := true; ie_line := 5 |}])].
Proof. vm_compute. reflexivity. Qed.

(* ================================================================== 4. noise invariance *)
Definition forget_entry (e : ini_entry) : str * str * bool := (ie_name e, ie_value e, ie_quoted e).
Definition forget_lines (f : ini_file) : list (str * list (str * str * bool)) :=
  map (fun p : str * list ini_entry => (fst p, map forget_entry (snd p))) f.

Lemma forget_sec_add : forall a a' s e e',
  forget_lines a = forget_lines a' ->
  option_map forget_entry e = option_map forget_entry e' ->
  forget_lines (sec_add a s e) = forget_lines (sec_add a' s e').
Proof.
  induction a as [|[n es] a IH]; intros [|[n' es'] a'] s e e' H He; cbn in H; try discriminate.
  - destruct e, e'; cbn in He; try discriminate; cbn; congruence.
  - injection H as Hn Hes Hr. subst n'. cbn [sec_add]. destruct (str_eqb n s).
    + cbn [forget_lines map fst snd]. f_equal; [|exact Hr]. f_equal.
      destruct e, e'; cbn in He; try discriminate; [|exact Hes].
      rewrite !map_app. cbn [map]. congruence.
    + cbn [forget_lines map fst snd]. f_equal; [congruence|]. apply IH; assumption.
Qed.

(* same lines read with another starting line number / line-forgetting-equal accumulator *)
Definition shift_rel (n n' : N) (r1 r2 : res ini_file) : Prop :=
  match r1, r2 with
  | Ok f1, Ok f2 => forget_lines f1 = forget_lines f2
  | Err (EIni k1 m1), Err (EIni k2 m2) => m1 = m2 /\ k1 + n' = k2 + n
  | _, _ => False
  end.

Lemma shift_rel_step n n' r1 r2 : shift_rel (n + 1) (n' + 1) r1 r2 -> shift_rel n n' r1 r2.
Proof.
  unfold shift_rel. destruct r1 as [f1|[| k1 m1 |]|], r2 as [f2|[| k2 m2 |]|]; auto.
  intros [E L]. split; [exact E|lia].
Qed.

Lemma read_lines_shift : forall ls n n' cur acc acc',
  forget_lines acc = forget_lines acc' ->
  shift_rel n n' (read_lines ls n cur acc) (read_lines ls n' cur acc').
Proof.
  induction ls as [|a ls IH]; intros n n' cur acc acc' H.
  - cbn. exact H.
  - rewrite !read_lines_cons. destruct (classify_line a) as [|h|k v q|m].
    + apply shift_rel_step, IH, H.
    + apply shift_rel_step, IH. apply forget_sec_add; [exact H|reflexivity].
    + apply shift_rel_step, IH. apply forget_sec_add; [exact H|reflexivity].
    + cbn. split; [reflexivity|lia].
Qed.

(* an error always names one of the lines read *)
Lemma read_lines_err_range : forall ls n cur acc k m,
  read_lines ls n cur acc = Err (EIni k m) -> n < k <= n + N.of_nat (length ls).
Proof.
  induction ls as [|a ls IH]; intros n cur acc k m H.
  - discriminate.
  - rewrite read_lines_cons in H. cbn [length].
    destruct (classify_line a) as [|h|k' v q|m'];
      try (apply IH in H; lia).
    injection H as <- _. lia.
Qed.

(* Inserting one line that is skipped (blank or comment) does not change the file read,
   up to line numbers; a failure stays a failure with the same message, the reported
   line moving by one exactly when the offending line comes after the inserted one. *)
Theorem C14_noise_invariance : forall pre l post n cur acc,
  classify_line l = LSkip ->
  match read_lines (pre ++ l :: post) n cur acc, read_lines (pre ++ post) n cur acc with
  | Ok f1, Ok f2 => forget_lines f1 = forget_lines f2
  | Err (EIni k1 m1), Err (EIni k2 m2) =>
    m1 = m2 /\ k1 = (if k2 <=? n + N.of_nat (length pre) then k2 else k2 + 1)
  | _, _ => False
  end.
Proof.
  induction pre as [|a pre IH]; intros l post n cur acc Hl.
  - cbn [app length]. rewrite read_lines_cons, Hl.
    pose proof (read_lines_shift post (n + 1) n cur acc acc eq_refl) as S.
    pose proof (read_lines_err_range post n cur acc) as R.
    unfold shift_rel in S.
    destruct (read_lines post (n + 1) cur acc) as [f1|[| k1 m1 |]|], (read_lines post n cur acc) as [f2|[| k2 m2 |]|];
      try exact S; try contradiction.
    destruct S as [-> S]. split; [reflexivity|].
    specialize (R _ _ eq_refl). destruct (N.leb_spec k2 (n + N.of_nat 0)); lia.
  - cbn [app]. rewrite !read_lines_cons.
    replace (n + N.of_nat (length (a :: pre))) with (n + 1 + N.of_nat (length pre)) by (cbn [length]; lia).
    destruct (classify_line a) as [|h|k v q|m]; try (apply IH; exact Hl).
    split; [reflexivity|]. destruct (N.leb_spec (n + 1) (n + 1 + N.of_nat (length pre))); lia.
Qed.

(* any number of skipped lines inserted anywhere *)
Inductive skip_ext : list str -> list str -> Prop :=
| se_nil : skip_ext [] []
| se_keep l a b : skip_ext a b -> skip_ext (l :: a) (l :: b)
| se_ins l a b : classify_line l = LSkip -> skip_ext a b -> skip_ext a (l :: b).

Theorem C14_noise_invariance_multi : forall ls ls',
  skip_ext ls ls' ->
  forall n n' cur acc acc',
  forget_lines acc = forget_lines acc' ->
  match read_lines ls n cur acc, read_lines ls' n' cur acc' with
  | Ok f1, Ok f2 => forget_lines f1 = forget_lines f2
  | Err (EIni _ m1), Err (EIni _ m2) => m1 = m2
  | _, _ => False
  end.
Proof.
  induction 1 as [|l a b _ IH|l a b Hl _ IH]; intros n n' cur acc acc' H.
  - cbn. exact H.
  - rewrite !read_lines_cons. destruct (classify_line l) as [|h|k v q|m].
    + apply IH. exact H.
    + apply IH. apply forget_sec_add; [exact H|reflexivity].
    + apply IH. apply forget_sec_add; [exact H|reflexivity].
    + reflexivity.
  - rewrite (read_lines_cons l b), Hl. apply IH. exact H.
Qed.

Example C14_noise_invariance_ex :
  classify_line (s2l "  # a comment ") = LSkip /\ classify_line (s2l "   ") = LSkip /\
  classify_line [] = LSkip /\ classify_line (s2l ";x=[") = LSkip.
Proof. vm_compute. repeat split. Qed.

(* ================================================================== 5. CRLF *)
Definition crlf (text : str) : str := flat_map (fun c => if N.eqb c 10 then [13; 10] else [c]) text.

Lemma lines_strip_alt (cur : str) :
  match cur with 13 :: c' => rev_append c' [] | _ => rev_append cur [] end =
  match cur with 13 :: c' => rev c' | _ => rev cur end.
Proof.
  destruct cur as [|x t]; [reflexivity|].
  destruct x as [|p]; [symmetry; apply rev_alt|].
  repeat (destruct p as [p|p|]; try (symmetry; apply rev_alt)).
Qed.

Lemma lines_aux_nl r cur :
  lines_aux (10 :: r) cur = (match cur with 13 :: c' => rev c' | _ => rev cur end) :: lines_aux r [].
Proof. cbn [lines_aux]. rewrite lines_strip_alt. reflexivity. Qed.

Lemma lines_aux_other c r cur : c <> 10 -> lines_aux (c :: r) cur = lines_aux r (c :: cur).
Proof.
  intros H.
  destruct c as [|[[[[p|p|]|[p|p|]|]|[[p|p|]|[p|p|]|]|]|[[[p|p|]|[p|p|]|]|[[p|p|]|[p|p|]|]|]|]];
    try reflexivity; congruence.
Qed.

Lemma head_not_cr (c : N) (cur : str) :
  c <> 13 -> match c :: cur with 13 :: c' => rev c' | _ => rev (c :: cur) end = rev (c :: cur).
Proof.
  intros H.
  destruct c as [|[[[[p|p|]|[p|p|]|]|[[p|p|]|[p|p|]|]|]|[[[p|p|]|[p|p|]|]|[[p|p|]|[p|p|]|]|]|]];
    try reflexivity; congruence.
Qed.

Lemma lines_aux_crlf : forall s cur,
  ~ In 13 s -> hd 0 cur <> 13 ->
  lines_aux (crlf s) cur = lines_aux s cur.
Proof.
  induction s as [|c s IH]; intros cur Hs Hc.
  - reflexivity.
  - assert (Hc13 : c <> 13) by (intros ->; apply Hs; left; reflexivity).
    assert (Hs' : ~ In 13 s) by (intros X; apply Hs; right; exact X).
    unfold crlf. cbn [flat_map]. fold (crlf s).
    destruct (N.eqb_spec c 10) as [->|Hn].
    + cbn [app]. rewrite (lines_aux_other 13) by discriminate.
      rewrite !lines_aux_nl. rewrite IH by (try assumption; cbn; discriminate).
      f_equal. destruct cur as [|x cur]; [reflexivity|]. cbn [hd] in Hc.
      rewrite head_not_cr by assumption. reflexivity.
    + cbn [app]. rewrite !lines_aux_other by assumption. apply IH; assumption.
Qed.

Theorem C14_crlf : forall text, ~ In 13 text -> ini_lines (crlf text) = ini_lines text.
Proof. intros text H. unfold ini_lines. apply lines_aux_crlf; [exact H|cbn; discriminate]. Qed.

Corollary C14_crlf_read_ini : forall text, ~ In 13 text -> read_ini (crlf text) = read_ini text.
Proof. intros text H. unfold read_ini. rewrite C14_crlf by exact H. reflexivity. Qed.

Example C14_crlf_ex :
  let t := s2l "a=1" ++ [10] ++ s2l "[s]" ++ [10; 10] ++ s2l "b=2" in
  forallb (fun c => negb (N.eqb c 13)) t = true /\
  ini_lines (crlf t) = [s2l "a=1"; s2l "[s]"; []; s2l "b=2"] /\
  (* the hypothesis is needed: a CR that is already there is only dropped once *)
  ini_lines (crlf [13; 10]) <> ini_lines [13; 10].
Proof. vm_compute. repeat split. discriminate. Qed.

(* ================================================================== 6. unknown section *)
Theorem C14_unknown_section : forall orc delim ht as_defaults root name es rest r q dfl,
  matching_groups root name = [] ->
  apply_sections orc delim ht false as_defaults root ((name, es) :: rest) r q dfl
    = Ok (r, q, Some (EFlags ErrUnknownGroup (s2l "could not find option group `" ++ name ++ s2l "'")))
  /\
  apply_sections orc delim ht true as_defaults root ((name, es) :: rest) r q dfl
    = apply_sections orc delim ht true as_defaults root rest r q dfl.
Proof.
  intros orc delim ht asd root name es rest r q dfl H.
  cbn [apply_sections]. rewrite H. split; reflexivity.
Qed.

(* ================================================================== 7. unknown option *)
Theorem C14_unknown_option : forall orc delim ht as_defaults groups e r q dfl,
  resolve_entry delim groups (ie_name e) = None ->
  apply_entry orc delim ht false as_defaults groups e r q dfl
    = Ok (r, q, dfl, Some (EIni (ie_line e) (s2l "unknown option: " ++ ie_name e)))
  /\
  apply_entry orc delim ht true as_defaults groups e r q dfl = Ok (r, q, dfl, None).
Proof.
  intros orc delim ht asd groups e r q dfl H.
  unfold apply_entry. rewrite H. split; reflexivity.
Qed.

(* consequences for a whole section: the first unknown entry stops the section with its
   line number / is skipped and the remaining entries are applied *)
Corollary C14_unknown_option_entries : forall orc delim ht as_defaults groups e rest r q dfl,
  resolve_entry delim groups (ie_name e) = None ->
  apply_entries orc delim ht false as_defaults groups (e :: rest) r q dfl
    = Ok (r, q, dfl, Some (EIni (ie_line e) (s2l "unknown option: " ++ ie_name e)))
  /\
  apply_entries orc delim ht true as_defaults groups (e :: rest) r q dfl
    = apply_entries orc delim ht true as_defaults groups rest r q dfl.
Proof.
  intros orc delim ht asd groups e rest r q dfl H.
  destruct (C14_unknown_option orc delim ht asd groups e r q dfl H) as [H1 H2].
  cbn [apply_entries]. rewrite H1, H2. split; reflexivity.
Qed.

(* ================================================================== 8. name resolution priority *)
Definition p_ini (name : str) (oc : octx) : bool :=
  str_eqb (to_lower (o_ininame (oc_opt oc))) (to_lower name).
Definition p_field (name : str) (oc : octx) : bool := str_eqb name (o_field (oc_opt oc)).
Definition p_long (delim name : str) (oc : octx) : bool := str_eqb name (long_name delim oc).
Definition p_short (name : str) (oc : octx) : bool :=
  negb (N.eqb (o_short (oc_opt oc)) 0) && str_eqb name (encode_rune (o_short (oc_opt oc))).

Definition best_match (delim : str) (ocs : list octx) (name : str) : option octx :=
  match find (p_ini name) ocs with
  | Some oc => Some oc
  | None =>
    match find (p_field name) ocs with
    | Some oc => Some oc
    | None =>
      match find (p_long delim name) ocs with
      | Some oc => Some oc
      | None => find (p_short name) ocs
      end
    end
  end.

(* the loop invariant: a match of priority prio is already held in ret *)
Definition bm_gen (delim name : str) (prio : nat) (ret : option octx) (ocs : list octx) : option octx :=
  if Nat.ltb prio 4 then
    match find (p_ini name) ocs with
    | Some oc => Some oc
    | None =>
      if Nat.ltb prio 3 then
        match find (p_field name) ocs with
        | Some oc => Some oc
        | None =>
          if Nat.ltb prio 2 then
            match find (p_long delim name) ocs with
            | Some oc => Some oc
            | None =>
              if Nat.ltb prio 1 then
                match find (p_short name) ocs with
                | Some oc => Some oc
                | None => ret
                end
              else ret
            end
          else ret
        end
      else ret
    end
  else ret.

Lemma obn_aux_cons delim oc rest name prio ret :
  option_by_name_aux delim (oc :: rest) name prio ret =
  let '(prio, ret) := if p_ini name oc && Nat.ltb prio 4 then (4%nat, Some oc) else (prio, ret) in
  let '(prio, ret) := if p_field name oc && Nat.ltb prio 3 then (3%nat, Some oc) else (prio, ret) in
  let '(prio, ret) := if p_long delim name oc && Nat.ltb prio 2 then (2%nat, Some oc) else (prio, ret) in
  let '(prio, ret) := if p_short name oc && Nat.ltb prio 1 then (1%nat, Some oc) else (prio, ret) in
  option_by_name_aux delim rest name prio ret.
Proof. reflexivity. Qed.

Lemma obn_aux_gen delim name : forall ocs prio ret,
  option_by_name_aux delim ocs name prio ret = bm_gen delim name prio ret ocs.
Proof.
  induction ocs as [|oc rest IH]; intros prio ret.
  - cbn [option_by_name_aux]. unfold bm_gen. cbn [find].
    destruct (Nat.ltb prio 4), (Nat.ltb prio 3), (Nat.ltb prio 2), (Nat.ltb prio 1); reflexivity.
  - rewrite obn_aux_cons. unfold bm_gen at 1. cbn [find].
    destruct (p_ini name oc), (p_field name oc), (p_long delim name oc), (p_short name oc);
      destruct prio as [|[|[|[|[|p]]]]]; cbn [andb Nat.ltb Nat.leb];
      rewrite IH; unfold bm_gen; cbn [Nat.ltb Nat.leb]; reflexivity.
Qed.

Theorem C13_priority : forall delim ocs name,
  option_by_name delim ocs name = best_match delim ocs name.
Proof.
  intros delim ocs name. unfold option_by_name. rewrite obn_aux_gen.
  unfold bm_gen, best_match. cbn [Nat.ltb Nat.leb].
  destruct (find (p_ini name) ocs); [reflexivity|].
  destruct (find (p_field name) ocs); [reflexivity|].
  destruct (find (p_long delim name) ocs); [reflexivity|].
  destruct (find (p_short name) ocs); reflexivity.
Qed.

(* ================================================================== 9. same Set path *)
Definition ini_quotes (q : quotes) (fid : nat) (quoted : bool) : quotes :=
  match q_get q fid with
  | Some _ => if negb quoted then q_set q fid false else q
  | None => q_set q fid quoted
  end.

Theorem C13_same_set_path : forall orc delim ht ignore_unknown groups e r q dfl oc,
  resolve_entry delim groups (ie_name e) = Some oc ->
  can_argument (oc_opt oc) || nonempty (ie_value e) = true ->
  is_map (o_ty (oc_opt oc)) = false ->
  let fid := o_fid (oc_opt oc) in
  let result := apply_entry orc delim ht ignore_unknown false groups e r q dfl in
  match opt_set orc delim ht oc (Some (ie_value e)) r with
  | Ok (r1, None) =>
    exists r2,
      result = Ok (r2, ini_quotes q fid (ie_quoted e), dfl, None) /\
      rt_vals r2 = rt_vals r1 /\ rt_active r2 = rt_active r1 /\ rt_logs r2 = rt_logs r1 /\
      (forall k, k <> fid -> rt_fl r2 k = rt_fl r1 k) /\
      rt_fl r2 fid = fl_set_ininame (fl_set_prevent (rt_fl r1 fid) true) (ie_name e)
  | Ok (r1, Some er) => result = Ok (r1, q, dfl, Some (EIni (ie_line e) (err_text er)))
  | Err er => result = Err er
  | Panic w => result = Panic w
  end.
Proof.
  intros orc delim ht iu groups e r q dfl oc Hres Harg Hmap fid result.
  subst result. unfold apply_entry. rewrite Hres. cbv zeta.
  cbn [andb]. rewrite <- negb_orb, Harg, Hmap. cbn [negb andb]. rewrite orb_false_r.
  destruct (opt_set orc delim ht oc (Some (ie_value e)) r) as [[r1 [er|]]|er|w]; cbn [bind]; try reflexivity.
  eexists. split; [reflexivity|]. fold fid.
  repeat split.
  - intros k Hk. cbn [set_fl rt_fl]. unfold upd.
    destruct (Nat.eqb_spec k fid) as [E|_]; [contradiction|reflexivity].
  - cbn [set_fl rt_fl]. unfold upd. rewrite !Nat.eqb_refl. reflexivity.
Qed.

(* ================================================================== non-vacuity examples *)
Module Examples.
  Definition mk_opt (fid : nat) (field : string) (short : N) (long ininame : string) (ty : vtype) (noini : bool) : opt :=
    {| o_fid := fid; o_field := s2l field; o_short := short; o_long := s2l long; o_desc := [];
       o_default := []; o_envkey := []; o_envdelim := []; o_optional := false; o_optval := [];
       o_required := false; o_valname := []; o_mask := []; o_choices := []; o_hidden := false;
       o_ininame := s2l ininame; o_noini := noini; o_unquote := true; o_base := [];
       o_ty := ty; o_is_help := false |}.

  (* options like  Port int `short:"p" long:"port" ini-name:"listen-port"`  and
     Verbose bool `short:"v" long:"verbose"` *)
  Definition o_port := mk_opt 0 "Port" 112 "port" "listen-port" (TScalar (KInt I0)) false.
  Definition o_verbose := mk_opt 1 "Verbose" 118 "verbose" "" (TScalar KBool) false.
  (* an option whose field name is another option's ini-name (lower-cased) *)
  Definition o_clash := mk_opt 2 "listen-port" 0 "other" "" (TScalar KString) false.

  Definition gi : ginfo :=
    {| g_short := s2l "Application Options"; g_long := []; g_ns := []; g_envns := [];
       g_hidden := false; g_builtin_help := false |}.
  Definition root : command :=
    Command {| c_name := s2l "app"; c_aliases := []; c_sub_optional := false; c_args_required := false;
               c_hidden := false; c_exec := ExNone; c_usage := None; c_has_help := false |}
            (Group gi [o_clash; o_port; o_verbose] []) [] [].
  Definition orc0 : oracles := {| or_float := []; or_dur := []; or_durfmt := [] |}.
  Definition rt0 : rt :=
    {| rt_vals := fun k => match k with 1%nat => VBool false | 2%nat => VStr [] | _ => VInt 0 end;
       rt_fl := fun _ => oflags0; rt_active := []; rt_logs := logs0 |}.
  Definition ht0 (_ : rt) : str := [].
  Definition dot : str := [46].
  Definition groups := matching_groups root [].
  Definition ocs := flat_map gref_octxs groups.
  Definition ent (k v : string) (line : N) : ini_entry :=
    {| ie_name := s2l k; ie_value := s2l v; ie_quoted := false; ie_line := line |}.

  (* 6: hypothesis satisfiable *)
  Example unknown_section_hyp : matching_groups root (s2l "No Such Group") = [] /\ groups <> [].
  Proof. vm_compute. split; [reflexivity|discriminate]. Qed.

  (* 7: hypothesis satisfiable *)
  Example unknown_option_hyp : resolve_entry dot groups (ie_name (ent "nosuch" "1" 7)) = None.
  Proof. vm_compute. reflexivity. Qed.

  (* 8: the ini-name (case-insensitively) beats an EARLIER option matching by field name;
     field name, long name and short name resolve too *)
  Example priority_ex :
    option_map (fun oc => o_fid (oc_opt oc)) (option_by_name dot ocs (s2l "Listen-Port")) = Some 0%nat /\
    option_map (fun oc => o_fid (oc_opt oc)) (option_by_name dot ocs (s2l "listen-port")) = Some 0%nat /\
    option_map (fun oc => o_fid (oc_opt oc)) (option_by_name dot ocs (s2l "Verbose")) = Some 1%nat /\
    option_map (fun oc => o_fid (oc_opt oc)) (option_by_name dot ocs (s2l "other")) = Some 2%nat /\
    option_map (fun oc => o_fid (oc_opt oc)) (option_by_name dot ocs (s2l "v")) = Some 1%nat /\
    option_by_name dot ocs (s2l "VERBOSE") = None.
  Proof. vm_compute. repeat split. Qed.

  (* 9: hypotheses satisfiable, both outcomes of opt_set occur *)
  Definition oc_port : octx :=
    {| oc_opt := o_port; oc_ns := [[]]; oc_envns := [[]]; oc_ghidden := false;
       oc_gshort := s2l "Application Options"; oc_builtin := false |}.

  Example same_set_path_hyp :
    resolve_entry dot groups (ie_name (ent "listen-port" "8080" 3)) = Some oc_port /\
    can_argument (oc_opt oc_port) || nonempty (ie_value (ent "listen-port" "8080" 3)) = true /\
    is_map (o_ty (oc_opt oc_port)) = false /\
    (match opt_set orc0 dot ht0 oc_port (Some (s2l "8080")) rt0 with
     | Ok (r1, None) => rt_vals r1 0%nat = VInt 8080
     | _ => False end) /\
    (match opt_set orc0 dot ht0 oc_port (Some (s2l "80x")) rt0 with
     | Ok (_, Some er) => er = EForeign (s2l "strconv.ParseInt: parsing ""80x"": invalid syntax")
     | _ => False end).
  Proof. vm_compute. repeat split. Qed.

  Example same_set_path_run :
    match apply_entry orc0 dot ht0 false false groups (ent "listen-port" "8080" 3) rt0 [] [] with
    | Ok (r2, q, dfl, None) =>
      rt_vals r2 0%nat = VInt 8080 /\ f_prevent (rt_fl r2 0%nat) = true /\
      f_ininame (rt_fl r2 0%nat) = s2l "listen-port" /\ f_isset (rt_fl r2 0%nat) = true /\
      q = [(0%nat, false)] /\ dfl = []
    | _ => False
    end /\
    match apply_entry orc0 dot ht0 false false groups (ent "listen-port" "80x" 3) rt0 [] [] with
    | Ok (_, q, dfl, Some (EIni 3 m)) =>
      m = s2l "strconv.ParseInt: parsing ""80x"": invalid syntax" /\ q = [] /\ dfl = []
    | _ => False
    end.
  Proof. vm_compute. repeat split. Qed.
End Examples.

(* ================================================================== assumptions *)
Print Assumptions read_full_line_concat.
Print Assumptions C14_first_bad_line.
Print Assumptions C14_first_bad_line_read_ini.
Print Assumptions C14_entry_line_numbers.
Print Assumptions C14_entry_line_numbers_conv.
Print Assumptions C14_noise_invariance.
Print Assumptions C14_noise_invariance_multi.
Print Assumptions C14_crlf.
Print Assumptions C14_crlf_read_ini.
Print Assumptions C14_unknown_section.
Print Assumptions C14_unknown_option.
Print Assumptions C14_unknown_option_entries.
Print Assumptions C13_priority.
Print Assumptions C13_same_set_path.
